/-
C11 — SyncList is a linearizable unbounded FIFO queue with a sane length.
ONLY property theorems and non-vacuity examples live here; helper lemmas are in
`Golib/Proof/C11*.lean`, the model in `Golib/Model/C11List.lean`.

Every theorem quantifies over EVERY schedule `σ : List Nat` (list of thread ids; a thread
id that does not exist or a finished thread is a no-op step), every number of threads,
every program assignment `progs` (calls `Push v`, `Pop`, `Len`, `PopWait d` for `d < 0`
— `Pop` in a `Gosched` loop — and `d = 0` — one `Pop`; positive durations are ticker-driven
and NOT modelled) and every initial content `vals`.  The machine is the
repaired statement order (`Order.addThenStore`, F7); the pre-repair order is refuted in
`Golib/Findings/C11.lean`.
-/
import Golib.Proof.C11Facts
import Golib.Proof.C11Inv
import Golib.Proof.C11Lin
import Golib.Proof.C11Hist
import Golib.Proof.C11Prog
import Golib.Proof.C11Classic
import Golib.Proof.C11Init
import Golib.Proof.C11Plain
import Golib.Proof.C11Driver
import Golib.Proof.C11Len2
import Golib.Findings.C11TwoCounter

namespace Golib.C11

/-- The model's access order is the source order (regenerated facts, see Proof/C11Facts). -/
theorem c11_source_order :
    soloSrc .addThenStore (init [] [[.push 5]]) 5 = Gen.C11.pushOps.takeWhile (· ≠ .gosched) ∧
    soloSrc .addThenStore (init [9] [[.pop]]) 7 = Gen.C11.popOps ∧
    soloSrc .addThenStore (init [9] [[.len]]) 1 = Gen.C11.lenOps ∧
    (Gen.C11.pushCtl = [.loop, .cond "if", .ret] ∧
      Gen.C11.popCtl = [.cond "if", .ret, .cond "if", .ret, .ret] ∧ Gen.C11.lenCtl = [.ret]) ∧
    Gen.C11.popWaitOps =
      [.cond "d < 0", .loop, .callPop, .ret, .gosched, .callPop, .ret, .cond "d == 0", .ret,
       .ticker, .loop, .other "recv ticker.C", .callPop, .ret, .cond "now.Sub(begin) >= d", .ret] ∧
    soloSrc .addThenStore (init [] [[.popWait true]]) 6 =
      Gen.C11.popOps.take 2 ++ [.gosched] ++ Gen.C11.popOps.take 2 ++ [.gosched] :=
  ⟨facts_push_success_path, facts_pop_success_path, facts_len, facts_ctl, facts_popwait_shape,
    facts_popwait_model.1⟩

/-- `c11_inv`: in every reachable state `head ≤ tail < |chain| ≤ tail + 2` (the tail lags
behind the last linked node by at most one push in progress, the head never passes the
tail), at most one pusher is between its link CAS and its publication, no thread ever
dereferenced nil, and every thread's stale locals are lower bounds (`Inv.locals`). -/
theorem c11_inv (vals : List Int) (progs : List (List Call)) (σ : List Nat) :
    let s := (run .addThenStore (init vals progs) σ).1
    Inv s ∧ s.head ≤ s.tail ∧ s.tail < s.chain.length ∧ s.chain.length ≤ s.tail + 2 ∧
      s.crashed = false := by
  have hI := inv_run (inv_init vals progs) σ
  have h1 := hI.chain_len
  have h2 := hI.one_publisher
  exact ⟨hI, hI.head_le_tail, by omega, by omega, hI.not_crashed⟩

/-- `c11_len`: in every reachable state `Len()` is never negative and never less than
the number of values that can be popped now; when no call is in flight it equals the
number of stored values. -/
theorem c11_len (vals : List Int) (progs : List (List Call)) (σ : List Nat) :
    let s := (run .addThenStore (init vals progs) σ).1
    0 ≤ s.len ∧ ((stored s).length : Int) ≤ s.len ∧
      ((∀ th ∈ s.threads, th.pc = .idle) → s.len = (stored s).length) := by
  have hI := inv_run (inv_init vals progs) σ
  have hl := stored_length hI
  have h1 := hI.len_eq
  have h2 := hI.head_le_tail
  refine ⟨by omega, by omega, ?_⟩
  intro hq
  have e1 := cnt_eq_zero_of_all_idle (p := isPushStore) rfl hq
  have e2 := cnt_eq_zero_of_all_idle (p := isPopPost) rfl hq
  omega

/-- `c11_linearizable`.  The run is instrumented with a ghost FIFO queue `q` that is
updated ONLY at the linearization points — `q ++ [v]` at the publication step of `Push(v)`
(`StorePointer(&l.tail, node)`, which is also the step at which `Push` returns) and `q.tail`
at the successful `CAS(&l.head, …)` of a `Pop` — (clause 1: `gstep_q`), so the sequence of
linearization points is a legal sequential FIFO history by construction and every
linearization point is a step of the operation itself (hence inside its interval:
real-time order).  After EVERY schedule:
 2. the abstract queue is exactly what the list stores: the values a sequence of `Pop`s
    would return now (`stored`), in order — no loss, no duplication, no invention;
 3. a successful head-CAS always finds the abstract queue non-empty and removes the
    value the popped node was created with;
 4. a `Pop` that is about to return `(v, true)` returns exactly the value it removed from
    the abstract queue at its linearization point (`pend`), i.e. exactly-once delivery. -/
theorem c11_linearizable (vals : List Int) (progs : List (List Call)) (σ : List Nat) :
    let sg := lrun (init vals progs) (ginit vals progs) σ
    let s := sg.1
    let g := sg.2
    (∀ i, (gstep s g i).q = g.q ∨
      (∃ th v n, s.threads[i]? = some th ∧ th.pc = .pushStore v n ∧ (gstep s g i).q = g.q ++ [v]) ∨
      (∃ th h n, s.threads[i]? = some th ∧ th.pc = .popCAS h (some n) ∧ s.head = h ∧
        (gstep s g i).q = g.q.tail)) ∧
    s = (run .addThenStore (init vals progs) σ).1 ∧ stored s = g.q ∧
    (∀ (i : Nat) (th : Thread) (h : Nat) (n : Option Nat), s.threads[i]? = some th → th.pc = .popCAS h n → s.head = h →
      ∃ x rest, g.q = x :: rest ∧ g.orig[h + 1]? = some x) ∧
    (∀ (i : Nat) (th : Thread) (v : Int), s.threads[i]? = some th → th.pc = .popAdd v →
      g.pend[i]? = some (some v)) := by
  have hG := ginv_lrun (ginv_init vals progs) σ
  exact ⟨fun i => gstep_q _ _ i, lrun_fst _ _ σ, stored_eq_q hG,
    fun i th h n hth hpc hc => (lin_pop_facts hG hth).1 h n hpc hc,
    fun i th v hth hpc => (lin_pop_facts hG hth).2 v hpc⟩

/-- `c11_false_justified`: a `Pop` that is about to return false because it observed
`head == tail` does so at an instant at which the list is empty (nothing can be popped);
a `Pop` whose head-CAS fails has been overtaken: the head moved since this call loaded it
(`h < s.head`; the local `h` is the head at the call's `popLoadHead` step).  The head index
equals the number of `pop` linearization events emitted so far (clause 1), so between the
load and the failing CAS at least one `Pop` linearized; by `c11_history` a call that
returns false has no linearization event of its own, hence it was a `Pop` of ANOTHER thread
overlapping this call. -/
theorem c11_false_justified (vals : List Int) (progs : List (List Call)) (σ : List Nat)
    (i : Nat) (th : Thread) :
    let s := (run .addThenStore (init vals progs) σ).1
    s.head = (poppedVals (lins (init vals progs) σ)).length ∧
    (s.threads[i]? = some th →
      (∀ h, th.pc = .popLoadTail h → h = s.tail → stored s = []) ∧
      (∀ h n, th.pc = .popCAS h n → s.head ≠ h → h < s.head)) := by
  intro s
  refine ⟨?_, ?_⟩
  · have h0 : (init vals progs).head = 0 := rfl
    have := head_counts_pops (inv_init vals progs) σ
    rw [h0, Nat.zero_add] at this
    exact this
  intro hth
  have hG := ginv_lrun (ginv_init vals progs) σ
  rw [lrun_fst] at hG
  exact ⟨fun h hpc he => ((false_pop_facts hG hth).1 h hpc he).2, (false_pop_facts hG hth).2⟩

/-- `c11_race_free`, at the granularity of the code's plain accesses.  After its successful
head CAS `Pop` performs TWO plain accesses to the node that became the head, and the model has
them as two separate steps with their own program counters: `popRead n` (`value := node.value`)
and `popClear n v` (`node.value = zero`), so every interleaving between and around them is a
run of the model.  In every reachable state:
 1. no two different threads are both at a plain access (read or write, any combination) of
    the same node — in particular while a popper is BETWEEN its read and its write
    (`popClear n _`) no other thread is at `popRead n` or `popClear n _`;
 2. a node at which a thread has a plain access pending is linked (`n < |chain|`: the
    creating goroutine's initialising write happened before the link CAS that published it)
    and has already been removed from the queue (`n ≤ head`): no `Push` touches it, and a later
    head CAS moves `head` to `head + 1 > n`, so no later `Pop` gets it either.
(The Go harness cannot park a goroutine at a plain access, so the tie does not interleave
there; this theorem and the race-detector run cover it.) -/
theorem c11_race_free (vals : List Int) (progs : List (List Call)) (σ : List Nat)
    (i j : Nat) (a b : Thread) (n : Nat) :
    let s := (run .addThenStore (init vals progs) σ).1
    (i ≠ j → s.threads[i]? = some a → s.threads[j]? = some b →
      ¬ (plainNode a.pc = some n ∧ plainNode b.pc = some n)) ∧
    (s.threads[i]? = some a → plainNode a.pc = some n → n ≤ s.head ∧ n < s.chain.length) := by
  intro s
  have hG0 := ginv_lrun (ginv_init vals progs) σ
  rw [lrun_fst] at hG0
  have hG : GInv s (lrun (init vals progs) (ginit vals progs) σ).2 := hG0
  refine ⟨fun hij hi hj ⟨ha, hb⟩ => no_conflict hG hij hi hj ha hb, fun hi ha => ?_⟩
  have hloc := hG.inv.locals a (List.mem_of_getElem? hi)
  have h1 := hG.inv.chain_len
  have h2 := hG.inv.head_le_tail
  cases hpc : a.pc <;> rw [hpc] at ha hloc <;> simp only [plainNode, reduceCtorEq, Option.some.injEq] at ha <;>
    simp only [PcOk] at hloc <;> omega

/-- `c11_race_free_run`: over a whole run, ALL plain accesses (`rdVal n`, `wrVal n` events:
`value := node.value`, `node.value = zero`) to the value of one node are made by ONE thread —
the popper whose head CAS made that node the head.  So after a node is published no two
threads ever access its `value` plainly, at any distance in time (nothing relies on an
ordering between a clear and a later read by someone else); the creating goroutine's
initialising write precedes the publication (link CAS).  With `c11_race_free` this is
data-race freedom at the granularity of the code's plain accesses. -/
theorem c11_race_free_run (vals : List Int) (progs : List (List Call)) (σ : List Nat)
    (e1 e2 : Event) (n : Nat) :
    e1 ∈ (run .addThenStore (init vals progs) σ).2 → e2 ∈ (run .addThenStore (init vals progs) σ).2 →
    e1.acc.touches = some n → e2.acc.touches = some n → e1.tid = e2.tid :=
  plain_exclusive vals progs σ e1 e2 n

/-- `c11_lin_fifo`: the EMITTED sequence of linearization events `L` (read off the
implementation state only: `push i v` at the tail publication of `Push(v)`, `pop i x` at a
successful head CAS with `x` the value in the node that becomes the head) of every run
 1. is a legal run of the sequential FIFO queue from the initial content, ending in exactly
    what the list stores (`replay`: a pop event is legal only if it removes the OLDEST
    element and carries its value);
 2. conservation: initial content ++ pushed values (push-lin order) = popped values (pop-lin
    order) ++ stored values — every pushed value is popped at most once, pops come out in
    push-lin order, what is not popped remains, nothing is invented;
 3. at every point of the run the values popped so far are a prefix of the initial content
    followed by the values whose push has linearized SO FAR — a value is popped only
    after its push linearized. -/
theorem c11_lin_fifo (vals : List Int) (progs : List (List Call)) (σ : List Nat) :
    let L := lins (init vals progs) σ
    let s := (run .addThenStore (init vals progs) σ).1
    replay vals L = some (stored s) ∧
    vals ++ pushedVals L = poppedVals L ++ stored s ∧
    ∀ k, poppedVals (L.take k) <+: vals ++ pushedVals (L.take k) := by
  have h := replay_lins vals progs σ
  exact ⟨h, replay_conservation h, replay_popped_prefix h⟩

/-- `c11_history`: per thread `j`, the lin / return events of every run are accepted by the
protocol automaton of the thread's program `pr` (`accepts`, `autoOwn`): calls return in
program order; a `Push(v)` has exactly one lin event, `push v`, after the thread's previous
return and not after its own return; a `Pop`/`PopWait` returning `(x, true)` has exactly one
lin event and it carries the SAME `x`; a call returning `(_, false)` (only `Pop` and
`PopWait(0)` can) has none; `Len` has none.  Every lin event of thread `j` is a step thread
`j` takes inside the call, i.e. between invocation and response: together with
`c11_lin_fifo` this is linearizability with real-time order.  What the automaton has left
to do is what the thread has left to do. -/
theorem c11_history (vals : List Int) (progs : List (List Call)) (σ : List Nat) (j : Nat)
    (pr : List Call) (hj : progs[j]? = some pr) :
    ∃ st' th', (run .addThenStore (init vals progs) σ).1.threads[j]? = some th' ∧
      accepts j (pr, .idle) (trace (init vals progs) σ) = some st' ∧
      st'.1 = th'.cur.toList ++ th'.prog ∧ (isPopPost th'.pc = false → st'.2 = .idle) :=
  accepts_trace vals progs σ j pr hj

/-- `c11_popwait_timed` (conservation per caller; covers `PopWait(d)` with `d > 0`, modelled as
`Call.popWaitT ticks`: one `Pop`, then one `Pop` per tick — WHEN a tick fires is the
scheduler's choice, ON WHICH tick the deadline is observed is the input `ticks` — returning
the first successful `Pop`'s value, or false after the `Pop` of the expiry tick failed; and
equally `Pop`, `PopWait(0)`, `PopWait(d<0)`).  In every run, for every thread `j`: the values
its linearization events REMOVED from the list, in order, are exactly the values its calls
RETURNED with `true`, in order, followed by the value held by its call in flight if that call
is past its linearization point (`popRead`/`popClear`/`popAdd`) — and by nothing otherwise.
So a `PopWait` (or `Pop`) that returns false has consumed no value: by `c11_lin_fifo` every
value that leaves the list does so at a pop linearization event, and each of those is
delivered to a caller as `(x, true)`.
ORDER (last clause): `segs j [] trace` lists thread `j`'s completed calls, each with ALL the
linearization events (pushes and pops) the thread emitted between its previous return and
this return.  A call that returned `(_, false)` — in particular a timed `PopWait` that
expired — emitted NONE: it performed no successful head CAS and no tail publication, so it
leaves the abstract queue (the `replay` of the lin sequence, `c11_lin_fifo`) exactly as it
is, content AND order; a call returning `(x, true)` performed exactly the one removal of
`x`; a `Push(v)` exactly the one append of `v`; `Len` nothing.  (In the model `PopWait` has no
other access to the list than its `Pop`s; the go/ast skeleton obligation in
`c11_source_order` records every method `PopWait` calls on the list.) -/
theorem c11_popwait_timed (vals : List Int) (progs : List (List Call)) (σ : List Nat) (j : Nat)
    (pr : List Call) (hj : progs[j]? = some pr) :
    ∃ held th', (run .addThenStore (init vals progs) σ).1.threads[j]? = some th' ∧
      (trace (init vals progs) σ).filterMap (TEv.linPop? j) =
        (trace (init vals progs) σ).filterMap (TEv.retTrue? j) ++ held ∧
      held.length ≤ 1 ∧ (isPopPost th'.pc = false → held = []) ∧
      ∀ sg ∈ segs j [] (trace (init vals progs) σ), SegOk j sg := by
  obtain ⟨st', th', h1, h2, _, h4⟩ := accepts_trace vals progs σ j pr hj
  have hc := accepts_conservation h2
  have hs := segs_ok h2
  refine ⟨st'.2.vals, th', h1, by simpa [Phase.vals] using hc, ?_, fun h => by rw [h4 h]; rfl, hs⟩
  cases st'.2 <;> simp [Phase.vals]

/-- `c11_len_abstract`: the `Len()` clause against the ABSTRACT queue at every step.  After
every schedule `σ` (so: after every single step of every run, including every step taken while
a `PopWait(d>0)` is waiting for or handling a tick) the abstract FIFO queue `q` obtained by
replaying the linearization events emitted so far satisfies `|q| ≤ len` and `0 ≤ len`, `q` is
exactly what a sequence of `Pop`s would return now, and a `Len()` call returning at the next
step returns `n ≥ |q|`. -/
theorem c11_len_abstract (vals : List Int) (progs : List (List Call)) (σ : List Nat) :
    let s := (run .addThenStore (init vals progs) σ).1
    ∃ q, replay vals (lins (init vals progs) σ) = some q ∧ q = stored s ∧
      0 ≤ s.len ∧ (q.length : Int) ≤ s.len ∧
      ∀ i n, (step .addThenStore s i).2.ret = some (.len n) → (q.length : Int) ≤ n := by
  intro s
  have hI : Inv s := inv_run (inv_init vals progs) σ
  have hl := stored_length hI
  have h1 := hI.len_eq
  have h2 := hI.head_le_tail
  refine ⟨stored s, replay_lins vals progs σ, rfl, by omega, by omega, fun i n hr => ?_⟩
  have := (ret_len (g := ginit vals progs) hr).1
  omega

/-- `c11_len_call_interval`: the Len clause for `Len()` CALLS that overlap other operations,
in the form the Go oracle applies to recorded histories (`checkLenCalls`).  Take any run, any
window `σ₂` of it (starting in the state reached by `σ₁`) at whose end thread `i` returns `n`
from `Len()` — in particular the window that starts when thread `i` arrives in front of the
call's only access, however long it is parked there while other threads complete whole
`Push`/`Pop` calls.  Then `n` is allowed by `LenCallOK` for the poppable counts at the instants
of the window (`0 ≤ n`, and `n ≥` the number of values that can be popped at SOME instant of the
call, i.e. `n` is not below the minimum over the call), BECAUSE `Len()` is one atomic load:
`n` is the counter at the window's last instant, where `poppable ≤ len`.  (`poppable` =
`tail - head` of the published pointers = `|stored|`, last clause.)  A `Len()` composed of
SEVERAL loads has no such instant: see `c11_len_two_counter`. -/
theorem c11_len_call_interval (vals : List Int) (progs : List (List Call)) (σ₁ σ₂ : List Nat)
    (i : Nat) (n : Int) :
    let s₁ := (run .addThenStore (init vals progs) σ₁).1
    let s₂ := (run .addThenStore s₁ σ₂).1
    (step .addThenStore s₂ i).2.ret = some (.len n) →
      LenCallOK (poppableAlong s₁ (σ₂ ++ [i])) n ∧ n = s₂.len ∧ (poppable s₂ : Int) ≤ n ∧
        poppable s₂ = (stored s₂).length := by
  intro s₁ s₂ hr
  have hI : Inv s₂ := inv_run (inv_run (inv_init vals progs) σ₁) σ₂
  obtain ⟨h1, h2⟩ := len_call_interval (inv_init vals progs) σ₁ σ₂ i n hr
  have hp := poppable_le_len hI
  exact ⟨h1, h2, by rw [h2]; exact hp.1, (stored_length hI).symm⟩

/-- Non-vacuity of `c11_len_call_interval`: thread 0 is parked in front of its `Len()` while
thread 1 completes a `Push` and a `Pop` on a pre-filled list (12 steps), then loads: `len 1`;
the poppable count was 1 or 2 throughout. -/
example :
    let s₁ := init [4] [[.len], [.push 7, .pop]]
    let s₂ := (run .addThenStore s₁ (List.replicate 12 1)).1
    (step .addThenStore s₂ 0).2.ret = some (.len 1) ∧
    poppableAlong s₁ (List.replicate 12 1 ++ [0]) = [1, 1, 1, 1, 1, 2, 2, 2, 2, 1, 1, 1, 1, 1] := by
  decide

/-- `c11_len_two_counter`: the class "`Len()` composed of several atomic loads whose order
matters" (seeded change C11-K), on the design variant of `Golib/Model/C11Len2.lean`: the real
`Push`/`Pop`/`PopWait` with two monotonic counters `pushed`/`popped` updated where the code
updates `len`, and `Len()` = TWO loads with a preemption point between them, returning
`int(pushed - popped)`.
 1. For every schedule the variant's `Push`/`Pop` part IS the real machine (`Inv`, so all
    structural theorems apply) and the real counter is `pushed - popped`.
 2. `popped` loaded FIRST: the Len clause for calls (`LenCallSpec2`: thread `i` in front of the
    first load, still in the call during the window, returning `n` ⇒ `LenCallOK` for the
    poppable counts of the call's instants) holds on EVERY schedule — the result is
    `pushed(t₂) - popped(t₁) ≥ len(t₂) ≥ poppable(t₂)` since `popped` only grows.
 3. `pushed` loaded FIRST (what C11-K does): the clause is FALSE — explicit schedule in
    `Golib/Findings/C11TwoCounter.lean`: on a list holding one value, a complete `Push`+`Pop`
    pair between the two loads makes `Len()` return 0 while 1 or 2 values can be popped at every
    instant of the call; on an empty list it returns -1.
 4. Either order is exact when no other operation is in flight (the order only matters under
    concurrency — which is why no sequential test and no sample taken between steps sees it). -/
theorem c11_len_two_counter :
    (∀ (lo : LenOrder) (vals : List Int) (progs : List (List Call)) (σ : List Nat),
      let L := (run2 lo (init2 vals progs) σ).1
      Inv L.s ∧ L.s.len = (L.pushed : Int) - L.popped ∧ (poppable L.s : Int) ≤ L.s.len) ∧
    LenCallSpec2 .poppedFirst ∧
    ¬ LenCallSpec2 .pushedFirst ∧
    (∀ (lo : LenOrder) (vals : List Int) (progs : List (List Call)) (σ : List Nat) (i : Nat),
      let L := (run2 lo (init2 vals progs) σ).1
      atLen L.s i = true → L.loc[i]? = some none →
      (∀ j b, j ≠ i → L.s.threads[j]? = some b → b.pc = .idle) →
      (run2 lo L [i, i]).2.map (·.ret) = [none, some (.len (poppable L.s))]) := by
  refine ⟨fun lo vals progs σ => ?_, lenCallSpec2_poppedFirst, Findings.k_refutes_pushed_first,
    fun lo vals progs σ i => ?_⟩
  · have h := inv2_run (inv2_init lo vals progs) σ
    exact ⟨h.inv, h.diff, (poppable_le_len h.inv).1⟩
  · intro L hat hloc hidle
    exact len2_quiescent (inv2_run (inv2_init lo vals progs) σ) hat hloc hidle

/-- Non-vacuity of `c11_len_two_counter`: the witness window satisfies the hypotheses of
`LenCallSpec2` in both orders (thread 0 in front of the first load of `Len()`, no return of
thread 0 during the window); `pushed` first returns 0 (not allowed: poppable counts 1, 2),
`popped` first returns 2 (allowed); and a quiescent `Len()` on a list of two values. -/
example :
    let L₀ := init2 [4] Findings.kProgs
    atLen L₀.s 0 = true ∧ L₀.loc[0]? = some none ∧
    ((run2 .pushedFirst L₀ Findings.kWindow).2.filter fun e => e.tid == 0 && e.ret.isSome) = [] ∧
    (step2 .pushedFirst (run2 .pushedFirst L₀ Findings.kWindow).1 0).2.ret = some (.len 0) ∧
    (step2 .poppedFirst (run2 .poppedFirst L₀ Findings.kWindow).1 0).2.ret = some (.len 2) ∧
    ¬ LenCallOK (poppableAlong2 .pushedFirst L₀ (Findings.kWindow ++ [0])) 0 ∧
    LenCallOK (poppableAlong2 .poppedFirst L₀ (Findings.kWindow ++ [0])) 2 ∧
    (run2 .pushedFirst (init2 [4, 5] [[.len]]) [0, 0]).2.map (·.ret) = [none, some (.len 2)] := by
  decide

/-- `c11_linearizable_classical`: linearizability as it is usually defined.  For every finite
run let `H = chist (trace …)` be its history (linearization markers and responses; invocation
of a call = the thread's previous response, its marker is one of the thread's OWN steps inside
the call) and `S = linearization …` the operations in the order of their markers — a total
order containing every completed operation and the pending `Pop`s that are past their CAS.
 1. `S` is the marker sequence of `H`;
 2. `S` is a legal history of the sequential FIFO specification (`SOp.apply`) WITH the
    observed results, from the initial content to the stored content: `push v` appends, a
    `Pop`/`PopWait` returning `(x, true)` removes the OLDEST element and it is `x`, a false
    return leaves the queue unchanged (the property allows false when overlapped; each one is
    justified by `c11_false_justified`), `Len` returning `n` sees `|q| ≤ n`;
 3. at EVERY prefix `T₁` of the trace and for every thread `j`: each operation of `j`
    completed so far has EXACTLY ONE marker, carrying the result it returned, placed after
    `j`'s previous response and not after its own response.
 Real-time precedence: if `A` responds before `B` is invoked then, by 3,
 mark(A) ≤ resp(A) < inv(B) ≤ mark(B), so `A` precedes `B` in `S`. -/
theorem c11_linearizable_classical (vals : List Int) (progs : List (List Call)) (σ : List Nat) :
    let T := trace (init vals progs) σ
    let S := linearization (init vals progs) σ
    (chist T).filterMap CEv.mark? = S ∧
    seqReplay vals S = some (stored (run .addThenStore (init vals progs) σ).1) ∧
    ∀ (j : Nat) (pr : List Call), progs[j]? = some pr → ∀ T₁ T₂, T = T₁ ++ T₂ →
      ∀ sg ∈ csegs j [] (chist T₁), CSegOk j sg := by
  intro T S
  refine ⟨chist_marks T, seqReplay_linearization vals progs σ, ?_⟩
  intro j pr hj T₁ T₂ hT
  obtain ⟨st', _, _, h2, _⟩ := accepts_trace vals progs σ j pr hj
  have h2' : accepts j (pr, .idle) (T₁ ++ T₂) = some st' := by rw [← hT]; exact h2
  obtain ⟨st1, h3⟩ := accepts_prefix h2'
  exact csegs_ok h3 rfl

/-- `c11_initial_content`: the initial content of the quantifier is reachable — `init vals
(pr0 :: rest)` IS the state the machine reaches from the EMPTY list when thread 0 first
pushes `vals` sequentially (five steps per `Push`, nobody else running) and then continues
with `pr0`.  Hence every theorem above, stated for `init vals progs`, is a statement about
runs from the empty list whose prefix is that sequential fill. -/
theorem c11_initial_content (vals : List Int) (pr0 : List Call) (rest : List (List Call))
    (σ : List Nat) :
    (run .addThenStore (init [] ((vals.map Call.push ++ pr0) :: rest))
        (List.replicate (5 * vals.length) 0)).1 = init vals (pr0 :: rest) ∧
    (run .addThenStore (init [] ((vals.map Call.push ++ pr0) :: rest))
        (List.replicate (5 * vals.length) 0 ++ σ)).1 = (run .addThenStore (init vals (pr0 :: rest)) σ).1 := by
  have h : (run .addThenStore (init [] ((vals.map Call.push ++ pr0) :: rest))
      (List.replicate (5 * vals.length) 0)).1 = init vals (pr0 :: rest) := by
    rw [seqState_init, seqState_run]; simp [seqState_done]
  exact ⟨h, by rw [run_append_fst, h]⟩

/-- `c11_driver_runs_model`: the tie is a run of THIS model.  One `step <tid>` line of a
protocol case (the driver's `macroStep`: the atomic access, then the plain accesses and the
tick receive at which the Go shims cannot park a goroutine) is between one and five
consecutive model steps of that thread; the call token `t<k>` of a case is parsed to
`Call.popWaitT k` (`PopWait(d>0)` whose deadline is observed on its `k`-th tick — in the Go
harness the scheduler's time shim gives the thread exactly that tick budget).  Hence every
state compared with the real code on the scheduler-driven cases, including the timed
`PopWait` ones, is `(run … (init vals progs) σ).1` for a schedule `σ`, and `c11_popwait_timed`,
`c11_history`, `c11_lin_fifo`, `c11_len_abstract`, … apply to exactly those traces. -/
theorem c11_driver_runs_model (s : State) (i : Nat) :
    ∃ m, 1 ≤ m ∧ m ≤ 5 ∧
      (macroStep .addThenStore s i).1 = (run .addThenStore s (List.replicate m i)).1 :=
  macroStep_is_run .addThenStore s i

/-- Non-vacuity: the `step 0` line on which a timed `PopWait` (deadline on its first tick) finds
the list empty — the driver performs the failing tail load AND the tick receive (two model
steps), leaving the thread in front of the Pop of its deadline tick with no ticks left. -/
example :
    let s := (run .addThenStore (init [] [[.popWaitT 1], [.push 7]]) [0]).1
    (macroStep .addThenStore s 0).2.acc = .ldTail 0 ∧ (macroStep .addThenStore s 0).2.ret = none ∧
    (macroStep .addThenStore s 0).1 = (run .addThenStore s [0, 0]).1 ∧
    (macroStep .addThenStore s 0).1.threads.map (fun th => (th.pc, th.ticks)) =
      [(.popLoadHead, 0), (.pushLoadTail 7, 0)] := by
  decide

/-- `c11_push_completes_solo`: in every reachable state in which all other threads are
idle, a `Push` at its loop head returns after exactly five of its own steps. -/
theorem c11_push_completes_solo (vals : List Int) (progs : List (List Call)) (σ : List Nat)
    (i : Nat) (th : Thread) (v : Int) :
    let s := (run .addThenStore (init vals progs) σ).1
    s.threads[i]? = some th → th.pc = .pushLoadTail v →
      (∀ j b, j ≠ i → s.threads[j]? = some b → b.pc = .idle) →
      (run .addThenStore s [i, i, i, i, i]).2.map (·.ret) = [none, none, none, none, some .push] := by
  intro s hth hpc hidle
  exact push_completes_solo (inv_run (inv_init vals progs) σ) hth hpc hidle

/-- `c11_push_completes` (fair scheduling of the publishing pusher).  In every reachable
state `s`:
 1. (the bound) a pusher `j` that has linked its node but not yet published the tail
    (`pushAdd`/`pushStore`; there is at most one: `c11_inv`) returns after `remPub ≤ 2` of its
    OWN steps, in every continuation `σ'` whatever the other threads do;
 2. for a thread `i` anywhere inside `Push` and every continuation `σ₁ ++ σ₂` such that
    every other publishing thread takes its `remPub ≤ 2` remaining steps during `σ₁`
    (fairness: "the publishing pusher takes k more steps") and thread `i` takes 7 steps during
    `σ₂` — the other threads being interleaved arbitrarily — thread `i`'s `Push` returns, or
    a DIFFERENT thread linked a node (won a link CAS) during `σ₁ ++ σ₂`.
 So a pusher is kept spinning only by a publisher that is not scheduled or by other pushes
 getting in first; `c11_push_completes_rounds` turns this into a bound. -/
theorem c11_push_completes (vals : List Int) (progs : List (List Call)) (σ : List Nat) :
    let s := (run .addThenStore (init vals progs) σ).1
    (∀ j b σ', s.threads[j]? = some b → isPushPost b.pc = true → remPub b.pc ≤ σ'.count j →
      remPub b.pc ≤ 2 ∧ Returned j (run .addThenStore s σ').2) ∧
    (∀ i th σ₁ σ₂, s.threads[i]? = some th → inPush th.pc = true →
      (∀ j b, j ≠ i → s.threads[j]? = some b → remPub b.pc ≤ σ₁.count j) → 7 ≤ σ₂.count i →
      Returned i (run .addThenStore s (σ₁ ++ σ₂)).2 ∨
        OtherLinked i (run .addThenStore s (σ₁ ++ σ₂)).2) := by
  intro s
  have hI := inv_run (inv_init vals progs) σ
  refine ⟨fun j b σ' hb hp hc => ⟨?_, publisher_returns hI hb hp σ' hc⟩,
    fun i th σ₁ σ₂ hth hin hf ho => push_round hI hth hin σ₁ σ₂ hf ho⟩
  cases b.pc <;> simp [remPub]

/-- `c11_push_completes_rounds` (the bound).  `unlinked s` = number of `Push` calls in the
system (running or still to be started, programs are finite) that have not linked their node.
A fair round for thread `i` = every other thread takes two steps, then thread `i` takes seven,
all other steps interleaved arbitrarily.  From every reachable state, for a thread `i`
inside `Push`, any schedule consisting of more than `unlinked s` fair rounds makes that
`Push` return: each round in which it does not return uses up one of the finitely many
pending pushes of the others. -/
theorem c11_push_completes_rounds (vals : List Int) (progs : List (List Call)) (σ : List Nat)
    (i : Nat) (th : Thread) (rs : List (List Nat × List Nat)) :
    let s := (run .addThenStore (init vals progs) σ).1
    s.threads[i]? = some th → inPush th.pc = true → (∀ r ∈ rs, FairRound i r) →
      unlinked s < rs.length → Returned i (run .addThenStore s (flatRounds rs)).2 := by
  intro s hth hin hf hl
  exact push_rounds (inv_run (inv_init vals progs) σ) hth hin rs hf hl

/-- `c11_push_completes_rounds_tight`: the tight bound.  Only the pending pushes of the OTHER
threads cost a round: `unlinked s - pend th` = number of `Push` calls of threads other than
`i` that have not linked their node (thread `i`'s own current and future pushes are not
counted).  More fair rounds than that make thread `i`'s `Push` return.  Tightness: the
example below shows a state with one pending push of another thread in which one fair round
is not enough (two are, by this theorem). -/
theorem c11_push_completes_rounds_tight (vals : List Int) (progs : List (List Call)) (σ : List Nat)
    (i : Nat) (th : Thread) (rs : List (List Nat × List Nat)) :
    let s := (run .addThenStore (init vals progs) σ).1
    s.threads[i]? = some th → inPush th.pc = true → (∀ r ∈ rs, FairRound i r) →
      unlinked s - pend th < rs.length → Returned i (run .addThenStore s (flatRounds rs)).2 := by
  intro s hth hin hf hl
  exact push_rounds_tight (inv_run (inv_init vals progs) σ) hth hin rs hf hl

/-- Tightness witness: thread 0 (two pushes, so `unlinked = 3` but only ONE push of another
thread is pending) and thread 1 (one push).  The round `([1,1], [1, 0×7])` is fair for thread 0
(thread 1 takes two steps, then thread 0 takes seven) and thread 0 has not returned after
it: thread 1 linked first and was not scheduled again.  So `rounds > 0` does not suffice
when one other push is pending; `rounds > 1` does. -/
example :
    let s := init [] [[.push 5, .push 6], [.push 7]]
    unlinked s = 3 ∧ unlinked s - pend (mkThread [.push 5, .push 6]) = 1 ∧
    ((run .addThenStore s ([1, 1] ++ [1, 0, 0, 0, 0, 0, 0, 0])).2.filter
      (fun e => e.tid = 0 ∧ e.ret.isSome)) = [] := by
  decide

/-- `c11_push_completes_quiet`: "Push completes once the other in-flight pushes are allowed
to finish".  If no other thread has a `Push` that still has to link (they may be publishing,
popping, spinning in `PopWait`, reading `Len`, idle), then after the publisher's `≤ 2` steps
(in `σ₁`) seven own steps (in `σ₂`) make thread `i`'s `Push` return. -/
theorem c11_push_completes_quiet (vals : List Int) (progs : List (List Call)) (σ : List Nat)
    (i : Nat) (th : Thread) (σ₁ σ₂ : List Nat) :
    let s := (run .addThenStore (init vals progs) σ).1
    s.threads[i]? = some th → inPush th.pc = true →
      (∀ j b, j ≠ i → s.threads[j]? = some b → NoPush b) →
      (∀ j b, j ≠ i → s.threads[j]? = some b → remPub b.pc ≤ σ₁.count j) → 7 ≤ σ₂.count i →
      Returned i (run .addThenStore s (σ₁ ++ σ₂)).2 := by
  intro s hth hin hq hf ho
  rcases push_round (inv_run (inv_init vals progs) σ) hth hin σ₁ σ₂ hf ho with h | h
  · exact h
  · exact absurd h (no_link_of_noPush hq _)

/-- Non-vacuity of the progress theorems: a reachable state in which thread 0 has linked
its node but not published it (`pushAdd`, two steps to go), thread 1 is inside the push loop
and has just seen the unpublished node (it is about to `Gosched`), thread 2 is a blocking
`PopWait`; one push (thread 1's) is unlinked, thread 0 is `NoPush`.  Thread 1 is NOT helped
by its own steps alone: ten solo steps leave it spinning; the fair schedule
`[0,0] ++ [1×7]` makes both pushes return. -/
example :
    let s := (run .addThenStore (init [] [[.push 5], [.push 6], [.popWait true]]) [0, 0, 0, 1, 1, 2]).1
    (s.threads.map (·.pc)) = [.pushAdd 5 1, .pushYield 6, .popLoadTail 0] ∧
    unlinked s = 1 ∧ pend { pc := .pushAdd 5 1, prog := [], cur := some (.push 5), ticks := 0 } = 0 ∧
    ((run .addThenStore s (List.replicate 10 1)).2.filter (·.ret.isSome)) = [] ∧
    ((run .addThenStore s ([0, 0] ++ List.replicate 7 1)).2.filter (·.ret.isSome)).map (·.tid) = [0, 1] := by
  decide

/-- Non-vacuity of `c11_lin_fifo` / `c11_history`: the emitted events of a run with a push,
a blocking `PopWait` that first finds the list empty, and a `Pop` that loses. -/
example :
    trace (init [4] [[.push 7], [.popWait true], [.pop]])
        [1, 1, 2, 2, 2, 1, 1, 2, 1, 1, 1, 0, 0, 0, 0, 0, 1, 1, 1, 1, 1, 1, 1, 1, 1] =
      [.lin (.pop 1 4), .ret 2 (.pop 0 false), .ret 1 (.pop 4 true), .lin (.push 0 7), .ret 0 .push] ∧
    lins (init [4] [[.push 7], [.popWait true], [.pop]])
        [1, 1, 2, 2, 2, 1, 1, 2, 1, 1, 1, 0, 0, 0, 0, 0, 1, 1, 1, 1, 1, 1, 1, 1, 1] =
      [.pop 1 4, .push 0 7] := by
  decide

/-- Non-vacuity of `c11_popwait_timed`: a timed `PopWait` with expiry on its 2nd tick on an
empty list.  (a) the push is published between the first tick's `Pop` and the expiry tick:
the `Pop` of the expiry tick succeeds and the call returns `(7, true)` — the schedule the
seeded defect C11-C mishandles; (b) the push is published too late: the call returns false
and the value is still stored. -/
example :
    (trace (init [] [[.popWaitT 2], [.push 7]])
        [0, 0, 0, 0, 0, 1, 1, 1, 1, 1, 0, 0, 0, 0, 0, 0, 0, 0]).filter (fun e => e.tid = 0) =
      [.lin (.pop 0 7), .ret 0 (.pop 7 true)] ∧
    (trace (init [] [[.popWaitT 2], [.push 7]])
        [0, 0, 0, 0, 0, 0, 0, 1, 1, 1, 1, 0, 1]).filter (fun e => e.tid = 0) =
      [.ret 0 (.pop 0 false)] ∧
    stored (run .addThenStore (init [] [[.popWaitT 2], [.push 7]])
        [0, 0, 0, 0, 0, 0, 0, 1, 1, 1, 1, 0, 1]).1 = [7] := by
  decide

/-- Non-vacuity of the `segs` clause: thread 0 = [timed PopWait that expires, Pop], thread 1
pushes 7 and 8 during the last poll interval; the expired call has no lin event, the `Pop`
that follows takes the FRONT element 7, and 8 stays. -/
example :
    let σ := [0, 0, 0, 1, 1, 1, 1, 0, 0, 1, 1, 1, 1, 1, 1, 0, 0, 0, 0, 0, 0, 0]
    segs 0 [] (trace (init [] [[.popWaitT 1, .pop], [.push 7, .push 8]]) σ) =
      [([], .pop 0 false), ([.pop 0 7], .pop 7 true)] ∧
    stored (run .addThenStore (init [] [[.popWaitT 1, .pop], [.push 7, .push 8]]) σ).1 = [8] := by
  decide

/-- Non-vacuity of `c11_race_free_run`: two pops by different threads; each node's value is
read and cleared by the thread that moved the head onto it. -/
example :
    ((run .addThenStore (init [4, 5] [[.pop], [.pop]]) [0, 0, 0, 0, 1, 1, 1, 1, 0, 1, 0, 1, 0, 1]).2.filterMap
      fun e => e.acc.touches.map fun n => (e.tid, n)) = [(0, 1), (1, 2), (0, 1), (1, 2)] := by
  decide

/-- Non-vacuity of `c11_len_abstract` inside a timed `PopWait`: thread 0 is waiting for its
tick (`popTick`) while thread 1 has linked and counted, but not published, its node:
abstract queue empty, `len = 1`. -/
example :
    let s := (run .addThenStore (init [] [[.popWaitT 2], [.push 7]]) [0, 0, 1, 1, 1, 1]).1
    s.threads.map (·.pc) = [.popTick, .pushStore 7 1] ∧ stored s = [] ∧ s.len = 1 ∧
    lins (init [] [[.popWaitT 2], [.push 7]]) [0, 0, 1, 1, 1, 1] = [] := by
  decide

/-- Non-vacuity of `c11_linearizable_classical`: the history and the total order of a run
with a push, a false `Pop`, a `Len` and a successful `Pop`. -/
example :
    let σ := [1, 1, 0, 0, 0, 0, 2, 0, 1, 1, 1, 1, 1, 1, 1]
    linearization (init [] [[.push 7], [.pop, .pop], [.len]]) σ =
      [(1, .pop none), (2, .len 1), (0, .push 7), (1, .pop (some 7))] ∧
    csegs 1 [] (chist (trace (init [] [[.push 7], [.pop, .pop], [.len]]) σ)) =
      [([(1, .pop none)], .pop 0 false), ([(1, .pop (some 7))], .pop 7 true)] := by
  decide

/-- Non-vacuity of the linearizability clauses: a reachable instrumented state with a
non-empty abstract queue, a pop past its linearization point (pending value 4) and a
push whose node is linked but not yet in the abstract queue. -/
example :
    let sg := lrun (init [4, 5] [[.push 7], [.pop]]) (ginit [4, 5] [[.push 7], [.pop]])
      [1, 1, 1, 1, 0, 0, 0, 0]
    sg.2.q = [5] ∧ sg.2.pend = [none, some 4] ∧ sg.2.orig = [0, 4, 5, 7] ∧ stored sg.1 = [5] := by
  decide

/-- Non-vacuity: a reachable state with a linked-but-unpublished node, a pending
decrement and `len = 1 > 0 = poppable` (two threads mid-operation). -/
example :
    let s := (run .addThenStore (init [4] [[.push 7], [.pop]]) [1, 1, 1, 1, 0, 0, 0, 0]).1
    s.chain.length = s.tail + 2 ∧ s.len = 2 ∧ (stored s).length = 0 ∧
      cnt isPushStore s.threads = 1 ∧ cnt isPopPost s.threads = 1 := by decide

end Golib.C11
