/-
C11 — SyncList is a linearizable unbounded FIFO queue with a sane length.
ONLY property theorems and non-vacuity examples live here.
-/
import Golib.Proof.C11Facts

namespace Golib.C11

/-- The model's access order is the source order (regenerated facts, see Proof/C11Facts). -/
theorem c11_source_order :
    soloSrc .addThenStore (init [] [[.push 5]]) 5 = Gen.C11.pushOps.takeWhile (· ≠ .gosched) ∧
    soloSrc .addThenStore (init [9] [[.pop]]) 7 = Gen.C11.popOps ∧
    soloSrc .addThenStore (init [9] [[.len]]) 1 = Gen.C11.lenOps :=
  ⟨facts_push_success_path, facts_pop_success_path, facts_len⟩

end Golib.C11
