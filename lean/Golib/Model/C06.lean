/-
Oracle driver for C06.  Header: `trie <hexpattern>…`.  Ops: `mask <hextext> <rune>`,
`replace <hextext> <hexrepl>`; answers the result string in hex, or `panic`.  History ops
`insert <hex>` / `build` and the structural `dump` are those of the C05 driver.
-/
import Golib.Model.C06Replace
import Golib.Model.C05

namespace Golib.C06
open Golib.Proto Golib.C05

def runOp (t : Trie) (ts : List String) : Option (Option String) :=
  match ts with
  | ["dump"] => some (dumpLine t)
  | ["mask", text, m] =>
    match unhex text, m.toInt? with
    | some bs, some mask => if bytesOK bs then some ((replaceWithMask t bs mask).map hex) else none
    | _, _ => none
  | ["replace", text, repl] =>
    match unhex text, unhex repl with
    | some bs, some rp => if bytesOK bs ∧ bytesOK rp then some ((replace t bs rp).map hex) else none
    | _, _ => none
  | _ => none

def runOps : Option Trie → List String → List String
  | _, [] => []
  | none, _ :: ls => "dead" :: runOps none ls
  | some t, l :: ls =>
    match mutOp t (toks l) with
    | some (some t') => "ok" :: runOps (some t') ls
    | some none => "panic" :: runOps none ls
    | none =>
      match runOp t (toks l) with
      | none => "bad-op" :: runOps (some t) ls
      | some none => "panic" :: runOps none ls
      | some (some out) => out :: runOps (some t) ls

def runCase (hdr : List String) (ops : List String) : List String :=
  match hdr with
  | "trie" :: rest =>
    match parsePatterns rest with
    | none => "bad-op" :: ops.map fun _ => "bad-op"
    | some pats =>
      match Trie.ofPatterns pats with
      | none => "panic" :: runOps none ops
      | some t => "ok" :: runOps (some t) ops
  | _ => "bad-op" :: ops.map fun _ => "bad-op"

end Golib.C06
