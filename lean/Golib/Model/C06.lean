/-
Oracle driver for C06.  Header: `trie <hexpattern>…` (or `raw …`: no build).  Ops:
`mask <hextext> <rune>`, `replace <hextext> <hexrepl>`; answers the result string in hex, or
`panic`.  A text / replacement `^` is the previous result of `mask`/`replace` (fed back in).
History ops `insert <hex>` / `build`, the structural `dump`, the driver state and the loop are
those of the C05 driver; `sibling <hexpat> <hextext>` answers `Replace(text, "#")` on an
independent second trie built from the one pattern.  In big mode (`DState.big`) the scopes come
from the pointer model's `find` (`c06_pointer_refines`).
-/
import Golib.Model.C06Replace
import Golib.Model.C05

namespace Golib.C06
open Golib.Proto Golib.C05

def runOp (s : DState) (ts : List String) : Option (Option (String × Option (List Nat))) :=
  match ts with
  | ["dump"] => some ((pDumpLine s.pt).map fun o => (o, none))
  | ["dumpc"] => some ((pDumpCompact s.pt).map fun o => (o, none))
  | ["sibling", pat, text] =>
    match argBytes s pat, argBytes s text with
    | some p, some x =>
      some (((Trie.ofPatterns [p]).bind fun t2 => replace t2 x [35]).map fun r => (hex r, none))
    | _, _ => none
  | ["mask", text, m] =>
    match argBytes s text, m.toInt? with
    | some bs, some mask =>
      some ((if s.big then (s.pt.find bs).bind fun sc => (mergeScopes sc).bind fun m => maskLoop bs mask m 0 []
             else replaceWithMask s.t bs mask).map fun r => (hex r, some r))
    | _, _ => none
  | ["replace", text, repl] =>
    match argBytes s text, argBytes s repl with
    | some bs, some rp =>
      some ((if s.big then (s.pt.find bs).bind fun sc => (mergeScopes sc).bind fun m => replLoop bs rp m 0 []
             else replace s.t bs rp).map fun r => (hex r, some r))
    | _, _ => none
  | _ => none

def runCase (hdr : List String) (ops : List String) : List String := runCaseWith runOp hdr ops

end Golib.C06
