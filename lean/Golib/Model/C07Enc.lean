/-
Model of the backslash escape codecs of `strz/enc.go` and of the private helpers
`parseUint`, `lower`, `upper` (`strz/std_strconv.go`), `appendUint`, `toUpper`.

Conventions
* bytes are `Nat` (< 256), byte strings `List Nat`, as in `Golib.Utf8`; runes are `Int`.
* A Go panic (index / slice bounds out of range) is `none`.
* Cursor layer (`*Body`, `run`): `dst`, `src` with the cursors `e f i` exactly as coded;
  every index access is a checked access.  One function per Go loop *body*; the `for`
  loop itself and the trailing flush `if f < len(src) { e += copy(dst[e:], src[f:]) }`
  are the generic `loop` / `finish` (identical text in the four Go functions).
  The loop takes fuel; `Res.fuel` = fuel exhausted (proved impossible for fuel `|src|+1`).
* Functional layer (`*Dec`, `parseFun`): what one iteration decides on the remaining
  suffix (`stop` / `skip k` bytes verbatim / `emit bs` for `k` consumed bytes) and the
  recursion on the suffix.
* `strconv.AppendUint`, `utf8.DecodeRuneInString/EncodeRune/RuneCountInString`,
  `utf16.EncodeRune/DecodeRune` are stdlib: modelled (`toDigits`, `Golib.Utf8`,
  `utf16Enc`/`utf16Dec`), compared with the real ones on every correspondence run.
-/
import Golib.Proto
import Golib.Prelude.Utf8

namespace Golib.C07
open Golib

abbrev Bytes := List Nat

/-! ## std_strconv.go helpers -/

/-- `func lower(c byte) byte { return c | 32 }` -/
def lower (c : Nat) : Nat := c ||| 32

/-- `func upper(c byte) byte { return c &^ (c >> 6 << 5) }` -/
def upper (c : Nat) : Nat := c &&& (255 ^^^ ((c >>> 6 <<< 5) % 256))

/-- `toUpper(dst)`: `for i, b := range dst { dst[i] = upper(b) }`. -/
def toUpper (bs : Bytes) : Bytes := bs.map upper

/-- The digit switch of `parseUint`: `'0'..'9'`, else `'a' <= lower(c) <= 'z'`, else none. -/
def digitVal (c : Nat) : Option Nat :=
  if 48 ≤ c ∧ c ≤ 57 then some (c - 48)
  else if 97 ≤ lower c ∧ lower c ≤ 122 then some (lower c - 97 + 10)
  else none

/-- The loop of `parseUint` (`strz/std_strconv.go:126-154`) from index `i` with accumulator `n`;
`uint64` arithmetic with explicit wrap-around. -/
def parseUintLoop (base cutoff maxVal : Nat) : Bytes → Nat → Nat → Nat × Nat × Bool
  | [], i, n => (n, i, true)                       -- return n, len(s), true
  | c :: rest, i, n =>
    match digitVal c with
    | none => (0, i, false)
    | some d =>
      if d ≥ base % 256 then (0, i, false)          -- d >= byte(base)
      else if n ≥ cutoff then (maxVal, i, false)
      else
        let n' := (n * base) % 2 ^ 64
        let n1 := (n' + d) % 2 ^ 64
        if n1 < n' ∨ n1 > maxVal then (maxVal, i, false)
        else parseUintLoop base cutoff maxVal rest (i + 1) n1

/-- `parseUint(s, base, bitSize) (uint64, int, bool)`. -/
def parseUint (s : Bytes) (base bitSize : Nat) : Nat × Nat × Bool :=
  let cutoff := (2 ^ 64 - 1) / base + 1
  let maxVal := (2 ^ bitSize % 2 ^ 64 + 2 ^ 64 - 1) % 2 ^ 64   -- uint64(1)<<uint(bitSize) - 1
  parseUintLoop base cutoff maxVal s 0 0

/-! ## appendUint -/

/-- digit characters of `strconv`: `"0123456789abcdefghijklmnopqrstuvwxyz"[d]`. -/
def digitChar (d : Nat) : Nat := if d < 10 then 48 + d else 87 + d

/-- Digits of `v` in `base`, most significant first (at least one digit); fuel 64 is enough
for any `uint64` and any base ≥ 2. -/
def toDigitsAux (base : Nat) : Nat → Nat → List Nat
  | 0, v => [v % base]
  | fuel + 1, v => if v < base then [v] else toDigitsAux base fuel (v / base) ++ [v % base]

def toDigits (base v : Nat) : List Nat := toDigitsAux base 64 v

/-- `appendUint(dst, i, base)` on a window `dst` of `width` bytes: the digits of
`strconv.AppendUint`, right-aligned, zero padded on the left (`zeroPadding` has 8 zeros;
every call site has `width ≤ 8`).  `none`: `dst[x:]` with `x < 0` panics. -/
def appendUint (width v base : Nat) : Option Bytes :=
  let b := (toDigits base v).map digitChar
  if b.length ≤ width then
    let x := width - b.length
    if x ≤ 8 then some (List.replicate x 48 ++ b) else none   -- beyond zeroPadding: not modelled
  else none

/-! ## Format functions -/

/-- `OctalFormat`: per byte `'\\'` then `appendUint(b[f:j], s[i], 8)` on 3 bytes. -/
def octalFormat : Bytes → Option Bytes
  | [] => some []
  | c :: rest =>
    match appendUint 3 c 8, octalFormat rest with
    | some d, some r => some (92 :: d ++ r)
    | _, _ => none

/-- `HexFormat`: per byte `\x`, `appendUint` on 2 bytes base 16, `toUpper`. -/
def hexFormat : Bytes → Option Bytes
  | [] => some []
  | c :: rest =>
    match appendUint 2 c 16, hexFormat rest with
    | some d, some r => some (92 :: 120 :: toUpper d ++ r)
    | _, _ => none

/-- One `\UXXXXXXXX` escape. -/
def escU (v : Nat) : Option Bytes :=
  match appendUint 8 v 16 with
  | some d => some (92 :: 85 :: toUpper d)
  | none => none

/-- One `\uXXXX` escape. -/
def escu (v : Nat) : Option Bytes :=
  match appendUint 4 v 16 with
  | some d => some (92 :: 117 :: toUpper d)
  | none => none

/-- `"0000FFFD"` / `"FFFD"` -/
def lit0000FFFD : Bytes := [48, 48, 48, 48, 70, 70, 70, 68]
def litFFFD : Bytes := [70, 70, 70, 68]

/-- The loop of `UnicodeFormat` on the remaining suffix `src[i:]` (fuel = its length:
every iteration consumes ≥ 1 byte). -/
def unicodeFormatAux : Nat → Bytes → Option Bytes
  | _, [] => some []
  | 0, _ :: _ => none
  | fuel + 1, bt :: rest =>
    if bt < 0x80 then
      match escU bt, unicodeFormatAux fuel rest with
      | some d, some r => some (d ++ r)
      | _, _ => none
    else
      let (c, size) := Utf8.decodeRune (bt :: rest)
      if c = Utf8.runeError then
        match unicodeFormatAux fuel ((bt :: rest).drop size) with
        | some r => some (92 :: 85 :: lit0000FFFD ++ r)
        | none => none
      else
        match escU c.toNat, unicodeFormatAux fuel ((bt :: rest).drop size) with
        | some d, some r => some (d ++ r)
        | _, _ => none

def unicodeFormat (s : Bytes) : Option Bytes := unicodeFormatAux s.length s

/-- `utf16.EncodeRune(c)` for `0x10000 ≤ c ≤ MaxRune`. -/
def utf16Enc (c : Nat) : Nat × Nat :=
  let r := c - 0x10000
  (0xd800 + (r >>> 10) % 0x400, 0xdc00 + r % 0x400)

/-- `utf16.DecodeRune(r1, r2)`; U+FFFD if not a valid pair. -/
def utf16Dec (r1 r2 : Nat) : Int :=
  if 0xd800 ≤ r1 ∧ r1 < 0xdc00 ∧ 0xdc00 ≤ r2 ∧ r2 < 0xe000 then
    (((r1 - 0xd800) <<< 10 ||| (r2 - 0xdc00)) + 0x10000 : Nat)
  else Utf8.runeError

/-- The `switch` of `Utf16Format` for a decoded rune `c` (`strz/enc.go:289-308`). -/
def utf16FormatRune (c : Int) : Option Bytes :=
  if c = Utf8.runeError then some (92 :: 117 :: litFFFD)
  else if (0 ≤ c ∧ c < 0xd800) ∨ (0xe000 ≤ c ∧ c < 0x10000) then escu c.toNat
  else if 0x10000 ≤ c ∧ c ≤ Utf8.maxRune then
    let (r1, r2) := utf16Enc c.toNat
    match escu r1, escu r2 with
    | some a, some b => some (a ++ b)
    | _, _ => none
  else some (92 :: 117 :: litFFFD)

def utf16FormatAux : Nat → Bytes → Option Bytes
  | _, [] => some []
  | 0, _ :: _ => none
  | fuel + 1, bt :: rest =>
    if bt < 0x80 then
      match escu bt, utf16FormatAux fuel rest with
      | some d, some r => some (d ++ r)
      | _, _ => none
    else
      let (c, size) := Utf8.decodeRune (bt :: rest)
      match utf16FormatRune c, utf16FormatAux fuel ((bt :: rest).drop size) with
      | some d, some r => some (d ++ r)
      | _, _ => none

def utf16Format (s : Bytes) : Option Bytes := utf16FormatAux s.length s

/-! ## Cursor layer of the parsers -/

/-- Go slice expression `s[a:b]` (`len = cap`). -/
def slice (s : Bytes) (a b : Nat) : Option Bytes :=
  if a ≤ b ∧ b ≤ s.length then some ((s.take b).drop a) else none

/-- `n := copy(dst[e:], seg)`: `dst[e:]` panics for `e > len(dst)`; copies `min` bytes. -/
def copyAt (dst : Bytes) (e : Nat) (seg : Bytes) : Option (Bytes × Nat) :=
  if e ≤ dst.length then
    let k := min (dst.length - e) seg.length
    some (dst.take e ++ seg.take k ++ dst.drop (e + k), k)
  else none

/-- All-or-panic write of `bs` at `dst[e:]`: `dst[e] = b` (one byte) and
`utf8.EncodeRune(dst[e:], r)` (which bounds-checks its last byte first). -/
def writeAt (dst : Bytes) (e : Nat) (bs : Bytes) : Option (Bytes × Nat) :=
  if e + bs.length ≤ dst.length then
    some (dst.take e ++ bs ++ dst.drop (e + bs.length), bs.length)
  else none

structure St where
  dst : Bytes
  e : Nat
  f : Nat
  i : Nat
deriving Repr, DecidableEq

inductive Step where
  | cont (s : St)     -- `continue` / end of the body
  | brk (s : St)      -- `break`
deriving Repr, DecidableEq

inductive Res (α : Type) where
  | ok (a : α)
  | panic
  | fuel
deriving Repr, DecidableEq

/-- `if f < i { e += copy(dst[e:], src[f:i]) }` -/
def flush (src : Bytes) (s : St) : Option St :=
  if s.f < s.i then
    match slice src s.f s.i with
    | none => none
    | some seg =>
      match copyAt s.dst s.e seg with
      | none => none
      | some (dst, k) => some { s with dst := dst, e := s.e + k }
  else some s

/-- Body of the loop of `OctalParse` (`strz/enc.go:103-125`). -/
def octalBody (src : Bytes) (s : St) : Option Step :=
  if src.length - s.i < 4 then some (.brk s) else
  match src[s.i]? with
  | none => none
  | some c =>
  if c ≠ 92 then some (.cont { s with i := s.i + 1 }) else
  match slice src (s.i + 1) (s.i + 4) with
  | none => none
  | some seg =>
  match parseUint seg 8 8 with
  | (_, j, false) => some (.cont { s with i := s.i + (1 + j) })
  | (n, _, true) =>
  match flush src s with
  | none => none
  | some s1 =>
  match writeAt s1.dst s1.e [n % 256] with            -- dst[e] = byte(n); e++
  | none => none
  | some (dst, k) => some (.cont { dst := dst, e := s1.e + k, i := s.i + 4, f := s.i + 4 })

/-- Body of the loop of `HexParse` (`strz/enc.go:156-178`). -/
def hexBody (src : Bytes) (s : St) : Option Step :=
  if src.length - s.i < 4 then some (.brk s) else
  match src[s.i]? with
  | none => none
  | some c =>
  if c ≠ 92 then some (.cont { s with i := s.i + 1 }) else
  match src[s.i + 1]? with
  | none => none
  | some c1 =>
  if c1 ≠ 120 then some (.cont { s with i := s.i + 1 }) else
  match slice src (s.i + 2) (s.i + 4) with
  | none => none
  | some seg =>
  match parseUint seg 16 8 with
  | (_, j, false) => some (.cont { s with i := s.i + (2 + j) })
  | (n, _, true) =>
  match flush src s with
  | none => none
  | some s1 =>
  match writeAt s1.dst s1.e [n % 256] with
  | none => none
  | some (dst, k) => some (.cont { dst := dst, e := s1.e + k, i := s.i + 4, f := s.i + 4 })

/-- Body of the loop of `UnicodeParse` (`strz/enc.go:228-259`). -/
def unicodeBody (src : Bytes) (s : St) : Option Step :=
  if src.length - s.i < 10 then some (.brk s) else
  match src[s.i]? with
  | none => none
  | some c =>
  if c ≠ 92 then some (.cont { s with i := s.i + 1 }) else
  match src[s.i + 1]? with
  | none => none
  | some c1 =>
  if c1 ≠ 85 then some (.cont { s with i := s.i + 1 }) else
  match slice src (s.i + 2) (s.i + 10) with
  | none => none
  | some seg =>
  match parseUint seg 16 32 with
  | (_, j, false) => some (.cont { s with i := s.i + (2 + j) })
  | (n, _, true) =>
  if n > 0x10FFFF then some (.cont { s with i := s.i + 10 }) else
  match flush src s with
  | none => none
  | some s1 =>
  -- `n < RuneSelf`: `dst[e] = byte(n); e++`, else `e += utf8.EncodeRune(dst[e:], rune(n))`
  match writeAt s1.dst s1.e (if n < 0x80 then [n % 256] else Utf8.encodeRune (n : Int)) with
  | none => none
  | some (dst, k) => some (.cont { dst := dst, e := s1.e + k, i := s.i + 10, f := s.i + 10 })

/-- Body of the loop of `Utf16Parse` (`strz/enc.go:320-375`). -/
def utf16Body (src : Bytes) (s : St) : Option Step :=
  if src.length - s.i < 6 then some (.brk s) else
  match src[s.i]? with
  | none => none
  | some c =>
  if c ≠ 92 then some (.cont { s with i := s.i + 1 }) else
  match src[s.i + 1]? with
  | none => none
  | some c1 =>
  if c1 ≠ 117 then some (.cont { s with i := s.i + 1 }) else
  match slice src (s.i + 2) (s.i + 6) with
  | none => none
  | some seg =>
  match parseUint seg 16 16 with
  | (_, j, false) => some (.cont { s with i := s.i + (2 + j) })
  | (n1, _, true) =>
  -- `if f < i { e += copy(dst[e:], src[f:i]); f = i }`
  match flush src s with
  | none => none
  | some s0 =>
  let s1 : St := if s.f < s.i then { s0 with f := s.i } else s0
  if n1 < 0xd800 ∨ n1 ≥ 0xe000 then
    match writeAt s1.dst s1.e (Utf8.encodeRune (n1 : Int)) with
    | none => none
    | some (dst, k) => some (.cont { dst := dst, e := s1.e + k, i := s1.i + 6, f := s1.i + 6 })
  else if n1 ≥ 0xd800 ∧ n1 < 0xdc00 then
    let s2 : St := { s1 with i := s1.i + 6 }
    if src.length - s2.i < 6 then some (.brk s2) else
    match src[s2.i]? with
    | none => none
    | some d =>
    if d ≠ 92 then some (.cont { s2 with i := s2.i + 1 }) else
    match src[s2.i + 1]? with
    | none => none
    | some d1 =>
    if d1 ≠ 117 then some (.cont { s2 with i := s2.i + 1 }) else
    match slice src (s2.i + 2) (s2.i + 6) with
    | none => none
    | some seg2 =>
    match parseUint seg2 16 16 with
    | (_, j, false) => some (.cont { s2 with i := s2.i + (2 + j) })
    | (n2, _, true) =>
    if n2 ≥ 0xdc00 ∧ n2 < 0xe000 then
      match writeAt s2.dst s2.e (Utf8.encodeRune (utf16Dec n1 n2)) with
      | none => none
      | some (dst, k) => some (.cont { dst := dst, e := s2.e + k, i := s2.i + 6, f := s2.i + 6 })
    else some (.cont { s2 with i := s2.i + 6 })
  else some (.cont { s1 with i := s1.i + 6 })

/-- `for i := 0; i < len(src); { body }` with fuel. -/
def loop (body : St → Option Step) (n : Nat) : Nat → St → Res St
  | fuel, s =>
    if s.i < n then
      match fuel with
      | 0 => .fuel
      | fuel + 1 =>
        match body s with
        | none => .panic
        | some (.brk s') => .ok s'
        | some (.cont s') => loop body n fuel s'
    else .ok s

/-- `if f < len(src) { e += copy(dst[e:], src[f:]) }; return e` -/
def finish (src : Bytes) (s : St) : Res (Nat × Bytes) :=
  match flush src { s with i := src.length } with
  | none => .panic
  | some s' => .ok (s'.e, s'.dst)

/-- A whole `XxxParse(dst, src)` call: returns `(n, dst afterwards)`. -/
def run (body : Bytes → St → Option Step) (fuel : Nat) (dst src : Bytes) : Res (Nat × Bytes) :=
  match loop (body src) src.length fuel ⟨dst, 0, 0, 0⟩ with
  | .ok s => finish src s
  | .panic => .panic
  | .fuel => .fuel

/-- `XxxParse(dst, src)` with the fuel that is proved sufficient. -/
def parse (body : Bytes → St → Option Step) (dst src : Bytes) : Res (Nat × Bytes) :=
  run body (src.length + 1) dst src

/-- `XxxParseToString(s)`: `b := make([]byte, len(s)); n := XxxParse(b, s); b[:n]`. -/
def parseToString (body : Bytes → St → Option Step) (src : Bytes) : Res Bytes :=
  match parse body (List.replicate src.length 0) src with
  | .ok (n, dst) => if n ≤ dst.length then .ok (dst.take n) else .panic
  | .panic => .panic
  | .fuel => .fuel

/-! ## Functional layer -/

inductive Dec where
  | stop                         -- `break`: the rest is copied verbatim
  | skip (k : Nat)               -- `k` bytes stay verbatim, scanning resumes after them
  | emit (bs : Bytes) (k : Nat)  -- `k` bytes are replaced by `bs`
deriving Repr, DecidableEq

def octalDec (t : Bytes) : Dec :=
  if t.length < 4 then .stop else
  if t[0]? ≠ some 92 then .skip 1 else
  match parseUint ((t.take 4).drop 1) 8 8 with
  | (_, j, false) => .skip (1 + j)
  | (n, _, true) => .emit [n % 256] 4

def hexDec (t : Bytes) : Dec :=
  if t.length < 4 then .stop else
  if t[0]? ≠ some 92 then .skip 1 else
  if t[1]? ≠ some 120 then .skip 1 else
  match parseUint ((t.take 4).drop 2) 16 8 with
  | (_, j, false) => .skip (2 + j)
  | (n, _, true) => .emit [n % 256] 4

def unicodeDec (t : Bytes) : Dec :=
  if t.length < 10 then .stop else
  if t[0]? ≠ some 92 then .skip 1 else
  if t[1]? ≠ some 85 then .skip 1 else
  match parseUint ((t.take 10).drop 2) 16 32 with
  | (_, j, false) => .skip (2 + j)
  | (n, _, true) =>
    if n > 0x10FFFF then .skip 10
    else .emit (if n < 0x80 then [n % 256] else Utf8.encodeRune (n : Int)) 10

def utf16Dec2 (n1 : Nat) (u : Bytes) : Dec :=
  if u.length < 6 then .stop else
  if u[0]? ≠ some 92 then .skip 7 else
  if u[1]? ≠ some 117 then .skip 7 else
  match parseUint ((u.take 6).drop 2) 16 16 with
  | (_, j, false) => .skip (6 + (2 + j))
  | (n2, _, true) =>
    if n2 ≥ 0xdc00 ∧ n2 < 0xe000 then .emit (Utf8.encodeRune (utf16Dec n1 n2)) 12
    else .skip 12

def utf16DecF (t : Bytes) : Dec :=
  if t.length < 6 then .stop else
  if t[0]? ≠ some 92 then .skip 1 else
  if t[1]? ≠ some 117 then .skip 1 else
  match parseUint ((t.take 6).drop 2) 16 16 with
  | (_, j, false) => .skip (2 + j)
  | (n1, _, true) =>
    if n1 < 0xd800 ∨ n1 ≥ 0xe000 then .emit (Utf8.encodeRune (n1 : Int)) 6
    else if n1 ≥ 0xd800 ∧ n1 < 0xdc00 then utf16Dec2 n1 (t.drop 6)
    else .skip 6

set_option linter.unusedVariables false in
/-- The parser as a recursion on the remaining suffix. -/
def parseFun (dec : Bytes → Dec) (s : Bytes) : Bytes :=
  if h : s = [] then [] else
  match dec s with
  | .stop => s
  | .skip k => if hk : 0 < k then s.take k ++ parseFun dec (s.drop k) else s
  | .emit bs k => if hk : 0 < k then bs ++ parseFun dec (s.drop k) else s
termination_by s.length
decreasing_by
  all_goals
    have : 0 < s.length := List.length_pos_iff.mpr h
    simp only [List.length_drop]; omega

end Golib.C07
