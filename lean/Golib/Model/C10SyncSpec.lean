/-
C10 `syncS` cases: SyncRings too large to build slot by slot in the oracle (up to 2^24
slots).  The driver answers with the bounded-FIFO spec of capacity `syncCap n` — by
`c10_sync_refines_new` / `c10_sync_refines_warped` exactly what the slot-level model
prints for every history, fresh or warped — in O(1) per operation.
-/
import Golib.Model.C10Spec

namespace Golib.C10
open Golib.Proto

/-- `pristine`: no successful push and no warp yet (only then may the harness warp). -/
def runSyncSpecOps : BQ → Bool → List String → List String
  | _, _, [] => []
  | s, pr, l :: ls =>
    match toks l with
    | ["warp", k] =>
      match k.toNat? with
      | none => "bad-op" :: runSyncSpecOps s pr ls
      | some _ => if pr then "ok" :: runSyncSpecOps s false ls else "bad-op" :: runSyncSpecOps s pr ls
    | ts =>
      match parseSOp ts with
      | some (.pushW _ _) | some (.popW _) | none => "bad-op" :: runSyncSpecOps s pr ls
      | some op =>
        let (s', o) := s.step op.toOp
        o :: runSyncSpecOps s' (pr && !(decide (s'.q.length > s.q.length))) ls

def runSyncSpecCase (hdr : List String) (ops : List String) : List String :=
  match hdr with
  | [c] =>
    match c.toInt? with
    | none => "bad-op" :: ops.map fun _ => "bad-op"
    | some c =>
      if 16777216 < c ∧ c ≤ 2147483648 then "bad-op" :: ops.map fun _ => "bad-op" else
      match syncCap c with
      | none => "panic" :: ops.map fun _ => "dead"
      | some cap => "ok" :: runSyncSpecOps ⟨[], cap⟩ true ops
  | _ => "bad-op" :: ops.map fun _ => "bad-op"

end Golib.C10
