/-
Model of the rune-aware helpers of `strz/strs.go`, mirroring the Go code statement by
statement on byte lists (`List Nat`) with explicit byte cursors.

* A Go string is a `List Nat` (bytes); a rune is an `Int`; `unicode/utf8` is the shared
  prelude `Golib.Utf8` (`decodeRune`, `encodeRune`, `runeLen`, `rangeDecode` = the
  `for i, v := range s` loop, `runeCount`).
* Go `int` arguments are `Int`; loop cursors that start at 0 and are only incremented
  (`i`, `count`, `startIndex`, `endIndex`, `start` of the builders) are `Nat`; `begin`
  of `Sub` keeps its `-1` sentinel and is an `Int`.
* `none` = the Go code panics (index out of range / slice bounds out of range) **or** the
  loop fuel ran out.  Fuel is `len(s)+1`; `c17_no_panic` proves it is never exhausted
  (every iteration advances the byte cursor by at least one).
* `strings.Builder`: only the written bytes are modelled.  `Grow` has no observable
  effect; `buf.Cap() > 0` in `RemoveRunes` is true exactly after `buf.Grow(len(s))` was
  executed (then `len(s) ≥ 1`), which the model keeps as `Option` (`none` = not grown).
* `SubByDisplay` is the REPAIRED code (finding F9, see `Golib/Findings/C17.lean` for the
  pre-fix algorithm and its refutation).
* `Mask` is the REPAIRED code (finding F15: `l - start - end` wrapped around in `int` for
  huge non-negative arguments; the guard `if start > l || end > l { return str }` keeps every
  intermediate value within `[-l, l]`; `Golib/Findings/C17.lean` has the pre-fix refutation and
  the proof that the repaired code computes the same with 64-bit wrap-around arithmetic).
-/
import Golib.Proto
import Golib.Prelude.Utf8

namespace Golib.C17
open Golib.Utf8

/-! ### Go slice expressions on strings (`len = cap`) -/

/-- `s[lo:hi]`; `none` = slice bounds out of range. -/
def slice (s : List Nat) (lo hi : Nat) : Option (List Nat) :=
  if lo ≤ hi ∧ hi ≤ s.length then some ((s.drop lo).take (hi - lo)) else none

/-- `s[lo:]`. -/
def sliceFrom (s : List Nat) (lo : Nat) : Option (List Nat) :=
  if lo ≤ s.length then some (s.drop lo) else none

/-- `s[:hi]`. -/
def sliceTo (s : List Nat) (hi : Nat) : Option (List Nat) :=
  if hi ≤ s.length then some (s.take hi) else none

/-- `s[lo:hi]` with an `int` lower bound (the `begin` of `Sub`, sentinel `-1`). -/
def sliceI (s : List Nat) (lo : Int) (hi : Nat) : Option (List Nat) :=
  if 0 ≤ lo then slice s lo.toNat hi else none

/-- `s[lo:]` with an `int` lower bound. -/
def sliceFromI (s : List Nat) (lo : Int) : Option (List Nat) :=
  if 0 ≤ lo then sliceFrom s lo.toNat else none

/-- The cursor step shared by the byte loops of `Mask`, `Sub`, `SnakeToCamelCase`,
`CamelCaseToSnake`:
`if b := s[i]; b < utf8.RuneSelf { i++ } else { _, size := utf8.DecodeRuneInString(s[i:]); i += size }`. -/
def advance (s : List Nat) (i : Nat) : Option Nat :=
  match s[i]? with
  | none => none
  | some b =>
    if b < 0x80 then some (i + 1)
    else
      match sliceFrom s i with
      | none => none
      | some t => some (i + (decodeRune t).2)

/-! ### Mask -/

/-- `strings.Repeat(m, n)` for `n ≥ 0`. -/
def repeatStr (m : List Nat) (n : Nat) : List Nat := (List.replicate n m).flatten

/-- The loop of `Mask`: returns `(startIndex, endIndex)`. -/
def maskLoop (s : List Nat) (start end_ : Int) : Nat → Nat → Nat → Nat → Nat → Option (Nat × Nat)
  | 0, _, _, _, _ => none
  | fuel + 1, i, count, si, ei =>
    if i < s.length then
      let si' := if (count : Int) = start then i else si
      let ei' := if (count : Int) = start then ei else if (count : Int) = end_ then i else ei
      match advance s i with
      | none => none
      | some i' => maskLoop s start end_ fuel i' (count + 1) si' ei'
    else some (si, ei)

def mask (str msk : List Nat) (start end_ : Int) : Option (List Nat) :=
  let l : Int := runeCount str
  if start > l ∨ end_ > l then some str      -- F15 repair: keeps `l - start - end` inside `int`
  else
  let ml := l - start - end_
  if ml ≤ 0 then some str
  else
    let msk := if runeCount msk = 1 then repeatStr msk ml.toNat else msk
    if ml = l then some msk
    else
      let end_ := l - end_
      match maskLoop str start end_ (str.length + 1) 0 0 0 0 with
      | none => none
      | some (si, ei) =>
        let ei := if ei = 0 then str.length else ei
        match sliceTo str si, sliceFrom str ei with
        | some a, some b => some (a ++ msk ++ b)
        | _, _ => none

/-! ### UcFirst / LcFirst -/

def ucFirst (s : List Nat) : Option (List Nat) :=
  if s.length = 0 then some s
  else
    match s[0]? with
    | none => none
    | some b =>
      if 97 ≤ b ∧ b ≤ 122 then (sliceFrom s 1).map fun t => (b - 32) :: t
      else some s

def lcFirst (s : List Nat) : Option (List Nat) :=
  if s.length = 0 then some s
  else
    match s[0]? with
    | none => none
    | some b =>
      if 65 ≤ b ∧ b ≤ 90 then (sliceFrom s 1).map fun t => (b + 32) :: t
      else some s

/-! ### Rev, Len -/

def idxI (rs : List Int) (i : Int) : Option Int :=
  if 0 ≤ i then rs[i.toNat]? else none

def setI (rs : List Int) (i : Int) (v : Int) : Option (List Int) :=
  if 0 ≤ i ∧ i.toNat < rs.length then some (rs.set i.toNat v) else none

/-- `for i, j := 0, len(runes)-1; i < j; i, j = i+1, j-1 { runes[i], runes[j] = runes[j], runes[i] }` -/
def revLoop : Nat → List Int → Int → Int → Option (List Int)
  | 0, _, _, _ => none
  | fuel + 1, rs, i, j =>
    if i < j then
      match idxI rs j, idxI rs i with
      | some vj, some vi =>
        match setI rs i vj with
        | none => none
        | some rs1 =>
          match setI rs1 j vi with
          | none => none
          | some rs2 => revLoop fuel rs2 (i + 1) (j - 1)
      | _, _ => none
    else some rs

def rev (s : List Nat) : Option (List Nat) :=
  let rs := runes s
  (revLoop (rs.length + 1) rs 0 ((rs.length : Int) - 1)).map encode

def len (s : List Nat) : Nat := runeCount s

/-! ### Sub -/

def subLoop (s : List Nat) (start length : Int) : Nat → Nat → Nat → Int → Option (List Nat)
  | 0, _, _, _ => none
  | fuel + 1, i, count, begin =>
    if i < s.length then
      if (count : Int) = start then
        if length = -1 then sliceFrom s i
        else
          match advance s i with
          | none => none
          | some i' => subLoop s start length fuel i' (count + 1) i
      else if 0 ≤ begin ∧ start + length = count then sliceI s begin i
      else
        match advance s i with
        | none => none
        | some i' => subLoop s start length fuel i' (count + 1) begin
    else if begin < 0 then some []
    else sliceFromI s begin

def sub (s : List Nat) (start length : Int) : Option (List Nat) :=
  if start < 0 ∨ length < -1 ∨ s = [] then some s
  else if length = 0 then some []
  else subLoop s start length (s.length + 1) 0 0 (-1)

/-! ### SubByDisplay (repaired: the cut position is the range index) -/

/-- `for i, v := range s { if v < RuneSelf { dpl += 1 } else { dpl += 2 }; if dpl > length { return s[:i] } }; return s` -/
def subByDisplayLoop (s : List Nat) (length : Int) : List (Nat × Int × Nat) → Int → Option (List Nat)
  | [], _ => some s
  | (i, v, _) :: rest, dpl =>
    let dpl := if v < 0x80 then dpl + 1 else dpl + 2
    if dpl > length then sliceTo s i
    else subByDisplayLoop s length rest dpl

def subByDisplay (s : List Nat) (length : Int) : Option (List Nat) :=
  if (s.length : Int) ≤ length then some s
  else subByDisplayLoop s length (rangeDecode s) 0

/-! ### RemoveRunes -/

/-- State `buf`: `none` = `buf.Cap() == 0` (nothing grown yet), `some b` = bytes written. -/
def removeLoop (s : List Nat) (p : Int → Bool) :
    List (Nat × Int × Nat) → Option (List Nat) → Option (Option (List Nat))
  | [], buf => some buf
  | (_, v, _) :: rest, some b =>
    removeLoop s p rest (some (if p v then b else b ++ encodeRune v))
  | (i, v, _) :: rest, none =>
    if p v then
      match sliceTo s i with
      | none => none
      | some pre => removeLoop s p rest (some pre)
    else removeLoop s p rest none

def removeRunes (s : List Nat) (p : Int → Bool) : Option (List Nat) :=
  match removeLoop s p (rangeDecode s) none with
  | none => none
  | some none => some s
  | some (some b) => some b

/-! ### SnakeToCamelCase / CamelCaseToSnake -/

/-- `if start < i { buf.WriteString(str[start:i]) }` -/
def flush (str buf : List Nat) (start i : Nat) : Option (List Nat) :=
  if start < i then (slice str start i).map fun t => buf ++ t else some buf

/-- `if buf.Len() == 0 { return str }; if start < len(str) { buf.WriteString(str[start:]) }; return buf.String()` -/
def finish (str buf : List Nat) (start : Nat) : Option (List Nat) :=
  if buf.length = 0 then some str
  else if start < str.length then (sliceFrom str start).map fun t => buf ++ t
  else some buf

def snakeLoop (str : List Nat) : Nat → Nat → Nat → Bool → List Nat → Option (List Nat)
  | 0, _, _, _, _ => none
  | fuel + 1, i, start, firstUp, buf =>
    if i < str.length then
      match str[i]? with
      | none => none
      | some b =>
        if b < 0x80 then
          if firstUp then
            if 97 ≤ b ∧ b ≤ 122 then
              match flush str buf start i with
              | none => none
              | some buf' => snakeLoop str fuel (i + 1) (i + 1) false (buf' ++ [b - 32])
            else snakeLoop str fuel (i + 1) start false buf
          else if 0 < i ∧ b = 95 then
            match flush str buf start i with
            | none => none
            | some buf' => snakeLoop str fuel (i + 1) (i + 1) true buf'
          else snakeLoop str fuel (i + 1) start firstUp buf
        else
          match sliceFrom str i with
          | none => none
          | some t => snakeLoop str fuel (i + (decodeRune t).2) start false buf
    else finish str buf start

def snakeToCamel (str : List Nat) (firstUp : Bool) : Option (List Nat) :=
  snakeLoop str (str.length + 1) 0 0 firstUp []

def camelLoop (str : List Nat) : Nat → Nat → Nat → List Nat → Option (List Nat)
  | 0, _, _, _ => none
  | fuel + 1, i, start, buf =>
    if i < str.length then
      match str[i]? with
      | none => none
      | some b =>
        if b < 0x80 then
          if 65 ≤ b ∧ b ≤ 90 then
            match flush str buf start i with
            | none => none
            | some buf' =>
              let buf'' := if 0 < i then buf' ++ [95] else buf'
              camelLoop str fuel (i + 1) (i + 1) (buf'' ++ [b + 32])
          else camelLoop str fuel (i + 1) start buf
        else
          match sliceFrom str i with
          | none => none
          | some t => camelLoop str fuel (i + (decodeRune t).2) start buf
    else finish str buf start

def camelToSnake (str : List Nat) : Option (List Nat) :=
  camelLoop str (str.length + 1) 0 0 []

end Golib.C17
