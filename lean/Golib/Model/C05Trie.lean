/-
Model of `algz/trie.go` (Aho–Corasick trie), "nodes as labels".

* A node is its rune path from the root (`Label = List Int`, root = `[]`); the trie is the
  prefix closure of the inserted patterns.  `node != &t.root` is `node ≠ []`.
* The model works on *decoded* strings: a `Step` is what `decodeRune(s, i)` returns
  (rune, width).  `decodeAll` is the `for i := 0; i < len(s); { r, size = decodeRune(s, i); i += size … }`
  loop; the code interleaves decoding with the automaton, the model decodes first (decoding
  does not depend on the automaton state).
* `decodeStep` mirrors the REPAIRED `decodeRune` (F11): an invalid byte `b` is the private
  negative rune `-1-b` (width 1), written back as the byte.  The pre-fix decoder is
  `Golib/Findings/C05F11.lean`; every query takes the decoder as a parameter so the same
  automaton code runs with both.
* Per node the code keeps a sorted child array, maintained by `Insert` through
  `findChildIndex` + shift; `childrenOf` replays exactly those insertions (in insertion
  order of the patterns) for the node with label `n`.  `size` is the byte offset at which
  the node was created = width of that prefix in the first inserted pattern having it.
* `fail` is the table written by `BuildFailureLinks` (missing entry = `nil`; the root never
  gets an entry, its `fail` stays `nil`).
* A Go panic (nil dereference, index/slice out of range, `Truncate` out of range) is `none`;
  a fuel-bounded loop running out of fuel is also `none` (proved not to happen).
* `uint32` queue counters are `Nat` (fewer than 2^32 trie nodes: modelled, not verified).
-/
import Golib.Proto
import Golib.Prelude.Utf8

namespace Golib.C05
open Golib

abbrev Label := List Int
/-- What `decodeRune` returns: (rune, width in bytes). -/
abbrev Step := Int × Nat

/-! ### decodeRune (trie.go, repaired) -/

/-- `decodeRune(s, i)` on `bs = s[i:]` (callers guarantee `i < len(s)`; `s[i]` on the
empty rest would panic, which no caller reaches). -/
def decodeStep (bs : List Nat) : Step :=
  match bs with
  | [] => (Utf8.runeError, 0)
  | b :: _ =>
    if b < 0x80 then ((b : Int), 1)
    else
      let d := Utf8.decodeRune bs
      if d.1 = Utf8.runeError ∧ d.2 = 1 then (-1 - (b : Int), 1) else d

/-- The decoding loop `for i := 0; i < len(s); { r, size = dec(s[i:]); i += size }`. -/
def decodeWith (dec : List Nat → Step) : Nat → List Nat → List Step
  | 0, _ => []
  | _, [] => []
  | fuel + 1, b :: rest =>
    let st := dec (b :: rest)
    st :: decodeWith dec fuel ((b :: rest).drop st.2)

def decodeAllWith (dec : List Nat → Step) (bs : List Nat) : List Step := decodeWith dec bs.length bs

def decodeAll (bs : List Nat) : List Step := decodeAllWith decodeStep bs

/-- `runeLen` helper of the repaired code: bytes `writeRune` emits. -/
def runeWidth (r : Int) : Int := if r < 0 then 1 else Utf8.runeLen r

/-- `writeRune(buf, r)` helper of the repaired code. -/
def writeRune (r : Int) : List Nat := if r < 0 then [(-1 - r).toNat % 256] else Utf8.encodeRune r

/-! ### the two binary searches over a child array -/

/-- Loop of `findChildIndex`: `for low < high { mid := (low+high)>>1; if c[mid] < val {low = mid+1} else {high = mid} }; return low`.
`none` = index out of range. -/
def findChildLoop (cs : List Int) (val : Int) : Nat → Nat → Nat → Option Nat
  | 0, _, _ => none
  | fuel + 1, low, high =>
    if low < high then
      let mid := (low + high) / 2
      match cs[mid]? with
      | none => none
      | some c => if c < val then findChildLoop cs val fuel (mid + 1) high
                  else findChildLoop cs val fuel low mid
    else some low

def findChildIndex (cs : List Int) (val : Int) : Option Nat :=
  findChildLoop cs val (cs.length + 1) 0 cs.length

/-- Loop of `index`.  Inner `none` = the Go result `-1`. -/
def indexLoop (cs : List Int) (val : Int) : Nat → Nat → Nat → Option (Option Nat)
  | 0, _, _ => none
  | fuel + 1, low, high =>
    if low < high then
      let mid := (low + high) / 2
      match cs[mid]? with
      | none => none
      | some c =>
        if c = val then some (some mid)
        else if c < val then indexLoop cs val fuel (mid + 1) high
        else indexLoop cs val fuel low mid
    else some none

/-- `t.index(children, val)`: outer `none` = panic, `some none` = `-1`, `some (some i)` = `i`. -/
def index (cs : List Int) (val : Int) : Option (Option Nat) :=
  let high := cs.length
  if high = 0 then some none
  else
    match cs[0]?, cs[high - 1]? with
    | some first, some last =>
      if val < first ∨ val > last then some none
      else indexLoop cs val (high + 1) 0 high
    | _, _ => none

/-! ### the label trie -/

def lab (p : List Step) : Label := p.map (·.1)

/-- The rune that follows the prefix `n` in `l`, if `n` is a proper prefix of `l`. -/
def nextRune? (n l : Label) : Option Int :=
  if n.isPrefixOf l then l[n.length]? else none

/-- The `Insert` branch at one node: find the slot, insert the child if absent
(`append` + `copy` shift + store = insertion at `idx`). -/
def insertChild (cs : List Int) (r : Int) : Option (List Int) :=
  match findChildIndex cs r with
  | none => none
  | some idx =>
    if idx ≥ cs.length then some (cs.take idx ++ r :: cs.drop idx)
    else
      match cs[idx]? with
      | none => none
      | some v => if v ≠ r then some (cs.take idx ++ r :: cs.drop idx) else some cs

/-- Child array (the `val`s, ascending) of node `n` after inserting `ps` in order. -/
def childrenLoop (n : Label) : List (List Step) → List Int → Option (List Int)
  | [], cs => some cs
  | p :: ps, cs =>
    match nextRune? n (lab p) with
    | none => childrenLoop n ps cs
    | some r =>
      match insertChild cs r with
      | none => none
      | some cs' => childrenLoop n ps cs'

def childrenOf (ps : List (List Step)) (n : Label) : Option (List Int) := childrenLoop n ps []

/-- `node.isEnd`. -/
def isEnd (ps : List (List Step)) (n : Label) : Bool := ps.any fun p => lab p == n

/-- `node.size`: `i` at creation time, i.e. the byte width of this prefix in the first
inserted pattern that has it (0 for the root). -/
def sizeOf (ps : List (List Step)) (n : Label) : Nat :=
  match ps.find? (fun p => n.isPrefixOf (lab p)) with
  | some p => ((p.take n.length).map (·.2)).sum
  | none => 0

structure Trie where
  /-- decoded non-empty patterns in insertion order -/
  pats : List (List Step)
  /-- the `fail` pointers written by `BuildFailureLinks` -/
  fail : List (Label × Label)
deriving Repr

def Trie.empty : Trie := ⟨[], []⟩

/-- `Insert(pattern)` (on the decoded pattern). -/
def Trie.insert (t : Trie) (p : List Step) : Trie :=
  if p.isEmpty then t else { t with pats := t.pats ++ [p] }

def Trie.children (t : Trie) (n : Label) : Option (List Int) := childrenOf t.pats n
/-- `node.fail` (`none` = nil). -/
def Trie.failOf (t : Trie) (n : Label) : Option Label := t.fail.lookup n

/-! ### trieNodeQueue -/

structure Queue where
  nodes : List Label
  head : Nat
  tail : Nat
  cap : Nat
deriving Repr

def Queue.init (cap : Nat) : Queue := ⟨List.replicate cap [], 0, 0, cap⟩
def Queue.isFull (q : Queue) : Bool := q.tail - q.head == q.cap
def Queue.isEmpty (q : Queue) : Bool := q.head == q.tail
def Queue.len (q : Queue) : Nat := q.tail - q.head

/-- Go slice expression `s[lo:hi]`. -/
def slice? {α} (l : List α) (lo hi : Nat) : Option (List α) :=
  if lo ≤ hi ∧ hi ≤ l.length then some ((l.take hi).drop lo) else none

/-- `copy(dst, src)`: new dst and the count. -/
def copyInto {α} (dst src : List α) : List α × Nat :=
  let n := min dst.length src.length
  (src.take n ++ dst.drop n, n)

def set? {α} (l : List α) (i : Nat) (v : α) : Option (List α) :=
  if i < l.length then some (l.set i v) else none

def Queue.push (q : Queue) (node : Label) : Option Queue :=
  let q1? : Option Queue :=
    if q.isFull then
      if q.cap = 0 then none   -- integer divide by zero
      else
        let tailPos := (q.tail - 1) % q.cap
        let headPos := q.head % q.cap
        let cap' := q.cap * 2
        let newNodes : List Label := List.replicate cap' []
        let copied : Option (List Label) :=
          if tailPos > headPos then
            (slice? q.nodes headPos (tailPos + 1)).map fun s => (copyInto newNodes s).1
          else
            match slice? q.nodes headPos q.nodes.length, slice? q.nodes 0 (tailPos + 1) with
            | some s1, some s2 =>
              let (nv, n) := copyInto newNodes s1
              some (nv.take n ++ (copyInto (nv.drop n) s2).1)
            | _, _ => none
        copied.map fun nv => { nodes := nv, head := 0, tail := q.tail - q.head, cap := cap' }
    else some q
  match q1? with
  | none => none
  | some q1 =>
    if q1.cap = 0 then none
    else (set? q1.nodes (q1.tail % q1.cap) node).map fun nv => { q1 with nodes := nv, tail := q1.tail + 1 }

/-- `Pop()`; the caller has checked `!IsEmpty()`, the empty case (returns nil) is `none` here. -/
def Queue.pop (q : Queue) : Option (Label × Queue) :=
  if q.isEmpty then none
  else if q.cap = 0 then none
  else (q.nodes[q.head % q.cap]?).map fun n => (n, { q with head := q.head + 1 })

/-! ### BuildFailureLinks -/

abbrev FailTab := List (Label × Label)

/-- `for failNode != nil { idx = index(failNode.children, val); if idx >= 0 {break}; failNode = failNode.fail }`.
Result: `none` = panic / out of fuel; `some none` = `failNode == nil`; `some (some (m, idx))`. -/
def failWalk (ps : List (List Step)) (F : FailTab) (val : Int) :
    Nat → Option Label → Option (Option (Label × Nat))
  | 0, _ => none
  | _ + 1, none => some none
  | fuel + 1, some m =>
    match childrenOf ps m with
    | none => none
    | some cs =>
      match index cs val with
      | none => none
      | some (some idx) => some (some (m, idx))
      | some none => failWalk ps F val fuel (F.lookup m)

structure BState where
  q : Queue
  F : FailTab
deriving Repr

/-- `for _, child := range curr.children { … }`. -/
def processChildren (ps : List (List Step)) (curr : Label) : List Int → BState → Option BState
  | [], s => some s
  | r :: rs, s =>
    match failWalk ps s.F r (curr.length + 2) (s.F.lookup curr) with
    | none => none
    | some w =>
      let target? : Option Label :=
        match w with
        | none => some []
        | some (m, idx) =>
          match childrenOf ps m with
          | none => none
          | some cs => (cs[idx]?).map fun v => m ++ [v]
      match target? with
      | none => none
      | some target =>
        match s.q.push (curr ++ [r]) with
        | none => none
        | some q' => processChildren ps curr rs { q := q', F := (curr ++ [r], target) :: s.F }

/-- `for !queue.IsEmpty() { curr := queue.Pop(); … }`. -/
def bfsLoop (ps : List (List Step)) : Nat → BState → Option BState
  | 0, _ => none
  | fuel + 1, s =>
    if s.q.isEmpty then some s
    else
      match s.q.pop with
      | none => none
      | some (curr, q') =>
        match childrenOf ps curr with
        | none => none
        | some cs =>
          match processChildren ps curr cs { s with q := q' } with
          | none => none
          | some s' => bfsLoop ps fuel s'

/-- The first loop: `for i := range t.root.children { child.fail = &t.root; queue.Push(child) }`. -/
def seedRoot : List Int → BState → Option BState
  | [], s => some s
  | r :: rs, s =>
    match s.q.push [r] with
    | none => none
    | some q' => seedRoot rs { q := q', F := ([r], []) :: s.F }

/-- Number of non-root nodes is at most the total number of steps. -/
def nodeBound (ps : List (List Step)) : Nat := (ps.map List.length).sum

def buildFail (ps : List (List Step)) : Option FailTab :=
  match childrenOf ps [] with
  | none => none
  | some cs =>
    match seedRoot cs { q := Queue.init 10, F := [] } with
    | none => none
    | some s0 => (bfsLoop ps (nodeBound ps + 1) s0).map (·.F)

/-- `BuildFailureLinks()`. -/
def Trie.build (t : Trie) : Option Trie := (buildFail t.pats).map fun F => { t with fail := F }

/-- `BuildFailureLinks()` on a trie that may already carry `fail` pointers from an earlier
build (Insert…, Build, Insert…, Build): the code does not clear them; it starts the same two
loops and overwrites a node's pointer when the node is pushed.  In the model the old table
`F0` stays underneath and `lookup` finds the newest entry first.  `buildFail ps` is the case
`F0 = []` (definitionally).  That no stale entry is ever read, i.e. that the result agrees
with a first build over all patterns, is `c05_rebuild_eq_build`. -/
def buildFailFrom (ps : List (List Step)) (F0 : FailTab) : Option FailTab :=
  match childrenOf ps [] with
  | none => none
  | some cs =>
    match seedRoot cs { q := Queue.init 10, F := F0 } with
    | none => none
    | some s0 => (bfsLoop ps (nodeBound ps + 1) s0).map (·.F)

/-- `BuildFailureLinks()` called again on a trie that has been built before (and possibly
extended by further `Insert`s since). -/
def Trie.rebuild (t : Trie) : Option Trie :=
  (buildFailFrom t.pats t.fail).map fun F => { t with fail := F }

/-! ### the automaton step shared by Match / find / FuzzySearch -/

/-- `idx := index(node.children, v); for node != root && idx < 0 { node = node.fail; idx = index(node.children, v) }`. -/
def fallLoop (t : Trie) (v : Int) : Nat → Label → Option Nat → Option (Label × Option Nat)
  | 0, _, _ => none
  | fuel + 1, node, idx =>
    if node ≠ [] ∧ idx = none then
      match t.failOf node with
      | none => none                       -- nil pointer dereference
      | some m =>
        match t.children m with
        | none => none
        | some cs =>
          match index cs v with
          | none => none
          | some idx' => fallLoop t v fuel m idx'
    else some (node, idx)

def fallback (t : Trie) (node : Label) (v : Int) : Option (Label × Option Nat) :=
  match t.children node with
  | none => none
  | some cs =>
    match index cs v with
    | none => none
    | some idx => fallLoop t v (node.length + 1) node idx

/-- `node.children[idx].node`. -/
def childAt (t : Trie) (node : Label) (idx : Nat) : Option Label :=
  match t.children node with
  | none => none
  | some cs => (cs[idx]?).map fun v => node ++ [v]

structure Scope where
  start : Int
  stop : Int
deriving Repr, DecidableEq

/-- `for tempNode != root { if tempNode.isEnd { emit {i - size, i} }; tempNode = tempNode.fail }`:
the scopes emitted at byte offset `i`. -/
def outWalk (t : Trie) (i : Nat) : Nat → Label → Option (List Scope)
  | 0, _ => none
  | fuel + 1, temp =>
    if temp ≠ [] then
      match t.failOf temp with
      | none => none
      | some m =>
        (outWalk t i fuel m).map fun rest =>
          if isEnd t.pats temp then ⟨(i : Int) - sizeOf t.pats temp, i⟩ :: rest else rest
    else some []

/-- The same walk in `Match`: does some node on the chain have `isEnd`? -/
def anyEndWalk (t : Trie) : Nat → Label → Option Bool
  | 0, _ => none
  | fuel + 1, temp =>
    if temp ≠ [] then
      if isEnd t.pats temp then some true
      else
        match t.failOf temp with
        | none => none
        | some m => anyEndWalk t fuel m
    else some false

/-- `find(text, &scopes)` on the decoded text. State: node, byte offset `i`, scopes so far. -/
def findLoop (t : Trie) : List Step → Label → Nat → List Scope → Option (List Scope)
  | [], _, _, acc => some acc
  | (r, size) :: rest, node, i, acc =>
    let i := i + size
    match fallback t node r with
    | none => none
    | some (node, none) => findLoop t rest node i acc
    | some (node, some idx) =>
      match childAt t node idx with
      | none => none
      | some node' =>
        match outWalk t i (node'.length + 1) node' with
        | none => none
        | some out => findLoop t rest node' i (acc ++ out)

def findSteps (t : Trie) (text : List Step) : Option (List Scope) := findLoop t text [] 0 []

/-- `Match(text)` on the decoded text. -/
def matchLoop (t : Trie) : List Step → Label → Option Bool
  | [], _ => some false
  | (r, _) :: rest, node =>
    match fallback t node r with
    | none => none
    | some (node, none) => matchLoop t rest node
    | some (node, some idx) =>
      match childAt t node idx with
      | none => none
      | some node' =>
        match anyEndWalk t (node'.length + 1) node' with
        | none => none
        | some true => some true
        | some false => matchLoop t rest node'

def matchSteps (t : Trie) (text : List Step) : Option Bool := matchLoop t text []

/-- Go `s[lo:hi]` on a string with `int` bounds. -/
def sliceInt? (bs : List Nat) (lo hi : Int) : Option (List Nat) :=
  if 0 ≤ lo ∧ lo ≤ hi ∧ hi ≤ bs.length then some ((bs.take hi.toNat).drop lo.toNat) else none

/-- `for i, v := range scopes { keywords[i] = text[v.start:v.stop] }`. -/
def cutAll (text : List Nat) : List Scope → Option (List (List Nat))
  | [] => some []
  | s :: ss =>
    match sliceInt? text s.start s.stop with
    | none => none
    | some w => (cutAll text ss).map (w :: ·)

def findAllWith (dec : List Nat → Step) (t : Trie) (text : List Nat) : Option (List (List Nat)) :=
  match findSteps t (decodeAllWith dec text) with
  | none => none
  | some scopes => cutAll text scopes

def matchWith (dec : List Nat → Step) (t : Trie) (text : List Nat) : Option Bool :=
  matchSteps t (decodeAllWith dec text)

/-! ### PrefixSearch / FuzzySearch: explicit stack + shared buffer -/

structure Frame where
  r : Int
  depth : Int
  node : Label
deriving Repr

/-- `buf.Truncate(n)`: panics unless `0 ≤ n ≤ len`. -/
def truncate? (buf : List Nat) (n : Int) : Option (List Nat) :=
  if 0 ≤ n ∧ n ≤ buf.length then some (buf.take n.toNat) else none

/-- Pushing `children` in order onto the Go stack (top = last pushed); the model keeps
the top at the head. -/
def pushFrames (node : Label) (depth : Int) (cs : List Int) (stack : List Frame) : List Frame :=
  (cs.map fun v => (⟨v, depth, node ++ [v]⟩ : Frame)).reverse ++ stack

/-- The `for len(stack) > 0 { … }` loop.  `w` is the number by which `depth` advances per
rune and `enc` what is written per rune (repaired code: `runeWidth` / `writeRune`;
pre-fix F3: `fun _ => 1`). -/
def dfsLoop (t : Trie) (w : Int → Int) (enc : Int → List Nat) :
    Nat → List Frame → List Nat → List (List Nat) → Option (List (List Nat))
  | 0, _, _, _ => none
  | _ + 1, [], _, ret => some ret
  | fuel + 1, cur :: stack, buf, ret =>
    let buf := buf ++ enc cur.r
    let ret := if isEnd t.pats cur.node then ret ++ [buf] else ret
    match t.children cur.node with
    | none => none
    | some [] =>
      match stack with
      | [] => some ret                       -- break
      | nxt :: _ =>
        let back := cur.depth + w cur.r - nxt.depth
        match truncate? buf ((buf.length : Int) - back) with
        | none => none
        | some buf' => dfsLoop t w enc fuel stack buf' ret
    | some cs => dfsLoop t w enc fuel (pushFrames cur.node (cur.depth + w cur.r) cs stack) buf ret

/-- Walk the key from the root without fallback (`PrefixSearch`): `none` inside = `return nil`. -/
def descend (t : Trie) : List Step → Label → Option (Option Label)
  | [], node => some (some node)
  | (v, _) :: rest, node =>
    match t.children node with
    | none => none
    | some cs =>
      match index cs v with
      | none => none
      | some none => some none
      | some (some idx) =>
        match cs[idx]? with
        | none => none
        | some c => descend t rest (node ++ [c])

def prefixSearchWith (dec : List Nat → Step) (w : Int → Int) (enc : Int → List Nat)
    (t : Trie) (key : List Nat) : Option (List (List Nat)) :=
  match descend t (decodeAllWith dec key) [] with
  | none => none
  | some none => some []
  | some (some node) =>
    match t.children node with
    | none => none
    | some [] => if isEnd t.pats node then some [key] else some []
    | some cs =>
      let ret := if isEnd t.pats node then [key] else []
      dfsLoop t w enc (nodeBound t.pats + 1) (pushFrames node 0 cs []) key ret

/-- Walk the key with fallback (`FuzzySearch`): inner `none` = `return nil`. -/
def fuzzyDescend (t : Trie) : List Step → Label → Option (Option Label)
  | [], node => some (some node)
  | (v, _) :: rest, node =>
    match fallback t node v with
    | none => none
    | some (_, none) => some none
    | some (node, some idx) =>
      match childAt t node idx with
      | none => none
      | some node' => fuzzyDescend t rest node'

/-- `for node != root { buf.WriteString(key[len(key)-node.size:]); … ; buf.Reset(); node = node.fail }`. -/
def fuzzyOuter (t : Trie) (w : Int → Int) (enc : Int → List Nat) (key : List Nat) :
    Nat → Label → List (List Nat) → Option (List (List Nat))
  | 0, _, _ => none
  | fuel + 1, node, ret =>
    if node ≠ [] then
      match sliceInt? key ((key.length : Int) - sizeOf t.pats node) key.length with
      | none => none
      | some suffix =>
        let ret := if isEnd t.pats node then ret ++ [suffix] else ret
        match t.children node with
        | none => none
        | some cs =>
          match dfsLoop t w enc (nodeBound t.pats + 1) (pushFrames node 0 cs []) suffix ret with
          | none => none
          | some ret' =>
            match t.failOf node with
            | none => none
            | some m => fuzzyOuter t w enc key fuel m ret'
    else some ret

def fuzzySearchWith (dec : List Nat → Step) (w : Int → Int) (enc : Int → List Nat)
    (t : Trie) (key : List Nat) : Option (List (List Nat)) :=
  if key.isEmpty then prefixSearchWith dec w enc t key
  else
    match fuzzyDescend t (decodeAllWith dec key) [] with
    | none => none
    | some none => some []
    | some (some node) =>
      match t.children node with
      | none => none
      | some cs =>
        if cs.isEmpty ∧ t.failOf node = some [] then
          if isEnd t.pats node then
            (sliceInt? key ((key.length : Int) - sizeOf t.pats node) key.length).map fun s => [s]
          else some []
        else fuzzyOuter t w enc key (node.length + 1) node []

/-! ### the API on byte strings (repaired code) -/

/-- `Insert` of every pattern in order, then `BuildFailureLinks`. -/
def Trie.ofPatternsWith (dec : List Nat → Step) (pats : List (List Nat)) : Option Trie :=
  (pats.foldl (fun t p => t.insert (decodeAllWith dec p)) Trie.empty).build

def Trie.ofPatterns (pats : List (List Nat)) : Option Trie := Trie.ofPatternsWith decodeStep pats

def Trie.match (t : Trie) (text : List Nat) : Option Bool := matchWith decodeStep t text
def Trie.find (t : Trie) (text : List Nat) : Option (List Scope) := findSteps t (decodeAll text)
def Trie.findAll (t : Trie) (text : List Nat) : Option (List (List Nat)) := findAllWith decodeStep t text
def Trie.prefixSearch (t : Trie) (key : List Nat) : Option (List (List Nat)) :=
  prefixSearchWith decodeStep runeWidth writeRune t key
def Trie.fuzzySearch (t : Trie) (key : List Nat) : Option (List (List Nat)) :=
  fuzzySearchWith decodeStep runeWidth writeRune t key

end Golib.C05
