/-
Model of `heapz/adjustment.go` (`up`, `down`, `fix`, `build`) and of the textually identical
loops `std_up` / `std_down` of `heapz/std_heap.go`, mirroring the Go code statement by statement.

The algorithms are written once over an abstract container `σ` with the two callbacks the Go
code uses:

* `less s j i`  = `cmp(s[j], s[i])` resp. `h.Less(j, i)`  (`none` = the call panics, e.g. index out
  of range; the container may change — a recording container logs the call),
* `swap s i j`  = `swap(s, i, j)`  resp. `h.Swap(i, j)`.

Indices are Go `int`s (`Int`); `(j - 1) / 2` is Go's truncating division (`Int.tdiv`), so the
parent of `0` is `0`.  Loops take fuel; `Proof/C04*.lean` shows the fuel used by the callers is
sufficient (running out of fuel is reported as `none`).
-/
import Golib.Proto

namespace Golib.C04

structure Ops (σ : Type) where
  less : σ → Int → Int → Option (σ × Bool)
  swap : σ → Int → Int → Option σ

/--
```
for { i := (j - 1) / 2; if i == j || !cmp(s[j], s[i]) { break }; swap(s, i, j); j = i }
``` -/
def up {σ : Type} (o : Ops σ) : Nat → σ → Int → Option σ
  | 0, _, _ => none
  | f + 1, s, j =>
    let i := Int.tdiv (j - 1) 2
    if i = j then some s else
    match o.less s j i with
    | none => none
    | some (s1, false) => some s1
    | some (s1, true) =>
      match o.swap s1 i j with
      | none => none
      | some s2 => up o f s2 i

/--
```
i := i0
for {
  j1 := 2*i + 1
  if j1 >= n || j1 < 0 { break }
  j := j1
  if j2 := j1 + 1; j2 < n && cmp(s[j2], s[j1]) { j = j2 }
  if !cmp(s[j], s[i]) { break }
  swap(s, i, j); i = j
}
return i > i0
```
Returns the container and the final `i`. -/
def down {σ : Type} (o : Ops σ) : Nat → σ → Int → Int → Option (σ × Int)
  | 0, _, _, _ => none
  | f + 1, s, i, n =>
    let j1 := 2 * i + 1
    if j1 ≥ n ∨ j1 < 0 then some (s, i) else
    let j2 := j1 + 1
    match (if j2 < n then o.less s j2 j1 else some (s, false)) with
    | none => none
    | some (s1, b) =>
      let j := if b then j2 else j1
      match o.less s1 j i with
      | none => none
      | some (s2, false) => some (s2, i)
      | some (s2, true) =>
        match o.swap s2 i j with
        | none => none
        | some s3 => down o f s3 j n

/-! ### `down` with Go's 64-bit `int`

`down` above computes with ideal integers (the guard `j1 < 0` is then dead). `down64` is the same
loop with the index arithmetic of a 64-bit `int`: `2*i + 1` wraps around to a negative number for
`i ≥ 2^62` — reachable only with more than `2^62` elements, i.e. a zero-size element type
(`Slice[struct{}]`) — and the guard `j1 < 0` ends the loop there. `Proof/C04Overflow.lean`:
`down64 = down` for all sizes below `2^62`; with the guard the wrapped index ends the loop; without
it (`down64NoGuard`, finding C04-G) the comparator callback is called with a negative index. -/

/-- two's-complement wrap of a 64-bit `int` -/
def wrap64 (x : Int) : Int :=
  (x + 9223372036854775808) % 18446744073709551616 - 9223372036854775808

def down64 {σ : Type} (o : Ops σ) : Nat → σ → Int → Int → Option (σ × Int)
  | 0, _, _, _ => none
  | f + 1, s, i, n =>
    let j1 := wrap64 (2 * i + 1)
    if j1 ≥ n ∨ j1 < 0 then some (s, i) else
    let j2 := j1 + 1      -- `j1 < n ≤ MaxInt`: no wrap
    match (if j2 < n then o.less s j2 j1 else some (s, false)) with
    | none => none
    | some (s1, b) =>
      let j := if b then j2 else j1
      match o.less s1 j i with
      | none => none
      | some (s2, false) => some (s2, i)
      | some (s2, true) =>
        match o.swap s2 i j with
        | none => none
        | some s3 => down64 o f s3 j n

/-- the loop WITHOUT the overflow guard (`for j := 2*i + 1; j < n; …`) -/
def down64NoGuard {σ : Type} (o : Ops σ) : Nat → σ → Int → Int → Option (σ × Int)
  | 0, _, _, _ => none
  | f + 1, s, i, n =>
    let j1 := wrap64 (2 * i + 1)
    if j1 ≥ n then some (s, i) else
    let j2 := j1 + 1
    match (if j2 < n then o.less s j2 j1 else some (s, false)) with
    | none => none
    | some (s1, b) =>
      let j := if b then j2 else j1
      match o.less s1 j i with
      | none => none
      | some (s2, false) => some (s2, i)
      | some (s2, true) =>
        match o.swap s2 i j with
        | none => none
        | some s3 => down64NoGuard o f s3 j n

/-- Fuel for a `down` over a prefix of length `n`, and for an `up` from index `j`. -/
def fuelOf (n : Int) : Nat := n.toNat + 1

/-- `down(s, cmp, swap, i0, n)` with its boolean result `i > i0`. -/
def downB {σ : Type} (o : Ops σ) (s : σ) (i0 n : Int) : Option (σ × Bool) :=
  (down o (fuelOf n) s i0 n).map fun (s', i) => (s', decide (i > i0))

def upF {σ : Type} (o : Ops σ) (s : σ) (j : Int) : Option σ := up o (fuelOf j) s j

/-- `fix`: `if !down(s, cmp, swap, index, tail) { up(s, cmp, swap, index) }` -/
def fix {σ : Type} (o : Ops σ) (s : σ) (index tail : Int) : Option σ :=
  match downB o s index tail with
  | none => none
  | some (s1, true) => some s1
  | some (s1, false) => upF o s1 index

/-- `for i := n/2 - 1; i >= 0; i-- { down(s, cmp, swap, i, n) }` (argument `k` = `i + 1`). -/
def buildLoop {σ : Type} (o : Ops σ) (n : Int) : Nat → σ → Option σ
  | 0, s => some s
  | k + 1, s =>
    match downB o s (k : Int) n with
    | none => none
    | some (s1, _) => buildLoop o n k s1

/-- `build` / `Init`: `n := len(s)` -/
def build {σ : Type} (o : Ops σ) (s : σ) (n : Int) : Option σ :=
  buildLoop o n (Int.tdiv n 2).toNat s

/-! ### Go slices of `Int`-like cells -/

/-- `s[i]`; `none` = index out of range. -/
def nth {α : Type} (s : List α) (i : Int) : Option α :=
  if 0 ≤ i then s[i.toNat]? else none

/-- `s[i], s[j] = s[j], s[i]` -/
def swapL {α : Type} (s : List α) (i j : Int) : Option (List α) :=
  match nth s i, nth s j with
  | some a, some b => some ((s.set i.toNat b).set j.toNat a)
  | _, _ => none

/-- Comparators the driver knows (`T = int`; the low three decimal digits of a value are a tag
that makes equal keys distinguishable). -/
def cmpOf (name : String) : Option (Int → Int → Bool) :=
  if name = "lt" then some fun a b => decide (a < b)
  else if name = "gt" then some fun a b => decide (a > b)
  else if name = "key" then some fun a b => decide (Int.tdiv a 1000 < Int.tdiv b 1000)
  else if name = "rkey" then some fun a b => decide (Int.tdiv a 1000 > Int.tdiv b 1000)
  else none

end Golib.C04
