import Golib.Model.C13DList
import Golib.Model.C13SList

namespace Golib.C13
open Golib.Proto

/-- Entry point of the C13 section of the oracle: header tokens after `@ C13`. -/
def runCase (hdr : List String) (ops : List String) : List String :=
  -- `ty=<element type>`: which instantiation `DList[T]`/`SList[T]` the Go side runs; the model's
  -- element type is abstract (values are carried, never inspected), so the token is ignored here
  match hdr.filter (fun t => !t.startsWith "ty=") with
  | "dlist" :: rest => runDListCase rest ops
  | "slist" :: rest => runSListCase rest ops
  | _ => "bad-op" :: ops.map fun _ => "bad-op"

end Golib.C13
