/-
Model of the copy loop behind the six `…Stream` digest helpers (`/repo/hashz/hash.go`):

```go
func Md5Stream(s io.Reader) ([]byte, error) {
    h := md5.New()
    _, err := io.Copy(h, s)
    if err != nil { return nil, err }
    return strz.HexEncode(h.Sum(nil)), nil
}
```
`io.Copy` (no `WriterTo`/`ReaderFrom` shortcut, or with it: see `Shape.writerTo`) is
```go
for {
    nr, er := src.Read(buf)
    if nr > 0 { dst.Write(buf[0:nr]) }          // a hash.Hash never fails to Write
    if er != nil { if er != EOF { err = er }; break }
}
```
The READER is an input of the model: a script of `Read` results, each a chunk (possibly
empty: a `(0, nil)` read) together with what came with it — nothing, `io.EOF`, another error,
or a panic inside `Read`.  The hasher is the streaming hash it is in the standard library
(trusted): `Write` appends to the message, `Sum` digests the message written so far; so the
state of the loop is the list of bytes written.
-/
import Golib.Model.C15Hex

namespace Golib.C15

inductive RErr where
  | none | eof | other | panic
deriving Repr, DecidableEq

/-- One `Read` result: the bytes delivered and the error delivered WITH them. -/
abbrev ReadScript := List (List Nat × RErr)

inductive CopyRes where
  | ok (written : List Nat)        -- io.Copy returned nil
  | err (written : List Nat)       -- io.Copy returned a non-EOF error
  | panic (written : List Nat)     -- Read panicked
  | pending (written : List Nat)   -- the script ended without an error: the loop would Read again
deriving Repr, DecidableEq

/-- The loop of `io.Copy(h, s)`; `acc` = bytes written to the hasher so far. -/
def ioCopy : ReadScript → List Nat → CopyRes
  | [], acc => .pending acc
  | (chunk, e) :: rest, acc =>
    match e with
    | .panic => .panic acc
    | .none => ioCopy rest (acc ++ chunk)
    | .eof => .ok (acc ++ chunk)
    | .other => .err (acc ++ chunk)

/-- A `…Stream` helper on the reader script, for the digest function `H` of its algorithm:
`some (hex digest)`, or `none` for the error return; a panic propagates. -/
inductive StreamRes where
  | value (hexDigest : Option (List Nat))   -- inner `none` = HexEncode panicked (never, proved)
  | error
  | panic
  | pending
deriving Repr, DecidableEq

def streamHelper (H : List Nat → List Nat) (s : ReadScript) : StreamRes :=
  match ioCopy s [] with
  | .ok w => .value (hexEncode? (H w))
  | .err _ => .error
  | .panic _ => .panic
  | .pending _ => .pending

/-! ### the reader shapes of the harness as scripts (driver side) -/

/-- Split into chunks of `k ≥ 1` bytes. `fuel` = an upper bound on the number of chunks. -/
def chunksOf (k : Nat) : Nat → List Nat → List (List Nat)
  | 0, _ => []
  | _ + 1, [] => []
  | fuel + 1, l => l.take (max k 1) :: chunksOf k fuel (l.drop (max k 1))

/-- All chunks without error, then a final `(0, EOF)` read. -/
def scriptThenEOF (cs : List (List Nat)) : ReadScript := cs.map (fun c => (c, RErr.none)) ++ [([], .eof)]

/-- The last chunk arrives together with `io.EOF` (iotest.DataErrReader, a short ReadAt). -/
def scriptDataEOF : List (List Nat) → ReadScript
  | [] => [([], .eof)]
  | [c] => [(c, .eof)]
  | c :: cs => (c, .none) :: scriptDataEOF cs

/-- A `(0, nil)` read before every chunk and before the final EOF. -/
def scriptZeroReads (cs : List (List Nat)) : ReadScript :=
  cs.flatMap (fun c => [([], RErr.none), (c, .none)]) ++ [([], .none), ([], .eof)]

def shapeScript (shape : String) (inp : List Nat) : Option ReadScript :=
  let n := inp.length
  let ch := fun k => chunksOf k (n + 1) inp
  if shape = "st" then some (scriptThenEOF (ch (1 + n / 3)))
  else if shape = "st1" then some (scriptThenEOF (ch 1))
  else if shape = "stw" then some [(inp, .eof)]                 -- WriterTo: one Write of everything
  else if shape = "ste" then some (scriptDataEOF (ch (1 + n / 3)))
  else if shape = "ste4" then some (scriptDataEOF (ch 4096))
  else if shape = "sto" then some (scriptThenEOF (ch 1))
  else if shape = "sth" then some (scriptThenEOF (ch 16384))
  else if shape = "sts" then some (scriptDataEOF (ch 32768))
  else if shape = "stz" then some (scriptZeroReads (ch (1 + n / 2)))
  else if shape = "stb" then some (scriptThenEOF (ch 32768))      -- io.Copy's buffer, filled every time
  else if shape = "stbe" then some (scriptDataEOF (ch 32768))
  else none

/-- The failing readers of the history op: the data in two halves, then the failure. -/
def failScript (mode : String) (data : List Nat) : Option ReadScript :=
  let h := data.length / 2
  let a := data.take h
  let b := data.drop h
  if mode = "errafter" then some [(a, .none), (b, .none), ([], .other)]
  else if mode = "witherr" then some [(a, .none), (b, .other)]
  else if mode = "timeout" then some [(a, .none), ([], .other)]
  else if mode = "panic" then some [(a, .none), (b, .none), ([], .panic)]
  else none

end Golib.C15
