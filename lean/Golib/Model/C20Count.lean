/-
Model of `randz/count.go`: `AddRule` (append, then `sort.Slice` by period — for the
rule counts used here an insertion sort, i.e. stable), `Generate`, `Max`, `Min`,
`getRand` (with the `uint64(max)` conversion of the repaired code) and `hashz.BKDRHash`.
Go `int` is unbounded (`Int`); `/` is truncated division; division by zero = panic.
-/
import Golib.Proto

namespace Golib.C20
open Golib.Proto

structure Rule where
  period           : Int
  periodEndMaxIncr : Int
  interval         : Int
  intervalMaxIncr  : Int
deriving Repr, DecidableEq

/-- Stable insertion of the appended rule (sort by `period <`). -/
def insertRule (x : Rule) : List Rule → List Rule
  | [] => [x]
  | y :: ys => if x.period < y.period then x :: y :: ys else y :: insertRule x ys

def addRule (rs : List Rule) (x : Rule) : List Rule := insertRule x rs

/-- `hashz.BKDRHash`. -/
def bkdrHash (s : List Nat) : Nat :=
  (s.foldl (fun h c => (h * 131 + c) % 2^32) 0) % 2^31

/-- Go integer division: panics on a zero divisor. -/
def goDiv (a b : Int) : Option Int := if b = 0 then none else some (Int.tdiv a b)

/-- `getRand(n, max)`: `0` for `max == 0`, else `int(uint64(n)%uint64(max)) + 1` (the code
after the repair of F14; `uint64(max)` of a non-zero Go `int` is never 0, the `none` branch
is only there because the model's `max` is an unbounded `Int`). -/
def getRand (n : Nat) (max : Int) : Option Int :=
  if max = 0 then some 0 else
  let m := (max % 2^64).toNat                      -- `uint64(max)`
  if m = 0 then none else some (((n % m : Nat) : Int) + 1)

/-- The loop of `Generate`. -/
def genLoop (hn : Nat) (diff : Int) : List Rule → Int → Int → Option Int
  | [], count, _ => some count
  | v :: rs, count, lastPeriod =>
    match getRand hn v.intervalMaxIncr with
    | none => none
    | some multi =>
      if diff < v.period then
        (goDiv (diff - lastPeriod) v.interval).map fun q => q * multi + count
      else
        match goDiv (v.period - lastPeriod) v.interval, getRand hn v.periodEndMaxIncr with
        | some q, some pe => genLoop hn diff rs (count + (q * multi + pe)) v.period
        | _, _ => none

def countGenerate (rs : List Rule) (hn : Nat) (diff : Int) : Option Int :=
  if diff ≤ 0 then some 0 else genLoop hn diff rs 0 0

def maxLoop (diff : Int) : List Rule → Int → Int → Option Int
  | [], count, _ => some count
  | v :: rs, count, last =>
    if diff < v.period then
      (goDiv (diff - last) v.interval).map fun q => q * v.intervalMaxIncr + count
    else
      match goDiv (v.period - last) v.interval with
      | some q => maxLoop diff rs (count + (q * v.intervalMaxIncr + v.periodEndMaxIncr)) v.period
      | none => none

def countMax (rs : List Rule) (diff : Int) : Option Int :=
  if diff ≤ 0 then some 0 else maxLoop diff rs 0 0

def minLoop (diff : Int) : List Rule → Int → Int → Option Int
  | [], count, _ => some count
  | v :: rs, count, last =>
    if diff < v.period then
      (goDiv (diff - last) v.interval).map fun q => q + count
    else
      match goDiv (v.period - last) v.interval with
      | some q => minLoop diff rs (count + (q + 1)) v.period
      | none => none

def countMin (rs : List Rule) (diff : Int) : Option Int :=
  if diff ≤ 0 then some 0 else minLoop diff rs 0 0

/-! ### value copies of `CountGenerator` (`b := *a`): append aliasing

`CountGenerator` holds one slice; a struct copy shares its backing array.  `AddRule` does
`r.rules = append(r.rules, x)` and then sorts `r.rules` IN PLACE.  Go's `append` writes into
the shared array when it has spare capacity (`len < cap`) and allocates a new array
otherwise.  `RuleSlice` = backing array (its length is the capacity) + slice length. -/

structure RuleSlice where
  arr : List Rule
  len : Nat
deriving Repr, DecidableEq

/-- what the slice shows -/
def RuleSlice.view (s : RuleSlice) : List Rule := s.arr.take s.len

/-- `AddRule` through slice `s`: the slice afterwards and whether a new array was
allocated; `newCap` is the capacity the runtime picks when it has to grow (an input). -/
def RuleSlice.add (s : RuleSlice) (x : Rule) (newCap : Nat) : RuleSlice × Bool :=
  let sorted := (s.view ++ [x]).foldl addRule []          -- sort.Slice of the len+1 elements
  if s.len < s.arr.length then
    ({ arr := sorted ++ s.arr.drop (s.len + 1), len := s.len + 1 }, false)   -- same array
  else
    ({ arr := sorted ++ List.replicate (newCap - (s.len + 1)) ⟨0, 0, 0, 0⟩, len := s.len + 1 }, true)

/-- What a COPY `b` (same array, its own length `b.len = s.len`) shows after `AddRule`
through the original: the shared array if it was written in place, the old array otherwise. -/
def RuleSlice.copyViewAfter (s : RuleSlice) (x : Rule) (newCap : Nat) : List Rule :=
  let (s', alloc) := s.add x newCap
  if alloc then s.view else s'.arr.take s.len

/-! ### driver -/

def parseRule (s : String) : Option Rule :=
  match (s.splitOn ",").mapM String.toInt? with
  | some [p, pe, i, im] => some ⟨p, pe, i, im⟩
  | _ => none

def showRule (r : Rule) : String :=
  s!"{r.period},{r.periodEndMaxIncr},{r.interval},{r.intervalMaxIncr}"

def countStep (rs : List Rule) (ts : List String) : Option String :=
  match ts with
  | ["gen", idh, d] =>
    match unhex idh, d.toInt? with
    | some id, some d => (countGenerate rs (bkdrHash id) d).map toString
    | _, _ => some "bad-op"
  | ["max", d] =>
    match d.toInt? with
    | some d => (countMax rs d).map toString
    | none => some "bad-op"
  | ["min", d] =>
    match d.toInt? with
    | some d => (countMin rs d).map toString
    | none => some "bad-op"
  | _ => some "bad-op"

end Golib.C20
