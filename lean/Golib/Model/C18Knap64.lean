/-
The 64-bit twin of `algz.Knapsack` and of the one addition of `algz.FindDpSolvers`
(`/repo/algz/dp.go`).

Every other C18 model computes with unbounded `Int` (DESIGN §3.3: Go `int` ↦ `Int`).  Here the
`int` arithmetic of the code is performed the way the machine performs it: every `+`, `-`, `--`
is followed by `wrap64` (two's-complement wrap-around into `[-2^63, 2^63)`), `make([]T, n)`
panics for `n < 0`, an index expression panics outside `0 ≤ i < len`.

```go
dp := make([]knapsack[T], maxWeight+1)            // wrap64 (W + 1); negative length panics
for _, item := range items {
    w := weightFunc(item); value := valueFunc(item)
    for i := maxWeight; i >= w; i-- {              // i-- = wrap64 (i - 1)
        newScore := dp[i-w].score + value          // index wrap64 (i - w); sum `add score value`
        … dp[i] …
    }
}
return dp[maxWeight].items
```

The score addition is the parameter `add` (`add64` = the machine's wrapping addition, `(· + ·)` =
the ideal one), so that the two claims can be stated separately:

* the INDEX arithmetic (`maxWeight+1`, `i >= w`, `i-w`, `i--`) agrees with the ideal-integer model
  `knapsackGo` for ALL 64-bit limits and ALL 64-bit weights — huge (`math.MaxInt`, `1<<62`),
  zero or negative — with no guard at all: the code never adds weights, it subtracts `w` from
  `i` only after `i >= w` (`c18_knapsack_int64_weights`);
* the VALUE arithmetic (`score + value`) agrees under the guard "the sum of the absolute values is
  `< 2^63`" and only there (`c18_knapsack_int64_exact`).

A loop is a structural recursion on fuel; running out of fuel is its own outcome (`Run.fuel`),
never confused with a panic, and the theorems show it does not happen.
-/
import Golib.Model.C18Knap
import Golib.Model.C18Solv

namespace Golib.C18

/-- Two's-complement wrap-around of a Go `int` (64 bits). -/
def wrap64 (x : Int) : Int :=
  (x + 9223372036854775808) % 18446744073709551616 - 9223372036854775808

/-- The machine's `a + b` on `int`. -/
def add64 (a b : Int) : Int := wrap64 (a + b)

/-- Outcome of running Go code: a value, a run-time panic, or "the model ran out of fuel". -/
inductive Run (β : Type) where
  | ok (b : β)
  | panic
  | fuel
deriving Repr, DecidableEq

/-- `some` = returned, `none` = panicked. -/
def Run.ofOption {β : Type} : Option β → Run β
  | some b => .ok b
  | none => .panic

section
variable {α : Type} (add : Int → Int → Int) (br : Option (List α → List α → Bool))

/-- The body of the inner loop at loop variable `i`: `dp[i-w]` and `dp[i]` are Go index
expressions (panic outside the table), `i-w` wraps. -/
def kStep64 (item : α) (w value i : Int) (dp : List (Cell α)) : Option (List (Cell α)) :=
  let j := wrap64 (i - w)
  if j < 0 ∨ i < 0 then none else
  match dp[j.toNat]?, dp[i.toNat]? with
  | some src, some cur =>
    let newScore := add src.1 value
    if newScore > cur.1 then
      some (dp.set i.toNat (newScore, src.2 ++ [item]))
    else if newScore = cur.1 then
      match br with
      | none => some dp
      | some b =>
        let tmp := src.2 ++ [item]
        if b cur.2 tmp then some (dp.set i.toNat (newScore, tmp)) else some dp
    else some dp
  | _, _ => none

/-- `for i := …; i >= w; i-- { … }` from the current `i`. -/
def kInner64 (item : α) (w value : Int) : Nat → Int → List (Cell α) → Run (List (Cell α))
  | 0, _, _ => .fuel
  | f + 1, i, dp =>
    if i ≥ w then
      match kStep64 add br item w value i dp with
      | none => .panic
      | some dp' => kInner64 item w value f (wrap64 (i - 1)) dp'
    else .ok dp

variable (wf vf : α → Int) (W : Int)

/-- The outer loop; `fuel` bounds each inner loop. -/
def kItems64 (fuel : Nat) : List α → List (Cell α) → Run (List (Cell α))
  | [], dp => .ok dp
  | x :: xs, dp =>
    match kInner64 add br x (wf x) (vf x) fuel W dp with
    | .ok dp' => kItems64 fuel xs dp'
    | .panic => .panic
    | .fuel => .fuel

/-- `Knapsack(W, items, wf, vf, br…)` on 64-bit `int`s. -/
def knapsack64 (items : List α) : Run (List α) :=
  let n := wrap64 (W + 1)
  if n < 0 then .panic else
  match kItems64 add br wf vf W (n.toNat + 1) items (List.replicate n.toNat (0, [])) with
  | .ok dp =>
    if W < 0 then .panic else
    match dp[W.toNat]? with
    | some c => .ok c.2
    | none => .panic
  | .panic => .panic
  | .fuel => .fuel

end

/-! ### FindDpSolvers: `newValue := currentValue + value` on 64-bit `int`s

The only arithmetic of `FindDpSolvers` is that addition (everything else compares).  `vStep1A`
… `solversVA` are `vStep1` … `solversV` with the addition as a parameter. -/

section
variable {α : Type} (add : Int → Int → Int) (br : Option (List α → List α → Bool))
variable (maxV : Int) (allowOver : Bool)

def vStep1A (item : α) (value : Int) (st : VSt α) (e : Int × List α) : VSt α :=
  let newValue := add e.1 value
  if newValue > maxV ∧ (allowOver = false ∨ (st.overflow > 0 ∧ newValue > st.overflow)) then st
  else
    let st1 : VSt α := if newValue > maxV then { st with overflow := newValue } else st
    match alLookup newValue st1.dp, br with
    | some _, none => st1
    | some old, some b =>
      let newSolver := e.2 ++ [item]
      if b old newSolver then { st1 with tmp := alInsert newValue newSolver st1.tmp } else st1
    | none, _ => { st1 with tmp := alInsert newValue (e.2 ++ [item]) st1.tmp }

variable (vf : α → Int) (ord1 ord2 : Nat → List Int → List Int)

def vPassA (i : Nat) (item : α) (st : VSt α) : VSt α :=
  let st1 := (entriesIn st.dp (ord1 i (st.dp.map (·.1)))).foldl (vStep1A add br maxV allowOver item (vf item)) st
  (entriesIn st1.tmp (ord2 i (st1.tmp.map (·.1)))).foldl vStep2 st1

def vItemsA : Nat → List α → VSt α → VSt α
  | _, [], st => st
  | i, x :: xs, st => vItemsA (i + 1) xs (vPassA add br maxV allowOver vf ord1 ord2 i x st)

/-- `FindDpSolvers` on values with the given addition (`add64` = the machine's). -/
def solversVA (items : List α) : List (Int × List α) :=
  (vItemsA add br maxV allowOver vf ord1 ord2 0 items { dp := [(0, [])], tmp := [], overflow := 0 }).dp

end

end Golib.C18
