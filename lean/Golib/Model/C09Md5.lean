/-
MD5 (RFC 1321), core-only and executable.

Executable instance of the `md5` parameter of the C09 model; a model of the Go standard
library (`crypto/md5`), NOT of code in /repo.  Nothing is proved about it (the theorems
only need `|md5 x| = 16`, which is a hypothesis).  Validated
  * at build time against the RFC 1321 test suite (`#guard` lines at the end: TESTS);
  * on every run against `crypto/md5` through the correspondence check (key derivation).
-/
namespace Golib.C09.MD5

def kTab : Array UInt32 := #[
    0xd76aa478, 0xe8c7b756, 0x242070db, 0xc1bdceee,
    0xf57c0faf, 0x4787c62a, 0xa8304613, 0xfd469501,
    0x698098d8, 0x8b44f7af, 0xffff5bb1, 0x895cd7be,
    0x6b901122, 0xfd987193, 0xa679438e, 0x49b40821,
    0xf61e2562, 0xc040b340, 0x265e5a51, 0xe9b6c7aa,
    0xd62f105d, 0x02441453, 0xd8a1e681, 0xe7d3fbc8,
    0x21e1cde6, 0xc33707d6, 0xf4d50d87, 0x455a14ed,
    0xa9e3e905, 0xfcefa3f8, 0x676f02d9, 0x8d2a4c8a,
    0xfffa3942, 0x8771f681, 0x6d9d6122, 0xfde5380c,
    0xa4beea44, 0x4bdecfa9, 0xf6bb4b60, 0xbebfbc70,
    0x289b7ec6, 0xeaa127fa, 0xd4ef3085, 0x04881d05,
    0xd9d4d039, 0xe6db99e5, 0x1fa27cf8, 0xc4ac5665,
    0xf4292244, 0x432aff97, 0xab9423a7, 0xfc93a039,
    0x655b59c3, 0x8f0ccc92, 0xffeff47d, 0x85845dd1,
    0x6fa87e4f, 0xfe2ce6e0, 0xa3014314, 0x4e0811a1,
    0xf7537e82, 0xbd3af235, 0x2ad7d2bb, 0xeb86d391
  ]

def sTab : Array Nat := #[
    7, 12, 17, 22, 7, 12, 17, 22, 7, 12, 17, 22, 7, 12, 17, 22,
    5, 9, 14, 20, 5, 9, 14, 20, 5, 9, 14, 20, 5, 9, 14, 20,
    4, 11, 16, 23, 4, 11, 16, 23, 4, 11, 16, 23, 4, 11, 16, 23,
    6, 10, 15, 21, 6, 10, 15, 21, 6, 10, 15, 21, 6, 10, 15, 21
  ]

def rotl (x : UInt32) (s : Nat) : UInt32 :=
  (x <<< s.toUInt32) ||| (x >>> (32 - s).toUInt32)

def leBytes (n : Nat) (len : Nat) : List Nat := (List.range len).map fun i => (n >>> (8 * i)) % 256

/-- message ‖ 0x80 ‖ zeros ‖ 64-bit little-endian bit length, a multiple of 64 bytes. -/
def padMsg (m : List Nat) : List Nat :=
  m ++ [0x80] ++ List.replicate ((119 - m.length % 64) % 64) 0 ++ leBytes ((8 * m.length) % 2 ^ 64) 8

def word (blk : Array Nat) (g : Nat) : UInt32 :=
  (blk.getD (4*g) 0 + blk.getD (4*g+1) 0 * 256 + blk.getD (4*g+2) 0 * 65536
    + blk.getD (4*g+3) 0 * 16777216).toUInt32

structure St where
  a : UInt32
  b : UInt32
  c : UInt32
  d : UInt32

def round (blk : Array Nat) (s : St) (i : Nat) : St :=
  let fg : UInt32 × Nat :=
    if i < 16 then ((s.b &&& s.c) ||| (~~~ s.b &&& s.d), i)
    else if i < 32 then ((s.d &&& s.b) ||| (~~~ s.d &&& s.c), (5 * i + 1) % 16)
    else if i < 48 then (s.b ^^^ s.c ^^^ s.d, (3 * i + 5) % 16)
    else (s.c ^^^ (s.b ||| ~~~ s.d), (7 * i) % 16)
  let f := fg.1 + s.a + kTab.getD i 0 + word blk fg.2
  { a := s.d, d := s.c, c := s.b, b := s.b + rotl f (sTab.getD i 0) }

def processBlock (s : St) (blk : List Nat) : St :=
  let arr := blk.toArray
  let t := (List.range 64).foldl (round arr) s
  { a := s.a + t.a, b := s.b + t.b, c := s.c + t.c, d := s.d + t.d }

def blocks64 : Nat → List Nat → List (List Nat)
  | 0, _ => []
  | f + 1, x => if x.isEmpty then [] else x.take 64 :: blocks64 f (x.drop 64)

/-- `md5.Sum(m)` as 16 bytes. -/
def md5 (m : List Nat) : List Nat :=
  let p := padMsg (m.map (· % 256))
  let s := (blocks64 p.length p).foldl processBlock
    { a := 0x67452301, b := 0xefcdab89, c := 0x98badcfe, d := 0x10325476 }
  leBytes s.a.toNat 4 ++ leBytes s.b.toNat 4 ++ leBytes s.c.toNat 4 ++ leBytes s.d.toNat 4

/-! ### Tests (RFC 1321 A.5) — `#guard` evaluates, it proves nothing. -/

private def ascii (s : String) : List Nat := s.toList.map Char.toNat
private def hexOf (b : List Nat) : String :=
  String.ofList (b.flatMap fun x => [("0123456789abcdef".toList).getD (x / 16) '?', ("0123456789abcdef".toList).getD (x % 16) '?'])

-- test: RFC 1321 test suite
#guard hexOf (md5 (ascii "")) = "d41d8cd98f00b204e9800998ecf8427e"
#guard hexOf (md5 (ascii "a")) = "0cc175b9c0f1b6a831c399e269772661"
#guard hexOf (md5 (ascii "abc")) = "900150983cd24fb0d6963f7d28e17f72"
#guard hexOf (md5 (ascii "message digest")) = "f96b697d7cb7938d525a2f31aaf161d0"
#guard hexOf (md5 (ascii "abcdefghijklmnopqrstuvwxyz")) = "c3fcd3d76192e4007dfb496cca67e13b"
#guard hexOf (md5 (ascii "ABCDEFGHIJKLMNOPQRSTUVWXYZabcdefghijklmnopqrstuvwxyz0123456789")) =
  "d174ab98d277d9f5a5611c2c9f419d9f"
#guard hexOf (md5 (ascii "12345678901234567890123456789012345678901234567890123456789012345678901234567890")) =
  "57edf4a22be3c955ac49da2e2107b67a"
-- test: padding boundaries (55, 56, 63, 64 bytes) all give 16 bytes
#guard [55, 56, 63, 64, 65].all fun n => (md5 (List.replicate n 97)).length = 16

end Golib.C09.MD5
