/-
`BronKerbosch`'s `R` as the shared backing array it is in the code (`/repo/algz/graph.go`):

```go
func (g *Graph[T]) BronKerbosch(R, P, X []T, cliques *[][]T) {
    if len(P) == 0 && len(X) == 0 {
        clique := append(([]T)(nil), R...)        // copy
        *cliques = append(*cliques, clique); return
    }
    for _, v := range P {
        g.BronKerbosch(append(R, v), …)            // may write R's array in place
        …
    }
}
```

A Go slice is `(array id, len)` into a heap of arrays (an array = the list of its `cap`
cells).  `append(R, v)` writes cell `len` of R's array in place when `len < cap` — the
array `GetMaximalCliques` allocates has `cap = len(g.Nodes)`, so this is the normal case, and
every sibling iteration of the loop writes the SAME cell, which the previous sibling's whole
subtree also had as part of its `R` — and otherwise allocates a fresh array whose spare
capacity is chosen by the arbitrary policy `grow`.  `bkH` threads the heap through the
recursion exactly in execution order; cliques are read out of the heap at the moment they are
emitted (the copy).  `P` and `X` are values here: inside the recursion they are fresh results
of `intersect`; the top-level sharing of `P`/`X` is `bkTop` (`c18_top_alias_safe`).
-/
import Golib.Model.C18Graph

namespace Golib.C18

structure RSlice where
  id : Nat
  len : Nat
deriving Repr, DecidableEq

abbrev RHeap (V : Type) := List (List V)

section
variable {V : Type} (nb : V → V → Bool) (grow : Nat → Nat)

/-- `R[0:len]`; `none` = the slice does not fit its array (never happens, proved). -/
def readR (h : RHeap V) (r : RSlice) : Option (List V) :=
  match h[r.id]? with
  | some a => if r.len ≤ a.length then some (a.take r.len) else none
  | none => none

/-- `append(R, v)`. -/
def appendR (h : RHeap V) (r : RSlice) (v : V) : Option (RHeap V × RSlice) :=
  match h[r.id]? with
  | none => none
  | some a =>
    if r.len < a.length then
      some (h.set r.id (a.set r.len v), { id := r.id, len := r.len + 1 })   -- in place
    else if r.len = a.length then
      -- reallocation: old elements copied, `v` appended, `grow cap` spare cells (content irrelevant)
      some (h ++ [a ++ v :: List.replicate (grow a.length) v], { id := h.length, len := r.len + 1 })
    else none

/-- The `for _, v := range P` loop on the heap. -/
def bkLoopH (rec : RHeap V → RSlice → List V → List V → Option (RHeap V × List (List V)))
    (r : RSlice) : List V → List V → RHeap V → Option (RHeap V × List (List V))
  | [], _, h => some (h, [])
  | v :: P', X, h =>
    match appendR grow h r v with
    | none => none
    | some (h1, r1) =>
      match rec h1 r1 (isect nb (v :: P') v) (isect nb X v) with
      | none => none
      | some (h2, a) =>
        match bkLoopH rec r P' (X ++ [v]) h2 with
        | none => none
        | some (h3, b) => some (h3, a ++ b)

/-- `BronKerbosch(R, P, X, &cliques)` with `R` in the heap: final heap and the cliques appended. -/
def bkH : Nat → RHeap V → RSlice → List V → List V → Option (RHeap V × List (List V))
  | 0 => fun _ _ _ _ => none
  | fuel + 1 => fun h r P X =>
    if P.isEmpty && X.isEmpty then (readR h r).map fun R => (h, [R])
    else bkLoopH nb grow (bkH fuel) r P X h

end
end Golib.C18
