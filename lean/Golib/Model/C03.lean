import Golib.Proto
import Golib.Model.C03Roaring

/-
C03 driver.  Header `@ C03 rb` (zero-value RoaringBitmap).  Operations:
  add x | rm x | has x | len
  fill hi start n step    add  hi<<16 | ((start + i*step) mod 65536), i < n; answers #true
  drain hi start n step   remove the same values; answers #true
  range k | all k         enumerate with a callback answering false on its k-th call (0: never)
  iter                    for it.Next() { it.Value() }, then Next() once more
Enumerations are printed in full up to 24 elements, otherwise as count + hash + ends.
-/
namespace Golib.C03
open Golib.Proto

def hashNats (xs : List Nat) : Nat := xs.foldl (fun h v => (h * 1000003 + v + 1) % 2147483647) 7

def summary (xs : List Nat) : String :=
  if xs.length ≤ 24 then showNats xs
  else s!"n={xs.length} h={hashNats xs} first={showNats (xs.take 4)} last={showNats (xs.drop (xs.length - 4))}"

/-- `n` adds (or removes) of `hi<<16 | ((start + i*step) % 65536)`; counts the `true`s. -/
def bulk (rm : Bool) (hi step : Nat) : Nat → Nat → RB → Nat → Option (RB × Nat)
  | 0, _, r, cnt => some (r, cnt)
  | n + 1, cur, r, cnt =>
    let v := hi <<< 16 ||| (cur % 65536)
    match (if rm then r.remove v else r.add v) with
    | none => none
    | some (r', ok) => bulk rm hi step n (cur + step) r' (if ok then cnt + 1 else cnt)

def u32? (s : String) : Option Nat :=
  match s.toNat? with
  | some n => if n < 4294967296 then some n else none
  | none => none

/-- One operation: `none` = bad-op; `some none` = panic. -/
def step (r : RB) (t : List String) : Option (Option (RB × String)) :=
  match t with
  | ["add", x] => (u32? x).map fun x => (r.add x).map fun (r', ok) => (r', showBool ok)
  | ["rm", x] => (u32? x).map fun x => (r.remove x).map fun (r', ok) => (r', showBool ok)
  | ["has", x] => (u32? x).map fun x => (r.contains x).map fun b => (r, showBool b)
  | ["len"] => some (some (r, toString r.len))
  | [op, hi, start, n, st] =>
    if op = "fill" ∨ op = "drain" then
      match hi.toNat?, start.toNat?, n.toNat?, st.toNat? with
      | some hi, some start, some n, some st =>
        if hi < 65536 ∧ start < 65536 ∧ st < 65536 ∧ n ≤ 70000 then
          some ((bulk (op = "drain") hi st n start r 0).map fun (r', c) => (r', toString c))
        else none
      | _, _, _, _ => none
    else none
  | ["range", k] => k.toNat?.map fun k => some (r, summary (r.range k))
  | ["all", k] => k.toNat?.map fun k => some (r, summary (r.all k))
  | ["iter"] =>
    some ((r.iterAll true).map fun (xs, it) => (r, summary xs ++ " again=" ++ showBool (it.next true).2))
  | _ => none

def runOps : Option RB → List String → List String
  | _, [] => []
  | none, _ :: ls => "dead" :: runOps none ls
  | some r, l :: ls =>
    match step r (toks l) with
    | none => "bad-op" :: runOps (some r) ls
    | some none => "panic" :: runOps none ls
    | some (some (r', out)) => out :: runOps (some r') ls

def runCase (hdr : List String) (ops : List String) : List String :=
  match hdr with
  | ["rb"] => "ok" :: runOps (some RB.empty) ops
  | _ => "bad-op" :: ops.map fun _ => "bad-op"

end Golib.C03
