import Golib.Proto
import Golib.Model.C03Roaring

/-
C03 driver.  Header `@ C03 rb` (zero-value RoaringBitmap).  Operations:
  add x | rm x | has x | len
  fill hi start n step    add  hi<<16 | ((start + i*step) mod 65536), i < n; answers #true
  drain hi start n step   remove the same values; answers #true
  range k | all k         enumerate with a callback answering false on its k-th call (0: never)
  iter                    for it.Next() { it.Value() }, then Next() once more
  iterk k                 a fresh iterator advanced by at most k calls of Next (each followed by
                          Value), then dropped; `end=true` when a Next answered false
  rep                     the representation: `len=<len> nb=<number of buckets>` and per bucket in
                          key order `hi:a<len(values)>#<hash of values>` (array container) or
                          `hi:b<cached length>/<popcount>/<len(set)>#<hash of the words>` (bitmap
                          container) — compared with the reflection dump of the real RoaringBitmap
Enumerations are printed in full up to 24 elements, otherwise as count + hash + ends.

Wave 4 (held handles; /tmp/work/w4-c03-protocol.md).  The state of a case is the bitmap + 4 Seq
slots (a held `rb.All()` value: a closure over the object, so a slot is just "obtained") + 4 Iter
slots (a held `rb.Iter()` value).  An empty slot answers `none`; malformed arguments or a slot
index > 3 answer `bad-op` (checked before the slot is looked at).
  seq k | seqrange k stop | seqtwice k j | seqnest k j | pull2 k a        (j >= 1)
  it k | itnext k n (1 <= n <= 64) | itpairs j (j >= 1)
Every WELL-FORMED add / rm / fill / drain line empties the four Iter slots (a `bad-op` line
changes nothing).
-/
namespace Golib.C03
open Golib.Proto

def hashNats (xs : List Nat) : Nat := xs.foldl (fun h v => (h * 1000003 + v + 1) % 2147483647) 7

def summary (xs : List Nat) : String :=
  if xs.length ≤ 24 then showNats xs
  else s!"n={xs.length} h={hashNats xs} first={showNats (xs.take 4)} last={showNats (xs.drop (xs.length - 4))}"

/-- `n` adds (or removes) of `hi<<16 | ((start + i*step) % 65536)`; counts the `true`s. -/
def bulk (rm : Bool) (hi step : Nat) : Nat → Nat → RB → Nat → Option (RB × Nat)
  | 0, _, r, cnt => some (r, cnt)
  | n + 1, cur, r, cnt =>
    let v := hi <<< 16 ||| (cur % 65536)
    match (if rm then r.remove v else r.add v) with
    | none => none
    | some (r', ok) => bulk rm hi step n (cur + step) r' (if ok then cnt + 1 else cnt)

/-- Number of set bits of a word (`n &&& (n-1)` clears the lowest set bit; 64 rounds suffice). -/
def popWord : Nat → Nat → Nat → Nat
  | 0, _, acc => acc
  | fuel + 1, n, acc => if n = 0 then acc else popWord fuel (n &&& (n - 1)) (acc + 1)

def popcount (w : Array Word) : Nat := w.foldl (fun a x => popWord 64 x.toNat a) 0

def hashWords (w : Array Word) : Nat :=
  w.foldl (fun h x => (h * 1000003 + x.toNat % 2147483647 + 1) % 2147483647) 7

def repBucket : Nat × Container → String
  | (k, .arr v) => s!" {k}:a{v.size}#{hashNats v.toList}"
  | (k, .bmp n w) => s!" {k}:b{n}/{popcount w}/{w.size}#{hashWords w}"

/-- The representation dump of the model state (see the header comment). -/
def rep (r : RB) : String :=
  r.cs.foldl (fun s b => s ++ repBucket b) s!"len={r.len} nb={r.cs.length}"

/-- `it := r.Iter(); for n < k && it.Next() { it.Value() }`: the values seen and whether a `Next`
answered false; `none` = panic in `Value`. -/
def iterTake (reset : Bool) : Nat → It → List Nat → Option (List Nat × Bool)
  | 0, _, acc => some (acc.reverse, false)
  | k + 1, it, acc =>
    match it.next reset with
    | (_, false) => some (acc.reverse, true)
    | (it', true) => match it'.value with
      | none => none
      | some v => iterTake reset k it' (v :: acc)

def u32? (s : String) : Option Nat :=
  match s.toNat? with
  | some n => if n < 4294967296 then some n else none
  | none => none

/-- One operation: `none` = bad-op; `some none` = panic. -/
def step (r : RB) (t : List String) : Option (Option (RB × String)) :=
  match t with
  | ["add", x] => (u32? x).map fun x => (r.add x).map fun (r', ok) => (r', showBool ok)
  | ["rm", x] => (u32? x).map fun x => (r.remove x).map fun (r', ok) => (r', showBool ok)
  | ["has", x] => (u32? x).map fun x => (r.contains x).map fun b => (r, showBool b)
  | ["len"] => some (some (r, toString r.len))
  | [op, hi, start, n, st] =>
    if op = "fill" ∨ op = "drain" then
      match hi.toNat?, start.toNat?, n.toNat?, st.toNat? with
      | some hi, some start, some n, some st =>
        if hi < 65536 ∧ start < 65536 ∧ st < 65536 ∧ n ≤ 70000 then
          some ((bulk (op = "drain") hi st n start r 0).map fun (r', c) => (r', toString c))
        else none
      | _, _, _, _ => none
    else none
  | ["range", k] => k.toNat?.map fun k => some (r, summary (r.range k))
  | ["all", k] => k.toNat?.map fun k => some (r, summary (r.all k))
  | ["rep"] => some (some (r, rep r))
  | ["iterk", k] => k.toNat?.map fun k =>
      (iterTake true k r.iter []).map fun (xs, e) => (r, summary xs ++ " end=" ++ showBool e)
  | ["iter"] =>
    some ((r.iterAll true).map fun (xs, it) => (r, summary xs ++ " again=" ++ showBool (it.next true).2))
  | _ => none

/-- The state of a case: the bitmap, the Seq slots (obtained?), the Iter slots. -/
structure St where
  r : RB
  seqs : Array Bool
  its : Array (Option It)

def St.init : St := ⟨RB.empty, Array.replicate 4 false, Array.replicate 4 none⟩

def slot? (s : String) : Option Nat :=
  match s.toNat? with
  | some k => if k < 4 then some k else none
  | none => none

/-- A natural number `≥ 1`. -/
def pos? (s : String) : Option Nat :=
  match s.toNat? with
  | some n => if 1 ≤ n then some n else none
  | none => none

def showCounts (cs : List Nat) : String := ",".intercalate (cs.map toString)

/-- Answer of an op on Seq slot `k`: `none` when the slot is empty. -/
def onSeq (st : St) (k : Nat) (out : String) : Option (St × String) :=
  some (st, if st.seqs.getD k false then out else "none")

/-- One operation on the extended state: `none` = bad-op; `some none` = panic. -/
def stepSt (st : St) (t : List String) : Option (Option (St × String)) :=
  let r := st.r
  match t with
  | ["seq", k] => (slot? k).map fun k => some ({ st with seqs := st.seqs.setIfInBounds k true }, "ok")
  | ["seqrange", k, stop] =>
    match slot? k, stop.toNat? with
    | some k, some stop => some (onSeq st k (summary (r.seqRange stop)))
    | _, _ => none
  | ["seqtwice", k, j] =>
    match slot? k, pos? j with
    | some k, some j =>
      let (xs1, xs2) := r.seqTwice j
      some (onSeq st k (summary xs1 ++ " ; " ++ summary xs2))
    | _, _ => none
  | ["seqnest", k, j] =>
    match slot? k, pos? j with
    | some k, some j =>
      let (as, cs) := r.seqNest j
      some (onSeq st k ("outer=" ++ summary as ++ " inner=" ++ showCounts cs))
    | _, _ => none
  | ["pull2", k, a] =>
    match slot? k, a.toNat? with
    | some k, some a =>
      let (xs1, xs2) := r.pull2 a
      some (onSeq st k (summary xs1 ++ " ; " ++ summary xs2))
    | _, _ => none
  | ["it", k] => (slot? k).map fun k => some ({ st with its := st.its.setIfInBounds k (some r.iter) }, "ok")
  | ["itnext", k, n] =>
    match slot? k, pos? n with
    | some k, some n =>
      if n ≤ 64 then
        match st.its.getD k none with
        | none => some (some (st, "none"))
        | some it =>
          some ((It.steps n it []).map fun (xs, it', more) =>
            ({ st with its := st.its.setIfInBounds k (some it') }, showNats xs ++ " more=" ++ showBool more))
      else none
    | _, _ => none
  | ["itpairs", j] =>
    (pos? j).map fun j =>
      (r.itPairs j).map fun (xs, cs) => (st, "outer=" ++ showNats xs ++ " inner=" ++ showCounts cs)
  | _ =>
    -- the existing operations; a mutating line invalidates the held iterators
    let mutating : Bool := match t with
      | op :: _ => op == "add" || op == "rm" || op == "fill" || op == "drain"
      | [] => false
    (step r t).map fun res => res.map fun (r', out) =>
      ({ st with r := r', its := if mutating then Array.replicate 4 none else st.its }, out)

def runOps : Option St → List String → List String
  | _, [] => []
  | none, _ :: ls => "dead" :: runOps none ls
  | some st, l :: ls =>
    match stepSt st (toks l) with
    | none => "bad-op" :: runOps (some st) ls
    | some none => "panic" :: runOps none ls
    | some (some (st', out)) => out :: runOps (some st') ls

/-! ### several independent bitmaps (wave 6)

The state of a case is FOUR independent objects (each an `St`: a bitmap with its Seq/Iter slots,
all starting as `St.init`) and the index of the current one (0 at the start).
  obj k        (k in 0..3) object k becomes current; answers `ok`.  Any other line starting with
               `obj` (wrong arity, k > 3, not a number) answers `bad-op` and changes nothing.
Every other line acts on the current object exactly as in the single-object driver (mutations
empty the Iter slots of THAT object only).  A panic kills the object it happened in, not the
others: further lines on a dead object answer `dead`; `obj k` keeps answering `ok`. -/

/-- One parsed line on one object (`none` = the object is dead). -/
def stepO (o : Option St) (t : List String) : Option St × String :=
  match o with
  | none => (none, "dead")
  | some st =>
    match stepSt st t with
    | none => (some st, "bad-op")
    | some none => (none, "panic")
    | some (some (st', out)) => (some st', out)

/-- A sequence of parsed lines on one object: final state and answers.  (`runOps` above is
this on `toks` of the raw lines — `runOps_eq_runToks` in `Proof/C03Multi.lean`.) -/
def runToks : Option St → List (List String) → Option St × List String
  | o, [] => (o, [])
  | o, t :: ts =>
    let (o', out) := stepO o t
    let (o'', outs) := runToks o' ts
    (o'', out :: outs)

structure MSt where
  objs : Nat → Option St
  cur : Nat

def MSt.init : MSt := ⟨fun _ => some St.init, 0⟩

/-- Store the new state of the current object. -/
def MSt.put (m : MSt) (o : Option St) : MSt := { m with objs := fun j => if j = m.cur then o else m.objs j }

/-- A line addressed to the driver, not to an object. -/
def isObj : List String → Bool
  | "obj" :: _ => true
  | _ => false

/-- The object index of a well-formed `obj k` line. -/
def objArg? : List String → Option Nat
  | [_, k] => slot? k
  | _ => none

/-- One parsed line on the multi-object state. -/
def stepM (m : MSt) (t : List String) : MSt × String :=
  if isObj t then
    match objArg? t with
    | some k => ({ m with cur := k }, "ok")
    | none => (m, "bad-op")
  else
    let (o', out) := stepO (m.objs m.cur) t
    (m.put o', out)

def runToksM : MSt → List (List String) → MSt × List String
  | m, [] => (m, [])
  | m, t :: ts =>
    let (m', out) := stepM m t
    let (m'', outs) := runToksM m' ts
    (m'', out :: outs)

def runOpsM (m : MSt) (ls : List String) : List String := (runToksM m (ls.map toks)).2

def runCase (hdr : List String) (ops : List String) : List String :=
  match hdr with
  | ["rb"] => "ok" :: runOpsM MSt.init ops
  -- `heights=<kind>:<seed>`: the Go harness forces the tower heights of the skip list under the
  -- real RoaringBitmap; the model has no towers (ordered-map interface, C02), so it is ignored here
  | ["rb", h] =>
    if h.startsWith "heights=" then "ok" :: runOpsM MSt.init ops
    else "bad-op" :: ops.map fun _ => "bad-op"
  | _ => "bad-op" :: ops.map fun _ => "bad-op"

end Golib.C03
