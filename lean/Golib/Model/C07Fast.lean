/-
Linear-time evaluation of the C07 parsers for the LARGE stream of the harness (inputs of
1 KB – 256 KB).  The cursor model (`parse`/`parseToString`) indexes lists (`src[i]?`,
`take`/`drop` of `dst`) and is quadratic; the functional layer `parseFun` asks `t.length`
of the whole remaining suffix at every step.  `parseFast` is `parseFun` with
* the length test `t.length < w` replaced by the O(w) test `shortL t w`, and
* an accumulator (reversed output) instead of `++` after the recursive call.
`Golib/Proof/C07Fast.lean` proves `parseFast dec' s = parseFun dec s` whenever `dec'` agrees
with `dec`, and Props/C07 `c07_fast_eq_model` lifts it to
`parseToString c.body s = .ok (parseFast …)` — so the large stream is tied to the same
proved model as the small one.  Core-only.
-/
import Golib.Model.C07Enc

namespace Golib.C07

/-- `t.length < w`, looking at no more than `w` cells. -/
def shortL (t : Bytes) : Nat → Bool
  | 0 => false
  | w + 1 => (t.drop w).isEmpty

def octalDecQ (t : Bytes) : Dec :=
  if shortL t 4 then .stop else
  if t[0]? ≠ some 92 then .skip 1 else
  match parseUint ((t.take 4).drop 1) 8 8 with
  | (_, j, false) => .skip (1 + j)
  | (n, _, true) => .emit [n % 256] 4

def hexDecQ (t : Bytes) : Dec :=
  if shortL t 4 then .stop else
  if t[0]? ≠ some 92 then .skip 1 else
  if t[1]? ≠ some 120 then .skip 1 else
  match parseUint ((t.take 4).drop 2) 16 8 with
  | (_, j, false) => .skip (2 + j)
  | (n, _, true) => .emit [n % 256] 4

def unicodeDecQ (t : Bytes) : Dec :=
  if shortL t 10 then .stop else
  if t[0]? ≠ some 92 then .skip 1 else
  if t[1]? ≠ some 85 then .skip 1 else
  match parseUint ((t.take 10).drop 2) 16 32 with
  | (_, j, false) => .skip (2 + j)
  | (n, _, true) =>
    if n > 0x10FFFF then .skip 10
    else .emit (if n < 0x80 then [n % 256] else Utf8.encodeRune (n : Int)) 10

def utf16Dec2Q (n1 : Nat) (u : Bytes) : Dec :=
  if shortL u 6 then .stop else
  if u[0]? ≠ some 92 then .skip 7 else
  if u[1]? ≠ some 117 then .skip 7 else
  match parseUint ((u.take 6).drop 2) 16 16 with
  | (_, j, false) => .skip (6 + (2 + j))
  | (n2, _, true) =>
    if n2 ≥ 0xdc00 ∧ n2 < 0xe000 then .emit (Utf8.encodeRune (utf16Dec n1 n2)) 12
    else .skip 12

def utf16DecQ (t : Bytes) : Dec :=
  if shortL t 6 then .stop else
  if t[0]? ≠ some 92 then .skip 1 else
  if t[1]? ≠ some 117 then .skip 1 else
  match parseUint ((t.take 6).drop 2) 16 16 with
  | (_, j, false) => .skip (2 + j)
  | (n1, _, true) =>
    if n1 < 0xd800 ∨ n1 ≥ 0xe000 then .emit (Utf8.encodeRune (n1 : Int)) 6
    else if n1 ≥ 0xd800 ∧ n1 < 0xdc00 then utf16Dec2Q n1 (t.drop 6)
    else .skip 6

/-- `parseFun` with a reversed accumulator; fuel ≥ `s.length` suffices. -/
def parseAcc (dec : Bytes → Dec) : Nat → Bytes → Bytes → Bytes
  | 0, s, acc => acc.reverse ++ s
  | fuel + 1, s, acc =>
    match s with
    | [] => acc.reverse
    | _ :: _ =>
      match dec s with
      | .stop => acc.reverse ++ s
      | .skip k =>
        if 0 < k then parseAcc dec fuel (s.drop k) ((s.take k).reverse ++ acc) else acc.reverse ++ s
      | .emit bs k =>
        if 0 < k then parseAcc dec fuel (s.drop k) (bs.reverse ++ acc) else acc.reverse ++ s

def parseFast (dec : Bytes → Dec) (s : Bytes) : Bytes := parseAcc dec s.length s []

/-! ### Tail-recursive evaluation of `UnicodeFormat` / `Utf16Format` for outputs of several MiB
(`Proof/C07Fast.lean`: `= (…FormatAux …).map (acc.reverse ++ ·)`). -/

def unicodeFormatAcc : Nat → Bytes → Bytes → Option Bytes
  | _, [], acc => some acc.reverse
  | 0, _ :: _, _ => none
  | fuel + 1, bt :: rest, acc =>
    if bt < 0x80 then
      match escU bt with
      | none => none
      | some d => unicodeFormatAcc fuel rest (d.reverse ++ acc)
    else
      let (c, size) := Utf8.decodeRune (bt :: rest)
      if c = Utf8.runeError then
        unicodeFormatAcc fuel ((bt :: rest).drop size) ((92 :: 85 :: lit0000FFFD).reverse ++ acc)
      else
        match escU c.toNat with
        | none => none
        | some d => unicodeFormatAcc fuel ((bt :: rest).drop size) (d.reverse ++ acc)

def utf16FormatAcc : Nat → Bytes → Bytes → Option Bytes
  | _, [], acc => some acc.reverse
  | 0, _ :: _, _ => none
  | fuel + 1, bt :: rest, acc =>
    if bt < 0x80 then
      match escu bt with
      | none => none
      | some d => utf16FormatAcc fuel rest (d.reverse ++ acc)
    else
      let (c, size) := Utf8.decodeRune (bt :: rest)
      match utf16FormatRune c with
      | none => none
      | some d => utf16FormatAcc fuel ((bt :: rest).drop size) (d.reverse ++ acc)

def unicodeFormatFast (s : Bytes) : Option Bytes := unicodeFormatAcc s.length s []
def utf16FormatFast (s : Bytes) : Option Bytes := utf16FormatAcc s.length s []

end Golib.C07
