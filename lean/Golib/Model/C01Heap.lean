/-
C01 — SyncRing VALUES and their slot arrays (re-configuration, WAVE4 class 4).
`SyncRing` is a plain struct handed around by value (`NewSync` returns one): a ring value
carries its own counters and capacity and a REFERENCE to its slot array.  The slot arrays
live in a heap and have identity (their index), so sharing between struct copies is
visible in the model:
  `copy x y`   y := x            — same array, separate counters
  `init x n`   x.Init(n)         — `r.values = make([]item[T], c)`: a NEW array; counters 0
  `call x c`   a Push/Pop/Len/… on ring value x, executed by the machine of
               Model/C01Ring.lean on (counters of x, array of x)
Core-only imports.
-/
import Golib.Model.C01

namespace Golib.C01

structure RingVal where
  head : Nat
  tail : Nat
  cap : Nat
  /-- identity of the slot array -/
  arr : Nat
deriving DecidableEq, Repr

structure World where
  heap : List (List Slot)
  vars : List RingVal
deriving Repr

/-- the slot array `Init` allocates: slot `i` free for position `i` -/
def freshSlots (cap : Nat) : List Slot := (List.range cap).map fun i => { seq := i, val := 0 }

/-- `x.Init(n)` with `n` already rounded to the effective capacity `cap` -/
def World.init (w : World) (x cap : Nat) : World :=
  { heap := w.heap ++ [freshSlots cap],
    vars := w.vars.set x { head := 0, tail := 0, cap := cap, arr := w.heap.length } }

/-- `y := x` (struct copy) -/
def World.copy (w : World) (x y : Nat) : World :=
  match w.vars[x]? with
  | some r => { w with vars := w.vars.set y r }
  | none => w

/-- what ring value `y` is: its fields and the content of the array it refers to -/
def World.view (w : World) (y : Nat) : Option (RingVal × List Slot) :=
  match w.vars[y]? with
  | some r => (w.heap[r.arr]?).map fun sl => (r, sl)
  | none => none

/-- one call on ring value `x`, run to completion by a single thread of the machine -/
def World.call (M : Nat) (w : World) (x : Nat) (call : Call) : World × Option Ret :=
  match w.vars[x]? with
  | none => (w, none)
  | some r =>
    match w.heap[r.arr]? with
    | none => (w, none)
    | some slots =>
      let s : State := { head := r.head, tail := r.tail, slots := slots,
                         threads := [mkThread [call]], crashed := false }
      match runCall { M := M, cap := r.cap } 8 s 0 with
      | none => (w, none)
      | some (s1, ret) =>
        ({ heap := w.heap.set r.arr s1.slots,
           vars := w.vars.set x { r with head := s1.head, tail := s1.tail } }, some ret)

/-- where `Init` gets its slot array from, as the extractor reports it: one unconditional
`r.values = make(…)` (what `World.init` models by appending a new array to the heap) -/
def initValuesShape : List String := ["0:make"]

/-- every ring value refers to an allocated array -/
def World.WF (w : World) : Prop := ∀ r ∈ w.vars, r.arr < w.heap.length

end Golib.C01
