/-
C08 — the CLASS of change "process-wide state keyed by PART of the input" (wave 8, part B).

`cryptz/aes.go` as it stands has no state: every entry point builds its cipher / AEAD from the
arguments of the call (`Model/C08Pad.lean`; `c08_history_is_memoryless`).  A performance rewrite
typically introduces a process-wide memo of expanded keys / `cipher.Block` / `cipher.AEAD`
objects (`gcmFor`, `newCipher`, …).  This file models THAT program shape — for ANY identity
function the memo is keyed on and ANY eviction policy — so that `Proof/C08Memo.lean` can say
exactly which memos are invisible (the identity separates every two configurations whose objects
differ) and that every other memo shows on a TWO-CALL history, whatever the process did before:
the histories the `hist` stream of the harness generates (key families that agree on a part of
the key, the same key with another nonce size / another iv) and judges call by call against the
stateless model.

It is a model of the class of rewrites, not of today's code; it is not executed by the oracle
(today's code has no memo to compare it with).  Core-only.
-/
import Golib.Model.C08Pad

namespace Golib.C08.Memo

/-! ### A memo keyed by `ident`, generic in configuration, identity and stored object -/

/-- the process-wide table: identity ↦ stored object, most recent first -/
abbrev Table (κ Obj : Type) := List (κ × Obj)

def lookup {κ Obj : Type} [DecidableEq κ] (k : κ) : Table κ Obj → Option Obj
  | [] => none
  | (k', o) :: t => if k' = k then some o else lookup k t

/-- The cached constructor (`gcmFor(key, nonceSize)`, `newCipher(key)`, …).  A HIT returns the
stored object — built from whatever configuration put it there; a MISS builds the object from
the configuration at hand, makes room (`evict`: any policy — none, LRU, wipe when full) and
stores it under `ident c`. -/
def get {Cfg κ Obj : Type} [DecidableEq κ] (ident : Cfg → κ) (build : Cfg → Obj)
    (evict : Table κ Obj → Table κ Obj) (t : Table κ Obj) (c : Cfg) : Obj × Table κ Obj :=
  match lookup (ident c) t with
  | some o => (o, t)
  | none => (build c, (ident c, build c) :: evict t)

/-- the objects a history of calls gets, starting from table `t` -/
def run {Cfg κ Obj : Type} [DecidableEq κ] (ident : Cfg → κ) (build : Cfg → Obj)
    (evict : Table κ Obj → Table κ Obj) : Table κ Obj → List Cfg → List Obj
  | _, [] => []
  | t, c :: cs => (get ident build evict t c).1 :: run ident build evict (get ident build evict t c).2 cs

/-- every stored object was built from a configuration with the identity it is stored under
(true of the empty table and kept by `get` when `evict` only drops entries) -/
def Sound {Cfg κ Obj : Type} (ident : Cfg → κ) (build : Cfg → Obj) (t : Table κ Obj) : Prop :=
  ∀ k o, (k, o) ∈ t → ∃ c, ident c = k ∧ build c = o

/-! ### The GCM helpers through a memo of AEADs -/

/-- what `cipher.NewGCMWithNonceSize(aes.NewCipher(key), len(nonce))` is built from — and, since
the AEAD is a function of exactly these two, what the stored object IS -/
structure GcmCfg where
  key : Bytes
  nonceLen : Nat
  deriving DecidableEq, Repr

/-- `gcm.Seal(dst[:0], nonce, plainText, ad)` on a stored AEAD: crypto/cipher panics
("incorrect nonce length given to GCM") when the nonce is not of the size the AEAD was built for -/
def sealWith (A : AEAD) (o : GcmCfg) (dst pt nonce ad : Bytes) : R Bytes :=
  if nonce.length ≠ o.nonceLen then .panic
  else .ok (appendInto dst (A.sealF o.key nonce pt ad))

def openWith (A : AEAD) (o : GcmCfg) (dst ct nonce ad : Bytes) : R Bytes :=
  if nonce.length ≠ o.nonceLen then .panic
  else match A.openF o.key nonce ct ad with
    | none => .err "open"
    | some p => .ok (appendInto dst p)

/-- `AESGCMEncrypt` of a library that fetches its AEAD from a memo keyed by `ident`
(argument checks first, as `aes.NewCipher` / `NewGCMWithNonceSize` make them on a miss) -/
def aesGCMEncryptMemo {κ : Type} [DecidableEq κ] (A : AEAD) (ident : GcmCfg → κ)
    (evict : Table κ GcmCfg → Table κ GcmCfg) (t : Table κ GcmCfg)
    (dst pt key nonce ad : Bytes) : R Bytes × Table κ GcmCfg :=
  if ¬ keyOK key then (.err "key", t)
  else if nonce.length = 0 then (.err "nonce", t)
  else
    let r := get ident id evict t ⟨key, nonce.length⟩
    (sealWith A r.1 dst pt nonce ad, r.2)

def aesGCMDecryptMemo {κ : Type} [DecidableEq κ] (A : AEAD) (ident : GcmCfg → κ)
    (evict : Table κ GcmCfg → Table κ GcmCfg) (t : Table κ GcmCfg)
    (dst ct key nonce ad : Bytes) : R Bytes × Table κ GcmCfg :=
  if ¬ keyOK key then (.err "key", t)
  else if nonce.length = 0 then (.err "nonce", t)
  else
    let r := get ident id evict t ⟨key, nonce.length⟩
    (openWith A r.1 dst ct nonce ad, r.2)

/-! ### The CBC helpers through a memo of block modes -/

/-- what `cipher.NewCBCEncrypter(aes.NewCipher(key), iv)` is built from -/
structure CbcCfg where
  key : Bytes
  iv : Bytes
  deriving DecidableEq, Repr

/-- `AESCBCEncrypt` of a library that fetches (key schedule, iv) from a memo keyed by `ident`:
the call is made with the STORED key and iv -/
def aesCBCEncryptMemo {κ : Type} [DecidableEq κ] (C : Cipher) (ident : CbcCfg → κ)
    (evict : Table κ CbcCfg → Table κ CbcCfg) (t : Table κ CbcCfg)
    (dst pt key iv : Bytes) : R Bytes × Table κ CbcCfg :=
  if ¬ keyOK key then (.err "key", t)
  else
    let r := get ident id evict t ⟨key, iv⟩
    (aesCBCEncrypt C dst pt r.1.key r.1.iv, r.2)

/-! ### Identities that keep only PART of the configuration (mirrored by `keyRelation` /
`relatedKeys` of go/props/c08) -/

/-- the key copied into a `[32]byte` (seed C08-J): the LENGTH is lost -/
def pad32 (k : Bytes) : Bytes := k ++ List.replicate (32 - k.length) 0

/-- key bytes without the length, nonce size kept (C08-J's `gcmCacheKey`) -/
def identNoLen (c : GcmCfg) : Bytes × Nat := (pad32 c.key, c.nonceLen)
/-- the first 16 bytes of the key and its length -/
def identFirst16 (c : GcmCfg) : Bytes × Nat × Nat := (c.key.take 16, c.key.length, c.nonceLen)
/-- the first 24 bytes of the key and its length -/
def identFirst24 (c : GcmCfg) : Bytes × Nat × Nat := (c.key.take 24, c.key.length, c.nonceLen)
/-- the last 16 bytes of the key and its length -/
def identLast16 (c : GcmCfg) : Bytes × Nat × Nat := (c.key.drop (c.key.length - 16), c.key.length, c.nonceLen)
/-- the whole key, the nonce size dropped -/
def identNoNonceLen (c : GcmCfg) : Bytes := c.key
/-- the whole configuration: key bytes (hence the length) and nonce size -/
def identFull (c : GcmCfg) : Bytes × Nat := (c.key, c.nonceLen)
/-- CBC: the key alone, the iv dropped -/
def identNoIV (c : CbcCfg) : Bytes := c.key

end Golib.C08.Memo
