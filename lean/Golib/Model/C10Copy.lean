/-
C10 copy stream: several `Ring` / `SyncRing` VALUES that may share their backing array.
`Ring[T]` and `SyncRing[T]` are plain structs handed around by value; `b := a` copies
head/tail/cap (and mask) and the SLICE HEADER of `values`, so `a` and `b` share one
backing array until one of them allocates a new one:
  * `Init` always allocates (`make`);
  * `Ring.Recap` allocates when it succeeds, `PushWithExpand` when it expands
    (both change `cap`, which is how the driver recognises them);
  * no other operation allocates; `Push`/`Pop` write into the shared array.
Model: a heap of buffers (`List (List β)`) and objects `(buffer id, struct)`; before an
operation the struct's `values` is loaded from the heap, the statement-by-statement
operation of `C10Ring`/`C10Sync` runs, then the array is written back to the same buffer
or — if the operation allocated — appended as a new buffer.
-/
import Golib.Model.C10Ring
import Golib.Model.C10Sync

namespace Golib.C10
open Golib.Proto

structure MS (σ β : Type) where
  heap : List (List β)
  objs : List (Nat × σ)

variable {σ β : Type}

/-- object `i` with its `values` read from the heap -/
def MS.load (setV : σ → List β → σ) (m : MS σ β) (i : Nat) : Option σ :=
  match m.objs[i]? with
  | none => none
  | some (b, o) => (m.heap[b]?).map (setV o)

/-- write object `i` back: into a fresh buffer if the operation allocated -/
def MS.store (getV : σ → List β) (m : MS σ β) (i : Nat) (o' : σ) (alloc : Bool) : MS σ β :=
  match m.objs[i]? with
  | none => m
  | some (b, _) =>
    if alloc then { heap := m.heap ++ [getV o'], objs := m.objs.set i (m.heap.length, o') }
    else { heap := m.heap.set b (getV o'), objs := m.objs.set i (b, o') }

/-- `objs[j] = objs[i]` (struct assignment: shares the buffer) -/
def MS.copy (m : MS σ β) (i j : Nat) : MS σ β :=
  match m.objs[i]? with
  | none => m
  | some e => { m with objs := m.objs.set j e }

/-! ### drivers: lines `<i> <op …>`, `<i> init <c>`, `copy <i> <j>` -/

def ringSetV (r : Ring) (vs : List Int) : Ring := { r with values := vs }

def runRingCopyOps : Option (MS Ring Int) → List String → List String
  | _, [] => []
  | none, _ :: ls => "dead" :: runRingCopyOps none ls
  | some m, l :: ls =>
    match toks l with
    | ["copy", i, j] =>
      match i.toNat?, j.toNat? with
      | some i, some j =>
        if i < m.objs.length ∧ j < m.objs.length then "ok" :: runRingCopyOps (some (m.copy i j)) ls
        else "bad-op" :: runRingCopyOps (some m) ls
      | _, _ => "bad-op" :: runRingCopyOps (some m) ls
    | i :: rest =>
      match i.toNat? with
      | none => "bad-op" :: runRingCopyOps (some m) ls
      | some i =>
        match m.load ringSetV i with
        | none => "bad-op" :: runRingCopyOps (some m) ls
        | some r =>
          match rest with
          | ["init", c] =>
            match c.toInt? with
            | none => "bad-op" :: runRingCopyOps (some m) ls
            | some c =>
              match Ring.init? c with
              | none => "panic" :: runRingCopyOps none ls
              | some r' => "ok" :: runRingCopyOps (some (m.store Ring.values i r' true)) ls
          | _ =>
            match parseOp rest with
            | none => "bad-op" :: runRingCopyOps (some m) ls
            | some op =>
              match r.step op with
              | none => "panic" :: runRingCopyOps none ls
              | some (r', out) =>
                out :: runRingCopyOps (some (m.store Ring.values i r' (decide (r'.cap ≠ r.cap)))) ls
    | _ => "bad-op" :: runRingCopyOps (some m) ls

/-- `@ C10 ringC c0 c1 …`: objects `New(c0)`, `New(c1)`, … each with its own buffer. -/
def runRingCopyCase (hdr : List String) (ops : List String) : List String :=
  match hdr.mapM String.toInt? with
  | none => "bad-op" :: ops.map fun _ => "bad-op"
  | some cs =>
    match cs.mapM Ring.init? with
    | none => "bad-op" :: ops.map fun _ => "bad-op"
    | some rs =>
      if rs.isEmpty then "bad-op" :: ops.map fun _ => "bad-op" else
      let objs := (List.range rs.length).zip rs
      "ok" :: runRingCopyOps (some { heap := rs.map Ring.values, objs := objs }) ops

def syncSetV (r : SyncRing) (vs : List Slot) : SyncRing := { r with values := vs }

def runSyncCopyOps : Option (MS SyncRing Slot) → List String → List String
  | _, [] => []
  | none, _ :: ls => "dead" :: runSyncCopyOps none ls
  | some m, l :: ls =>
    match toks l with
    | ["copy", i, j] =>
      match i.toNat?, j.toNat? with
      | some i, some j =>
        if i < m.objs.length ∧ j < m.objs.length then "ok" :: runSyncCopyOps (some (m.copy i j)) ls
        else "bad-op" :: runSyncCopyOps (some m) ls
      | _, _ => "bad-op" :: runSyncCopyOps (some m) ls
    | i :: rest =>
      match i.toNat? with
      | none => "bad-op" :: runSyncCopyOps (some m) ls
      | some i =>
        match m.load syncSetV i with
        | none => "bad-op" :: runSyncCopyOps (some m) ls
        | some r =>
          match rest with
          | ["init", c] =>
            match c.toInt? with
            | none => "bad-op" :: runSyncCopyOps (some m) ls
            | some c =>
              if tooLargeToRun c then "bad-op" :: runSyncCopyOps (some m) ls else
              match SyncRing.init? c with
              | none => "panic" :: runSyncCopyOps none ls
              | some r' => "ok" :: runSyncCopyOps (some (m.store SyncRing.values i r' true)) ls
          | ["dump"] => r.dump :: runSyncCopyOps (some m) ls
          | _ =>
            match parseSOp rest with
            | none => "bad-op" :: runSyncCopyOps (some m) ls
            | some op =>
              match r.step op with
              | none => "panic" :: runSyncCopyOps none ls
              | some (r', out) =>
                out :: runSyncCopyOps (some (m.store SyncRing.values i r' false)) ls
    | _ => "bad-op" :: runSyncCopyOps (some m) ls

def runSyncCopyCase (hdr : List String) (ops : List String) : List String :=
  match hdr.mapM String.toInt? with
  | none => "bad-op" :: ops.map fun _ => "bad-op"
  | some cs =>
    if cs.any tooLargeToRun then "bad-op" :: ops.map fun _ => "bad-op" else
    match cs.mapM SyncRing.init? with
    | none => "bad-op" :: ops.map fun _ => "bad-op"
    | some rs =>
      if rs.isEmpty then "bad-op" :: ops.map fun _ => "bad-op" else
      let objs := (List.range rs.length).zip rs
      "ok" :: runSyncCopyOps (some { heap := rs.map SyncRing.values, objs := objs }) ops

end Golib.C10
