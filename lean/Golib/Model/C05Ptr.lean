/-
Pointer-level model of `algz/trie.go`: the trie as the code builds it — a store of nodes
addressed by ids (id 0 = the root embedded in `Trie`), per node a child ARRAY of
`(val, node id)` pairs kept sorted by `findChildIndex` + insertion shift exactly as `Insert`
does it, a `fail` pointer (an id, `none` = nil), `size`, `isEnd`.  `Insert`,
`BuildFailureLinks` (through the real `trieNodeQueue` model: the queue stores node pointers,
here ids wrapped as one-element labels) and the scan loops of `Match` / `find` walk these
pointers statement by statement.  A Go panic (nil dereference, index out of range) and an
exhausted fuel are `none` (proved not to happen, `Golib/Proof/C05Ptr*.lean`).

The label trie of `Golib/Model/C05Trie.lean` is the ABSTRACTION of this model
(id ↦ rune path from the root): `c05_pointer_refines_label`.  The structural `dump` of the
oracle driver is printed from THIS model and compared with the reflective dump of the real
heap.
-/
import Golib.Model.C05Trie

namespace Golib.C05
open Golib

structure PNode where
  /-- `children []childNode`: `(val, node)` in array order -/
  children : List (Int × Nat)
  /-- `fail *trieNode` (`none` = nil) -/
  fail : Option Nat
  size : Nat
  isEnd : Bool
deriving Repr

structure PTrie where
  /-- the node store: id = index; id 0 is `t.root` -/
  nodes : List PNode
deriving Repr

/-- The zero value `Trie{}`. -/
def PTrie.empty : PTrie := ⟨[⟨[], none, 0, false⟩]⟩

def PNode.vals (nd : PNode) : List Int := nd.children.map (·.1)

/-! ### Insert -/

/-- `for i := 0; i < len(pattern); { r, size = decodeRune; i += size; idx := findChildIndex(...);
if idx >= len(children) || children[idx].val != r { …new node, shift, store… } else { node = children[idx].node } }`
on the decoded pattern.  State: the store, the current node id, the byte offset `i`. -/
def pInsertLoop (pt : PTrie) : List Step → Nat → Nat → Option (PTrie × Nat)
  | [], node, _ => some (pt, node)
  | (r, size) :: rest, node, i =>
    let i := i + size
    match pt.nodes[node]? with
    | none => none
    | some nd =>
      match findChildIndex nd.vals r with
      | none => none
      | some idx =>
        let create : Option (PTrie × Nat) :=
          -- child := childNode{val: r, node: &trieNode{size: i}}; append; copy shift; store
          let newId := pt.nodes.length
          let nd' : PNode := { nd with children := nd.children.take idx ++ (r, newId) :: nd.children.drop idx }
          pInsertLoop ⟨pt.nodes.set node nd' ++ [⟨[], none, i, false⟩]⟩ rest newId i
        if idx ≥ nd.children.length then create
        else
          match nd.children[idx]? with
          | none => none
          | some (v, c) => if v ≠ r then create else pInsertLoop pt rest c i

/-- `Insert(pattern)` on the decoded pattern. -/
def PTrie.insert (pt : PTrie) (p : List Step) : Option PTrie :=
  if p.isEmpty then some pt
  else
    match pInsertLoop pt p 0 0 with
    | none => none
    | some (pt', node) =>
      (pt'.nodes[node]?).map fun nd => ⟨pt'.nodes.set node { nd with isEnd := true }⟩

/-! ### BuildFailureLinks -/

/-- A node pointer as stored in `trieNodeQueue.nodes` (the queue model of
`Golib/Model/C05Trie.lean` stores labels; a pointer is the one-element label of its id). -/
def ptrLabel (id : Nat) : Label := [(id : Int)]

def labelPtr (l : Label) : Option Nat :=
  match l with
  | [x] => some x.toNat
  | _ => none

/-- `for failNode != nil { idx = index(failNode.children, val); if idx >= 0 {break}; failNode = failNode.fail }`. -/
def pFailWalk (pt : PTrie) (val : Int) : Nat → Option Nat → Option (Option (Nat × Nat))
  | 0, _ => none
  | _ + 1, none => some none
  | fuel + 1, some m =>
    match pt.nodes[m]? with
    | none => none
    | some nd =>
      match index nd.vals val with
      | none => none
      | some (some idx) => some (some (m, idx))
      | some none => pFailWalk pt val fuel nd.fail

structure PBState where
  q : Queue
  pt : PTrie
deriving Repr

/-- `for _, child := range curr.children { … child.node.fail = …; queue.Push(child.node) }`.
`currFail` is `curr.fail` (read once per child in the code; it does not change in the loop
because `curr` is not its own child). -/
def pProcessChildren (curr : Nat) : List (Int × Nat) → PBState → Option PBState
  | [], s => some s
  | (r, c) :: rest, s =>
    match s.pt.nodes[curr]? with
    | none => none
    | some cn =>
      match pFailWalk s.pt r (s.pt.nodes.length + 2) cn.fail with
      | none => none
      | some w =>
        let target? : Option Nat :=
          match w with
          | none => some 0                      -- child.node.fail = &t.root
          | some (m, idx) =>
            match s.pt.nodes[m]? with
            | none => none
            | some mn => (mn.children[idx]?).map (·.2)
        match target?, s.pt.nodes[c]? with
        | some target, some cd =>
          match s.q.push (ptrLabel c) with
          | none => none
          | some q' =>
            pProcessChildren curr rest { q := q', pt := ⟨s.pt.nodes.set c { cd with fail := some target }⟩ }
        | _, _ => none

/-- `for !queue.IsEmpty() { curr := queue.Pop(); for _, child := range curr.children {…} }`. -/
def pBfsLoop : Nat → PBState → Option PBState
  | 0, _ => none
  | fuel + 1, s =>
    if s.q.isEmpty then some s
    else
      match s.q.pop with
      | none => none
      | some (cl, q') =>
        match labelPtr cl with
        | none => none
        | some curr =>
          match s.pt.nodes[curr]? with
          | none => none
          | some cn =>
            match pProcessChildren curr cn.children { s with q := q' } with
            | none => none
            | some s' => pBfsLoop fuel s'

/-- `for i := range t.root.children { child.fail = &t.root; queue.Push(child) }`. -/
def pSeedRoot : List (Int × Nat) → PBState → Option PBState
  | [], s => some s
  | (_, c) :: rest, s =>
    match s.pt.nodes[c]? with
    | none => none
    | some cd =>
      match s.q.push (ptrLabel c) with
      | none => none
      | some q' => pSeedRoot rest { q := q', pt := ⟨s.pt.nodes.set c { cd with fail := some 0 }⟩ }

/-- `BuildFailureLinks()`. -/
def PTrie.build (pt : PTrie) : Option PTrie :=
  match pt.nodes[0]? with
  | none => none
  | some root =>
    match pSeedRoot root.children { q := Queue.init 10, pt := pt } with
    | none => none
    | some s0 => (pBfsLoop (pt.nodes.length + 1) s0).map (·.pt)

/-- `Insert` of every pattern in order, then `BuildFailureLinks`. -/
def PTrie.insertAll (pt : PTrie) : List (List Nat) → Option PTrie
  | [] => some pt
  | p :: ps => (pt.insert (decodeAll p)).bind fun pt' => pt'.insertAll ps

def PTrie.ofPatterns (pats : List (List Nat)) : Option PTrie :=
  (PTrie.empty.insertAll pats).bind PTrie.build

/-! ### the scan loops of Match / find -/

/-- `idx := index(node.children, v); for node != root && idx < 0 { node = node.fail; idx = index(node.children, v) }`
(the loop part; `node != &t.root` is `node ≠ 0`). -/
def pFallLoop (pt : PTrie) (v : Int) : Nat → Nat → Option Nat → Option (Nat × Option Nat)
  | 0, _, _ => none
  | fuel + 1, node, idx =>
    if node ≠ 0 ∧ idx = none then
      match pt.nodes[node]? with
      | none => none
      | some nd =>
        match nd.fail with
        | none => none                      -- nil pointer dereference
        | some m =>
          match pt.nodes[m]? with
          | none => none
          | some mn =>
            match index mn.vals v with
            | none => none
            | some idx' => pFallLoop pt v fuel m idx'
    else some (node, idx)

def pFallback (pt : PTrie) (node : Nat) (v : Int) : Option (Nat × Option Nat) :=
  match pt.nodes[node]? with
  | none => none
  | some nd =>
    match index nd.vals v with
    | none => none
    | some idx => pFallLoop pt v (pt.nodes.length + 1) node idx

/-- `node.children[idx].node`. -/
def pChildAt (pt : PTrie) (node idx : Nat) : Option Nat :=
  match pt.nodes[node]? with
  | none => none
  | some nd => (nd.children[idx]?).map (·.2)

/-- `for tempNode != root { if tempNode.isEnd { emit {i - size, i} }; tempNode = tempNode.fail }`. -/
def pOutWalk (pt : PTrie) (i : Nat) : Nat → Nat → Option (List Scope)
  | 0, _ => none
  | fuel + 1, temp =>
    if temp ≠ 0 then
      match pt.nodes[temp]? with
      | none => none
      | some nd =>
        match nd.fail with
        | none => none
        | some m =>
          (pOutWalk pt i fuel m).map fun rest =>
            if nd.isEnd then ⟨(i : Int) - nd.size, i⟩ :: rest else rest
    else some []

def pAnyEndWalk (pt : PTrie) : Nat → Nat → Option Bool
  | 0, _ => none
  | fuel + 1, temp =>
    if temp ≠ 0 then
      match pt.nodes[temp]? with
      | none => none
      | some nd =>
        if nd.isEnd then some true
        else
          match nd.fail with
          | none => none
          | some m => pAnyEndWalk pt fuel m
    else some false

/-- `find(text, &scopes)` on the decoded text. -/
def pFindLoop (pt : PTrie) : List Step → Nat → Nat → List Scope → Option (List Scope)
  | [], _, _, acc => some acc
  | (r, size) :: rest, node, i, acc =>
    let i := i + size
    match pFallback pt node r with
    | none => none
    | some (node, none) => pFindLoop pt rest node i acc
    | some (node, some idx) =>
      match pChildAt pt node idx with
      | none => none
      | some node' =>
        match pOutWalk pt i (pt.nodes.length + 1) node' with
        | none => none
        | some out => pFindLoop pt rest node' i (acc ++ out)

/-- `Match(text)` on the decoded text. -/
def pMatchLoop (pt : PTrie) : List Step → Nat → Option Bool
  | [], _ => some false
  | (r, _) :: rest, node =>
    match pFallback pt node r with
    | none => none
    | some (node, none) => pMatchLoop pt rest node
    | some (node, some idx) =>
      match pChildAt pt node idx with
      | none => none
      | some node' =>
        match pAnyEndWalk pt (pt.nodes.length + 1) node' with
        | none => none
        | some true => some true
        | some false => pMatchLoop pt rest node'

def PTrie.find (pt : PTrie) (text : List Nat) : Option (List Scope) := pFindLoop pt (decodeAll text) 0 0 []
def PTrie.match (pt : PTrie) (text : List Nat) : Option Bool := pMatchLoop pt (decodeAll text) 0
def PTrie.findAll (pt : PTrie) (text : List Nat) : Option (List (List Nat)) :=
  match pt.find text with
  | none => none
  | some scopes => cutAll text scopes

/-! ### PrefixSearch / FuzzySearch on pointers: explicit stack + shared buffer -/

/-- `trieFrame{r, depth, node}` with `node` a pointer (id). -/
structure PFrame where
  r : Int
  depth : Int
  node : Nat
deriving Repr

/-- `for _, ch := range children { stack = append(stack, trieFrame{ch.val, depth, ch.node}) }`
(top of the Go stack = head of the list, as in `pushFrames`). -/
def pPushFrames (depth : Int) (children : List (Int × Nat)) (stack : List PFrame) : List PFrame :=
  (children.map fun ch => (⟨ch.1, depth, ch.2⟩ : PFrame)).reverse ++ stack

/-- The `for len(stack) > 0 { … }` loop on pointers: `cur.node.isEnd` / `cur.node.children`
are read from the store. -/
def pDfsLoop (pt : PTrie) (w : Int → Int) (enc : Int → List Nat) :
    Nat → List PFrame → List Nat → List (List Nat) → Option (List (List Nat))
  | 0, _, _, _ => none
  | _ + 1, [], _, ret => some ret
  | fuel + 1, cur :: stack, buf, ret =>
    match pt.nodes[cur.node]? with
    | none => none
    | some nd =>
      let buf := buf ++ enc cur.r
      let ret := if nd.isEnd then ret ++ [buf] else ret
      match nd.children with
      | [] =>
        match stack with
        | [] => some ret                       -- break
        | nxt :: _ =>
          let back := cur.depth + w cur.r - nxt.depth
          match truncate? buf ((buf.length : Int) - back) with
          | none => none
          | some buf' => pDfsLoop pt w enc fuel stack buf' ret
      | ch :: chs => pDfsLoop pt w enc fuel (pPushFrames (cur.depth + w cur.r) (ch :: chs) stack) buf ret

/-- Walk the key from the root without fallback (`PrefixSearch`): inner `none` = `return nil`. -/
def pDescend (pt : PTrie) : List Step → Nat → Option (Option Nat)
  | [], node => some (some node)
  | (v, _) :: rest, node =>
    match pt.nodes[node]? with
    | none => none
    | some nd =>
      match index nd.vals v with
      | none => none
      | some none => some none
      | some (some idx) =>
        match nd.children[idx]? with
        | none => none
        | some ch => pDescend pt rest ch.2

def pPrefixSearchWith (dec : List Nat → Step) (w : Int → Int) (enc : Int → List Nat)
    (pt : PTrie) (key : List Nat) : Option (List (List Nat)) :=
  match pDescend pt (decodeAllWith dec key) 0 with
  | none => none
  | some none => some []
  | some (some node) =>
    match pt.nodes[node]? with
    | none => none
    | some nd =>
      match nd.children with
      | [] => if nd.isEnd then some [key] else some []
      | ch :: chs =>
        let ret := if nd.isEnd then [key] else []
        pDfsLoop pt w enc (pt.nodes.length + 1) (pPushFrames 0 (ch :: chs) []) key ret

/-- Walk the key with fallback (`FuzzySearch`): inner `none` = `return nil`. -/
def pFuzzyDescend (pt : PTrie) : List Step → Nat → Option (Option Nat)
  | [], node => some (some node)
  | (v, _) :: rest, node =>
    match pFallback pt node v with
    | none => none
    | some (_, none) => some none
    | some (node, some idx) =>
      match pChildAt pt node idx with
      | none => none
      | some node' => pFuzzyDescend pt rest node'

/-- `for node != &t.root { buf.WriteString(key[len(key)-node.size:]); … ; buf.Reset(); node = node.fail }`. -/
def pFuzzyOuter (pt : PTrie) (w : Int → Int) (enc : Int → List Nat) (key : List Nat) :
    Nat → Nat → List (List Nat) → Option (List (List Nat))
  | 0, _, _ => none
  | fuel + 1, node, ret =>
    if node ≠ 0 then
      match pt.nodes[node]? with
      | none => none
      | some nd =>
        match sliceInt? key ((key.length : Int) - nd.size) key.length with
        | none => none
        | some suffix =>
          let ret := if nd.isEnd then ret ++ [suffix] else ret
          match pDfsLoop pt w enc (pt.nodes.length + 1) (pPushFrames 0 nd.children []) suffix ret with
          | none => none
          | some ret' =>
            match nd.fail with
            | none => none                    -- nil pointer dereference in the loop test's successor
            | some m => pFuzzyOuter pt w enc key fuel m ret'
    else some ret

def pFuzzySearchWith (dec : List Nat → Step) (w : Int → Int) (enc : Int → List Nat)
    (pt : PTrie) (key : List Nat) : Option (List (List Nat)) :=
  if key.isEmpty then pPrefixSearchWith dec w enc pt key
  else
    match pFuzzyDescend pt (decodeAllWith dec key) 0 with
    | none => none
    | some none => some []
    | some (some node) =>
      match pt.nodes[node]? with
      | none => none
      | some nd =>
        if nd.children.isEmpty ∧ nd.fail = some 0 then
          if nd.isEnd then
            (sliceInt? key ((key.length : Int) - nd.size) key.length).map fun s => [s]
          else some []
        else pFuzzyOuter pt w enc key (pt.nodes.length + 1) node []

def PTrie.prefixSearch (pt : PTrie) (key : List Nat) : Option (List (List Nat)) :=
  pPrefixSearchWith decodeStep runeWidth writeRune pt key
def PTrie.fuzzySearch (pt : PTrie) (key : List Nat) : Option (List (List Nat)) :=
  pFuzzySearchWith decodeStep runeWidth writeRune pt key

end Golib.C05
