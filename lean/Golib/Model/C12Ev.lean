/-
C12 — SafeKV (`mapz/safekv.go`, `mapz/iter.go`): the event vocabulary shared by the
regenerated facts (`Golib/Gen/FactsC12.lean`, written by the go/ast extractor on every
run), the lock-discipline checker `wellLocked`, and the concurrent machine.

One method body = the source-order list of events
  rlock | runlock | lock | unlock      calls on `s.mu` that are top-level statements
  read | write | replace               accesses to `s.entries` (index / len / range |
                                       index assignment / delete / clear | `s.entries = …`)
  callFn | callFnMap                   call of a user-supplied function value
                                       (without / with the map as an argument)
  bad                                  something the extractor refuses to classify
                                       (lock call not at top level, deferred unlock,
                                       alias of the map or of the mutex, call of another
                                       method of the receiver …): never well locked.
Events inside loops / branches are listed once, between the surrounding lock events.
Core-only (no Mathlib): imported by the oracle.
-/
namespace Golib.C12

inductive Ev where
  | rlock | runlock | lock | unlock
  | read | write | replace
  | callFn | callFnMap
  | bad
deriving DecidableEq, Repr

/-- What one goroutine holds of the `RWMutex`. -/
inductive Mode where
  | free | r | w
deriving DecidableEq, Repr

/-- Accesses to the shared map (plain memory accesses in the Go memory model). -/
def Ev.isAccess : Ev → Bool
  | .read | .write | .replace | .callFnMap => true
  | _ => false

/-- Accesses that (may) modify the map or the map header. A callback that receives the
map may do anything with it. -/
def Ev.writes : Ev → Bool
  | .write | .replace | .callFnMap => true
  | _ => false

def Ev.isAcquire : Ev → Bool
  | .rlock | .lock => true
  | _ => false

/-- The lock discipline, one event at a time: `none` = the discipline is broken.
* acquire only when nothing is held (not nested), release only what is held;
* `read` needs the lock in either mode; `write`/`replace`/`callFnMap` need the write lock;
* `callFn` (callback that does not get the map) is allowed anywhere;
* `bad` is never allowed. -/
def Mode.check : Mode → Ev → Option Mode
  | .free, .rlock => some .r
  | .free, .lock => some .w
  | .r, .runlock => some .free
  | .w, .unlock => some .free
  | .r, .read => some .r
  | .w, .read => some .w
  | .w, .write => some .w
  | .w, .replace => some .w
  | .w, .callFnMap => some .w
  | m, .callFn => some m
  | _, _ => Option.none

/-- Every read under r- or w-lock, every write/replace under the w-lock, balanced
(ends holding nothing), not nested. -/
def wellLockedFrom : Mode → List Ev → Bool
  | m, [] => m == .free
  | m, e :: es =>
    match m.check e with
    | some m' => wellLockedFrom m' es
    | none => false

def wellLocked (es : List Ev) : Bool := wellLockedFrom .free es

/-- At most one critical section per body: the whole effect of the method happens
inside one lock/unlock pair (needed for atomicity, not for race freedom). -/
def oneSection (es : List Ev) : Bool := (es.filter Ev.isAcquire).length ≤ 1

/-- The obligation on every extracted body. -/
def bodyOK (es : List Ev) : Bool := wellLocked es && oneSection es

/-- How the machine changes what a goroutine holds (no discipline check here: the
machine also runs ill-locked bodies, that is how races become reachable). -/
def Mode.next : Mode → Ev → Mode
  | _, .rlock => .r
  | _, .lock => .w
  | _, .runlock => .free
  | _, .unlock => .free
  | m, _ => m

end Golib.C12
