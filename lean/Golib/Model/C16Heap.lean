/-
C16 one-memory machine: the word arrays of ALL registers live in ONE heap `List W`; a Go
slice value `[]uint64` is a header `(base, len, cap)` into it.  `s[i]`, `s[i] = v` and
`append` are modelled as Go defines them (append within capacity writes in place behind
`len`, otherwise allocates a new block at the end of the heap and copies), so sharing between
two registers — a struct assignment `*b = other`, a reslice that re-exposes stale cells, a
`Clone` that returns the receiver's header — would be VISIBLE in this model: a write through
one header would change what the other header reads.  `Proof/C16Heap*.lean` proves that with
the code as it is this never happens (`c16_noninterference`) and that the machine refines the
by-value specification machine of `C16Spec.lean` step by step (`c16_heap_refines`).

Everything that WRITES is modelled here statement by statement on the heap:
`Grow`, `Add`, `Remove`, `Diff`, `Intersect`, `Merge`, `Clone` (`other` is passed by value =
a copy of the HEADER, exactly as Go passes `other Bitmap`).  Read-only methods (`Contains`,
`Len`, `Cap`, iterators, `Range`, `All`) read the register's current view
`heap[base .. base+len)` and are evaluated by the functions of `C16Bits.lean` on that view.

The capacity chosen by a reallocating `append` is a parameter `grow oldCap newLen` (clamped to
`≥ newLen`); all theorems hold for every `grow`, the oracle instantiates it with the Go
runtime rule for 8-byte elements (`goGrow8`).
-/
import Golib.Model.C16Spec

namespace Golib.C16
open Golib.Proto

abbrev Heap := List W

/-- a Go slice header `[]uint64` -/
structure Hdr where
  base : Nat
  len : Nat
  cap : Nat
deriving Repr, DecidableEq

/-- the nil slice -/
def Hdr.nil : Hdr := ⟨0, 0, 0⟩

/-- the cells `s[0..len)` as read through the header -/
def Hdr.view (h : Hdr) (H : Heap) : List W := (H.drop h.base).take h.len

/-- `s[i]` (index-out-of-range panic = `none`) -/
def hrd (H : Heap) (h : Hdr) (i : Nat) : Option W :=
  if i < h.len then H[h.base + i]? else none

/-- `s[i] = v` -/
def hwr (H : Heap) (h : Hdr) (i : Nat) (v : W) : Option Heap :=
  if i < h.len ∧ h.base + i < H.length then some (H.set (h.base + i) v) else none

/-- `append(s, vs...)`: within capacity the cells behind `len` are overwritten in place;
otherwise a new block (old content, `vs`, zeroed spare capacity) is allocated at the end of the
heap.  The old block stays where it is (garbage unless another header still points to it). -/
def happend (grow : Nat → Nat → Nat) (H : Heap) (h : Hdr) (vs : List W) : Heap × Hdr :=
  let nl := h.len + vs.length
  if nl ≤ h.cap then
    (H.take (h.base + h.len) ++ vs ++ H.drop (h.base + nl), { h with len := nl })
  else
    let c := max (grow h.cap nl) nl
    (H ++ (h.view H ++ vs ++ List.replicate (c - nl) 0#64), ⟨H.length, nl, c⟩)

/-! ### setz.Bitmap / dsz.Bits methods that write -/

/-- `Grow`: `if index >= len(b.set) { b.set = append(b.set, make([]uint64, grow)...) }` -/
def hGrow (grow : Nat → Nat → Nat) (H : Heap) (h : Hdr) (n : Nat) : Heap × Hdr :=
  let index := n >>> 6
  if index ≥ h.len then
    happend grow H h (List.replicate (index + 1 - h.len) 0#64)
  else (H, h)

/-- `Add` (the `Bitmap` method; `dsz.Bits.Add` is the same statements with `b.length++` in
place of `return true`) -/
def hAdd (grow : Nat → Nat → Nat) (H : Heap) (h : Hdr) (num : Nat) : Option (Heap × Hdr × Bool) :=
  let index := num >>> 6
  let bit := num &&& 63
  if index ≥ h.len then
    let (H1, h1) := happend grow H h (List.replicate (index + 1 - h.len) 0#64)
    match hrd H1 h1 index with
    | none => none
    | some w =>
      match hwr H1 h1 index (w ||| bitMask bit) with
      | none => none
      | some H2 => some (H2, h1, true)
  else
    match hrd H h index with
    | none => none
    | some w =>
      if (w &&& bitMask bit) == 0#64 then
        match hwr H h index (w ||| bitMask bit) with
        | none => none
        | some H2 => some (H2, h, true)
      else some (H, h, false)

/-- `Remove` -/
def hRemove (H : Heap) (h : Hdr) (num : Nat) : Option (Heap × Bool) :=
  let index := num >>> 6
  let bit := num &&& 63
  if index < h.len then
    match hrd H h index with
    | none => none
    | some w =>
      if (w &&& bitMask bit) != 0#64 then
        match hwr H h index (w &&& ~~~ bitMask bit) with
        | none => none
        | some H2 => some (H2, true)
      else some (H, false)
  else some (H, false)

/-- The loop shape shared by `Diff` and `Intersect`:
`for i := 0; i < len(b.set); i++ { if i >= len(other.set) { TAIL }; b.set[i] = g(b.set[i], other.set[i]) }`
with `TAIL = break` (`tail = none`, Diff) or `b.set[i] = z; continue` (`tail = some z`,
Intersect).  `h` is the receiver's header, `o` the by-value copy of the other operand's header
(possibly the same header: `x.Diff(x)`); both are read from the live heap at iteration `i`. -/
def hZipLoop (g : W → W → W) (tail : Option W) (h o : Hdr) : (fuel i : Nat) → Heap → Option Heap
  | 0, _, H => some H
  | f + 1, i, H =>
    if i ≥ o.len then
      match tail with
      | none => some H
      | some z =>
        match hwr H h i z with
        | none => none
        | some H' => hZipLoop g tail h o f (i + 1) H'
    else
      match hrd H h i, hrd H o i with
      | some a, some b =>
        match hwr H h i (g a b) with
        | none => none
        | some H' => hZipLoop g tail h o f (i + 1) H'
      | _, _ => none

/-- `Diff`: `b.set[i] &= ^other.set[i]`, `break` behind the end of `other` -/
def hDiff (H : Heap) (h o : Hdr) : Option Heap :=
  hZipLoop (fun a b => a &&& ~~~ b) none h o h.len 0 H

/-- `Intersect`: `b.set[i] &= other.set[i]`, `b.set[i] = 0` behind the end of `other` -/
def hIntersect (H : Heap) (h o : Hdr) : Option Heap :=
  hZipLoop (fun a b => a &&& b) (some 0#64) h o h.len 0 H

/-- `Merge`: `for i := 0; i < len(other.set); i++ { if i >= len(b.set) { b.set = append(b.set,
other.set[i]); continue }; b.set[i] |= other.set[i] }`; the receiver's header changes with every
`append`, `o` stays the header copied at the call. -/
def hMergeLoop (grow : Nat → Nat → Nat) (o : Hdr) : (fuel i : Nat) → Heap → Hdr → Option (Heap × Hdr)
  | 0, _, H, h => some (H, h)
  | f + 1, i, H, h =>
    if i ≥ h.len then
      match hrd H o i with
      | none => none
      | some b =>
        let r := happend grow H h [b]
        hMergeLoop grow o f (i + 1) r.1 r.2
    else
      match hrd H h i, hrd H o i with
      | some a, some b =>
        match hwr H h i (a ||| b) with
        | none => none
        | some H' => hMergeLoop grow o f (i + 1) H' h
      | _, _ => none

def hMerge (grow : Nat → Nat → Nat) (H : Heap) (h o : Hdr) : Option (Heap × Hdr) :=
  hMergeLoop grow o o.len 0 H h

/-- `Clone`: `set := make([]uint64, len(b.set)); copy(set, b.set)`: a new block of capacity
`len` at the end of the heap holding a copy of the view. -/
def hClone (H : Heap) (h : Hdr) : Heap × Hdr :=
  (H ++ h.view H, ⟨H.length, h.len, h.len⟩)

/-! ### the machine -/

inductive Kind where
  | bits | bitmap | dsz
deriving Repr, DecidableEq

/-- a register: which Go type it is, the header of its `set` field and (for `setz.Bits` and
`dsz.Bits`) the cached `length` field -/
structure HObj where
  kind : Kind
  hdr : Hdr
  length : Int
deriving Repr, DecidableEq

/-- the register as the by-value machine sees it -/
def HObj.abs (H : Heap) (o : HObj) : Obj :=
  match o.kind with
  | .bits => .bits ⟨o.length, ⟨o.hdr.view H⟩⟩
  | .bitmap => .bitmap ⟨o.hdr.view H⟩
  | .dsz => .dsz ⟨o.length, o.hdr.view H⟩

structure HSt where
  heap : Heap
  regs : List HObj
  iters : List (Option (Nat × Iter))
deriving Repr

def HSt.abs (s : HSt) : St := ⟨s.regs.map (HObj.abs s.heap), s.iters⟩

inductive HRes where
  | bad | panic | ok (s : HSt) (out : String)

/-- do the backing arrays `[base, base+cap)` of two headers share a cell? -/
def Hdr.overlaps (a b : Hdr) : Bool :=
  a.cap ≠ 0 ∧ b.cap ≠ 0 ∧ a.base < b.base + b.cap ∧ b.base < a.base + a.cap

/-- all pairs `i < j` of registers whose backing arrays overlap, flattened -/
def overlapPairs (hs : List Hdr) : List Nat :=
  (List.range hs.length).flatMap fun i =>
    (List.range hs.length).flatMap fun j =>
      match hs[i]?, hs[j]? with
      | some a, some b => if i < j ∧ a.overlaps b then [i, j] else []
      | _, _ => []

/-- the cached length after a `Bits` bulk operation: `b.length = b.Bitmap.Len()` -/
def recount (k : Kind) (old : Int) (H : Heap) (h : Hdr) : Int :=
  match k with
  | .bits => Bitmap.len ⟨h.view H⟩
  | _ => old

def hbulk (s : HSt) (a b : Nat) (f : Heap → Hdr → Hdr → Option (Heap × Hdr)) : HRes :=
  match s.regs[a]?, s.regs[b]? with
  | some oa, some ob =>
    if ob.kind = .dsz ∨ oa.kind = .dsz then .bad
    else
      -- `other` is passed by value: a copy of the header `ob.hdr`
      match f s.heap oa.hdr ob.hdr with
      | none => .panic
      | some (H', h') =>
        .ok { s with heap := H',
                     regs := s.regs.set a { oa with hdr := h', length := recount oa.kind oa.length H' h' } } "ok"
  | _, _ => .bad

def hstep1 (grow : Nat → Nat → Nat) (s : HSt) : Op → HRes
  | .add r n =>
    match s.regs[r]? with
    | none => .bad
    | some o =>
      match hAdd grow s.heap o.hdr n with
      | none => .panic
      | some (H', h', ch) =>
        -- Bits.Add: `if b.Bitmap.Add(num) { b.length++ }`; dsz: `b.length++` inline
        let len' := if ch ∧ o.kind ≠ .bitmap then o.length + 1 else o.length
        .ok { s with heap := H', regs := s.regs.set r { o with hdr := h', length := len' } }
          (if o.kind = .dsz then "ok" else showBool ch)
  | .remove r n =>
    match s.regs[r]? with
    | none => .bad
    | some o =>
      match hRemove s.heap o.hdr n with
      | none => .panic
      | some (H', ch) =>
        let len' := if ch ∧ o.kind ≠ .bitmap then o.length - 1 else o.length
        .ok { s with heap := H', regs := s.regs.set r { o with length := len' } }
          (if o.kind = .dsz then "ok" else showBool ch)
  | .grow r n =>
    match s.regs[r]? with
    | none => .bad
    | some o =>
      let g := hGrow grow s.heap o.hdr n
      .ok { s with heap := g.1, regs := s.regs.set r { o with hdr := g.2 } } "ok"
  | .clone d src =>
    match s.regs[d]?, s.regs[src]? with
    | some od, some os =>
      if od.kind = .bitmap ∧ os.kind ≠ .dsz then
        -- `*d = src.Clone()`: the register's header is replaced by the fresh block's
        let c := hClone s.heap os.hdr
        .ok { s with heap := c.1, regs := s.regs.set d { od with hdr := c.2 } } "ok"
      else .bad
    | _, _ => .bad
  | .diff a b => hbulk s a b fun H h o => (hDiff H h o).map fun H' => (H', h)
  | .intersect a b => hbulk s a b fun H h o => (hIntersect H h o).map fun H' => (H', h)
  | .merge a b => hbulk s a b (hMerge grow)
  | .layout =>
    .ok s (showLayout (s.regs.map fun o => o.hdr.len) (overlapPairs (s.regs.map (·.hdr))))
  | op =>
    -- read-only for the word arrays: evaluated on the current views
    match step1 s.abs op with
    | .bad => .bad
    | .panic => .panic
    | .ok t out => .ok { s with iters := t.iters } out

def hloopN (grow : Nat → Nat → Nat) (mk : Nat → Op) : (count : Nat) → HSt → (n d hits : Nat) → HRes
  | 0, s, _, _, hits => .ok s (toString hits)
  | c + 1, s, n, d, hits =>
    match hstep1 grow s (mk n) with
    | .ok s' out => hloopN grow mk c s' (n + d) d (if out = "true" then hits + 1 else hits)
    | .bad => .bad
    | .panic => .panic

def hseq3 (grow : Nat → Nat → Nat) (s : HSt) (o1 o2 o3 : Op) : HRes :=
  match hstep1 grow s o1 with
  | .ok s1 x1 =>
    match hstep1 grow s1 o2 with
    | .ok s2 x2 =>
      match hstep1 grow s2 o3 with
      | .ok s3 x3 => .ok s3 (x1 ++ " ; " ++ x2 ++ " ; " ++ x3)
      | .bad => .bad
      | .panic => .panic
    | .bad => .bad
    | .panic => .panic
  | .bad => .bad
  | .panic => .panic

def hstep (grow : Nat → Nat → Nat) (s : HSt) : Op → HRes
  | .reseq r a n b => hseq3 grow s (.all r a) (.add r n) (.all r b)
  | .addn r a d c => if c = 0 then .bad else hloopN grow (.add r) c s a d 0
  | .removen r a d c => if c = 0 then .bad else hloopN grow (.remove r) c s a d 0
  | op => hstep1 grow s op

def hrunOps (grow : Nat → Nat → Nat) : Option HSt → List String → List String
  | _, [] => []
  | none, _ :: ls => "dead" :: hrunOps grow none ls
  | some s, l :: ls =>
    match parseOp (toks l) with
    | none => "bad-op" :: hrunOps grow (some s) ls
    | some op =>
      match hstep grow s op with
      | .bad => "bad-op" :: hrunOps grow (some s) ls
      | .panic => "panic" :: hrunOps grow none ls
      | .ok s' out => out :: hrunOps grow (some s') ls

/-- `caps`: the capacity of every register's word slice (a pure observation of the heap model's
slice headers, compared with the real `cap(b.set)` read by reflection; it depends on the growth
function, so it is not part of the by-value machine and handled by the driver loop itself) -/
def showCaps (s : HSt) : String := s!"caps {showNats (s.regs.map fun o => o.hdr.cap)}"

/-- `hrunOps` plus the `caps` observation -/
def hrunOpsC (grow : Nat → Nat → Nat) : Option HSt → List String → List String
  | _, [] => []
  | none, _ :: ls => "dead" :: hrunOpsC grow none ls
  | some s, l :: ls =>
    if toks l = ["caps"] then showCaps s :: hrunOpsC grow (some s) ls
    else
      match parseOp (toks l) with
      | none => "bad-op" :: hrunOpsC grow (some s) ls
      | some op =>
        match hstep grow s op with
        | .bad => "bad-op" :: hrunOpsC grow (some s) ls
        | .panic => "panic" :: hrunOpsC grow none ls
        | .ok s' out => out :: hrunOpsC grow (some s') ls

def parseKindH (k : String) : Option Kind :=
  if k = "bits" then some .bits
  else if k = "bitmap" then some .bitmap
  else if k = "dsz" then some .dsz
  else none

/-- zero values: every `set` field is the nil slice, the heap is empty -/
def HSt.init (kinds : List Kind) : HSt :=
  ⟨[], kinds.map fun k => ⟨k, Hdr.nil, 0⟩, [none, none]⟩

/-! ### Go runtime `growslice` capacity for 8-byte elements (oracle instantiation only; the
same table as `Golib.C14.goGrow`, duplicated to keep the properties independent) -/

def sizeClasses8 : List Nat :=
  [8, 16, 24, 32, 48, 64, 80, 96, 112, 128, 144, 160, 176, 192, 208, 224, 240, 256, 288, 320, 352,
   384, 416, 448, 480, 512, 576, 640, 704, 768, 896, 1024, 1152, 1280, 1408, 1536, 1792, 2048, 2304,
   2688, 3072, 3200, 3456, 4096, 4864, 5376, 6144, 6528, 6784, 6912, 8192, 9472, 9728, 10240, 10880,
   12288, 13568, 14336, 16384, 18432, 19072, 20480, 21760, 24576, 27264, 28672, 32768]

def roundUpSize8 (bytes : Nat) : Nat :=
  match sizeClasses8.find? (· ≥ bytes) with
  | some c => c
  | none => (bytes + 8191) / 8192 * 8192

def nextCapLoop8 (newLen : Nat) : (fuel newcap : Nat) → Nat
  | 0, c => c
  | f + 1, c =>
    let c := c + (c + 3 * 256) / 4
    if c ≥ newLen then c else nextCapLoop8 newLen f c

def goGrow8 (oldCap newLen : Nat) : Nat :=
  let doublecap := oldCap + oldCap
  let newcap :=
    if newLen > doublecap then newLen
    else if oldCap < 256 then doublecap
    else nextCapLoop8 newLen 64 oldCap
  roundUpSize8 (newcap * 8) / 8

end Golib.C16
