/-
Model of `randz/id.go`: the base-32 decode table built by the two `init` loops (loop
bounds, alphabet and marks taken from the regenerated `Golib.Gen.C20`), `ID.Base32`,
`ParseBase32`, `ID.String/Base2/Base36` (= `strconv.FormatInt`), `NewIdGenerator`
(clamping of `randBit`) and the bit composition in `IdGenerator.Generate`
(`(ms & timeMask) << timeShift | rand`, on `BitVec 64` as Go's `int64`).
The clock and the random part are inputs of the model.  A Go panic is `none`.
-/
import Golib.Proto
import Golib.Gen.FactsC20

namespace Golib.C20
open Golib.Proto
open Golib.Gen.C20

/-! ### decode table: the two init loops -/

/-- `t[i] = v` on the fixed-size array; out of range = run-time panic (`none`). -/
def setTab (t : List Nat) (i v : Nat) : Option (List Nat) :=
  if i < t.length then some (t.set i v) else none

/-- `for i := 0; i < bound; i++ { decodeBase32Map[i] = mark }` -/
def initLoop1 (bound mark : Nat) (t : List Nat) : Option (List Nat) :=
  (List.range bound).foldlM (fun t i => setTab t i mark) t

/-- `for i := 0; i < bound; i++ { decodeBase32Map[encodeBase32Map[i]] = byte(i) }` -/
def initLoop2 (bound : Nat) (alpha : List Nat) (t : List Nat) : Option (List Nat) :=
  (List.range bound).foldlM
    (fun t i => match alpha[i]? with
      | none => none
      | some c => setTab t c (i % 256)) t

/-- The table after package initialisation (zero-valued array, then the two loops). -/
def decodeTable : Option (List Nat) :=
  (initLoop1 loop1Bound invalidMark (List.replicate tableSize 0)).bind
    (initLoop2 loop2Bound alphabet)

/-! ### ParseBase32 -/

inductive ParseRes where
  | ok (id : Int)      -- `(ID(id), nil)`
  | invalid            -- `(-1, ErrInvalidBase32)`
  | panic
deriving Repr, DecidableEq

/-- Go `int64` value of an accumulator kept modulo 2^64. -/
def toInt64 (n : Nat) : Int := if n % 2^64 < 2^63 then (n % 2^64 : Nat) else (n % 2^64 : Nat) - (2^64 : Int)

/-- The loop of `ParseBase32`; `acc` is the `int64` accumulator modulo 2^64. -/
def parseLoop (t : List Nat) : Nat → List Nat → ParseRes
  | acc, [] => .ok (toInt64 acc)
  | acc, b :: bs =>
    match t[b]? with
    | none => .panic
    | some d =>
      if d = parseRejectMark then .invalid
      else parseLoop t ((acc * 32 + d) % 2^64) bs

def parseBase32With (t : List Nat) (bs : List Nat) : ParseRes := parseLoop t 0 bs

def parseBase32 (bs : List Nat) : ParseRes :=
  match decodeTable with
  | none => .panic
  | some t => parseBase32With t bs

/-! ### ID.Base32 -/

/-- `encodeBase32Map[i]` (string indexing panics out of range). -/
def encChar (i : Nat) : Option Nat := alphabet[i]?

/-- `for f >= 32 { b = append(b, enc[f%32]); f /= 32 }; b = append(b, enc[f])` -/
def encLoop (f : Nat) (b : List Nat) : Option (List Nat) :=
  if h : 32 ≤ f then
    match encChar (f % 32) with
    | none => none
    | some c => encLoop (f / 32) (b ++ [c])
  else
    match encChar f with
    | none => none
    | some c => some (b ++ [c])
termination_by f
decreasing_by omega

/-- `ID.Base32`: negative IDs index the alphabet with a negative number (panic). -/
def base32 (f : Int) : Option (List Nat) :=
  if f < 32 then
    if f < 0 then none else (encChar f.toNat).map fun c => [c]
  else
    -- the final in-place swap loop reverses `b`
    (encLoop f.toNat []).map List.reverse

/-! ### strconv.FormatInt (String / Base2 / Base36) -/

def digitChar (d : Nat) : Char :=
  if d < 10 then Char.ofNat (48 + d) else Char.ofNat (87 + d)

def natDigits (base n : Nat) (acc : List Char) : List Char :=
  if h : 2 ≤ base ∧ base ≤ n then natDigits base (n / base) (digitChar (n % base) :: acc)
  else digitChar n :: acc
termination_by n
decreasing_by
  have := Nat.div_lt_self (n := n) (k := base) (by omega) (by omega)
  omega

def formatInt (v : Int) (base : Nat) : String :=
  if v < 0 then String.ofList ('-' :: natDigits base v.natAbs [])
  else String.ofList (natDigits base v.toNat [])

/-! ### IdGenerator -/

structure IdGen where
  randBit   : Int
  randMax   : Int
  timeMask  : Int
  timeShift : Int
deriving Repr, DecidableEq

/-- `NewIdGenerator(_, randBit)`: the clamping and the derived fields. -/
def newIdGen (randBit : Int) : IdGen :=
  let rb := if randBit ≤ 1 then 16 else randBit
  let rb := if rb > 22 then 22 else rb
  { randBit := rb, randMax := 2 ^ rb.toNat, timeMask := 2 ^ 41 - 1, timeShift := rb }

/-- `ID((ms & timeMask) << timeShift | randInt)` on `int64`. -/
def compose (g : IdGen) (ms : Int) (randInt : Int) : Int :=
  (((BitVec.ofInt 64 ms &&& BitVec.ofInt 64 g.timeMask) <<< g.timeShift.toNat)
    ||| BitVec.ofInt 64 randInt).toInt

/-- `time.Duration.Milliseconds()`: `int64(d) / 1e6`, Go's truncated division. -/
def millis (dNanos : Int) : Int := Int.tdiv dNanos 1000000

/-- `IdGenerator.Generate()` when `time.Since(r.startTime)` is `dNanos` nanoseconds and the
random source yields `randInt`. -/
def idGenerate (g : IdGen) (dNanos : Int) (randInt : Int) : Int := compose g (millis dNanos) randInt

/-! ### driver -/

def showParse : ParseRes → String
  | .ok id => s!"{id} ok"
  | .invalid => "-1 err:invalid-base32"
  | .panic => "panic"

/-- One op of kind `id`; `none` = panic. -/
def idStep (ts : List String) : Option String :=
  match ts with
  | ["b32", v] =>
    match v.toInt? with
    | none => some "bad-op"
    | some f => if f < -(2^63 : Int) ∨ f ≥ (2^63 : Int) then some "bad-op" else (base32 f).map hex
  | ["p32", h] =>
    match unhex h with
    | none => some "bad-op"
    | some bs =>
      match parseBase32 bs with
      | .panic => none
      | r => some (showParse r)
  | ["fmt", v] =>
    match v.toInt? with
    | none => some "bad-op"
    | some f =>
      -- `String()`, `Base2()`, `Base36()`: `strconv.FormatInt` with the bases found in the source
      some s!"{formatInt f baseOfString} {formatInt f baseOfBase2} {formatInt f baseOfBase36}"
  | ["millis", d] =>                      -- `time.Duration(d).Milliseconds()`
    match d.toInt? with
    | none => some "bad-op"
    | some d => if d < -(2^63 : Int) ∨ d ≥ (2^63 : Int) then some "bad-op" else some (toString (millis d))
  | ["newgen", rb] =>
    match rb.toInt? with
    | none => some "bad-op"
    | some rb =>
      let g := newIdGen rb
      some s!"rb={g.randBit} max={g.randMax} mask={g.timeMask} shift={g.timeShift}"
  | ["compose", rb, ms, r] =>
    match rb.toInt?, ms.toInt?, r.toInt? with
    | some rb, some ms, some r => some (toString (compose (newIdGen rb) ms r))
    | _, _, _ => some "bad-op"
  | _ => some "bad-op"

def runOpsWith (step : List String → Option String) : Bool → List String → List String
  | _, [] => []
  | true, _ :: ls => "dead" :: runOpsWith step true ls
  | false, l :: ls =>
    match step (toks l) with
    | none => "panic" :: runOpsWith step true ls
    | some o => o :: runOpsWith step false ls

def runIdCase (hdr : List String) (ops : List String) : List String :=
  match hdr with
  | [] => "ok" :: runOpsWith idStep false ops
  | _ => "bad-op" :: ops.map fun _ => "bad-op"

end Golib.C20
