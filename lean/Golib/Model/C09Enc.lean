/-
Executable instances of the remaining standard-library parameters of the C09 model
(core-only): `encoding/base64` StdEncoding (Encode, and Decode exactly as Go decodes:
`\r`/`\n` skipped, `=` padding rules, trailing garbage, non-strict trailing bits),
the hex codec of `strz/std_hex.go` (`hexDecode`, mirrored loop; accepts both cases) and
`hex.Encode`, and the AES-CTR keystream of `cipher.NewCTR` (128-bit big-endian counter).

Models of the standard library, NOT of code in /repo (except `hexDecode`, which is repo code
copied from the standard library).  Validated by `#guard` TESTS below and on every run
against the Go implementations through the correspondence check.
-/
import Golib.Model.C08Aes
import Golib.Model.C08Gcm

namespace Golib.C09.Enc

/-! ### base64 -/

def b64Alphabet : Array Nat :=
  ("ABCDEFGHIJKLMNOPQRSTUVWXYZabcdefghijklmnopqrstuvwxyz0123456789+/".toList.map Char.toNat).toArray

def b64Char (v : Nat) : Nat := b64Alphabet.getD (v % 64) 0

def b64Encode : List Nat → List Nat
  | a :: b :: c :: rest =>
    let v := a * 65536 + b * 256 + c
    b64Char (v / 262144) :: b64Char (v / 4096) :: b64Char (v / 64) :: b64Char v :: b64Encode rest
  | [a, b] =>
    let v := a * 65536 + b * 256
    [b64Char (v / 262144), b64Char (v / 4096), b64Char (v / 64), 61]
  | [a] =>
    let v := a * 65536
    [b64Char (v / 262144), b64Char (v / 4096), 61, 61]
  | [] => []

/-- `enc.decodeMap[in]`: `none` = 0xff. -/
def b64Val (c : Nat) : Option Nat :=
  if 65 ≤ c ∧ c ≤ 90 then some (c - 65)
  else if 97 ≤ c ∧ c ≤ 122 then some (c - 97 + 26)
  else if 48 ≤ c ∧ c ≤ 57 then some (c - 48 + 52)
  else if c = 43 then some 62
  else if c = 47 then some 63
  else none

def isNL (c : Nat) : Bool := c = 10 || c = 13

def skipNL : List Nat → List Nat
  | c :: rest => if isNL c then skipNL rest else c :: rest
  | [] => []

/-- outcome of one `decodeQuantum`: the sextets gathered (`dlen` = their number), the
unread rest of the input; `none` = `CorruptInputError`. -/
def quantum : (j : Nat) → (acc : List Nat) → (src : List Nat) → Nat → Option (List Nat × List Nat)
  | _, _, _, 0 => none
  | j, acc, src, fuel + 1 =>
    if j = 4 then some (acc, src)
    else match src with
      | [] =>
        -- `len(src) == si`: j == 0 ends cleanly, anything else is corrupt (padChar is '=')
        if j = 0 then some (acc, []) else none
      | c :: rest =>
        match b64Val c with
        | some v => quantum (j + 1) (acc ++ [v]) rest fuel
        | none =>
          if isNL c then quantum j acc rest fuel
          else if c ≠ 61 then none
          else
            -- padding reached
            if j < 2 then none
            else
              let rest1 :=
                if j = 2 then
                  -- "==" expected: skip newlines, need one more '='
                  match skipNL rest with
                  | 61 :: r => some r
                  | _ => none
                else some rest
              match rest1 with
              | none => none
              | some r =>
                -- skip trailing newlines; anything left is trailing garbage
                match skipNL r with
                | [] => some (acc, [])
                | _ => none

def sextetsToBytes (q : List Nat) : List Nat :=
  let d := fun i => q.getD i 0
  let v := d 0 * 262144 + d 1 * 4096 + d 2 * 64 + d 3
  match q.length with
  | 4 => [v / 65536 % 256, v / 256 % 256, v % 256]
  | 3 => [v / 65536 % 256, v / 256 % 256]
  | 2 => [v / 65536 % 256]
  | _ => []

/-- `base64.StdEncoding.Decode`: `none` = error. -/
def b64DecodeLoop : Nat → List Nat → List Nat → Option (List Nat)
  | 0, _, _ => none
  | fuel + 1, src, out =>
    match src with
    | [] => some out
    | _ =>
      match quantum 0 [] src (src.length + 5) with
      | none => none
      | some (q, rest) => b64DecodeLoop fuel rest (out ++ sextetsToBytes q)

def b64Decode (src : List Nat) : Option (List Nat) := b64DecodeLoop (src.length + 1) src []

/-! ### hex -/

def hexDigitLower (v : Nat) : Nat := if v < 10 then 48 + v else 87 + v

def hexEncode (b : List Nat) : List Nat :=
  b.flatMap fun x => [hexDigitLower (x / 16 % 16), hexDigitLower (x % 16)]

/-- `fromHexChar` -/
def fromHexChar (c : Nat) : Option Nat :=
  if 48 ≤ c ∧ c ≤ 57 then some (c - 48)
  else if 97 ≤ c ∧ c ≤ 102 then some (c - 97 + 10)
  else if 65 ≤ c ∧ c ≤ 70 then some (c - 65 + 10)
  else none

/-- `strz.hexDecode`: pairs left to right; an invalid character or an odd length is an
error (`none`). -/
def hexDecode : List Nat → Option (List Nat)
  | a :: b :: rest =>
    match fromHexChar a with
    | none => none
    | some x =>
      match fromHexChar b with
      | none => none
      | some y =>
        match hexDecode rest with
        | none => none
        | some r => some ((x * 16 + y) :: r)
  | [_] => none
  | [] => some []

/-! ### CTR keystream of `cipher.NewCTR(aes(key), iv)` -/

open Golib.C08.GCM (toNatBE ofNatBE)

def ctrBlock (iv : List Nat) (i : Nat) : List Nat := ofNatBE 16 ((toNatBE iv + i) % 2 ^ 128)

/-- the first `n` keystream bytes -/
def aesCtrStream (key iv : List Nat) (n : Nat) : List Nat :=
  ((List.range ((n + 15) / 16)).flatMap fun i => Golib.C08.AES.encryptBlock key (ctrBlock iv i)).take n

/-! ### Tests — `#guard` evaluates, it proves nothing. -/

private def ascii (s : String) : List Nat := s.toList.map Char.toNat

-- test: RFC 4648 §10 vectors
#guard b64Encode (ascii "") = ascii "" ∧ b64Encode (ascii "f") = ascii "Zg==" ∧
  b64Encode (ascii "fo") = ascii "Zm8=" ∧ b64Encode (ascii "foo") = ascii "Zm9v" ∧
  b64Encode (ascii "foob") = ascii "Zm9vYg==" ∧ b64Encode (ascii "fooba") = ascii "Zm9vYmE=" ∧
  b64Encode (ascii "foobar") = ascii "Zm9vYmFy"
#guard b64Decode (ascii "Zm9vYmFy") = some (ascii "foobar") ∧ b64Decode (ascii "Zm9vYg==") = some (ascii "foob") ∧
  b64Decode (ascii "Zm9vYmE=") = some (ascii "fooba") ∧ b64Decode (ascii "") = some []
-- test: Go specifics — newlines skipped, padding rules, trailing garbage, non-strict bits
#guard b64Decode (ascii "Zm9v\nYg=\r\n=\n") = some (ascii "foob")
#guard b64Decode (ascii "Zm9vYg=") = none ∧ b64Decode (ascii "Zm9vYg") = none ∧ b64Decode (ascii "Zm9vYg==x") = none ∧
  b64Decode (ascii "Z") = none ∧ b64Decode (ascii "=") = none ∧ b64Decode (ascii "Zg=x") = none ∧
  b64Decode (ascii "Zm9v=") = none ∧ b64Decode (ascii "Zh==") = some (ascii "f") ∧ b64Decode (ascii "Zm9-") = none
-- test: hex
#guard hexDecode (ascii "00ffAb") = some [0, 255, 171] ∧ hexDecode (ascii "0") = none ∧ hexDecode (ascii "0g") = none
#guard hexEncode [0, 255, 171] = ascii "00ffab"
-- test: NIST SP 800-38A F.5.1 CTR-AES128 keystream (first block: E(K, f0f1…ff) ⊕ plaintext = 874d6191…)
#guard Golib.C08.AES.xorBlock
    (aesCtrStream [0x2b,0x7e,0x15,0x16,0x28,0xae,0xd2,0xa6,0xab,0xf7,0x15,0x88,0x09,0xcf,0x4f,0x3c]
      [0xf0,0xf1,0xf2,0xf3,0xf4,0xf5,0xf6,0xf7,0xf8,0xf9,0xfa,0xfb,0xfc,0xfd,0xfe,0xff] 20)
    [0x6b,0xc1,0xbe,0xe2,0x2e,0x40,0x9f,0x96,0xe9,0x3d,0x7e,0x11,0x73,0x93,0x17,0x2a,0xae,0x2d,0x8a,0x57]
  = [0x87,0x4d,0x61,0x91,0xb6,0x20,0xe3,0x26,0x1b,0xef,0x68,0x64,0x99,0x0d,0xb6,0xce,0x98,0x06,0xf6,0x6b]

end Golib.C09.Enc
