/-
Model of `algz.FindDpSolvers`, `DpSolvers.Best`, `DpSolvers.BestAllowMinOverflow` and the
`slicesPool` (`/repo/algz/dp.go`).

Two levels:

* **heap level** (`solversH`, mirrors the code): Go slices are `(buffer id, len)` pairs
  into an explicit heap of buffers `(cap, data)`; `make`, `append` (in place when the
  capacity suffices, otherwise a fresh buffer whose capacity is chosen by the parameter
  `grow`), `slice[:0]`, `tmpPool.Get/Put` act on that heap, so a buffer that is recycled
  while a live table cell still refers to it would change what that cell reads.
* **value level** (`solversV`): the same control flow on plain lists.  The theorem
  `c18_pool_no_alias` says the heap level never aliases and reads back exactly the value
  level.

Go map iteration order is an input: `ord1 i l` is the order in which `range dp` visits the
entries `l` in the pass of item number `i`, `ord2 i l` the same for `range dpTmp`.
The theorems assume only `(ord i l).Perm l`.

A Go map is an association list with distinct keys (`alInsert` replaces in place).
-/
namespace Golib.C18

/-! ### association lists (Go maps) -/

def alLookup {β : Type} (k : Int) : List (Int × β) → Option β
  | [] => none
  | (k', v) :: r => if k' = k then some v else alLookup k r

def alInsert {β : Type} (k : Int) (v : β) : List (Int × β) → List (Int × β)
  | [] => [(k, v)]
  | (k', v') :: r => if k' = k then (k, v) :: r else (k', v') :: alInsert k v r

def alErase {β : Type} (k : Int) : List (Int × β) → List (Int × β)
  | [] => []
  | (k', v') :: r => if k' = k then r else (k', v') :: alErase k r

/-! ### value level -/

section value
variable {α : Type} (br : Option (List α → List α → Bool))
variable (maxV : Int) (allowOver : Bool)

structure VSt (α : Type) where
  dp : List (Int × List α)
  tmp : List (Int × List α)
  overflow : Int

/-- Body of `for currentValue, solver := range dp`:
```go
newValue := currentValue + value
if newValue > maxValue {
    if !allowOverOnce || (overflow > 0 && newValue > overflow) { continue }
    overflow = newValue
}
oldSolver, ok := dp[newValue]
if ok && breaker == nil { continue }
newSolver := …solver + item…
if ok && !breaker(oldSolver, newSolver) { tmpPool.Put(newSolver); continue }
dpTmp[newValue] = newSolver
``` -/
def vStep1 (item : α) (value : Int) (st : VSt α) (e : Int × List α) : VSt α :=
  let newValue := e.1 + value
  if newValue > maxV ∧ (allowOver = false ∨ (st.overflow > 0 ∧ newValue > st.overflow)) then st
  else
    let st1 : VSt α := if newValue > maxV then { st with overflow := newValue } else st
    match alLookup newValue st1.dp, br with
    | some _, none => st1
    | some old, some b =>
      let newSolver := e.2 ++ [item]
      if b old newSolver then { st1 with tmp := alInsert newValue newSolver st1.tmp } else st1
    | none, _ => { st1 with tmp := alInsert newValue (e.2 ++ [item]) st1.tmp }

/-- Body of `for v, solver := range dpTmp`. -/
def vStep2 (st : VSt α) (e : Int × List α) : VSt α :=
  { st with dp := alInsert e.1 e.2 st.dp, tmp := alErase e.1 st.tmp }

variable (vf : α → Int)
variable (ord1 ord2 : Nat → List Int → List Int)

/-- The entries of a map in the order given by a key order (keys not present are skipped,
so an order oracle that is not a permutation cannot invent entries). -/
def entriesIn {β : Type} (m : List (Int × β)) (ks : List Int) : List (Int × β) :=
  ks.filterMap fun k => (alLookup k m).map fun v => (k, v)

def vPass (i : Nat) (item : α) (st : VSt α) : VSt α :=
  let st1 := (entriesIn st.dp (ord1 i (st.dp.map (·.1)))).foldl (vStep1 br maxV allowOver item (vf item)) st
  (entriesIn st1.tmp (ord2 i (st1.tmp.map (·.1)))).foldl vStep2 st1

def vItems : Nat → List α → VSt α → VSt α
  | _, [], st => st
  | i, x :: xs, st => vItems (i + 1) xs (vPass br maxV allowOver vf ord1 ord2 i x st)

/-- `FindDpSolvers(maxV, items, vf, allowOver, br…)` on values. -/
def solversV (items : List α) : List (Int × List α) :=
  (vItems br maxV allowOver vf ord1 ord2 0 items { dp := [(0, [])], tmp := [], overflow := 0 }).dp

end value

/-! ### heap level -/

structure Buf (α : Type) where
  cap : Nat
  data : List α          -- the cells written so far (a prefix of the array), `length ≤ cap`

structure Slice where
  buf : Nat
  len : Nat
deriving Repr, DecidableEq

abbrev Heap (α : Type) := List (Buf α)

/-- What a slice reads; `none` = dangling / uninitialised (never happens, proved). -/
def readS {α : Type} (h : Heap α) (s : Slice) : Option (List α) :=
  match h[s.buf]? with
  | none => none
  | some b => if s.len ≤ b.data.length then some (b.data.take s.len) else none

/-- `make([]T, 0, cap)`. -/
def allocS {α : Type} (h : Heap α) (cap : Nat) : Heap α × Slice :=
  (h ++ [{ cap := cap, data := [] }], { buf := h.length, len := 0 })

/-- `append(s, xs...)`: in place when `len+|xs| ≤ cap`, otherwise a fresh buffer of
capacity `grow (len+|xs|)` holding a copy.  `none` = the model is stuck (dangling slice). -/
def appendS {α : Type} (grow : Nat → Nat) (h : Heap α) (s : Slice) (xs : List α) :
    Option (Heap α × Slice) :=
  match h[s.buf]? with
  | none => none
  | some b =>
    if b.data.length < s.len then none else
    let n := s.len + xs.length
    if n ≤ b.cap then
      some (h.set s.buf { b with data := b.data.take s.len ++ xs ++ b.data.drop n },
            { buf := s.buf, len := n })
    else
      some (h ++ [{ cap := grow n, data := b.data.take s.len ++ xs }], { buf := h.length, len := n })

section heap
variable {α : Type} (br : Option (List α → List α → Bool))
variable (maxV : Int) (allowOver : Bool) (grow : Nat → Nat)

structure HSt (α : Type) where
  heap : Heap α
  dp : List (Int × Slice)
  tmp : List (Int × Slice)
  pool : List Slice        -- `tmpPool.entries`, last = top
  overflow : Int

/-- `tmpPool.Get(initCap)`. -/
def poolGet (st : HSt α) (initCap : Nat) : HSt α × Slice :=
  match st.pool.getLast? with
  | none =>
    let (h, s) := allocS st.heap initCap
    ({ st with heap := h }, s)
  | some s => ({ st with pool := st.pool.dropLast }, { s with len := 0 })

/-- `tmpPool.Put(slice)`. -/
def poolPut (st : HSt α) (s : Slice) : HSt α := { st with pool := st.pool ++ [s] }

/-- `newSolver := tmpPool.Get(len(solver)+1); newSolver = append(newSolver, solver...);
newSolver = append(newSolver, item)`; `none` = stuck (dangling slice). -/
def buildNew (item : α) (st : HSt α) (solver : Slice) : Option (HSt α × Slice) :=
  let (st2, ns0) := poolGet st (solver.len + 1)
  match readS st2.heap solver with
  | none => none
  | some solverVal =>
    match appendS grow st2.heap ns0 solverVal with
    | none => none
    | some (h3, ns1) =>
      match appendS grow h3 ns1 [item] with
      | none => none
      | some (h4, ns2) => some ({ st2 with heap := h4 }, ns2)

/-- Body of `for currentValue, solver := range dp` (heap level, same control flow as
`vStep1`); `none` = stuck. -/
def hStep1 (item : α) (value : Int) (st : HSt α) (e : Int × Slice) : Option (HSt α) :=
  let newValue := e.1 + value
  if newValue > maxV ∧ (allowOver = false ∨ (st.overflow > 0 ∧ newValue > st.overflow)) then some st
  else
    let st1 : HSt α := if newValue > maxV then { st with overflow := newValue } else st
    match alLookup newValue st1.dp, br with
    | some _, none => some st1
    | some old, some b =>
      match buildNew grow item st1 e.2 with
      | none => none
      | some (st4, ns) =>
        match readS st4.heap old, readS st4.heap ns with
        | some oldVal, some newVal =>
          if b oldVal newVal then some { st4 with tmp := alInsert newValue ns st4.tmp }
          else some (poolPut st4 ns)
        | _, _ => none
    | none, _ =>
      match buildNew grow item st1 e.2 with
      | none => none
      | some (st4, ns) => some { st4 with tmp := alInsert newValue ns st4.tmp }

/-- Body of `for v, solver := range dpTmp`. -/
def hStep2 (st : HSt α) (e : Int × Slice) : HSt α :=
  let st1 := match alLookup e.1 st.dp with
    | some old => poolPut st old
    | none => st
  { st1 with dp := alInsert e.1 e.2 st1.dp, tmp := alErase e.1 st1.tmp }

def foldlM? {σ β : Type} (f : σ → β → Option σ) : List β → σ → Option σ
  | [], s => some s
  | b :: bs, s => match f s b with
    | none => none
    | some s' => foldlM? f bs s'

variable (vf : α → Int)
variable (ord1 ord2 : Nat → List Int → List Int)

def hPass (i : Nat) (item : α) (st : HSt α) : Option (HSt α) :=
  match foldlM? (hStep1 br maxV allowOver grow item (vf item))
      (entriesIn st.dp (ord1 i (st.dp.map (·.1)))) st with
  | none => none
  | some st1 => some ((entriesIn st1.tmp (ord2 i (st1.tmp.map (·.1)))).foldl hStep2 st1)

def hItems : Nat → List α → HSt α → Option (HSt α)
  | _, [], st => some st
  | i, x :: xs, st =>
    match hPass br maxV allowOver grow vf ord1 ord2 i x st with
    | none => none
    | some st' => hItems (i + 1) xs st'

/-- Initial state: `dp := map[int][]T{0: {}}` (a zero-capacity buffer), empty pool. -/
def hInit : HSt α :=
  { heap := [{ cap := 0, data := [] }], dp := [(0, { buf := 0, len := 0 })], tmp := [], pool := [],
    overflow := 0 }

def solversH (items : List α) : Option (HSt α) :=
  hItems br maxV allowOver grow vf ord1 ord2 0 items hInit

/-- Read the returned map through the heap. -/
def readMap (h : Heap α) : List (Int × Slice) → Option (List (Int × List α))
  | [] => some []
  | (k, s) :: r =>
    match readS h s, readMap h r with
    | some v, some r' => some ((k, v) :: r')
    | _, _ => none

end heap

/-! ### Best / BestAllowMinOverflow -/

def maxInt : Int := 9223372036854775807

section best
variable {β : Type}

/-- Loop body of `Best`. State = `(best, minDiff)`. -/
def bestStep (m : Int) (acc : Option β × Int) (e : Int × β) : Option β × Int :=
  let diff := m - e.1
  if diff ≥ 0 ∧ diff < acc.2 then (some e.2, diff) else acc

/-- `s.Best(m)`; `ord` = iteration order of `range s`; `none` = the nil slice. -/
def best (ord : List Int → List Int) (s : List (Int × β)) (m : Int) : Option β :=
  match alLookup m s with
  | some b => some b
  | none => ((entriesIn s (ord (s.map (·.1)))).foldl (bestStep m) (none, maxInt)).1

/-- Loop body of `BestAllowMinOverflow`. -/
def bestOStep (m : Int) (acc : Option β × Int) (e : Int × β) : Option β × Int :=
  let diff := m - e.1
  if diff < 0 then
    if acc.2 > 0 ∨ diff > acc.2 then (some e.2, diff) else acc
  else if diff < acc.2 then (some e.2, diff) else acc

def bestO (ord : List Int → List Int) (s : List (Int × β)) (m : Int) : Option β :=
  match alLookup m s with
  | some b => some b
  | none => ((entriesIn s (ord (s.map (·.1)))).foldl (bestOStep m) (none, maxInt)).1

end best

end Golib.C18
