/-
Entry module of the C08 section of the oracle: drives the model of `cryptz/aes.go`
(`C08Pad.lean`) instantiated with the executable AES / GCM of `C08Aes.lean`, `C08Gcm.lean`.
-/
import Golib.Proto
import Golib.Model.C08Pad
import Golib.Model.C08Aes
import Golib.Model.C08Gcm
import Golib.Model.C08Arena

namespace Golib.C08
open Golib.Proto

/-- the executable block cipher instance: AES-128/192/256 by key length. -/
def aesCipher : Cipher := { E := AES.encryptBlock, D := AES.decryptBlock }
/-- the executable AEAD instance: AES-GCM, 16-byte tag. -/
def aesGCM : AEAD := { sealF := GCM.gcmSeal, openF := GCM.gcmOpen }

def showR (f : α → String) : R α → String
  | .ok a => "ok " ++ f a
  | .err e => "err:" ++ e
  | .panic => "panic"

def fill (n : Nat) : Bytes := List.replicate n 0xaa

/-- `fresh`, `inplace` (the documented layouts: `dst` sized by the library's helper), or
`fresh+K` / `fresh-K` / `inplace+K` / `inplace-K`: `dst` K bytes longer / shorter than
documented (off contract; compared with the code, not judged by the property oracle). -/
def parseLayout (s : String) : Option (String × Int) :=
  match s.splitOn "+" with
  | [l] =>
    match l.splitOn "-" with
    | [l] => if l = "fresh" ∨ l = "inplace" then some (l, 0) else none
    | [l, k] => match k.toNat? with
      | some k => if (l = "fresh" ∨ l = "inplace") ∧ 0 < k then some (l, -(k : Int)) else none
      | none => none
    | _ => none
  | [l, k] => match k.toNat? with
    | some k => if (l = "fresh" ∨ l = "inplace") ∧ 0 < k then some (l, (k : Int)) else none
    | none => none
  | _ => none

/-- `n + d`, not below zero -/
def resize (n : Nat) (d : Int) : Nat := ((n : Int) + d).toNat

def step (t : List String) : String :=
  match t with
  | ["enclen", n] => match n.toNat? with
    | some n => toString (cbcEncryptLen n) | none => "bad-op"
  | ["declen", n] => match n.toNat? with
    | some n => toString (cbcDecryptLen n) | none => "bad-op"
  | ["gcmenclen", n] => match n.toNat? with
    | some n => toString (gcmEncryptLen n) | none => "bad-op"
  | ["gcmdeclen", n] => match n.toNat? with
    | some n => toString (gcmDecryptLen n) | none => "bad-op"
  | ["pad", d, b] => match unhex d, b.toInt? with
    | some d, some b => showR hex (pkcs7Padding d b) | _, _ => "bad-op"
  | ["unpad", d, b] => match unhex d, b.toInt? with
    | some d, some b => showR hex (pkcs7UnPaddingPub d b) | _, _ => "bad-op"
  | ["pad5", d] => match unhex d with
    | some d => showR hex (pkcs5Padding d) | _ => "bad-op"
  | ["unpad5", d] => match unhex d with
    | some d => showR hex (pkcs5UnPadding d) | _ => "bad-op"
  | ["cbcenc", lay, key, iv, pt] => match unhex key, unhex iv, unhex pt with
    | some key, some iv, some pt =>
      let n := cbcEncryptLen pt.length
      match parseLayout lay with
      | some ("fresh", d) => showR hex (aesCBCEncrypt aesCipher (fill (resize n d)) pt key iv)
      | some ("inplace", d) =>
        -- the buffer that holds the plaintext, grown (or not grown enough) to `n + d` bytes
        let m := resize n d
        if m < pt.length then "bad-op"
        else showR hex (aesCBCEncrypt aesCipher (pt ++ fill (m - pt.length)) pt key iv)
      | _ => "bad-op"
    | _, _, _ => "bad-op"
  | ["cbcdec", lay, key, iv, ct] => match unhex key, unhex iv, unhex ct with
    | some key, some iv, some ct =>
      let sh := fun (r : Int × Bytes) => toString r.1 ++ " " ++ hex r.2
      match parseLayout lay with
      | some ("fresh", d) =>
        -- off-contract sizes are filled with the byte `|d|` so that a longer `dst` can end in
        -- something that looks like a padding
        let m := resize (cbcDecryptLen ct.length) d
        let f := if d = 0 then fill m else List.replicate m (d.natAbs % 256)
        showR sh (aesCBCDecrypt aesCipher (.fresh f) ct key iv)
      | some ("inplace", 0) => showR sh (aesCBCDecrypt aesCipher .inplace ct key iv)
      | _ => "bad-op"
    | _, _, _ => "bad-op"
  | ["gcmenc", lay, key, nonce, ad, pt] => match unhex key, unhex nonce, unhex ad, unhex pt with
    | some key, some nonce, some ad, some pt =>
      let n := gcmEncryptLen pt.length
      match parseLayout lay with
      | some ("fresh", d) => showR hex (aesGCMEncrypt aesGCM (fill (resize n d)) pt key nonce ad)
      | some ("inplace", 0) =>
        showR hex (aesGCMEncrypt aesGCM (pt ++ fill (n - pt.length)) pt key nonce ad)
      | _ => "bad-op"
    | _, _, _, _ => "bad-op"
  | ["gcmdec", lay, key, nonce, ad, ct] => match unhex key, unhex nonce, unhex ad, unhex ct with
    | some key, some nonce, some ad, some ct =>
      let n := (gcmDecryptLen ct.length).toNat
      match parseLayout lay with
      | some ("fresh", d) => showR hex (aesGCMDecrypt aesGCM (fill (resize n d)) ct key nonce ad)
      | some ("inplace", 0) => showR hex (aesGCMDecrypt aesGCM (ct.take n) ct key nonce ad)
      | _ => "bad-op"
    | _, _, _, _ => "bad-op"
  -- BUFFER-LEVEL ops: answered by the ARENA model (`C08Arena.lean`), not the value-level one
  | ["padcap", d, b, extra] => match unhex d, b.toInt?, extra.toNat? with
    -- PKCS7Padding on a slice with `extra` bytes of spare capacity (canaries 0xEE behind the data):
    -- result, what the spare capacity holds afterwards, whether the result aliases the input
    | some d, some b, some extra =>
      let m : Arena.Mem := { cells := d ++ List.replicate extra 0xEE, log := [] }
      let w : Arena.Win := { off := 0, len := d.length, cap := d.length + extra }
      match Arena.pkcs7PaddingA m w b with
      | (m', .ok sl) =>
        "ok " ++ hex (sl.content m') ++ " spare=" ++ hex (m'.cells.drop d.length) ++
          (match sl with | .inArena _ => " alias=1" | .fresh _ => " alias=0")
      | (_, .err e) => "err:" ++ e
      | (_, .panic) => "panic"
    | _, _, _ => "bad-op"
  | ["cbcdecleft", lay, key, iv, ct] => match unhex key, unhex iv, unhex ct with
    -- AESCBCDecrypt, and what `dst` holds afterwards WHATEVER the outcome
    | some key, some iv, some ct =>
      let n := ct.length
      let showO : R Int → String := fun r => match r with
        | .ok k => "ok " ++ toString k | .err e => "err:" ++ e | .panic => "panic"
      if lay = "fresh" then
        let m : Arena.Mem := { cells := fill n ++ ct ++ key ++ iv, log := [] }
        let dst : Arena.Win := { off := 0, len := n, cap := n }
        let r := Arena.aesCBCDecryptA aesCipher m dst { off := n, len := n, cap := n }
          { off := 2 * n, len := key.length, cap := key.length } { off := 2 * n + key.length, len := iv.length, cap := iv.length }
        (match r.2 with | .panic => "panic" | o => showO o ++ " dst=" ++ hex (r.1.rd dst))
      else if lay = "inplace" then
        let m : Arena.Mem := { cells := ct ++ key ++ iv, log := [] }
        let dst : Arena.Win := { off := 0, len := n, cap := n }
        let r := Arena.aesCBCDecryptA aesCipher m dst dst
          { off := n, len := key.length, cap := key.length } { off := n + key.length, len := iv.length, cap := iv.length }
        (match r.2 with | .panic => "panic" | o => showO o ++ " dst=" ++ hex (r.1.rd dst))
      else "bad-op"
    | _, _, _ => "bad-op"
  | ["gcmdecleft", lay, key, nonce, ad, ct] => match unhex key, unhex nonce, unhex ad, unhex ct with
    | some key, some nonce, some ad, some ct =>
      let n := (gcmDecryptLen ct.length).toNat
      let c := ct.length
      let showO : R Unit → String := fun r => match r with
        | .ok _ => "ok" | .err e => "err:" ++ e | .panic => "panic"
      if lay = "fresh" then
        let m : Arena.Mem := { cells := fill n ++ ct ++ key ++ nonce ++ ad, log := [] }
        let dst : Arena.Win := { off := 0, len := n, cap := n }
        let r := Arena.aesGCMDecryptA aesGCM m dst { off := n, len := c, cap := c }
          { off := n + c, len := key.length, cap := key.length }
          { off := n + c + key.length, len := nonce.length, cap := nonce.length }
          { off := n + c + key.length + nonce.length, len := ad.length, cap := ad.length }
        (match r.2 with | .panic => "panic" | o => showO o ++ " dst=" ++ hex (r.1.rd dst))
      else if lay = "inplace" then
        let m : Arena.Mem := { cells := ct ++ key ++ nonce ++ ad, log := [] }
        let dst : Arena.Win := { off := 0, len := n, cap := c }
        let r := Arena.aesGCMDecryptA aesGCM m dst { off := 0, len := c, cap := c }
          { off := c, len := key.length, cap := key.length }
          { off := c + key.length, len := nonce.length, cap := nonce.length }
          { off := c + key.length + nonce.length, len := ad.length, cap := ad.length }
        (match r.2 with | .panic => "panic" | o => showO o ++ " dst=" ++ hex (r.1.rd dst))
      else "bad-op"
    | _, _, _, _ => "bad-op"
  | _ => "bad-op"

/-- Entry point: header tokens after `@ C08`; every op line is a self-contained call. -/
def runCase (hdr : List String) (ops : List String) : List String :=
  match hdr with
  | ["x"] => "ok" :: ops.map fun l => step (toks l)
  -- history mode: the harness takes key / iv / nonce / additional data / dst of all calls of
  -- the case from the same backing arrays, overwritten in place between the calls.  In the
  -- model every call is a function of its CURRENT arguments only (there is no state to
  -- carry: `aesCBCEncrypt … key iv` etc. are pure), so the answers are those of mode `x`;
  -- the comparison checks that the real code has no memory of earlier calls either.
  | ["hist"] => "ok" :: ops.map fun l => step (toks l)
  -- arena mode: the harness passes dst, plaintext/ciphertext, key, iv/nonce and additional data
  -- of every call as windows of ONE arena (both orders, adjacent or apart, with or without
  -- spare capacity) and checks that nothing outside the dst window changed.  The model's entry
  -- points take and return VALUES: where the arguments live is not an input, and the only
  -- output is the new content of dst — so the answers are again those of mode `x`.
  | ["arena"] => "ok" :: ops.map fun l => step (toks l)
  | _ => "bad-op" :: ops.map fun _ => "bad-op"

end Golib.C08
