/-
Entry module of the C08 section of the oracle: drives the model of `cryptz/aes.go`
(`C08Pad.lean`) instantiated with the executable AES / GCM of `C08Aes.lean`, `C08Gcm.lean`.
-/
import Golib.Proto
import Golib.Model.C08Pad
import Golib.Model.C08Aes
import Golib.Model.C08Gcm

namespace Golib.C08
open Golib.Proto

/-- the executable block cipher instance: AES-128/192/256 by key length. -/
def aesCipher : Cipher := { E := AES.encryptBlock, D := AES.decryptBlock }
/-- the executable AEAD instance: AES-GCM, 16-byte tag. -/
def aesGCM : AEAD := { sealF := GCM.gcmSeal, openF := GCM.gcmOpen }

def showR (f : α → String) : R α → String
  | .ok a => "ok " ++ f a
  | .err e => "err:" ++ e
  | .panic => "panic"

def fill (n : Nat) : Bytes := List.replicate n 0xaa

def step (t : List String) : String :=
  match t with
  | ["enclen", n] => match n.toNat? with
    | some n => toString (cbcEncryptLen n) | none => "bad-op"
  | ["declen", n] => match n.toNat? with
    | some n => toString (cbcDecryptLen n) | none => "bad-op"
  | ["gcmenclen", n] => match n.toNat? with
    | some n => toString (gcmEncryptLen n) | none => "bad-op"
  | ["gcmdeclen", n] => match n.toNat? with
    | some n => toString (gcmDecryptLen n) | none => "bad-op"
  | ["pad", d, b] => match unhex d, b.toInt? with
    | some d, some b => showR hex (pkcs7Padding d b) | _, _ => "bad-op"
  | ["unpad", d, b] => match unhex d, b.toInt? with
    | some d, some b => showR hex (pkcs7UnPaddingPub d b) | _, _ => "bad-op"
  | ["pad5", d] => match unhex d with
    | some d => showR hex (pkcs5Padding d) | _ => "bad-op"
  | ["unpad5", d] => match unhex d with
    | some d => showR hex (pkcs5UnPadding d) | _ => "bad-op"
  | ["cbcenc", lay, key, iv, pt] => match unhex key, unhex iv, unhex pt with
    | some key, some iv, some pt =>
      let n := cbcEncryptLen pt.length
      if lay = "fresh" then showR hex (aesCBCEncrypt aesCipher (fill n) pt key iv)
      else if lay = "inplace" then
        showR hex (aesCBCEncrypt aesCipher (pt ++ fill (n - pt.length)) pt key iv)
      else "bad-op"
    | _, _, _ => "bad-op"
  | ["cbcdec", lay, key, iv, ct] => match unhex key, unhex iv, unhex ct with
    | some key, some iv, some ct =>
      let sh := fun (r : Int × Bytes) => toString r.1 ++ " " ++ hex r.2
      if lay = "fresh" then
        showR sh (aesCBCDecrypt aesCipher (.fresh (fill (cbcDecryptLen ct.length))) ct key iv)
      else if lay = "inplace" then showR sh (aesCBCDecrypt aesCipher .inplace ct key iv)
      else "bad-op"
    | _, _, _ => "bad-op"
  | ["gcmenc", lay, key, nonce, ad, pt] => match unhex key, unhex nonce, unhex ad, unhex pt with
    | some key, some nonce, some ad, some pt =>
      let n := gcmEncryptLen pt.length
      if lay = "fresh" then showR hex (aesGCMEncrypt aesGCM (fill n) pt key nonce ad)
      else if lay = "inplace" then
        showR hex (aesGCMEncrypt aesGCM (pt ++ fill (n - pt.length)) pt key nonce ad)
      else "bad-op"
    | _, _, _, _ => "bad-op"
  | ["gcmdec", lay, key, nonce, ad, ct] => match unhex key, unhex nonce, unhex ad, unhex ct with
    | some key, some nonce, some ad, some ct =>
      let n := (gcmDecryptLen ct.length).toNat
      if lay = "fresh" then showR hex (aesGCMDecrypt aesGCM (fill n) ct key nonce ad)
      else if lay = "inplace" then showR hex (aesGCMDecrypt aesGCM (ct.take n) ct key nonce ad)
      else "bad-op"
    | _, _, _, _ => "bad-op"
  | _ => "bad-op"

/-- Entry point: header tokens after `@ C08`; every op line is a self-contained call. -/
def runCase (hdr : List String) (ops : List String) : List String :=
  match hdr with
  | ["x"] => "ok" :: ops.map fun l => step (toks l)
  | _ => "bad-op" :: ops.map fun _ => "bad-op"

end Golib.C08
