/-
Abstract specification for C10: a bounded FIFO queue on a `List Int` (oldest first)
with an explicit capacity.  `BQ.step` answers every `Ring` operation with the same
printed form as the model driver, so "the ring refines the bounded FIFO" is an
equation between output lists.
-/
import Golib.Model.C10Ring
import Golib.Model.C10Sync

namespace Golib.C10
open Golib.Proto

/-- Bounded FIFO: content (oldest first) and capacity. -/
structure BQ where
  q   : List Int
  cap : Int
deriving Repr, DecidableEq

/-- One operation on the bounded FIFO and its printed result. -/
def BQ.step (s : BQ) : Op → BQ × String
  | .push v =>
    if (s.q.length : Int) < s.cap then (⟨s.q ++ [v], s.cap⟩, "true") else (s, "false")
  | .pushx v =>
    -- grows (doubling) exactly when full, then appends
    (⟨s.q ++ [v], if (s.q.length : Int) = s.cap then s.cap * 2 else s.cap⟩, "ok")
  | .recap c =>
    if 0 < c ∧ c ≠ s.cap ∧ (s.q.length : Int) ≤ c then (⟨s.q, c⟩, "true") else (s, "false")
  | .pop =>
    match s.q with
    | [] => (s, s!"{(0 : Int)} {showBool false}")
    | x :: xs => (⟨xs, s.cap⟩, s!"{x} {showBool true}")
  | .peek =>
    match s.q with
    | [] => (s, s!"{(0 : Int)} {showBool false}")
    | x :: _ => (s, s!"{x} {showBool true}")
  | .len => (s, toString (s.q.length : Int))
  | .cap => (s, toString s.cap)
  | .isEmpty => (s, showBool s.q.isEmpty)
  | .isFull => (s, showBool (decide ((s.q.length : Int) = s.cap)))

/-- Run a whole operation list on the spec: final state and the outputs. -/
def BQ.run (s : BQ) : List Op → BQ × List String
  | [] => (s, [])
  | op :: ops =>
    let (s1, o) := s.step op
    let (s2, os) := BQ.run s1 ops
    (s2, o :: os)

/-- Run a whole operation list on the model; `none` = some operation panicked. -/
def Ring.run (r : Ring) : List Op → Option (Ring × List String)
  | [] => some (r, [])
  | op :: ops =>
    match r.step op with
    | none => none
    | some (r1, o) =>
      match Ring.run r1 ops with
      | none => none
      | some (r2, os) => some (r2, o :: os)

/-- The SyncRing operations are the queue operations of the same spec. -/
def SOp.toOp : SOp → Op
  | .push v => .push v
  | .pop => .pop
  | .len => .len
  | .cap => .cap
  | .isEmpty => .isEmpty
  | .isFull => .isFull
  | .pushW v _ => .push v      -- a wait with `maxWait ≥ 0` returns what `Push` returns
  | .popW _ => .pop

/-- One honest push/pop pair on an empty ring: both must succeed and the pop must return
the value just pushed (`none` otherwise). -/
def SyncRing.pushPop (r : SyncRing) (v : Int) : Option SyncRing :=
  match r.push v with
  | some (r1, true) =>
    match r1.pop with
    | some (r2, x, true) => if x = v then some r2 else none
    | _ => none
  | _ => none

/-- `k` honest pairs pushing the values `vs 0, vs 1, …`. -/
def SyncRing.pairs (vs : Nat → Int) : Nat → SyncRing → Option SyncRing
  | 0, r => some r
  | k + 1, r =>
    match SyncRing.pairs vs k r with
    | none => none
    | some r' => r'.pushPop (vs k)

end Golib.C10
