/-
Model of `mergeScopes`, `ReplaceWithMask`, `Replace` (`algz/trie.go`), on top of the C05
model of `find`.

* `mergeLoop` is the single forward pass over the scope array with in-place deletion,
  exactly as coded: `scopes[i]` is updated in place, `append(scopes[:i+1], scopes[i+2:]...)`
  removes element `i+1`.  `stepBack = true` is the REPAIRED code (F4: `if i > 0 { i-- }`
  after the deletion); `stepBack = false` is the pre-fix code (kept for
  `Golib/Findings/C06F4.lean`).
* Go panics (`text[begin:start]` with `begin > start`, index out of range) are `none`;
  running out of fuel is `none` too (proved not to happen: `2·len + 1` iterations suffice).
-/
import Golib.Model.C05Trie

namespace Golib.C06
open Golib Golib.C05

/-- The update of `scopes[i]` when it overlaps `scopes[i+1]`. -/
def hull (a b : Scope) : Scope :=
  let a1 : Scope := if a.stop < b.stop then { a with stop := b.stop } else a
  if a1.start > b.start then { a1 with start := b.start } else a1

/-- `for i := 0; i < len(scopes)-1; { … }`. -/
def mergeLoop (stepBack : Bool) : Nat → Nat → List Scope → Option (List Scope)
  | 0, _, _ => none
  | fuel + 1, i, scopes =>
    if i + 1 < scopes.length then
      match scopes[i]?, scopes[i + 1]? with
      | some a, some b =>
        if a.stop > b.start then
          let scopes' := (scopes.set i (hull a b)).take (i + 1) ++ scopes.drop (i + 2)
          mergeLoop stepBack fuel (if stepBack ∧ i > 0 then i - 1 else i) scopes'
        else mergeLoop stepBack fuel (i + 1) scopes
      | _, _ => none
    else some scopes

def mergeScopesWith (stepBack : Bool) (scopes : List Scope) : Option (List Scope) :=
  mergeLoop stepBack (2 * scopes.length + 1) 0 scopes

/-- `mergeScopes` (repaired). -/
def mergeScopes (scopes : List Scope) : Option (List Scope) := mergeScopesWith true scopes

/-- `for i := 0; i < num; i++ { buf.WriteRune(mask) }`. -/
def maskRunes (num : Nat) (mask : Int) : List Nat := (List.replicate num (Utf8.encodeRune mask)).flatten

/-- Re-assembly loop of `ReplaceWithMask`. -/
def maskLoop (text : List Nat) (mask : Int) : List Scope → Int → List Nat → Option (List Nat)
  | [], begin, buf => (sliceInt? text begin text.length).map (buf ++ ·)
  | v :: vs, begin, buf =>
    match sliceInt? text begin v.start, sliceInt? text v.start v.stop with
    | some pre, some mid => maskLoop text mask vs v.stop (buf ++ pre ++ maskRunes (Utf8.runeCount mid) mask)
    | _, _ => none

/-- Re-assembly loop of `Replace`. -/
def replLoop (text repl : List Nat) : List Scope → Int → List Nat → Option (List Nat)
  | [], begin, buf => (sliceInt? text begin text.length).map (buf ++ ·)
  | v :: vs, begin, buf =>
    match sliceInt? text begin v.start with
    | some pre => replLoop text repl vs v.stop (buf ++ pre ++ repl)
    | none => none

def replaceWithMaskWith (stepBack : Bool) (t : Trie) (text : List Nat) (mask : Int) : Option (List Nat) :=
  match t.find text with
  | none => none
  | some scopes =>
    match mergeScopesWith stepBack scopes with
    | none => none
    | some merged => maskLoop text mask merged 0 []

def replaceWith (stepBack : Bool) (t : Trie) (text repl : List Nat) : Option (List Nat) :=
  match t.find text with
  | none => none
  | some scopes =>
    match mergeScopesWith stepBack scopes with
    | none => none
    | some merged => replLoop text repl merged 0 []

/-- `ReplaceWithMask(text, mask)` (repaired). -/
def replaceWithMask (t : Trie) (text : List Nat) (mask : Int) : Option (List Nat) :=
  replaceWithMaskWith true t text mask
/-- `Replace(text, repl)` (repaired). -/
def replace (t : Trie) (text repl : List Nat) : Option (List Nat) := replaceWith true t text repl

end Golib.C06
