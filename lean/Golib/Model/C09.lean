/-
Entry module of the C09 section of the oracle: drives the model of `cryptz/crypt.go`
(`C09Crypt.lean`) instantiated with the executable MD5, AES, GCM, CTR, base64 and hex of
`C09Md5.lean`, `C09Enc.lean`, `C08Aes.lean`, `C08Gcm.lean`.  The model mirrors the REPAIRED
code (`HeaderRead.readFull`).
-/
import Golib.Proto
import Golib.Model.C08
import Golib.Model.C09Crypt
import Golib.Model.C09Md5
import Golib.Model.C09Enc
import Golib.Model.C09Arena

namespace Golib.C09
open Golib.Proto Golib.C08

/-- the CTR keystream byte at position `p`, straight from the definition (slow: one AES
block per byte) -/
def slowKS (key iv : Bytes) (p : Nat) : Nat := ((Enc.aesCtrStream key iv (p + 1)).drop p).headD 0

/-- The executable instance.  For speed the keystream of the key/IV that `salt`/`secret`
derive is computed once (`n` bytes) and looked up by position; any other key/IV (never
requested by the model) falls back to the definition. -/
def primsFor (salt secret : Bytes) (n : Nat) : Prims :=
  let cred := (deriveCred MD5.md5 salt secret).getD []
  let kc := cred.take 32
  let ivc := cred.drop 32
  let arr : Array Nat := if n = 0 then #[] else (Enc.aesCtrStream kc ivc n).toArray
  { md5 := MD5.md5, C := aesCipher, A := aesGCM,
    KS := fun key iv p => if p < arr.size ∧ key = kc ∧ iv = ivc then arr.getD p 0 else slowKS key iv p,
    b64enc := Enc.b64Encode, b64raw := Enc.b64DecodeRaw,
    hexenc := Enc.hexEncode }

/-- instance for the calls that use no keystream -/
def prims (_ : Nat) : Prims := primsFor [] [] 0

def parseNats (s : String) : Option (List Nat) :=
  if s = "-" then some [] else (s.splitOn ",").mapM String.toNat?

def parseFlag (s : String) : Option Bool :=
  if s = "1" then some true else if s = "0" then some false else none

/-- `g:<plan>:<eofWithData>:<failAtEnd>` -/
def parseReader (s : String) (data : Bytes) : Option Reader :=
  match s.splitOn ":" with
  | ["g", plan, e, f] =>
    match parseNats plan, parseFlag e, parseFlag f with
    | some plan, some e, some f => some { data := data, plan := plan, eofWithData := e, failAtEnd := f }
    | _, _, _ => none
  | _ => none

def parseWFail (s : String) : Option (Option Nat) :=
  if s = "-" then some none else match s.toNat? with
    | some k => some (some k)
    | none => none

def showLens (cs : List Bytes) : String :=
  if cs.isEmpty then "-" else ",".intercalate (cs.map fun c => toString c.length)

def showW (lens : Bool) (w : Writer) : String :=
  (if lens then showLens w.chunks else "*") ++ " " ++ hex w.content

def salt0 : Bytes := List.replicate 8 0

def tyOK (s : String) : Bool := s = "ss" || s = "sb" || s = "bs" || s = "bb"

def step (t : List String) : String :=
  match t with
  | ["enc-cbc", ty, salt, secret, pt] => match unhex salt, unhex secret, unhex pt with
    | some salt, some secret, some pt =>
      if tyOK ty ∧ salt.length = 8 then showR hex (encrypt (prims 0) salt pt secret) else "bad-op"
    | _, _, _ => "bad-op"
  | ["raw-enc-cbc", ty, salt, secret, pt] => match unhex salt, unhex secret, unhex pt with
    | some salt, some secret, some pt =>
      if tyOK ty ∧ salt.length = 8 then showR hex (saltBySecretCBCEncrypt (prims 0) salt pt secret) else "bad-op"
    | _, _, _ => "bad-op"
  | ["dec-cbc", ty, secret, msg] => match unhex secret, unhex msg with
    | some secret, some msg => if tyOK ty then showR hex (decrypt (prims 0) msg secret) else "bad-op"
    | _, _ => "bad-op"
  | ["raw-dec-cbc", reuse, ty, secret, ct] => match parseFlag reuse, unhex secret, unhex ct with
    | some reuse, some secret, some ct =>
      if tyOK ty then showR hex (saltBySecretCBCDecrypt (prims 0) ct secret reuse) else "bad-op"
    | _, _, _ => "bad-op"
  | ["enc-gcm", ty, salt, secret, ad, pt] => match unhex salt, unhex secret, unhex ad, unhex pt with
    | some salt, some secret, some ad, some pt =>
      if tyOK ty ∧ salt.length = 8 then showR hex (gcmEncrypt (prims 0) salt pt secret ad) else "bad-op"
    | _, _, _, _ => "bad-op"
  | ["raw-enc-gcm", ty, salt, secret, ad, pt] => match unhex salt, unhex secret, unhex ad, unhex pt with
    | some salt, some secret, some ad, some pt =>
      if tyOK ty ∧ salt.length = 8 then showR hex (saltBySecretGCMEncrypt (prims 0) salt pt secret ad) else "bad-op"
    | _, _, _, _ => "bad-op"
  | ["dec-gcm", ty, secret, ad, msg] => match unhex secret, unhex ad, unhex msg with
    | some secret, some ad, some msg => if tyOK ty then showR hex (gcmDecrypt (prims 0) msg secret ad) else "bad-op"
    | _, _, _ => "bad-op"
  | ["raw-dec-gcm", reuse, ty, secret, ad, ct] => match parseFlag reuse, unhex secret, unhex ad, unhex ct with
    | some reuse, some secret, some ad, some ct =>
      if tyOK ty then showR hex (saltBySecretGCMDecrypt (prims 0) ct secret ad reuse) else "bad-op"
    | _, _, _, _ => "bad-op"
  | ["enc-stream", ty, salt, secret, src, wfail, pt] =>
    match unhex salt, unhex secret, unhex pt, parseWFail wfail with
    | some salt, some secret, some pt, some wf =>
      if ¬ (tyOK ty ∧ salt.length = 8) then "bad-op" else
      let out : Writer := { chunks := [], failAt := wf }
      let s : Option Src := if src = "w" then some (.writerTo pt) else (parseReader src pt).map .generic
      match s with
      | some s => showR (showW true) (encryptStreamTo (primsFor salt secret pt.length) salt secret s out)
      | none => "bad-op"
    | _, _, _, _ => "bad-op"
  | ["dec-stream", ty, secret, rd, wfail, ct] =>
    match unhex secret, unhex ct, parseWFail wfail with
    | some secret, some ct, some wf =>
      if ¬ tyOK ty then "bad-op" else
      let out : Writer := { chunks := [], failAt := wf }
      if rd = "b" then
        -- *bytes.Reader into a *bytes.Buffer: only the content is observable
        let r : Reader := { data := ct, plan := [], eofWithData := false, failAtEnd := false }
        showR (showW false) (decryptStreamTo (primsFor ((ct.drop 8).take 8) secret ct.length) .readFull secret r out)
      else match parseReader rd ct with
        | some r => showR (showW true) (decryptStreamTo (primsFor ((ct.drop 8).take 8) secret ct.length) .readFull secret r out)
        | none => "bad-op"
    | _, _, _ => "bad-op"
  -- BUFFER-LEVEL ops (answered by the arena model `C09Arena.lean`): SaltBySecret*Decrypt with
  -- reuseCipherText = true, and what the caller's ciphertext buffer holds afterwards, whatever the outcome
  | ["reuse-cbc-left", secret, ct] => match unhex secret, unhex ct with
    | some secret, some ct =>
      let m : C08.Arena.Mem := { cells := ct, log := [] }
      let w : C08.Arena.Win := { off := 0, len := ct.length, cap := ct.length }
      let r := Arena.saltBySecretCBCDecryptA (prims 0) m w secret
      (match r.2 with | .panic => "panic" | o => showR hex o ++ " ct=" ++ hex r.1.cells)
    | _, _ => "bad-op"
  | ["reuse-gcm-left", secret, ad, ct] => match unhex secret, unhex ad, unhex ct with
    | some secret, some ad, some ct =>
      let m : C08.Arena.Mem := { cells := ct ++ ad, log := [] }
      let w : C08.Arena.Win := { off := 0, len := ct.length, cap := ct.length }
      let a : C08.Arena.Win := { off := ct.length, len := ad.length, cap := ad.length }
      let r := Arena.saltBySecretGCMDecryptA (prims 0) m w secret a
      (match r.2 with | .panic => "panic" | o => showR hex o ++ " ct=" ++ hex (r.1.cells.take ct.length))
    | _, _, _ => "bad-op"
  | ["ctr", key, iv, n] => match unhex key, unhex iv, n.toNat? with
    -- the model's CTR keystream itself (compared with crypto/cipher's, not with /repo code)
    | some key, some iv, some n =>
      if iv.length = 16 ∧ (key.length = 16 ∨ key.length = 24 ∨ key.length = 32) ∧ n ≤ 65536
      then "ok " ++ hex (Enc.aesCtrStream key iv n) else "bad-op"
    | _, _, _ => "bad-op"
  | ["rt-cbc", ty, secret, pt] => match unhex secret, unhex pt with
    | some secret, some pt =>
      if ¬ tyOK ty then "bad-op" else
      -- the real code draws a random salt; the result does not depend on it (theorem
      -- `c09_cbc_envelope_roundtrip`), the model uses the all-zero salt
      match encrypt (prims 0) salt0 pt secret with
      | .ok m => showR hex (decrypt (prims 0) m secret)
      | .err e => "err:" ++ e
      | .panic => "panic"
    | _, _ => "bad-op"
  | ["rt-gcm", ty, secret, ad, pt] => match unhex secret, unhex ad, unhex pt with
    | some secret, some ad, some pt =>
      if ¬ tyOK ty then "bad-op" else
      match gcmEncrypt (prims 0) salt0 pt secret ad with
      | .ok m => showR hex (gcmDecrypt (prims 0) m secret ad)
      | .err e => "err:" ++ e
      | .panic => "panic"
    | _, _, _ => "bad-op"
  | ["rt-stream", ty, secret, src, rd, pt] => match unhex secret, unhex pt with
    | some secret, some pt =>
      if ¬ tyOK ty then "bad-op" else
      let s : Option Src := if src = "w" then some (.writerTo pt) else (parseReader src pt).map .generic
      match s with
      | none => "bad-op"
      | some s =>
        match encryptStreamTo (primsFor salt0 secret pt.length) salt0 secret s { chunks := [], failAt := none } with
        | .ok w =>
          match parseReader rd w.content with
          | some r => showR (showW true)
              (decryptStreamTo (primsFor salt0 secret pt.length) .readFull secret r { chunks := [], failAt := none })
          | none => "bad-op"
        | .err e => "err:" ++ e
        | .panic => "panic"
    | _, _ => "bad-op"
  | _ => "bad-op"

/-- Entry point: header tokens after `@ C09`; every op line is a self-contained call. -/
def runCase (hdr : List String) (ops : List String) : List String :=
  match hdr with
  | ["x"] => "ok" :: ops.map fun l => step (toks l)
  -- history mode: the harness keeps secret / additional data / plaintext of all calls of the
  -- case in the same backing arrays, overwritten in place between calls.  Every entry point of
  -- the model is a function of its current arguments (and the salt) only, so the answers are
  -- those of mode `x`; the comparison checks the real code has no memory of earlier calls.
  | ["hist"] => "ok" :: ops.map fun l => step (toks l)
  -- arena mode: the harness passes secret, additional data and plaintext / message of every call
  -- as windows of ONE arena (any order, adjacent or apart, live data and canaries in the spare
  -- capacity) and checks after the call that the arena is unchanged (except the message window of
  -- `SaltBySecret*Decrypt` with reuse) and that earlier results did not change.  The model's entry
  -- points take VALUES and return values: the answers are those of mode `x`.
  | ["arena"] => "ok" :: ops.map fun l => step (toks l)
  | _ => "bad-op" :: ops.map fun _ => "bad-op"

end Golib.C09
