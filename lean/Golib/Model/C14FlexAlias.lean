/-
C14: `FlexSlice.Prepend(v...)` when the variadic argument ALIASES the receiver —
`f.Prepend(f.Values[a:a+n]...)`, `v` a window of the receiver's own backing array (it may reach
into the spare capacity).  Statement by statement (flex.go:14-41, after fix 5e7c306 / F17):
with enough capacity, `f.Values = f.Values[:nc]`; `if overlaps(v, f.Values) { v = copy of v }`;
then the content is shifted (`copy(f.Values[n1:], f.Values[:n2])`) and `v` copied to the front.
A window that does not overlap `[0, nc)` lies in the spare region `[nc, cap)`, which the shift does
not write.  On the reallocating path `v` is copied first, from the untouched old array.
(The pre-fix code read `v` after the shift in every case: `Findings/C14PrependAlias.lean`.)
-/
import Golib.Model.C14FlexFast

namespace Golib.C14

/-- the receiver's whole backing array after `copy(f.Values[n1:], f.Values[:n2])` -/
def Flex.shifted (f : Flex) (n1 : Nat) : List Int :=
  let nc := n1 + f.len
  copyTo (f.mem.take nc) n1 ((f.mem.take nc).take f.len) ++ f.mem.drop nc

/-- `copy(f.Values, v)` after the shift, `Values = array[:nc]` -/
def Flex.writeFront (f : Flex) (n1 : Nat) (v : List Int) : Flex :=
  let nc := n1 + f.len
  ⟨copyTo ((f.shifted n1).take nc) 0 v ++ f.mem.drop nc, nc⟩

/-- `overlaps(v, f.Values[:nc])` for `v = array[a : a+n1]`: both non-empty and the ranges meet -/
def overlapsWin (a n1 nc : Nat) : Bool := decide (0 < n1 ∧ 0 < nc ∧ a < nc)

/-- `f.Prepend(f.Values[a : a+n1]...)` (`a + n1 ≤ cap`, else the slice expression panics) -/
def Flex.prependWin (f : Flex) (a n1 : Nat) : Option Flex :=
  if a + n1 > f.cap then none
  else
    let nc := n1 + f.len
    if f.cap ≥ nc then
      let v :=
        if overlapsWin a n1 nc then (f.mem.drop a).take n1      -- `v = append([]T(nil), v...)` BEFORE the shift
        else ((f.shifted n1).drop a).take n1                    -- not copied: read after the shift
      some (f.writeFront n1 v)
    else
      -- `newValues := make(…); copy(newValues, v); copy(newValues[n1:], f.Values)`: old array untouched
      some (f.prepend ((f.mem.drop a).take n1))

/-! ### wave 8 B / seed C14-K: the argument window's CAPACITY

`v = array[a : a+n1 : k]` — a three-index slice expression, `slices.Clip`, a handle taken with a
clipped capacity and kept across Pops/Shifts (as long as the receiver keeps its array, such a handle
IS the window `(a, n1, k)` of the current array).  The slice expression needs `a + n1 ≤ k ≤ cap`.
What `Prepend` does with `v` depends on the window only through the alias test; the test is a
PARAMETER `ov` here so that the theorem says which tests keep `Prepend` a sequence operation for
every `(offset, length, capacity)`. -/

/-- an alias test as the model sees it: the argument is the window `(a, n1, k)` of an array of
capacity `c`, the receiver's `Values` is `array[:nc]` -/
abbrev OvTest := (a n1 k nc c : Nat) → Bool

/-- the code's `overlaps(v, f.Values)`: address ranges of the ELEMENTS `[a, a+n1)` and `[0, nc)`;
the capacities of the two slices play no role -/
def ovCode : OvTest := fun a n1 _ nc _ => overlapsWin a n1 nc

/-- the `math/big` alias trick (change class of seed C14-K): both capacities non-zero and the two
slices END at the same address when extended to their capacity: `&v[:cap(v)][cap(v)-1]` is cell
`k-1`, `&f.Values[:cap][cap-1]` is cell `c-1` -/
def ovCapEnd : OvTest := fun a _ k _ c => decide (a < k ∧ 0 < c ∧ k = c)

/-- a test is ADEQUATE when it reports every non-empty window that meets the shifted region `[0, nc)`,
whatever the window's capacity -/
def OvTest.Adequate (ov : OvTest) : Prop :=
  ∀ a n1 k nc c, a + n1 ≤ k → k ≤ c → nc ≤ c → 0 < n1 → a < nc → ov a n1 k nc c = true

/-- `f.Prepend(f.Values[a : a+n1 : k]...)` with alias test `ov` (`none` = the slice expression panics) -/
def Flex.prependWinG (ov : OvTest) (f : Flex) (a n1 k : Nat) : Option Flex :=
  if a + n1 > k ∨ k > f.cap then none
  else
    let nc := n1 + f.len
    if f.cap ≥ nc then
      let v :=
        if ov a n1 k nc f.cap then (f.mem.drop a).take n1       -- copied BEFORE the shift
        else ((f.shifted n1).drop a).take n1                     -- not copied: read after the shift
      some (f.writeFront n1 v)
    else
      some (f.prepend ((f.mem.drop a).take n1))

/-- the code that exists -/
def Flex.prependWin3 (f : Flex) (a n1 k : Nat) : Option Flex := f.prependWinG ovCode a n1 k

/-- `f.Append(f.Values[a : a+n1 : k]...)`: `append` moves the argument with `memmove` (within capacity:
into the cells `[len, len+n1)`, which may be cells of the window itself) or copies it from the
untouched old array after growing — in both cases the appended cells are the window as it was -/
def Flex.appendWin3 (grow : Nat → Nat → Nat) (f : Flex) (a n1 k : Nat) : Option Flex :=
  if a + n1 > k ∨ k > f.cap then none
  else some (f.append grow ((f.mem.drop a).take n1))

end Golib.C14
