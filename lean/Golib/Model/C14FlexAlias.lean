/-
C14: `FlexSlice.Prepend(v...)` when the variadic argument ALIASES the receiver —
`f.Prepend(f.Values[a:a+n]...)`, `v` a window of the receiver's own backing array (it may reach
into the spare capacity).  Statement by statement (flex.go:14-41, after fix 5e7c306 / F17):
with enough capacity, `f.Values = f.Values[:nc]`; `if overlaps(v, f.Values) { v = copy of v }`;
then the content is shifted (`copy(f.Values[n1:], f.Values[:n2])`) and `v` copied to the front.
A window that does not overlap `[0, nc)` lies in the spare region `[nc, cap)`, which the shift does
not write.  On the reallocating path `v` is copied first, from the untouched old array.
(The pre-fix code read `v` after the shift in every case: `Findings/C14PrependAlias.lean`.)
-/
import Golib.Model.C14FlexFast

namespace Golib.C14

/-- the receiver's whole backing array after `copy(f.Values[n1:], f.Values[:n2])` -/
def Flex.shifted (f : Flex) (n1 : Nat) : List Int :=
  let nc := n1 + f.len
  copyTo (f.mem.take nc) n1 ((f.mem.take nc).take f.len) ++ f.mem.drop nc

/-- `copy(f.Values, v)` after the shift, `Values = array[:nc]` -/
def Flex.writeFront (f : Flex) (n1 : Nat) (v : List Int) : Flex :=
  let nc := n1 + f.len
  ⟨copyTo ((f.shifted n1).take nc) 0 v ++ f.mem.drop nc, nc⟩

/-- `overlaps(v, f.Values[:nc])` for `v = array[a : a+n1]`: both non-empty and the ranges meet -/
def overlapsWin (a n1 nc : Nat) : Bool := decide (0 < n1 ∧ 0 < nc ∧ a < nc)

/-- `f.Prepend(f.Values[a : a+n1]...)` (`a + n1 ≤ cap`, else the slice expression panics) -/
def Flex.prependWin (f : Flex) (a n1 : Nat) : Option Flex :=
  if a + n1 > f.cap then none
  else
    let nc := n1 + f.len
    if f.cap ≥ nc then
      let v :=
        if overlapsWin a n1 nc then (f.mem.drop a).take n1      -- `v = append([]T(nil), v...)` BEFORE the shift
        else ((f.shifted n1).drop a).take n1                    -- not copied: read after the shift
      some (f.writeFront n1 v)
    else
      -- `newValues := make(…); copy(newValues, v); copy(newValues[n1:], f.Values)`: old array untouched
      some (f.prepend ((f.mem.drop a).take n1))

end Golib.C14
