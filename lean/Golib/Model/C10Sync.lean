/-
Model of `ringz/sync.go` (`SyncRing[T]`) used from ONE goroutine (the C10 clause; the
concurrent machine is C01's).  `uint32` fields are `Nat` with the wrap-around written
out (`% 2^32`) at every arithmetic operation, `&` is `Nat.land`.

* `Init`: the panic branch (`cap <= 0 || uint64(cap) > 1<<31`, i.e. the code after the
  repair of F6), `1 == cap → 2`, the `uint32(cap)` truncation, the `c&(c-1) > 0` test and
  `roundupPowOfTwo` (bit-length loop, then `1 << pos` in `uint32`).
* `Push`/`Pop`: with a single goroutine the `CompareAndSwapUint32` on `tail`/`head`
  always succeeds (the value loaded just before is still there); everything else is the
  code statement by statement; `r.values[pos&r.mask]` can panic (`none`).
* `warp k` is what the harness does through reflect+unsafe on a FRESH ring: head, tail
  and the slot sequence numbers are set to what `k` push/pop pairs produce
  (`c10_warp_eq_pairs`).
-/
import Golib.Proto

namespace Golib.C10
open Golib.Proto

def two32 : Nat := 4294967296

structure Slot where
  value : Int
  pos   : Nat
deriving Repr, DecidableEq

structure SyncRing where
  values : List Slot
  cap    : Nat
  mask   : Nat
  head   : Nat
  tail   : Nat
deriving Repr, DecidableEq

/-- `for i := x; i != 0; pos++ { i >>= 1 }` -/
def bitLenLoop (i pos : Nat) : Nat :=
  if h : i = 0 then pos else bitLenLoop (i >>> 1) (pos + 1)
termination_by i
decreasing_by
  simp only [Nat.shiftRight_eq_div_pow, Nat.pow_one]
  omega

/-- `roundupPowOfTwo(x uint32) uint32`: `1 << pos` computed in `uint32`. -/
def roundupPowOfTwo (x : Nat) : Nat := (1 <<< bitLenLoop x 0) % two32

/-- The capacity `Init` computes; `none` = the panic branch. -/
def syncCap (cap : Int) : Option Nat :=
  if cap ≤ 0 ∨ cap > 2147483648 then none          -- `cap <= 0 || uint64(cap) > 1<<31`
  else if 1 = cap then some 2
  else
    let c := cap.toNat % two32                        -- `uint32(cap)`
    if c &&& ((c + two32 - 1) % two32) > 0 then some (roundupPowOfTwo c) else some c

def SyncRing.init? (cap : Int) : Option SyncRing :=
  match syncCap cap with
  | none => none
  | some c =>
    some { cap := c, mask := (c + two32 - 1) % two32, head := 0, tail := 0,
           values := (List.range c).map fun i => { value := 0, pos := i % two32 } }

def SyncRing.isEmpty (r : SyncRing) : Bool := r.head == r.tail

def SyncRing.isFull (r : SyncRing) : Bool := (r.tail + two32 - r.head) % two32 == r.cap

def SyncRing.len (r : SyncRing) : Nat :=
  let l := (r.tail + two32 - r.head) % two32
  if l > r.cap then r.cap else l

def SyncRing.push (r : SyncRing) (v : Int) : Option (SyncRing × Bool) :=
  let pos := r.tail
  let idx := pos &&& r.mask
  match r.values[idx]? with
  | none => none
  | some holder =>
    let seq := holder.pos
    if pos ≠ seq then some (r, false)
    else
      -- CAS(&r.tail, pos, pos+1) succeeds; holder.value = value; holder.pos = seq+1
      some ({ r with tail := (pos + 1) % two32,
                     values := r.values.set idx { value := v, pos := (seq + 1) % two32 } }, true)

def SyncRing.pop (r : SyncRing) : Option (SyncRing × Int × Bool) :=
  let pos := r.head
  let idx := pos &&& r.mask
  match r.values[idx]? with
  | none => none
  | some holder =>
    let seq := holder.pos
    if (pos + 1) % two32 ≠ seq then some (r, 0, false)
    else
      -- CAS(&r.head, pos, pos+1) succeeds; value read and zeroed; holder.pos = seq+mask
      some ({ r with head := (pos + 1) % two32,
                     values := r.values.set idx { value := 0, pos := (seq + r.mask) % two32 } },
            holder.value, true)

/-- A ring as `Init` leaves it (also what it looks like again after a multiple of 2^32
operations on an empty ring). -/
def SyncRing.isFresh (r : SyncRing) : Bool :=
  r.head == 0 && r.tail == 0 &&
  (List.range r.values.length).all fun i =>
    match r.values[i]? with
    | some s => s.pos == i % two32 && s.value == 0
    | none => false

/-- Window position of slot `i`: the unique `p` with `H ≤ p < H + c`, `p ≡ i (mod c)`. -/
def winPos (H c i : Nat) : Nat :=
  if H % c ≤ i then H - H % c + i else H - H % c + c + i

/-- `warp k`: the state `k` push/pop pairs lead to from a fresh ring. -/
def SyncRing.warp (r : SyncRing) (k : Nat) : SyncRing :=
  { r with head := k % two32, tail := k % two32,
           values := (List.range r.values.length).map fun i =>
             { value := 0, pos := winPos k r.cap i % two32 } }

/-! ### driver -/

inductive SOp where
  | push (v : Int) | pop | len | cap | isEmpty | isFull
deriving Repr, DecidableEq

def parseSOp (ts : List String) : Option SOp :=
  match ts with
  | ["push", v] => v.toInt?.map SOp.push
  | ["pop"] => some .pop
  | ["len"] => some .len
  | ["cap"] => some .cap
  | ["isempty"] => some .isEmpty
  | ["isfull"] => some .isFull
  | _ => none

def SyncRing.step (r : SyncRing) : SOp → Option (SyncRing × String)
  | .push v => (r.push v).map fun (r', ok) => (r', showBool ok)
  | .pop => (r.pop).map fun (r', v, ok) => (r', s!"{v} {showBool ok}")
  | .len => some (r, toString (r.len : Int))
  | .cap => some (r, toString (r.cap : Int))
  | .isEmpty => some (r, showBool r.isEmpty)
  | .isFull => some (r, showBool r.isFull)

def SyncRing.run (r : SyncRing) : List SOp → Option (SyncRing × List String)
  | [] => some (r, [])
  | op :: ops =>
    match r.step op with
    | none => none
    | some (r1, o) =>
      match SyncRing.run r1 ops with
      | none => none
      | some (r2, os) => some (r2, o :: os)

def SyncRing.dump (r : SyncRing) : String :=
  s!"h={r.head} t={r.tail} " ++ " ".intercalate (r.values.map fun s => s!"{s.pos}:{s.value}")

def runSyncOps : Option SyncRing → List String → List String
  | _, [] => []
  | none, _ :: ls => "dead" :: runSyncOps none ls
  | some r, l :: ls =>
    match toks l with
    | ["warp", k] =>
      match k.toNat? with
      | none => "bad-op" :: runSyncOps (some r) ls
      | some k =>
        if r.isFresh then "ok" :: runSyncOps (some (r.warp k)) ls
        else "not-fresh" :: runSyncOps (some r) ls
    | ["dump"] => r.dump :: runSyncOps (some r) ls
    | ts =>
      match parseSOp ts with
      | none => "bad-op" :: runSyncOps (some r) ls
      | some op =>
        match r.step op with
        | none => "panic" :: runSyncOps none ls
        | some (r', out) => out :: runSyncOps (some r') ls

/-- Capacities the harness does not run (the backing array would not fit in memory). -/
def tooLargeToRun (c : Int) : Bool := 1048576 < c && c ≤ 2147483648

def runSyncCase (hdr : List String) (ops : List String) : List String :=
  match hdr with
  | [c] =>
    match c.toInt? with
    | none => "bad-op" :: ops.map fun _ => "bad-op"
    | some c =>
      if tooLargeToRun c then "bad-op" :: ops.map fun _ => "bad-op" else
      match SyncRing.init? c with
      | none => "panic" :: runSyncOps none ops
      | some r => "ok" :: runSyncOps (some r) ops
  | _ => "bad-op" :: ops.map fun _ => "bad-op"

end Golib.C10
