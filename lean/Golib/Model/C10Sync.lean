/-
Model of `ringz/sync.go` (`SyncRing[T]`) used from ONE goroutine (the C10 clause; the
concurrent machine is C01's).  `uint32` fields are `Nat` with the wrap-around written
out (`% 2^32`) at every arithmetic operation, `&` is `Nat.land`.

* `Init`: the panic branch (`cap <= 0 || uint64(cap) > 1<<31`, i.e. the code after the
  repair of F6), `1 == cap → 2`, the `uint32(cap)` truncation, the `c&(c-1) > 0` test and
  `roundupPowOfTwo` (bit-length loop, then `1 << pos` in `uint32`).
* `Push`/`Pop`: with a single goroutine the `CompareAndSwapUint32` on `tail`/`head`
  always succeeds (the value loaded just before is still there); everything else is the
  code statement by statement; `r.values[pos&r.mask]` can panic (`none`).
* `PushWait`/`PopWait`: the three regimes of `maxWait` as coded.  The spin loop
  (`maxWait < 0`) runs on fuel and the ticker loop on the list of tick times
  `now.Sub(begin)` the clock delivers (an input); running out of either is the explicit
  result `blocks` (the call has not returned).  With one goroutine a failed `Push`/`Pop`
  leaves the ring unchanged, so a negative wait on a full/empty ring never returns
  (`Golib/Proof/C10Wait.lean`).
* `warp k` is what the harness does through reflect+unsafe on a FRESH ring: head, tail
  and the slot sequence numbers are set to what `k` push/pop pairs produce
  (`c10_warp_eq_pairs`).
-/
import Golib.Proto

namespace Golib.C10
open Golib.Proto

def two32 : Nat := 4294967296

structure Slot where
  value : Int
  pos   : Nat
deriving Repr, DecidableEq

structure SyncRing where
  values : List Slot
  cap    : Nat
  mask   : Nat
  head   : Nat
  tail   : Nat
deriving Repr, DecidableEq

/-- `for i := x; i != 0; pos++ { i >>= 1 }` -/
def bitLenLoop (i pos : Nat) : Nat :=
  if h : i = 0 then pos else bitLenLoop (i >>> 1) (pos + 1)
termination_by i
decreasing_by
  simp only [Nat.shiftRight_eq_div_pow, Nat.pow_one]
  omega

/-- `roundupPowOfTwo(x uint32) uint32`: `1 << pos` computed in `uint32`. -/
def roundupPowOfTwo (x : Nat) : Nat := (1 <<< bitLenLoop x 0) % two32

/-- The capacity `Init` computes; `none` = the panic branch. -/
def syncCap (cap : Int) : Option Nat :=
  if cap ≤ 0 ∨ cap > 2147483648 then none          -- `cap <= 0 || uint64(cap) > 1<<31`
  else if 1 = cap then some 2
  else
    let c := cap.toNat % two32                        -- `uint32(cap)`
    if c &&& ((c + two32 - 1) % two32) > 0 then some (roundupPowOfTwo c) else some c

def SyncRing.init? (cap : Int) : Option SyncRing :=
  match syncCap cap with
  | none => none
  | some c =>
    some { cap := c, mask := (c + two32 - 1) % two32, head := 0, tail := 0,
           values := (List.range c).map fun i => { value := 0, pos := i % two32 } }

def SyncRing.isEmpty (r : SyncRing) : Bool := r.head == r.tail

def SyncRing.isFull (r : SyncRing) : Bool := (r.tail + two32 - r.head) % two32 == r.cap

def SyncRing.len (r : SyncRing) : Nat :=
  let l := (r.tail + two32 - r.head) % two32
  if l > r.cap then r.cap else l

def SyncRing.push (r : SyncRing) (v : Int) : Option (SyncRing × Bool) :=
  let pos := r.tail
  let idx := pos &&& r.mask
  match r.values[idx]? with
  | none => none
  | some holder =>
    let seq := holder.pos
    if pos ≠ seq then some (r, false)
    else
      -- CAS(&r.tail, pos, pos+1) succeeds; holder.value = value; holder.pos = seq+1
      some ({ r with tail := (pos + 1) % two32,
                     values := r.values.set idx { value := v, pos := (seq + 1) % two32 } }, true)

def SyncRing.pop (r : SyncRing) : Option (SyncRing × Int × Bool) :=
  let pos := r.head
  let idx := pos &&& r.mask
  match r.values[idx]? with
  | none => none
  | some holder =>
    let seq := holder.pos
    if (pos + 1) % two32 ≠ seq then some (r, 0, false)
    else
      -- CAS(&r.head, pos, pos+1) succeeds; value read and zeroed; holder.pos = seq+mask
      some ({ r with head := (pos + 1) % two32,
                     values := r.values.set idx { value := 0, pos := (seq + r.mask) % two32 } },
            holder.value, true)

/-! ### PushWait / PopWait -/

inductive WaitRes (α : Type) where
  | done (a : α)       -- the call returned
  | blocks             -- the call has not returned when fuel / delivered ticks ran out
deriving Repr, DecidableEq

/-- `for { if r.Push(value) { return true }; runtime.Gosched() }` -/
def pushSpin (v : Int) : Nat → SyncRing → Option (WaitRes (SyncRing × Bool))
  | 0, _ => some .blocks
  | fuel + 1, r =>
    match r.push v with
    | none => none
    | some (r1, true) => some (.done (r1, true))
    | some (r1, false) => pushSpin v fuel r1

/-- `for { now := <-ticker.C; if r.Push(value) { return true };
          if now.Sub(begin) >= maxWait { return false } }`, one iteration per delivered tick. -/
def pushTicks (v : Int) (maxWait : Int) : List Int → SyncRing → Option (WaitRes (SyncRing × Bool))
  | [], _ => some .blocks
  | now :: ts, r =>
    match r.push v with
    | none => none
    | some (r1, true) => some (.done (r1, true))
    | some (r1, false) =>
      if now ≥ maxWait then some (.done (r1, false)) else pushTicks v maxWait ts r1

def SyncRing.pushWait (r : SyncRing) (v : Int) (maxWait : Int) (ticks : List Int) (fuel : Nat) :
    Option (WaitRes (SyncRing × Bool)) :=
  if maxWait < 0 then pushSpin v fuel r else
  match r.push v with
  | none => none
  | some (r1, true) => some (.done (r1, true))
  | some (r1, false) =>
    if maxWait = 0 then some (.done (r1, false)) else pushTicks v maxWait ticks r1

def popSpin : Nat → SyncRing → Option (WaitRes (SyncRing × Int × Bool))
  | 0, _ => some .blocks
  | fuel + 1, r =>
    match r.pop with
    | none => none
    | some (r1, x, true) => some (.done (r1, x, true))
    | some (r1, _, false) => popSpin fuel r1

def popTicks (maxWait : Int) : List Int → SyncRing → Option (WaitRes (SyncRing × Int × Bool))
  | [], _ => some .blocks
  | now :: ts, r =>
    match r.pop with
    | none => none
    | some (r1, x, true) => some (.done (r1, x, true))
    | some (r1, _, false) =>
      if now ≥ maxWait then some (.done (r1, 0, false)) else popTicks maxWait ts r1

def SyncRing.popWait (r : SyncRing) (maxWait : Int) (ticks : List Int) (fuel : Nat) :
    Option (WaitRes (SyncRing × Int × Bool)) :=
  if maxWait < 0 then popSpin fuel r else
  match r.pop with
  | none => none
  | some (r1, x, true) => some (.done (r1, x, true))
  | some (r1, _, false) =>
    if maxWait = 0 then some (.done (r1, 0, false)) else popTicks maxWait ticks r1

/-- The ticks a 10 ms ticker delivers until `maxWait` (in ms) has elapsed: 10, 20, …  (the
result of a wait does not depend on the tick times as long as one reaches `maxWait`:
`pushWait_nonneg`). -/
def nominalTicks (maxWait : Nat) : List Int :=
  (List.range (maxWait / 10 + 1)).map fun i => ((i + 1) * 10 : Nat)

/-- slots `i, i+1, …` hold `pos = i, i+1, …` and the zero value (one linear pass) -/
def freshFrom : Nat → List Slot → Bool
  | _, [] => true
  | i, s :: ss => s.pos == i % two32 && s.value == 0 && freshFrom (i + 1) ss

/-- A ring as `Init` leaves it (also what it looks like again after a multiple of 2^32
operations on an empty ring). -/
def SyncRing.isFresh (r : SyncRing) : Bool :=
  r.head == 0 && r.tail == 0 && freshFrom 0 r.values

/-- Window position of slot `i`: the unique `p` with `H ≤ p < H + c`, `p ≡ i (mod c)`. -/
def winPos (H c i : Nat) : Nat :=
  if H % c ≤ i then H - H % c + i else H - H % c + c + i

/-- `warp k`: the state `k` push/pop pairs lead to from a fresh ring. -/
def SyncRing.warp (r : SyncRing) (k : Nat) : SyncRing :=
  { r with head := k % two32, tail := k % two32,
           values := (List.range r.values.length).map fun i =>
             { value := 0, pos := winPos k r.cap i % two32 } }

/-! ### driver -/

inductive SOp where
  | push (v : Int) | pop | len | cap | isEmpty | isFull
  | pushW (v : Int) (maxWait : Nat)     -- `PushWait(v, maxWait)`, `maxWait ≥ 0` (ms)
  | popW (maxWait : Nat)                -- `PopWait(maxWait)`, `maxWait ≥ 0`
deriving Repr, DecidableEq

def parseSOp (ts : List String) : Option SOp :=
  match ts with
  | ["push", v] => v.toInt?.map SOp.push
  | ["pop"] => some .pop
  | ["len"] => some .len
  | ["cap"] => some .cap
  | ["isempty"] => some .isEmpty
  | ["isfull"] => some .isFull
  | ["pushw", v, w] =>
    match v.toInt?, w.toNat? with
    | some v, some w => some (.pushW v w)
    | _, _ => none
  | ["popw", w] => w.toNat?.map SOp.popW
  | _ => none

/-- Printed result of a wait; a call that does not return is `would-block` (the harness
does not make such a call). -/
def showPushWait : WaitRes (SyncRing × Bool) → SyncRing → SyncRing × String
  | .done (r', ok), _ => (r', showBool ok)
  | .blocks, r => (r, "would-block")

def showPopWait : WaitRes (SyncRing × Int × Bool) → SyncRing → SyncRing × String
  | .done (r', v, ok), _ => (r', s!"{v} {showBool ok}")
  | .blocks, r => (r, "would-block")

def SyncRing.step (r : SyncRing) : SOp → Option (SyncRing × String)
  | .push v => (r.push v).map fun (r', ok) => (r', showBool ok)
  | .pop => (r.pop).map fun (r', v, ok) => (r', s!"{v} {showBool ok}")
  | .len => some (r, toString (r.len : Int))
  | .cap => some (r, toString (r.cap : Int))
  | .isEmpty => some (r, showBool r.isEmpty)
  | .isFull => some (r, showBool r.isFull)
  | .pushW v w => (r.pushWait v w (nominalTicks w) 0).map fun res => showPushWait res r
  | .popW w => (r.popWait w (nominalTicks w) 0).map fun res => showPopWait res r

def SyncRing.run (r : SyncRing) : List SOp → Option (SyncRing × List String)
  | [] => some (r, [])
  | op :: ops =>
    match r.step op with
    | none => none
    | some (r1, o) =>
      match SyncRing.run r1 ops with
      | none => none
      | some (r2, os) => some (r2, o :: os)

def SyncRing.dump (r : SyncRing) : String :=
  s!"h={r.head} t={r.tail} " ++ " ".intercalate (r.values.map fun s => s!"{s.pos}:{s.value}")

/-- Capacities the harness does not run (the backing array would not fit in memory). -/
def tooLargeToRun (c : Int) : Bool := 1048576 < c && c ≤ 2147483648

def runSyncOps : Option SyncRing → List String → List String
  | _, [] => []
  | none, _ :: ls => "dead" :: runSyncOps none ls
  | some r, l :: ls =>
    match toks l with
    | ["warp", k] =>
      match k.toNat? with
      | none => "bad-op" :: runSyncOps (some r) ls
      | some k =>
        if r.isFresh then "ok" :: runSyncOps (some (r.warp k)) ls
        else "not-fresh" :: runSyncOps (some r) ls
    | ["dump"] => r.dump :: runSyncOps (some r) ls
    | ["init", c] =>                             -- `r.Init(c)` on the existing ring
      match c.toInt? with
      | none => "bad-op" :: runSyncOps (some r) ls
      | some c =>
        if tooLargeToRun c then "bad-op" :: runSyncOps (some r) ls else
        match SyncRing.init? c with
        | none => "panic" :: runSyncOps none ls
        | some r' => "ok" :: runSyncOps (some r') ls
    | ["pushwn", v] =>                           -- `PushWait(v, -1)`: spins until pushed
      match v.toInt? with
      | none => "bad-op" :: runSyncOps (some r) ls
      | some v =>
        match r.pushWait v (-1) [] 3 with
        | none => "panic" :: runSyncOps none ls
        | some res => (showPushWait res r).2 :: runSyncOps (some (showPushWait res r).1) ls
    | ["popwn"] =>                               -- `PopWait(-1)`: spins until popped
      match r.popWait (-1) [] 3 with
      | none => "panic" :: runSyncOps none ls
      | some res => (showPopWait res r).2 :: runSyncOps (some (showPopWait res r).1) ls
    | ts =>
      match parseSOp ts with
      | none => "bad-op" :: runSyncOps (some r) ls
      | some op =>
        match r.step op with
        | none => "panic" :: runSyncOps none ls
        | some (r', out) => out :: runSyncOps (some r') ls

def runSyncCase (hdr : List String) (ops : List String) : List String :=
  match hdr with
  | [c] =>
    match c.toInt? with
    | none => "bad-op" :: ops.map fun _ => "bad-op"
    | some c =>
      if tooLargeToRun c then "bad-op" :: ops.map fun _ => "bad-op" else
      match SyncRing.init? c with
      | none => "panic" :: runSyncOps none ops
      | some r => "ok" :: runSyncOps (some r) ops
  | _ => "bad-op" :: ops.map fun _ => "bad-op"

/-- Case kind `synccap`: every line is an independent call.  `cap n` = `NewSync(n).Cap()`
(`syncCap`, the value `Init` stores; `c10_cap_rounding`) — requests in (2^28, 2^31] are not
executed by the harness (`skip`); `rup x` = the private `roundupPowOfTwo(uint32 x)`. -/
def capStep (ts : List String) : String :=
  match ts with
  | ["cap", n] =>
    match n.toInt? with
    | none => "bad-op"
    | some n =>
      if 268435456 < n ∧ n ≤ 2147483648 then "skip" else
      match syncCap n with
      | none => "panic"
      | some c => toString c
  | ["rup", x] =>
    match x.toNat? with
    | none => "bad-op"
    | some x => if x < two32 then toString (roundupPowOfTwo x) else "bad-op"
  | _ => "bad-op"

def runCapCase (hdr : List String) (ops : List String) : List String :=
  match hdr with
  | [] => "ok" :: ops.map fun l => capStep (toks l)
  | _ => "bad-op" :: ops.map fun _ => "bad-op"

end Golib.C10
