/-
C12 — key types whose `==` is not reflexive (wave 6, class 8: type parameters).
`SafeKV[K, V]` is generic in a `comparable` K; for `float64` keys (and structs containing
one) Go's `==` is a PARTIAL equivalence: `NaN != NaN`, `+0 == -0`.  Go map semantics, which
the SafeKV methods inherit statement by statement:
  * `m[NaN] = v` inserts a NEW entry every time; `m[NaN]`, `delete(m, NaN)` never find one;
  * `len` counts those entries, `range` reports them;
  * `s.entries = make(...)` (what `Clear` does, regenerated fact: event `replace`) drops
    them all, whereas `for k := range m { delete(m, k) }` would not remove them.
The finite map is an association list over an ARBITRARY key type `K` with an arbitrary
relation `eqv : K → K → Bool` (no laws assumed) in the role of `==`; the sequential
semantics of the methods below mirror the bodies of `mapz/safekv.go` (lookup = first entry
whose stored key is `==` the argument).  `FK` instantiates it for the harness: float64
(`tag = 0`) and `struct{F float64; ID int}` (`tag = ID`); `+0` and `-0` are the same `x = 0`.
Core-only.
-/
import Golib.Proto

namespace Golib.C12.P
open Golib.Proto

variable {K : Type}

abbrev PKV (K : Type) := List (K × Int)

/-- `v, ok := m[k]` -/
def pget (eqv : K → K → Bool) (m : PKV K) (k : K) : Option Int :=
  (m.find? fun p => eqv p.1 k).map (·.2)

/-- `m[k] = v` -/
def pset (eqv : K → K → Bool) (m : PKV K) (k : K) (v : Int) : PKV K :=
  if (pget eqv m k).isSome then m.map (fun p => if eqv p.1 k then (p.1, v) else p)
  else m ++ [(k, v)]

/-- `delete(m, k)` -/
def pdel (eqv : K → K → Bool) (m : PKV K) (k : K) : PKV K := m.filter fun p => !eqv p.1 k

/-- `s.entries = make(map[K]V, len(s.entries))` -/
def pclear (_ : PKV K) : PKV K := []

/-- harness key: float64 (`tag = 0`) or `struct{F float64; ID int}` (`tag = ID`) -/
structure FK where
  nan : Bool
  x : Int
  tag : Int
deriving DecidableEq, Repr

/-- Go's `==` on those keys: NaN is unequal to everything including itself -/
def keq (a b : FK) : Bool := !a.nan && !b.nan && a.x == b.x && a.tag == b.tag

def parseF? (s : String) : Option (Bool × Int) :=
  if s = "nan" then some (true, 0)
  else if s = "-0" then some (false, 0)
  else (fun x => (false, x)) <$> s.toInt?

/-- key token: `F` or `F/ID` with `F` = `nan` | `-0` | integer -/
def parseKey? (s : String) : Option FK :=
  match s.splitOn "/" with
  | [f] => (fun p => { nan := p.1, x := p.2, tag := 0 }) <$> parseF? f
  | [f, id] => do
      let p ← parseF? f
      let id ← id.toInt?
      pure { nan := p.1, x := p.2, tag := id }
  | _ => none

def showKey (struct : Bool) (k : FK) : String :=
  (if k.nan then "nan" else toString k.x) ++ (if struct then "/" ++ toString k.tag else "")

def sortStrs (xs : List String) : List String := xs.mergeSort fun a b => !(decide (b < a))
def sortIntsP (xs : List Int) : List Int := xs.mergeSort fun a b => decide (a ≤ b)

def runOp (struct : Bool) (m : PKV FK) (ts : List String) : PKV FK × String :=
  match ts with
  | ["get", k] =>
    match parseKey? k with
    | some k => (m, toString ((pget keq m k).getD 0) ++ " " ++ showBool (pget keq m k).isSome)
    | none => (m, "bad-op")
  | ["has", k] =>
    match parseKey? k with
    | some k => (m, showBool (pget keq m k).isSome)
    | none => (m, "bad-op")
  | ["set", k, v] =>
    match parseKey? k, v.toInt? with
    | some k, some v => (pset keq m k v, "ok")
    | _, _ => (m, "bad-op")
  | ["setnx", k, v] =>
    match parseKey? k, v.toInt? with
    | some k, some v =>
      if (pget keq m k).isSome then (m, "false") else (pset keq m k v, "true")
    | _, _ => (m, "bad-op")
  | ["setx", k, v] =>
    match parseKey? k, v.toInt? with
    | some k, some v =>
      if (pget keq m k).isSome then (pset keq m k v, "true") else (m, "false")
    | _, _ => (m, "bad-op")
  | "del" :: ks =>
    match ks.mapM parseKey? with
    | some ks => (ks.foldl (pdel keq) m, "ok")
    | none => (m, "bad-op")
  | ["len"] => (m, toString m.length)
  | ["keys"] => (m, "[" ++ " ".intercalate (sortStrs (m.map fun p => showKey struct p.1)) ++ "]")
  | ["values"] => (m, showInts (sortIntsP (m.map (·.2))))
  | ["rangecount"] => (m, toString m.length)
  | ["allcount"] => (m, toString m.length)
  | ["clear"] => (pclear m, "ok")
  | _ => (m, "bad-op")

def runOps (struct : Bool) : PKV FK → List String → List String
  | _, [] => []
  | m, l :: rest =>
    let r := runOp struct m (toks l)
    r.2 :: runOps struct r.1 rest

/-- header `@ C12 fkv f64` | `@ C12 fkv struct` -/
def runCase (kind : String) (ops : List String) : List String :=
  if kind = "f64" then "ok" :: runOps false [] ops
  else if kind = "struct" then "ok" :: runOps true [] ops
  else "bad-op" :: ops.map fun _ => "bad-op"

end Golib.C12.P
