/-
C12 — the generic concurrent machine: goroutines executing method bodies (lists of
actions tagged with the events of `C12Ev`) on one shared value under `sync.RWMutex`
semantics (writer exclusive, readers shared).  Generic in the shared state `σ` (for
SafeKV: the map) and the goroutine-local state `μ` (arguments, temporaries, result).

* One step = one action of one goroutine (the interleaving / SC model; that race
  freedom in this model gives race freedom of the compiled program is the Go memory
  model, trusted).
* `rlock` is enabled iff no goroutine holds the write lock; `lock` iff no goroutine
  holds the lock in any mode; releases and accesses are always enabled.  Writer
  preference of the real RWMutex only removes schedules.
* The machine does NOT enforce the lock discipline: an access outside the lock is
  executed, which is how a race becomes a reachable state (see Findings/C12).
  A release by a goroutine that holds nothing (a Go runtime fatal error / the
  release of someone else's lock) is modelled as a no-op on the mutex; no well
  locked body ever does it.
* `order` is a log (never read by the machine): goroutine ids in the order in which
  they acquired the mutex = order of critical-section entry.
-/
import Golib.Model.C12Ev

namespace Golib.C12

/-- One action of a body: its event tag and what it computes.  `f` is consulted for
accesses to the map only; for `read` its effect on the shared state is discarded (a read
cannot modify the map).  `g` is what a `callFn` action (a user callback that does not get
the map, or any goroutine-local computation) does to the local state: it cannot see
the shared state. -/
structure Act (σ μ : Type) where
  ev : Ev
  f : σ → μ → σ × μ := fun s l => (s, l)
  g : μ → μ := id

def Act.apply {σ μ : Type} (a : Act σ μ) (s : σ) (l : μ) : σ × μ :=
  match a.ev with
  | .write | .replace | .callFnMap => a.f s l
  | .read => (s, (a.f s l).2)
  | .callFn => (s, a.g l)
  | _ => (s, l)

structure Thread (σ μ : Type) where
  mode : Mode
  rest : List (Act σ μ)
  loc  : μ

structure Conf (σ μ : Type) where
  sh : σ
  th : Nat → Thread σ μ
  order : List Nat

def upd {α : Type} (f : Nat → α) (t : Nat) (v : α) : Nat → α :=
  fun u => if u = t then v else f u

def enabled {σ μ : Type} (c : Conf σ μ) : Ev → Prop
  | .rlock => ∀ u, (c.th u).mode ≠ .w
  | .lock => ∀ u, (c.th u).mode = .free
  | _ => True

/-- The configuration after goroutine `t` performs its next action `a` (`as` = the rest). -/
def Conf.after {σ μ : Type} (c : Conf σ μ) (t : Nat) (a : Act σ μ) (as : List (Act σ μ)) : Conf σ μ :=
  { sh := (a.apply c.sh (c.th t).loc).1
    th := upd c.th t ⟨(c.th t).mode.next a.ev, as, (a.apply c.sh (c.th t).loc).2⟩
    order := if a.ev.isAcquire then c.order ++ [t] else c.order }

inductive Step {σ μ : Type} : Conf σ μ → Conf σ μ → Prop
  | mk (c : Conf σ μ) (t : Nat) (a : Act σ μ) (as : List (Act σ μ)) :
      (c.th t).rest = a :: as → enabled c a.ev → Step c (c.after t a as)

inductive Reach {σ μ : Type} (c₀ : Conf σ μ) : Conf σ μ → Prop
  | refl : Reach c₀ c₀
  | step {c c'} : Reach c₀ c → Step c c' → Reach c₀ c'

/-- Two different goroutines are about to perform conflicting accesses to the map. -/
def Race {σ μ : Type} (c : Conf σ μ) : Prop :=
  ∃ t u a as b bs, t ≠ u ∧ (c.th t).rest = a :: as ∧ (c.th u).rest = b :: bs ∧
    a.ev.isAccess = true ∧ b.ev.isAccess = true ∧ (a.ev.writes = true ∨ b.ev.writes = true)

def evs {σ μ : Type} (as : List (Act σ μ)) : List Ev := as.map (·.ev)

/-- Initial configuration: nobody holds anything; goroutine `t` is going to execute
`prog t` (any concatenation of method bodies) starting from local state `init t`. -/
def Conf.init {σ μ : Type} (s₀ : σ) (prog : Nat → List (Act σ μ)) (init : Nat → μ) : Conf σ μ :=
  { sh := s₀, th := fun t => ⟨.free, prog t, init t⟩, order := [] }

/-- Sequential (uninterrupted) execution of a list of actions. -/
def runActs {σ μ : Type} : List (Act σ μ) → σ → μ → σ × μ
  | [], s, l => (s, l)
  | a :: as, s, l => runActs as (a.apply s l).1 (a.apply s l).2

/-- The sequential history: the calls of the goroutines listed in `order`, one after
the other, each as one uninterrupted function on the shared state.  Returns the final
shared state and the result (final local state) of every call. -/
def seqExec {σ μ : Type} (prog : Nat → List (Act σ μ)) (init : Nat → μ) :
    List Nat → σ → σ × List (Nat × μ)
  | [], s => (s, [])
  | t :: ts, s =>
    let p := runActs (prog t) s (init t)
    let q := seqExec prog init ts p.1
    (q.1, (t, p.2) :: q.2)

end Golib.C12
