/-
C14 arena model: EVERY slice argument (`dst`, `s`, `s1`, `s2`) is a window
`arena[off : off+len : off+cap]` of ONE memory, in any relative layout — `s2` a partial
window of `s1`, `dst` overlapping `s2` or `s1`, sources with spare capacity.  The functions
are modelled statement by statement on that memory:

* `m := map built from s2` is a SNAPSHOT of the values of `s2` taken before the first write
  (slices.go:14-17, 38-41, …): later writes into cells of `s2` do not change `m`;
* `for _, v := range s1` / `for i := range s1 { … s1[i] … }` read the LIVE cell `off1+i`;
* `dst = append(dst, v)` writes cell `offd+j` while `j < cap(dst)`, otherwise detaches (copies
  the `j` cells written so far into fresh memory);
* `append(dst, s1...)` (Diff with empty `s2`) is `memmove` of a snapshot of `s1`;
* the InPlace variants swap cells `off1+remain` and `off1+i`;
* `Copy` = `append([]T(nil), s[a:b]...)`: always fresh memory, the arena is not written.

The arena persists over the lines of a case (`@ C14 arena`), so earlier results and the spare
capacity of every source stay observable.
-/
import Golib.Model.C14Flex

namespace Golib.C14
open Golib.Proto

/-- `==` of the element (or map-key) type, on the coded values the harness uses.  NOT assumed
reflexive: for `float64` (and structs containing one) `NaN == NaN` is false, and `==` is coarser
than identity (`-0 == +0`).  All arena theorems hold for every `ElemEq`. -/
structure ElemEq where
  eq : Int → Int → Bool

/-- `int` (and every type whose `==` is identity of the coded value) -/
def intEq : ElemEq := ⟨fun a b => a == b⟩

def nanCode : Int := 1000000
def negZeroCode : Int := 1000001
def canonF (a : Int) : Int := if a = negZeroCode then 0 else a

/-- `float64`: codes are the integral values themselves, `nanCode` = NaN (equal to nothing, not even
to itself), `negZeroCode` = -0 (equal to +0, yet a different value: its reciprocal is -Inf) -/
def floatEq : ElemEq := ⟨fun a b => a != nanCode && b != nanCode && canonF a == canonF b⟩

/-- `_, ok := m[v]` for a Go map whose keys were inserted from the list `m`: a key is found iff
some inserted key is `==` to it (a NaN key is never found, and finds nothing) -/
def memE (E : ElemEq) (m : List Int) (v : Int) : Bool := m.any fun x => E.eq v x

/-- `seen[k] = struct{}{}`: inserts unless an `==` key is present (every NaN is a new entry) -/
def mapInsertE (E : ElemEq) (seen : List Int) (k : Int) : List Int := if memE E seen k then seen else k :: seen

/-- the `Unique` selector with the key type's `==` -/
def uniqueSelE (E : ElemEq) (key : Int → Int) (st : List Int × Nat) (v : Int) : (List Int × Nat) × Bool :=
  let seen := mapInsertE E st.1 (key v)
  if st.2 < seen.length then ((seen, seen.length), true) else ((seen, st.2), false)

/-- `arena[off : off+len : off+cap]` -/
structure Win where
  off : Nat
  len : Nat
  cap : Nat
deriving Repr, DecidableEq

def Win.read (A : List Int) (w : Win) : List Int := (A.drop w.off).take w.len

/-- the destination while a dst-style function runs: still inside the arena (window `w`,
`j` elements appended so far) or detached into memory of its own -/
inductive AOut where
  | inA (w : Win) (j : Nat)
  | own (xs : List Int) (isNil : Bool)
deriving Repr, DecidableEq

/-- `dst = dst[:0]` (`none` = nil dst) -/
def AOut.init : Option Win → AOut
  | none => .own [] true
  | some w => .inA w 0

/-- `dst = append(dst, v)` -/
def apush (A : List Int) (o : AOut) (v : Int) : List Int × AOut :=
  match o with
  | .own xs _ => (A, .own (xs ++ [v]) false)
  | .inA w j =>
    if j < w.cap then (A.set (w.off + j) v, .inA w (j + 1))
    else (A, .own ((A.drop w.off).take j ++ [v]) false)

/-- the loop `for _, v := range s1 { if sel(v) { dst = append(dst, v) } }`; `i` = read cursor -/
def aselLoop {σ : Type} (sel : σ → Int → σ × Bool) (s1 : Win) :
    (fuel i : Nat) → σ → List Int → AOut → Option (List Int × AOut)
  | 0, _, _, A, o => some (A, o)
  | f + 1, i, st, A, o =>
    match A[s1.off + i]? with
    | none => none
    | some v =>
      let (st', take) := sel st v
      let (A', o') := if take then apush A o v else (A, o)
      aselLoop sel s1 f (i + 1) st' A' o'

/-- `append(dst, src...)` with `src` a snapshot (memmove) -/
def apushAll (A : List Int) (o : AOut) (src : List Int) : List Int × AOut :=
  match o with
  | .own xs n => (A, .own (xs ++ src) (n && src.isEmpty))
  | .inA w j =>
    if j + src.length ≤ w.cap then
      (A.take (w.off + j) ++ src ++ A.drop (w.off + j + src.length), .inA w (j + src.length))
    else (A, .own ((A.drop w.off).take j ++ src) false)

/-- result of a call: the arena afterwards and the returned slice — a window of the arena
(`off`, `len`) or memory of its own -/
inductive ARes where
  | win (off len : Nat)
  | fresh (xs : List Int) (isNil : Bool)
deriving Repr, DecidableEq

def AOut.res : AOut → ARes
  | .inA w j => .win w.off j
  | .own xs n => .fresh xs n

def afinish (r : Option (List Int × AOut)) : Option (List Int × ARes) := r.map fun (A, o) => (A, o.res)

def diffA (E : ElemEq) (A : List Int) (dst : Option Win) (s1 s2 : Win) : Option (List Int × ARes) :=
  let o := AOut.init dst
  if s1.len = 0 then some (A, o.res)
  else if s2.len = 0 then afinish (some (apushAll A o (s1.read A)))
  else
    let m := s2.read A
    afinish (aselLoop (statelessSel fun v => !memE E m v) s1 s1.len 0 () A o)

def intersectA (E : ElemEq) (A : List Int) (dst : Option Win) (s1 s2 : Win) : Option (List Int × ARes) :=
  let o := AOut.init dst
  if s1.len = 0 ∨ s2.len = 0 then some (A, o.res)
  else
    let m := s2.read A
    afinish (aselLoop (statelessSel fun v => memE E m v) s1 s1.len 0 () A o)

def uniqueByKeyA (E : ElemEq) (key : Int → Int) (A : List Int) (dst : Option Win) (s1 : Win) : Option (List Int × ARes) :=
  let o := AOut.init dst
  if s1.len = 0 then some (A, o.res)
  else afinish (aselLoop (uniqueSelE E key) s1 s1.len 0 ([], 0) A o)

/-- `Filter` with the predicate "member of the VALUE list acc" (the harness passes a closure
over a copy, not over arena memory) -/
def filterA (p : Int → Bool) (A : List Int) (dst : Option Win) (s1 : Win) : Option (List Int × ARes) :=
  afinish (aselLoop (statelessSel p) s1 s1.len 0 () A (AOut.init dst))

/-! ### InPlace variants on the arena -/

/-- `for i := range s1 { if sel(s1[i]) { s1[remain], s1[i] = s1[i], s1[remain]; remain++ } }`
on the arena cells `off .. off+len` -/
def aipLoop {σ : Type} (sel : σ → Int → σ × Bool) (off : Nat) :
    (fuel i : Nat) → σ → (A : List Int) → (remain : Nat) → Option (List Int × Nat)
  | 0, _, _, A, r => some (A, r)
  | f + 1, i, st, A, r =>
    match A[off + i]? with
    | none => none
    | some v =>
      let (st', take) := sel st v
      if take then
        match swap A (off + r) (off + i) with
        | none => none
        | some A' => aipLoop sel off f (i + 1) st' A' (r + 1)
      else aipLoop sel off f (i + 1) st' A r

def aipFinish (s1 : Win) (r : Option (List Int × Nat)) : Option (List Int × ARes) :=
  r.map fun (A, k) => (A, .win s1.off k)

/-- `DiffInPlaceFirst(s1, s2)`: `s2` may be ANY window of the same arena (also a partial window
of `s1`); the map is built from it before the first swap. -/
def diffInPlaceA (E : ElemEq) (A : List Int) (s1 s2 : Win) : Option (List Int × ARes) :=
  if s1.len = 0 ∨ s2.len = 0 then some (A, .win s1.off s1.len)
  else
    let m := s2.read A
    aipFinish s1 (aipLoop (statelessSel fun v => !memE E m v) s1.off s1.len 0 () A 0)

def intersectInPlaceA (E : ElemEq) (A : List Int) (s1 s2 : Win) : Option (List Int × ARes) :=
  if s1.len = 0 ∨ s2.len = 0 then some (A, .win s1.off 0)
  else
    let m := s2.read A
    aipFinish s1 (aipLoop (statelessSel fun v => memE E m v) s1.off s1.len 0 () A 0)

def uniqueByKeyInPlaceA (E : ElemEq) (key : Int → Int) (A : List Int) (s1 : Win) : Option (List Int × ARes) :=
  if s1.len = 0 then some (A, .win s1.off s1.len)
  else aipFinish s1 (aipLoop (uniqueSelE E key) s1.off s1.len 0 ([], 0) A 0)

def filterInPlaceA (p : Int → Bool) (A : List Int) (s1 : Win) : Option (List Int × ARes) :=
  aipFinish s1 (aipLoop (statelessSel p) s1.off s1.len 0 () A 0)

/-! ### Copy / SubSlice / Remove / user-level append on the arena -/

/-- `Copy(s, start, length)` on a source WITH spare capacity: the result is fresh memory (or
nil), no arena cell — in particular none of the spare capacity behind `len` — is written. -/
def copyA (A : List Int) (s : Win) (start length : Int) : Option (List Int × ARes) :=
  match copy (s.read A) start length with
  | none => none
  | some (.fresh xs) => some (A, .fresh xs false)
  | some _ => some (A, .fresh [] true)

/-- `Values(fn, ss...)` with every `ss[k]` a window of the arena: `ret := make([]V, n)` is memory of
its own (non-nil also for `n = 0`), the arena is only read. -/
def valuesA (fn : Int → Int) (A : List Int) (ss : List Win) : Option (List Int × ARes) :=
  (values fn (ss.map fun w => w.read A)).map fun r => (A, .fresh r false)

/-- `SubSlice`: a window of the source -/
def subSliceA (A : List Int) (s : Win) (start «end» : Int) : Option (List Int × ARes) :=
  match subSlice s.len start «end» with
  | none => none
  | some (.view st l) => some (A, .win (s.off + st) l)
  | some _ => some (A, .fresh [] true)

/-- `Remove(s, index)`: shifts inside the window, zeroes the last cell -/
def removeA (A : List Int) (s : Win) (index : Int) : Option (List Int × ARes × Int × Bool) :=
  match remove false (s.read A) index with
  | none => none
  | some (_, _, v, false) => some (A, .win s.off s.len, v, false)
  | some (m, res, v, true) =>
    some (A.take s.off ++ m ++ A.drop (s.off + s.len), .win s.off res.xs.length, v, true)

/-- the CALLER appends to a source slice afterwards: `append(arena[off:off+len:off+cap], vs...)`
(within capacity: writes the arena behind `len`; otherwise the arena is untouched) -/
def appendSrcA (A : List Int) (s : Win) (vs : List Int) : List Int :=
  if s.len + vs.length ≤ s.cap then
    A.take (s.off + s.len) ++ vs ++ A.drop (s.off + s.len + vs.length)
  else A

end Golib.C14

/-! ### driver of the arena stream -/
namespace Golib.C14
open Golib.Proto

/-! ### Equal / Index / Contains with the element type's `==` -/

/-- `Equal`: lengths differ → false; otherwise `s1[i] != s2[i]` element by element (`none` = the
unreachable index panic).  With a non-reflexive `==`, `Equal(s, s)` is false when `s` holds a NaN. -/
def equalLoopE (E : ElemEq) : List Int → List Int → Option Bool
  | [], _ => some true
  | _ :: _, [] => none
  | a :: as, b :: bs => if !E.eq a b then some false else equalLoopE E as bs

def equalE (E : ElemEq) (s1 s2 : List Int) : Option Bool :=
  if s1.length != s2.length then some false else equalLoopE E s1 s2

/-- `Index`: first `i` with `v == s[i]`, else `-1` (a NaN is never found) -/
def indexE (E : ElemEq) (s : List Int) (v : Int) : Int := indexFunc s (fun x => E.eq v x)


/-- split tokens at `;` -/
def groups (ts : List String) : List (List String) :=
  ts.foldr (fun t acc =>
    if t = ";" then [] :: acc
    else match acc with
      | [] => [[t]]
      | g :: gs => (t :: g) :: gs) [[]]

def keyFn (k : Int) (v : Int) : Int := Int.tmod v k

def parseWin (t : String) : Option (Option Win) :=
  if t = "nil" then some none
  else match t.splitOn ":" with
    | [a, b, c] =>
      match a.toNat?, b.toNat?, c.toNat? with
      | some a, some b, some c => if b ≤ c then some (some ⟨a, b, c⟩) else none
      | _, _, _ => none
    | _ => none

/-- a non-nil window that lies inside the arena -/
def parseWinIn (A : List Int) (t : String) : Option Win :=
  match parseWin t with
  | some (some w) => if w.off + w.cap ≤ A.length then some w else none
  | _ => none

def parseDstIn (A : List Int) (t : String) : Option (Option Win) :=
  match parseWin t with
  | some none => some none
  | some (some w) => if w.off + w.cap ≤ A.length then some (some w) else none
  | none => none

def showARes (A : List Int) : ARes → String
  | .win off len => if len = 0 then "e" else s!"win {off} {len} {showInts ((A.drop off).take len)}"
  | .fresh xs n => if xs.isEmpty then (if n then "nil" else "e") else s!"fresh {showInts xs}"

def showCall (r : Option (List Int × ARes)) : Option (List Int × String) :=
  r.map fun (A, res) => (A, s!"{showARes A res} | {showInts A}")

/-- outer `none` = bad-op, inner `none` = panic -/
def arenaStep (E : ElemEq) (A : List Int) (ts : List String) : Option (Option (List Int × String)) :=
  match groups ts with
  | [["diff", d, s1, s2]] =>
    match parseDstIn A d, parseWinIn A s1, parseWinIn A s2 with
    | some d, some s1, some s2 => some (showCall (diffA E A d s1 s2))
    | _, _, _ => none
  | [["intersect", d, s1, s2]] =>
    match parseDstIn A d, parseWinIn A s1, parseWinIn A s2 with
    | some d, some s1, some s2 => some (showCall (intersectA E A d s1 s2))
    | _, _, _ => none
  | [["unique", d, s1]] =>
    match parseDstIn A d, parseWinIn A s1 with
    | some d, some s1 => some (showCall (uniqueByKeyA E id A d s1))
    | _, _ => none
  | [["uniquekey", k, d, s1]] =>
    match k.toInt?, parseDstIn A d, parseWinIn A s1 with
    | some k, some d, some s1 => if k = 0 then none else some (showCall (uniqueByKeyA intEq (keyFn k) A d s1))
    | _, _, _ => none
  | [["filter", d, s1], acc] =>
    match parseDstIn A d, parseWinIn A s1, ints? acc with
    | some d, some s1, some acc => some (showCall (filterA (fun v => acc.contains v) A d s1))
    | _, _, _ => none
  | [["diffip", s1, s2]] =>
    match parseWinIn A s1, parseWinIn A s2 with
    | some s1, some s2 => some (showCall (diffInPlaceA E A s1 s2))
    | _, _ => none
  | [["intersectip", s1, s2]] =>
    match parseWinIn A s1, parseWinIn A s2 with
    | some s1, some s2 => some (showCall (intersectInPlaceA E A s1 s2))
    | _, _ => none
  | [["uniqueip", s1]] =>
    match parseWinIn A s1 with
    | some s1 => some (showCall (uniqueByKeyInPlaceA E id A s1))
    | _ => none
  | [["uniquekeyip", k, s1]] =>
    match k.toInt?, parseWinIn A s1 with
    | some k, some s1 => if k = 0 then none else some (showCall (uniqueByKeyInPlaceA intEq (keyFn k) A s1))
    | _, _ => none
  | [["filterip", s1], acc] =>
    match parseWinIn A s1, ints? acc with
    | some s1, some acc => some (showCall (filterInPlaceA (fun v => acc.contains v) A s1))
    | _, _ => none
  | [("values" :: k :: ws)] =>
    match k.toInt?, ws.mapM (parseWinIn A) with
    | some k, some ss => some (showCall (valuesA (fun v => v * k) A ss))
    | _, _ => none
  | [["equal", s1, s2]] =>
    match parseWinIn A s1, parseWinIn A s2 with
    | some s1, some s2 => some ((equalE E (s1.read A) (s2.read A)).map fun b => (A, s!"{showBool b} | {showInts A}"))
    | _, _ => none
  | [["index", v, s]] =>
    match v.toInt?, parseWinIn A s with
    | some v, some s => some (some (A, s!"{indexE E (s.read A) v} | {showInts A}"))
    | _, _ => none
  | [["contains", v, s]] =>
    match v.toInt?, parseWinIn A s with
    | some v, some s => some (some (A, s!"{showBool (decide (indexE E (s.read A) v ≥ 0))} | {showInts A}"))
    | _, _ => none
  | [["copy", a, b, s]] =>
    match a.toInt?, b.toInt?, parseWinIn A s with
    | some a, some b, some s => some (showCall (copyA A s a b))
    | _, _, _ => none
  | [["subslice", a, b, s]] =>
    match a.toInt?, b.toInt?, parseWinIn A s with
    | some a, some b, some s => some (showCall (subSliceA A s a b))
    | _, _, _ => none
  | [["remove", i, s]] =>
    match i.toInt?, parseWinIn A s with
    | some i, some s =>
      some ((removeA A s i).map fun (A', res, v, ok) => (A', s!"{showARes A' res} {v} {showBool ok} | {showInts A'}"))
    | _, _ => none
  | [["appendsrc", s], vs] =>
    match parseWinIn A s, ints? vs with
    | some s, some vs => let A' := appendSrcA A s vs; some (some (A', s!"ok | {showInts A'}"))
    | _, _ => none
  | _ => none

def runArena (E : ElemEq) : Option (List Int) → List String → List String
  | _, [] => []
  | none, _ :: ls => "dead" :: runArena E none ls
  | some A, l :: ls =>
    match arenaStep E A (toks l) with
    | none => "bad-op" :: runArena E (some A) ls
    | some none => "panic" :: runArena E none ls
    | some (some (A', out)) => out :: runArena E (some A') ls

end Golib.C14
