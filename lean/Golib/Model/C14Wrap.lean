/-
C14 / wave 8 B — the INDEX ARITHMETIC of `slicez` on the machine's `int`.

Every other C14 model computes with unbounded `Int` (DESIGN §3.3).  That idealisation hides one
class of change: a sum / difference / product of `int`s formed BEFORE it is compared or clamped
(seed C14-I: `end := start + length; if length < 0 || end > l { end = l }` instead of clamping
`length` to `l - start` first — `Copy(s, 1, math.MaxInt)` wraps to a negative end and panics,
while over unbounded integers the two texts are the same function).

Here the arithmetic is a PARAMETER of the model: `IntOps` = what the machine does for `+ - *`
on `int`.  `IntOps.exact` is unbounded arithmetic (the `G` models instantiated with it are the
models of `C14Slices.lean` / `C14Flex.lean`, by `rfl`-level unfolding — `Proof/C14Wrap.lean`);
`IntOps.wrap64` is the 64-bit two's-complement machine (`BitVec 64`), the twin the oracle RUNS.
`IntOps.Sound o` only says: `o` agrees with exact arithmetic when the exact result fits in `int`;
on overflow it may do anything (wrap, saturate, return garbage).  The theorems
(`c14_*_nowrap`, Props/C14.lean) say that for every Sound machine the `G` model IS the unbounded
model, for ALL `int` arguments — i.e. the code as written never lets an overflowed sum reach a
comparison, an index or a slice bound: it clamps before it adds.

Statement by statement (slicez/slices.go, slicez/flex.go @5e7c306), the `int` operations are
  SubSlice        none (comparisons and assignments only)                → `subSlice` itself
  Copy            `l - start` (after `start` ∈ [0, l)), `start + length` (after `length` ∈ [1, l-start])
  Remove          `len(s) - 1`, `index + 1` (only when `index < last`)
  Chunk           `len(s) / chunkSize` (both > 0), `n + 1` (capacity of `make`), `i++` (i < n),
                  `start + chunkSize` (start + chunkSize ≤ n·chunkSize ≤ len)
  ChunkProcess    the same without `n + 1`
  FlexSlice.Get   none;  Pop: `len - 1`;  Remove/Shift/SubSlice: those of Remove / SubSlice + shrink
  shrink          `cap / 4`, `len * 2` (after `len ≤ cap/4`)
  Prepend         `n1 + n2`, `2 * c` — sums of LENGTHS, not of arguments: guard `2·cap ≤ MaxInt`,
                  `len(v) + len ≤ MaxInt` (true of every slice the runtime can allocate)
A slice expression `s[a:b]` / index `s[i]` with a value outside the bounds is a panic (`none`);
`make` with a negative capacity or `len > cap` is a panic.
-/
import Golib.Model.C14FlexAlias

namespace Golib.C14

def minInt : Int := -9223372036854775808
def maxInt : Int := 9223372036854775807

/-- `x` is a value of Go's `int` on a 64-bit target -/
def IsInt (x : Int) : Prop := minInt ≤ x ∧ x ≤ maxInt

instance (x : Int) : Decidable (IsInt x) := by unfold IsInt; exact inferInstance

/-- what the machine computes for `a + b`, `a - b`, `a * b` on `int` -/
structure IntOps where
  add : Int → Int → Int
  sub : Int → Int → Int
  mul : Int → Int → Int

/-- unbounded arithmetic: the idealisation of every other C14 model -/
def IntOps.exact : IntOps := ⟨(· + ·), (· - ·), (· * ·)⟩

/-- the 64-bit two's-complement machine: Go's `int` on amd64/arm64 (wrap-around, no trap) -/
def IntOps.wrap64 : IntOps :=
  ⟨fun a b => (BitVec.ofInt 64 a + BitVec.ofInt 64 b).toInt,
   fun a b => (BitVec.ofInt 64 a - BitVec.ofInt 64 b).toInt,
   fun a b => (BitVec.ofInt 64 a * BitVec.ofInt 64 b).toInt⟩

/-- a machine whose overflowed results are the arbitrary value `p` (a "poisoned" result) -/
def IntOps.poison (p : Int) : IntOps :=
  ⟨fun a b => if IsInt (a + b) then a + b else p,
   fun a b => if IsInt (a - b) then a - b else p,
   fun a b => if IsInt (a * b) then a * b else p⟩

/-- `o` agrees with exact arithmetic whenever the exact result is an `int`; nothing is said
about what it does on overflow -/
structure IntOps.Sound (o : IntOps) : Prop where
  add : ∀ a b, IsInt a → IsInt b → IsInt (a + b) → o.add a b = a + b
  sub : ∀ a b, IsInt a → IsInt b → IsInt (a - b) → o.sub a b = a - b
  mul : ∀ a b, IsInt a → IsInt b → IsInt (a * b) → o.mul a b = a * b

/-! ### Copy -/

def copyG (o : IntOps) (s : List Int) (start length : Int) : Option View :=
  let l : Int := s.length
  if l = 0 ∨ start ≥ l ∨ length = 0 then some .nil
  else
    let start := if start < 0 then 0 else start
    let maxn := o.sub l start
    let length := if length < 0 ∨ length > maxn then maxn else length
    match sliceView s.length start (o.add start length) with
    | none => none
    | some v => some (.fresh (v.content s).xs)     -- append([]T(nil), s[a:b]...)

/-! ### Remove -/

def removeG (o : IntOps) (nil1 : Bool) (s : List Int) (index : Int) :
    Option (List Int × Sl × Int × Bool) :=
  let l : Int := s.length
  if index < 0 ∨ index ≥ l then some (s, ⟨nil1, s⟩, 0, false)
  else
    let last := o.sub l 1
    match s[index.toNat]? with                 -- v := s[index]   (0 ≤ index here)
    | none => none
    | some v =>
      -- if index < last { copy(s[index:], s[index+1:]) }
      let moved : Option (List Int) :=
        if index < last then
          let j := o.add index 1
          if 0 ≤ j ∧ j ≤ l then some (copyWithin s index.toNat j.toNat) else none   -- bounds of s[index+1:]
        else some s
      match moved with
      | none => none
      | some m =>
        if 0 ≤ last ∧ last < (m.length : Int) then       -- s[last] = zero; return s[:last]
          let m := m.set last.toNat 0
          some (m, ⟨false, m.take last.toNat⟩, v, true)
        else none

/-! ### Chunk / ChunkProcess -/

/-- `for i := 0; i < n; i++ { end = start + chunkSize; chunks = append(chunks, s[start:end]); start = end }`
with the loop counter and both cursors as machine integers; the loop ends by its own condition
(running out of fuel is `none`: the theorem shows it does not happen). -/
def chunkLoopG (o : IntOps) (len size n : Int) :
    (fuel : Nat) → (i start : Int) → List (Nat × Nat) → Option (List (Nat × Nat) × Int)
  | 0, _, _, _ => none
  | f + 1, i, start, acc =>
    if i < n then
      let «end» := o.add start size
      if 0 ≤ start ∧ start ≤ «end» ∧ «end» ≤ len then        -- s[start:end]
        chunkLoopG o len size n f (o.add i 1) «end» (acc ++ [(start.toNat, («end» - start).toNat)])
      else none
    else some (acc, start)

def chunkG (o : IntOps) (len : Nat) (chunkSize : Int) : Option (Option (List (Nat × Nat))) :=
  let l : Int := len
  if l = 0 then some none
  else if chunkSize < 1 ∨ l ≤ chunkSize then some (some [(0, len)])
  else
    let n := l / chunkSize               -- both positive: Go's truncating `/` is this quotient
    let c := o.add n 1                   -- make([][]T, 0, n+1)
    if c < 0 then none
    else
      match chunkLoopG o l chunkSize n (n.toNat + 1) 0 0 [] with
      | none => none
      | some (chunks, start) =>
        if l > start then
          if 0 ≤ start ∧ start ≤ l then some (some (chunks ++ [(start.toNat, (l - start).toNat)]))   -- s[start:]
          else none
        else some (some chunks)

def chunkProcLoopG (o : IntOps) (len size n : Int) (failAt : Nat) :
    (fuel : Nat) → (i start : Int) → (calls : Nat) → List (Nat × Nat) →
    Option (List (Nat × Nat) × Int × Bool)
  | 0, _, _, _, _ => none
  | f + 1, i, start, calls, acc =>
    if i < n then
      let «end» := o.add start size
      if 0 ≤ start ∧ start ≤ «end» ∧ «end» ≤ len then
        let acc := acc ++ [(start.toNat, («end» - start).toNat)]
        if calls + 1 = failAt then some (acc, «end», true)
        else chunkProcLoopG o len size n failAt f (o.add i 1) «end» (calls + 1) acc
      else none
    else some (acc, start, false)

def chunkProcessG (o : IntOps) (len : Nat) (chunkSize : Int) (failAt : Nat) :
    Option (List (Nat × Nat) × Bool) :=
  let l : Int := len
  if l = 0 then some ([], false)
  else if chunkSize < 1 ∨ l ≤ chunkSize then some ([(0, len)], failAt = 1)
  else
    let n := l / chunkSize
    match chunkProcLoopG o l chunkSize n failAt (n.toNat + 1) 0 0 0 [] with
    | none => none
    | some (calls, _, true) => some (calls, true)
    | some (calls, start, false) =>
      if l > start then
        if 0 ≤ start ∧ start ≤ l then
          some (calls ++ [(start.toNat, (l - start).toNat)], calls.length + 1 = failAt)
        else none
      else some (calls, false)

/-! ### FlexSlice -/

/-- `shrink()`: `cap/4`, `len*2`; `make([]T, len, newCap)` panics unless `0 ≤ len ≤ newCap` -/
def Flex.shrinkG (o : IntOps) (f : Flex) : Option Flex :=
  if f.cap ≤ 8 then some f
  else if (f.len : Int) ≤ (f.cap : Int) / 4 then
    let newCap := o.mul f.len 2
    let newCap := if newCap < 8 then 8 else newCap
    if (f.len : Int) ≤ newCap then some (mkFlex (f.mem.take f.len) newCap.toNat) else none
  else some f

def Flex.removeG (o : IntOps) (f : Flex) (index : Int) : Option (Flex × Int × Bool) :=
  match Golib.C14.removeG o false f.values index with
  | none => none
  | some (_, _, v, false) => some (f, v, false)
  | some (m, res, v, true) =>
    let f' : Flex := ⟨m ++ f.mem.drop f.len, res.xs.length⟩
    match f'.shrinkG o with
    | none => none
    | some f'' => some (f'', v, true)

/-- `Pop()` = `Remove(len(f.Values) - 1)` -/
def Flex.popG (o : IntOps) (f : Flex) : Option (Flex × Int × Bool) := f.removeG o (o.sub f.len 1)
def Flex.shiftG (o : IntOps) (f : Flex) : Option (Flex × Int × Bool) := f.removeG o 0

def Flex.subSliceG (o : IntOps) (f : Flex) (start «end» : Int) : Option Flex :=
  match Golib.C14.subSlice f.len start «end» with
  | none => none
  | some (.view st l) => Flex.shrinkG o ⟨f.mem.drop st, l⟩
  | some _ => Flex.shrinkG o ⟨[], 0⟩

/-- `Prepend(v...)`: `nc := n1 + n2`; `2*c`; `make([]T, nc, c)` panics unless `0 ≤ nc ≤ c` -/
def Flex.prependG (o : IntOps) (f : Flex) (v : List Int) : Option Flex :=
  let n1 : Int := v.length
  let n2 : Int := f.len
  let c : Int := f.cap
  let nc := o.add n1 n2
  if c ≥ nc then
    -- f.Values = f.Values[:nc]   (0 ≤ len ≤ nc ≤ cap, else a panic)
    if n2 ≤ nc ∧ 0 ≤ nc then
      let nc := nc.toNat
      let vals := f.mem.take nc
      let vals := copyTo vals v.length (vals.take f.len)
      let vals := copyTo vals 0 v
      some ⟨vals ++ f.mem.drop nc, nc⟩
    else none
  else
    let c := if o.mul 2 c ≥ nc then o.mul 2 c else nc
    if 0 ≤ nc ∧ nc ≤ c then
      let nc := nc.toNat
      let nv := zeros nc
      let nv := copyTo nv 0 v
      let nv := copyTo nv v.length (f.mem.take f.len)
      some ⟨nv ++ zeros (c.toNat - nc), nc⟩
    else none

/-! ### the change class of seed C14-I, for the refutation in `Findings/C14CopyWrap.lean` and
the non-vacuity examples: the END is clamped instead of the length -/

def copyEndG (o : IntOps) (s : List Int) (start length : Int) : Option View :=
  let l : Int := s.length
  if l = 0 ∨ start ≥ l ∨ length = 0 then some .nil
  else
    let start := if start < 0 then 0 else start
    let «end» := o.add start length
    let «end» := if length < 0 ∨ «end» > l then l else «end»
    match sliceView s.length start «end» with
    | none => none
    | some v => some (.fresh (v.content s).xs)

end Golib.C14
