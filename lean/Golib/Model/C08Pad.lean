/-
Model of `cryptz/aes.go`, mirroring the Go code statement by statement.

* Bytes are `Nat`s (`< 256` for real data; theorems that need the range say `IsBytes`).
* A Go slice that is only read is a `List Nat`; `dst` buffers are lists that are
  rewritten by `copyInto` (Go `copy`: overwrite the first `min` cells).
* A Go panic (index out of range, slice bounds, `bytes.Repeat` with a negative count,
  the `crypto/cipher` argument checks) is the explicit result `R.panic`.
* The block cipher (`crypto/aes`) and the AEAD (`cipher.NewGCMWithNonceSize`) are
  PARAMETERS of the model: `Cipher` = `(E D : key → block → block)`,
  `AEAD` = `(sealF, openF)`.  The executable instances live in `C08Aes.lean` / `C08Gcm.lean`.
* CBC (`cipher.NewCBCEncrypter/Decrypter.CryptBlocks`) is a fold over 16-byte blocks.
  The in-place decryption layout (`dst` = `cipherText`, the same memory) is modelled by the
  backward loop of the standard library on ONE shared buffer (`cbcDecInPlace`), proved
  equal to the forward fold in `Proof/C08Cbc.lean`.
-/
namespace Golib.C08

abbrev Bytes := List Nat

/-- Result of a Go call: value, `error` (classified), or panic. -/
inductive R (α : Type) where
  | ok (a : α)
  | err (e : String)
  | panic
deriving Repr, DecidableEq

def IsBytes (x : Bytes) : Prop := ∀ y ∈ x, y < 256

/-! ### Go primitives -/

/-- `copy(dst, src)`: the new contents of `dst`. -/
def copyInto (dst src : Bytes) : Bytes :=
  src.take (min dst.length src.length) ++ dst.drop (min dst.length src.length)

/-- `s[lo:]`; panics (`none`) unless `0 ≤ lo ≤ len(s)`. -/
def sliceFrom (s : Bytes) (lo : Int) : Option Bytes :=
  if 0 ≤ lo ∧ lo ≤ s.length then some (s.drop lo.toNat) else none

/-- `s[:hi]`; panics (`none`) unless `0 ≤ hi ≤ len(s)` (`cap = len` in every use here). -/
def sliceTo (s : Bytes) (hi : Int) : Option Bytes :=
  if 0 ≤ hi ∧ hi ≤ s.length then some (s.take hi.toNat) else none

/-- `s[i]`; panics (`none`) out of range. -/
def index (s : Bytes) (i : Int) : Option Nat :=
  if 0 ≤ i then s[i.toNat]? else none

/-- `bytes.Repeat([]byte{b}, count)`; panics on a negative count. -/
def goRepeat (b : Nat) (count : Int) : Option Bytes :=
  if count < 0 then none else some (List.replicate count.toNat b)

/-- `byte(x)` for a non-negative int. -/
def toByte (x : Nat) : Nat := x % 256

/-! ### constants and the padding table (`cryptz/aes.go:12-48`) -/

def aesBlockSize : Nat := 16
def blockSizeMask : Nat := aesBlockSize - 1
def gcmTagSize : Nat := 16
def nonceSize : Nat := 12

/-- `init()`: `for i := 0; i < len(prePadPatterns); i++ { prePadPatterns[i] = bytes.Repeat([]byte{byte(i)}, i) }`
on `var prePadPatterns [aes.BlockSize + 1][]byte`. -/
def prePadPatterns : List Bytes :=
  (List.range (aesBlockSize + 1)).foldl
    (fun tbl i => tbl.set i (List.replicate i (toByte i)))
    (List.replicate (aesBlockSize + 1) [])

/-! ### length helpers (`aes.go:51-68`) -/

/-- `len(plainText) + aes.BlockSize - (len(plainText) & blockSizeMask)` -/
def cbcEncryptLen (n : Nat) : Nat := n + aesBlockSize - (n &&& blockSizeMask)
def cbcDecryptLen (n : Nat) : Nat := n
def gcmEncryptLen (n : Nat) : Nat := n + gcmTagSize
/-- `len(cipherText) - gcmTagSize` (a Go `int`: negative for short inputs). -/
def gcmDecryptLen (n : Nat) : Int := (n : Int) - gcmTagSize

/-! ### PKCS#7 (`aes.go:151-222`) -/

def pkcs7Padding (data : Bytes) (blockSize : Int) : R Bytes :=
  if data.length = 0 then .err "empty"
  else if blockSize ≤ 0 then .err "blocksize"
  else
    let paddingLen : Int := blockSize - Int.tmod data.length blockSize
    match goRepeat (toByte paddingLen.toNat) paddingLen with
    | none => .panic
    | some paddingBytes => .ok (data ++ paddingBytes)

def pkcs7UnPaddingPub (data : Bytes) (blockSize : Int) : R Bytes :=
  if data.length = 0 then .err "empty"
  else if blockSize ≤ 0 then .err "blocksize"
  else if Int.tmod data.length blockSize ≠ 0 then .err "multiple"
  else
    match index data ((data.length : Int) - 1) with
    | none => .panic
    | some last =>
      let paddingLen : Int := last
      if paddingLen ≤ 0 ∨ paddingLen > blockSize then .err "padlen"
      else
        match goRepeat (toByte last) paddingLen, sliceFrom data ((data.length : Int) - paddingLen) with
        | some paddingBytes, some tail =>
          if tail ≠ paddingBytes then .err "padbytes"
          else
            match sliceTo data ((data.length : Int) - paddingLen) with
            | some d => .ok d
            | none => .panic
        | _, _ => .panic

def pkcs5Padding (data : Bytes) : R Bytes := pkcs7Padding data 8
def pkcs5UnPadding (data : Bytes) : R Bytes := pkcs7UnPaddingPub data 8

/-- the private table-based `pkcs7UnPadding(data) (int, error)`. -/
def pkcs7UnPadding (data : Bytes) : R Int :=
  match index data ((data.length : Int) - 1) with
  | none => .panic
  | some last =>
    let paddingLen : Int := last
    if paddingLen > aesBlockSize ∨ paddingLen ≤ 0 then .err "padlen"
    else
      match prePadPatterns[paddingLen.toNat]?, sliceFrom data ((data.length : Int) - paddingLen) with
      | some pat, some tail =>
        if pat ≠ tail then .err "padbytes" else .ok ((data.length : Int) - paddingLen)
      | _, _ => .panic

/-! ### CBC over a parametric block cipher -/

structure Cipher where
  E : Bytes → Bytes → Bytes
  D : Bytes → Bytes → Bytes

/-- `aes.NewCipher(key)` succeeds exactly for these sizes (`aes.KeySizeError` otherwise). -/
def keyOK (key : Bytes) : Bool := key.length = 16 ∨ key.length = 24 ∨ key.length = 32

def xorBytes (a b : Bytes) : Bytes := List.zipWith (· ^^^ ·) a b

/-- CBC encryption of full blocks: `c_i = E(p_i ⊕ c_{i-1})`, `c_0 = iv`. -/
def cbcEncrypt (E : Bytes → Bytes) (iv : Bytes) (src : Bytes) : Bytes :=
  if _h : src.length < 16 then []
  else
    let c := E (xorBytes (src.take 16) iv)
    c ++ cbcEncrypt E c (src.drop 16)
termination_by src.length
decreasing_by simp only [List.length_drop]; omega

/-- CBC decryption of full blocks: `p_i = D(c_i) ⊕ c_{i-1}`. -/
def cbcDecrypt (D : Bytes → Bytes) (iv : Bytes) (src : Bytes) : Bytes :=
  if _h : src.length < 16 then []
  else
    let c := src.take 16
    xorBytes (D c) iv ++ cbcDecrypt D c (src.drop 16)
termination_by src.length
decreasing_by simp only [List.length_drop]; omega

/-- block `i` of a buffer. -/
def getBlock (buf : Bytes) (i : Nat) : Bytes := (buf.drop (16 * i)).take 16
/-- overwrite block `i` of a buffer. -/
def setBlock (buf : Bytes) (i : Nat) (b : Bytes) : Bytes :=
  buf.take (16 * i) ++ b ++ buf.drop (16 * (i + 1))

/-- The standard library's in-place CBC decryption: ONE buffer holds the ciphertext and
receives the plaintext; blocks are processed from the last to the first so that block
`k-1` is still ciphertext when block `k` needs it (`crypto/cipher/cbc.go`, "we loop over
the blocks BACKWARDS").  `k` = index of the block processed next. -/
def cbcDecInPlace (D : Bytes → Bytes) (iv : Bytes) (buf : Bytes) : Nat → Bytes
  | 0 => setBlock buf 0 (xorBytes (D (getBlock buf 0)) iv)
  | k + 1 =>
    cbcDecInPlace D iv
      (setBlock buf (k + 1) (xorBytes (D (getBlock buf (k + 1))) (getBlock buf k))) k

/-- `cipher.NewCBCEncrypter(block, iv).CryptBlocks(dst, src)`: the new `dst`.
Panics: `len(iv) != 16`, input not full blocks, output smaller than input. -/
def cryptBlocksEnc (E : Bytes → Bytes) (iv dst src : Bytes) : Option Bytes :=
  if iv.length ≠ 16 then none
  else if src.length % 16 ≠ 0 then none
  else if dst.length < src.length then none
  else some (cbcEncrypt E iv src ++ dst.drop src.length)

/-- `cipher.NewCBCDecrypter(block, iv).CryptBlocks(dst, src)` with `dst` a separate buffer. -/
def cryptBlocksDec (D : Bytes → Bytes) (iv dst src : Bytes) : Option Bytes :=
  if iv.length ≠ 16 then none
  else if src.length % 16 ≠ 0 then none
  else if dst.length < src.length then none
  else some (cbcDecrypt D iv src ++ dst.drop src.length)

/-- the same call with `dst` and `src` the same memory (full overlap). -/
def cryptBlocksDecInPlace (D : Bytes → Bytes) (iv buf : Bytes) : Option Bytes :=
  if iv.length ≠ 16 then none
  else if buf.length % 16 ≠ 0 then none
  else if buf.length = 0 then some buf
  else some (cbcDecInPlace D iv buf (buf.length / 16 - 1))

/-- `AESCBCEncrypt(dst, plainText, key, iv)`; the result is the final content of `dst`.
When `dst` reuses the memory of `plainText` (`dst = plainText ++ spare`), the first `copy`
is a `memmove` of a region onto itself; afterwards only `dst` and `len(plainText)` are
used, so this one definition covers both documented layouts. -/
def aesCBCEncrypt (C : Cipher) (dst plainText key iv : Bytes) : R Bytes :=
  if ¬ keyOK key then .err "key"
  else
    let paddingLen := aesBlockSize - (plainText.length &&& blockSizeMask)
    let dst1 := copyInto dst plainText
    match sliceFrom dst1 plainText.length, prePadPatterns[paddingLen]? with
    | some tail, some pat =>
      let dst2 := dst1.take plainText.length ++ copyInto tail pat
      match cryptBlocksEnc (C.E key) iv dst2 dst2 with
      | some d => .ok d
      | none => .panic
    | _, _ => .panic

/-- Where `dst` lives relative to `cipherText`. -/
inductive DecLayout where
  | fresh (dst : Bytes)   -- a separate buffer
  | inplace               -- `dst` is `cipherText` itself
deriving Repr

/-- `cbc.CryptBlocks(dst, cipherText)` in either layout: the final content of `dst`. -/
def decryptBlocks (D : Bytes → Bytes) (lay : DecLayout) (iv cipherText : Bytes) : Option Bytes :=
  match lay with
  | .fresh dst => cryptBlocksDec D iv dst cipherText
  | .inplace => cryptBlocksDecInPlace D iv cipherText

/-- `AESCBCDecrypt(dst, cipherText, key, iv)`: `(n, final dst)`. -/
def aesCBCDecrypt (C : Cipher) (lay : DecLayout) (cipherText key iv : Bytes) : R (Int × Bytes) :=
  if cipherText.length < aesBlockSize ∨ cipherText.length &&& blockSizeMask ≠ 0 then .err "len"
  else if ¬ keyOK key then .err "key"
  else
    match decryptBlocks (C.D key) lay iv cipherText with
    | none => .panic
    | some dst' =>
      match pkcs7UnPadding dst' with
      | .ok n => .ok (n, dst')
      | .err e => .err e
      | .panic => .panic

/-! ### GCM wrappers over a parametric AEAD -/

structure AEAD where
  /-- `Seal(nil, nonce, plaintext, ad)` under `key` -/
  sealF : (key nonce plaintext ad : Bytes) → Bytes
  /-- `Open(nil, nonce, ciphertext, ad)` under `key`; `none` = authentication error -/
  openF : (key nonce ciphertext ad : Bytes) → Option Bytes

/-- `append`-style write of `out` into `dst[:0]`: lands in `dst` iff it fits its capacity
(`cap(dst) = len(dst)` in every layout generated); otherwise a new array is allocated and
`dst` keeps its content. -/
def appendInto (dst out : Bytes) : Bytes :=
  if out.length ≤ dst.length then out ++ dst.drop out.length else dst

def aesGCMEncrypt (A : AEAD) (dst plainText key nonce ad : Bytes) : R Bytes :=
  if ¬ keyOK key then .err "key"
  else if nonce.length = 0 then .err "nonce"
  else .ok (appendInto dst (A.sealF key nonce plainText ad))

def aesGCMDecrypt (A : AEAD) (dst cipherText key nonce ad : Bytes) : R Bytes :=
  if ¬ keyOK key then .err "key"
  else if nonce.length = 0 then .err "nonce"
  else
    match A.openF key nonce cipherText ad with
    | none => .err "open"
    | some p => .ok (appendInto dst p)

end Golib.C08
