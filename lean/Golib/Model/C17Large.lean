/-
Linear-time evaluation for the LARGE stream of C17 (subjects of 1 000 – 100 000 runes).
The cursor models of `Model/C17Strs.lean` index lists (`s[i]?`, `drop i`) at every step and
are quadratic.  For a VALID UTF-8 subject the property theorems say what they compute — the
rune-slice definitions — and those are linear: the large driver decodes the subject once
(`runes s`, linear) and evaluates the definitions below.  `Props/C17.lean`
`c17_large_eq_model` states that, for valid subjects and in-scope arguments, these are
exactly the results of the cursor models (it instantiates `c17_sub`, `c17_mask`, `c17_rev`,
`c17_removeRunes`, `c17_snake_camel_ascii`).  `Len`, `SubByDisplay`, `UcFirst`, `LcFirst`
are linear in the cursor model itself and are answered by it for every subject.
Core-only.
-/
import Golib.Model.C17Strs

namespace Golib.C17
open Golib.Utf8

def subL (rs : List Int) (start length : Int) : List Nat :=
  if length = -1 then encode (rs.drop start.toNat)
  else encode ((rs.drop start.toNat).take length.toNat)

def maskRunesL (ms : List Int) (n : Nat) : List Int :=
  if ms.length = 1 then (List.replicate n ms).flatten else ms

def maskL (s : List Nat) (rs ms : List Int) (start end_ : Nat) : List Nat :=
  if rs.length ≤ start + end_ then s
  else encode (rs.take start ++ maskRunesL ms (rs.length - start - end_) ++ rs.drop (rs.length - end_))

def revL (rs : List Int) : List Nat := encode rs.reverse

def removeL (rs : List Int) (p : Int → Bool) : List Nat := encode (rs.filter fun r => !p r)

/-- `SnakeToCamelCase` on ASCII bytes (`pos`: the cursor is not at byte 0). -/
def snakeL : List Nat → Bool → Bool → List Nat
  | [], _, _ => []
  | b :: t, true, _ => (if 97 ≤ b ∧ b ≤ 122 then b - 32 else b) :: snakeL t false true
  | b :: t, false, pos =>
    if pos = true ∧ b = 95 then snakeL t true true else b :: snakeL t false true

/-- `CamelCaseToSnake` on ASCII bytes. -/
def camelL : List Nat → Bool → List Nat
  | [], _ => []
  | b :: t, pos =>
    if 65 ≤ b ∧ b ≤ 90 then (if pos = true then [95, b + 32] else [b + 32]) ++ camelL t true
    else b :: camelL t true

/-! ### The case converters on ARBITRARY byte strings

The Go loops treat a byte `< 0x80` by the ASCII rules and skip any other position by the
size `utf8.DecodeRuneInString` reports (1 for an invalid byte), copying those bytes verbatim
and — in `SnakeToCamelCase` — clearing `firstUp`.  `snakeB`/`camelB` say exactly that, by
recursion on the remaining bytes (fuel = their number); linear time.  For valid UTF-8:
a non-ASCII rune (letter of any case, digit of another script, symbol) is never changed and
never re-cased; after `_` + non-ASCII rune nothing is upper-cased. -/

def snakeB : Nat → List Nat → Bool → Bool → List Nat
  | 0, _, _, _ => []
  | _, [], _, _ => []
  | n + 1, b :: t, fu, pos =>
    if b < 0x80 then
      if fu = true then (if 97 ≤ b ∧ b ≤ 122 then b - 32 else b) :: snakeB n t false true
      else if pos = true ∧ b = 95 then snakeB n t true true
      else b :: snakeB n t false true
    else
      let sz := (decodeRune (b :: t)).2
      (b :: t).take sz ++ snakeB n ((b :: t).drop sz) false true

def camelB : Nat → List Nat → Bool → List Nat
  | 0, _, _ => []
  | _, [], _ => []
  | n + 1, b :: t, pos =>
    if b < 0x80 then
      if 65 ≤ b ∧ b ≤ 90 then (if pos = true then [95, b + 32] else [b + 32]) ++ camelB n t true
      else b :: camelB n t true
    else
      let sz := (decodeRune (b :: t)).2
      (b :: t).take sz ++ camelB n ((b :: t).drop sz) true

/-! ### Linear evaluation of the byte loops of `Sub` and `Mask`, of `Rev` and of `RemoveRunes`
for EVERY subject (valid UTF-8 or not) and every argument

`subLoopF`/`maskLoopF` are `subLoop`/`maskLoop` with the remaining suffix `s[i:]` threaded
through the loop, so that `s[i]` and `utf8.DecodeRuneInString(s[i:])` cost O(1)
(`Proof/C17Fast.lean`: equal to the cursor loops whenever `rest = s.drop i`). -/

/-- bytes the cursor step `advance` moves over, read off the remaining suffix. -/
def stepB : List Nat → Nat
  | [] => 0
  | b :: t => if b < 0x80 then 1 else (decodeRune (b :: t)).2

def subLoopF (s : List Nat) (start length : Int) : Nat → List Nat → Nat → Nat → Int → Option (List Nat)
  | 0, _, _, _, _ => none
  | fuel + 1, rest, i, count, begin =>
    match rest with
    | [] => if begin < 0 then some [] else sliceFromI s begin
    | _ :: _ =>
      if (count : Int) = start then
        if length = -1 then some rest
        else subLoopF s start length fuel (rest.drop (stepB rest)) (i + stepB rest) (count + 1) i
      else if 0 ≤ begin ∧ start + length = count then sliceI s begin i
      else subLoopF s start length fuel (rest.drop (stepB rest)) (i + stepB rest) (count + 1) begin

def subF (s : List Nat) (start length : Int) : Option (List Nat) :=
  if start < 0 ∨ length < -1 ∨ s = [] then some s
  else if length = 0 then some []
  else subLoopF s start length (s.length + 1) s 0 0 (-1)

def maskLoopF (start end_ : Int) : Nat → List Nat → Nat → Nat → Nat → Nat → Option (Nat × Nat)
  | 0, _, _, _, _, _ => none
  | fuel + 1, rest, i, count, si, ei =>
    match rest with
    | [] => some (si, ei)
    | _ :: _ =>
      let si' := if (count : Int) = start then i else si
      let ei' := if (count : Int) = start then ei else if (count : Int) = end_ then i else ei
      maskLoopF start end_ fuel (rest.drop (stepB rest)) (i + stepB rest) (count + 1) si' ei'

def maskF (str msk : List Nat) (start end_ : Int) : Option (List Nat) :=
  let l : Int := runeCount str
  if start > l ∨ end_ > l then some str
  else
  let ml := l - start - end_
  if ml ≤ 0 then some str
  else
    let msk := if runeCount msk = 1 then repeatStr msk ml.toNat else msk
    if ml = l then some msk
    else
      let end_ := l - end_
      match maskLoopF start end_ (str.length + 1) str 0 0 0 0 with
      | none => none
      | some (si, ei) =>
        let ei := if ei = 0 then str.length else ei
        match sliceTo str si, sliceFrom str ei with
        | some a, some b => some (a ++ msk ++ b)
        | _, _ => none

/-- `Rev` on any string: `string(reverse([]rune(s)))` (an invalid byte is one U+FFFD). -/
def revF (s : List Nat) : List Nat := encode (runes s).reverse

/-- `RemoveRunes` on any string: unchanged when the predicate selects nothing; otherwise the
bytes before the first selected rune verbatim, then the remaining unselected runes
re-encoded (`WriteRune`: an invalid byte becomes U+FFFD). -/
def removeGo (s : List Nat) (p : Int → Bool) : List (Nat × Int × Nat) → Option (List Nat)
  | [] => none
  | (i, v, _) :: rest =>
    if p v then some (s.take i ++ encode ((rest.map (·.2.1)).filter fun r => !p r))
    else removeGo s p rest

def removeF (s : List Nat) (p : Int → Bool) : List Nat :=
  match removeGo s p (rangeDecode s) with
  | none => s
  | some b => b

end Golib.C17
