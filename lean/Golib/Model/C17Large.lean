/-
Linear-time evaluation for the LARGE stream of C17 (subjects of 1 000 – 100 000 runes).
The cursor models of `Model/C17Strs.lean` index lists (`s[i]?`, `drop i`) at every step and
are quadratic.  For a VALID UTF-8 subject the property theorems say what they compute — the
rune-slice definitions — and those are linear: the large driver decodes the subject once
(`runes s`, linear) and evaluates the definitions below.  `Props/C17.lean`
`c17_large_eq_model` states that, for valid subjects and in-scope arguments, these are
exactly the results of the cursor models (it instantiates `c17_sub`, `c17_mask`, `c17_rev`,
`c17_removeRunes`, `c17_snake_camel_ascii`).  `Len`, `SubByDisplay`, `UcFirst`, `LcFirst`
are linear in the cursor model itself and are answered by it for every subject.
Core-only.
-/
import Golib.Model.C17Strs

namespace Golib.C17
open Golib.Utf8

def subL (rs : List Int) (start length : Int) : List Nat :=
  if length = -1 then encode (rs.drop start.toNat)
  else encode ((rs.drop start.toNat).take length.toNat)

def maskRunesL (ms : List Int) (n : Nat) : List Int :=
  if ms.length = 1 then (List.replicate n ms).flatten else ms

def maskL (s : List Nat) (rs ms : List Int) (start end_ : Nat) : List Nat :=
  if rs.length ≤ start + end_ then s
  else encode (rs.take start ++ maskRunesL ms (rs.length - start - end_) ++ rs.drop (rs.length - end_))

def revL (rs : List Int) : List Nat := encode rs.reverse

def removeL (rs : List Int) (p : Int → Bool) : List Nat := encode (rs.filter fun r => !p r)

/-- `SnakeToCamelCase` on ASCII bytes (`pos`: the cursor is not at byte 0). -/
def snakeL : List Nat → Bool → Bool → List Nat
  | [], _, _ => []
  | b :: t, true, _ => (if 97 ≤ b ∧ b ≤ 122 then b - 32 else b) :: snakeL t false true
  | b :: t, false, pos =>
    if pos = true ∧ b = 95 then snakeL t true true else b :: snakeL t false true

/-- `CamelCaseToSnake` on ASCII bytes. -/
def camelL : List Nat → Bool → List Nat
  | [], _ => []
  | b :: t, pos =>
    if 65 ≤ b ∧ b ≤ 90 then (if pos = true then [95, b + 32] else [b + 32]) ++ camelL t true
    else b :: camelL t true

end Golib.C17
