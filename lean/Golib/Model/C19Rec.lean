/-
C19 — `goz.Recover(fn, panicFn, cleanups...)` used directly (it is exported), run to
completion, as coded:

  defer func() {                                        -- outer deferred function
    if p := recover(); p != nil { panicFn(p) }          -- (or the fallback print)
    if len(cleanups) == 0 { return }
    var index int
    defer func() {                                      -- inner deferred function
      if p := recover(); p != nil { panicFn("cleanup panic: p, index: index") }
    }()
    for i, cleanup := range cleanups { index = i; cleanup() }
  }()
  fn()

What `fn` and every cleanup do is an input: one of the four ways a Go function can end
(`Outcome`: return, panic with a value `recover()` reports, `panic(nil)` under
`GODEBUG=panicnil=1`, `runtime.Goexit()`).  A cleanup that panics ends the loop: the inner
deferred function reports it, the REMAINING cleanups do not run, and `Recover` returns
normally.  A cleanup that ends with `panic(nil)` under `panicnil=1` ends the loop the same
way but the inner `recover()` returns nil: NOTHING is reported (recorded observation: the
remaining cleanups are lost silently).  `runtime.Goexit()` — in `fn` or in a cleanup — runs
the pending deferred functions (both `recover()` calls return nil) and then ends the
goroutine: `Recover` does not return to its caller (`returns = false`).  `Limiter.Go` is the
instance `cleanups = [l.done]`.  A panicking `panicFn` is outside the model (DESIGN §5).
Core-only.
-/
import Golib.Model.C19Lim

namespace Golib.C19

/-- What `panicFn` received. -/
inductive RVal where
  | val (v : Int)                          -- the value `fn` panicked with
  | cleanupPanic (v : Int) (index : Nat)   -- "cleanup panic: v, index: index"
deriving DecidableEq, Repr

/-- The cleanup loop from index `i`: the indices of the cleanups that were called, and
the panic that ended the loop AND is visible to the inner `recover()` (value, index), if
any.  A cleanup ending with `panic(nil)` under `panicnil=1` or with `Goexit` ends the loop
too, with nothing for the inner deferred function to report. -/
def runCleanups : Nat → List Outcome → List Nat × Option (Int × Nat)
  | _, [] => ([], none)
  | i, .ok :: rest => (i :: (runCleanups (i + 1) rest).1, (runCleanups (i + 1) rest).2)
  | i, .panic v :: _ => ([i], some (v, i))
  | i, .panicNil :: _ => ([i], none)
  | i, .goexit :: _ => ([i], none)

/-- Did one of the cleanups that were called end the goroutine (`Goexit`)?  (Only the
cleanups up to the first one that does not return are called.) -/
def cleanupsGoexit : List Outcome → Bool
  | [] => false
  | .ok :: rest => cleanupsGoexit rest
  | .goexit :: _ => true
  | .panic _ :: _ => false
  | .panicNil :: _ => false

structure RecResult where
  handled : List RVal     -- calls of `panicFn`, in order
  ran : List Nat          -- indices of the cleanups that were called, in order
  returns : Bool := true  -- `Recover` returns to its caller (false: the goroutine ended by `Goexit`)
deriving DecidableEq, Repr

/-- `Recover(fn, panicFn, cleanups...)`; no panic escapes from it for any way `fn` and the
cleanups end.  The first handler call is decided by `recover()` alone (`Outcome.recovered`). -/
def recoverRun (fn : Outcome) (cleanups : List Outcome) : RecResult :=
  let h₁ : List RVal := match fn.recovered with
    | none => []
    | some v => [.val v]
  let r := runCleanups 0 cleanups
  let h₂ : List RVal := match r.2 with
    | some (v, i) => [.cleanupPanic v i]
    | none => []
  { handled := h₁ ++ h₂, ran := r.1, returns := !(fn == .goexit) && !cleanupsGoexit cleanups }

def Outcome.isPanic : Outcome → Bool
  | .ok => false
  | .panic _ => true
  | .panicNil => true
  | .goexit => false

end Golib.C19
