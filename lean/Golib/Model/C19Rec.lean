/-
C19 — `goz.Recover(fn, panicFn, cleanups...)` used directly (it is exported), run to
completion, as coded:

  defer func() {                                        -- outer deferred function
    if p := recover(); p != nil { panicFn(p) }          -- (or the fallback print)
    if len(cleanups) == 0 { return }
    var index int
    defer func() {                                      -- inner deferred function
      if p := recover(); p != nil { panicFn("cleanup panic: p, index: index") }
    }()
    for i, cleanup := range cleanups { index = i; cleanup() }
  }()
  fn()

What `fn` and every cleanup do (return, or panic with a value) is an input.  A cleanup
that panics ends the loop: the inner deferred function reports it, the REMAINING
cleanups do not run, and `Recover` returns normally.  `Limiter.Go` is the instance
`cleanups = [l.done]`.  A panicking `panicFn` is outside the model (DESIGN §5).
Core-only.
-/
import Golib.Model.C19Lim

namespace Golib.C19

/-- What `panicFn` received. -/
inductive RVal where
  | val (v : Int)                          -- the value `fn` panicked with
  | cleanupPanic (v : Int) (index : Nat)   -- "cleanup panic: v, index: index"
deriving DecidableEq, Repr

/-- The cleanup loop from index `i`: the indices of the cleanups that were called, and
the panic that ended the loop (value, index), if any. -/
def runCleanups : Nat → List Outcome → List Nat × Option (Int × Nat)
  | _, [] => ([], none)
  | i, .ok :: rest => (i :: (runCleanups (i + 1) rest).1, (runCleanups (i + 1) rest).2)
  | i, .panic v :: _ => ([i], some (v, i))

structure RecResult where
  handled : List RVal     -- calls of `panicFn`, in order
  ran : List Nat          -- indices of the cleanups that were called, in order
deriving DecidableEq, Repr

/-- `Recover(fn, panicFn, cleanups...)`; it always returns (no panic escapes). -/
def recoverRun (fn : Outcome) (cleanups : List Outcome) : RecResult :=
  let h₁ : List RVal := match fn with
    | .ok => []
    | .panic v => [.val v]
  let r := runCleanups 0 cleanups
  let h₂ : List RVal := match r.2 with
    | some (v, i) => [.cleanupPanic v i]
    | none => []
  { handled := h₁ ++ h₂, ran := r.1 }

def Outcome.isPanic : Outcome → Bool
  | .ok => false
  | .panic _ => true

end Golib.C19
