/-
C12 — oracle entry: sequential execution of SafeKV method bodies (`seqCall`) on the
line protocol.  Header `@ C12 kv <cap>`; one method call per line.  Whatever comes out
of a Go map is printed sorted.
-/
import Golib.Proto
import Golib.Model.C12KV
import Golib.Model.C12PKV

namespace Golib.C12
open Golib.Proto

def sortInts (xs : List Int) : List Int := xs.mergeSort (fun a b => decide (a ≤ b))
def sortPairs (xs : List (Int × Int)) : List (Int × Int) :=
  xs.mergeSort (fun a b => decide (a.1 < b.1 ∨ (a.1 = b.1 ∧ a.2 ≤ b.2)))

def showPairs (xs : List (Int × Int)) : String :=
  "[" ++ " ".intercalate (xs.map fun p => toString p.1 ++ ":" ++ toString p.2) ++ "]"

def parsePair? (s : String) : Option (Int × Int) :=
  match s.splitOn ":" with
  | [a, b] => do
    let x ← a.toInt?
    let y ← b.toInt?
    pure (x, y)
  | _ => none

/-- keys of a `getwithmap` argument must be distinct (it is a Go map) -/
def distinctKeys (m : List (Int × Int)) : Bool :=
  match m with
  | [] => true
  | p :: rest => !(rest.any fun q => q.1 == p.1) && distinctKeys rest

def parseCall? (ts : List String) : Option Call :=
  match ts with
  | ["get", k] => .get <$> k.toInt?
  | ["getwithlock", k] => .getWithLock <$> k.toInt?
  | "getwithmap" :: ps => do
      let m ← ps.mapM parsePair?
      if distinctKeys m then pure (.getWithMap m) else none
  | ["set", k, v] => .set <$> k.toInt? <*> v.toInt?
  | ["setnx", k, v] => .setNx <$> k.toInt? <*> v.toInt?
  | ["setx", k, v] => .setX <$> k.toInt? <*> v.toInt?
  | "del" :: ks => .delete <$> ints? ks
  | ["has", k] => .has <$> k.toInt?
  | ["contains", k] => .contains <$> k.toInt?
  | ["len"] => some .len
  | ["keys"] => some .keys
  | ["values"] => some .values
  | ["range", n] => .range <$> n.toNat?
  | ["all", n] => .all <$> n.toNat?
  | ["clear"] => some .clear
  | ["mapset", k, v] => do
      let k ← k.toInt?
      let v ← v.toInt?
      pure (.map fun s l => (s.set k v, l))
  | ["mapdel", k] => do
      let k ← k.toInt?
      pure (.map fun s l => (s.del k, l))
  | ["maplen"] => some (.map fun s l => (s, { l with n := s.length }))
  | _ => none

/-- What the harness prints for the call, from the final local state (`len0` = size
of the map when the call started, to tell a complete traversal from a partial one). -/
def showResult (ts : List String) (len0 : Nat) (l : Loc) : String :=
  match ts with
  | "get" :: _ => toString l.val ++ " " ++ showBool l.ok
  | "getwithlock" :: _ =>
      match l.out with
      | [(_, v)] => "called " ++ toString v
      | _ => "notcalled"
  | "getwithmap" :: _ => showPairs (sortPairs l.out)
  | "setnx" :: _ => showBool (!l.ok)
  | "setx" :: _ => showBool l.ok
  | "has" :: _ => showBool l.ok
  | "contains" :: _ => showBool l.ok
  | "len" :: _ => toString l.n
  | "maplen" :: _ => toString l.n
  | "keys" :: _ => showInts (sortInts (l.out.map (·.1)))
  | "values" :: _ => showInts (sortInts (l.out.map (·.2)))
  | "range" :: _ | "all" :: _ =>
      "n=" ++ toString l.out.length ++ " " ++
        (if l.out.length == len0 then showPairs (sortPairs l.out) else "partial")
  | _ => "ok"

/-! ### Iterator handles (`iter.Seq2` values returned by `All()`)
`seq <slot>` calls `All()` and keeps the returned function in a slot WITHOUT ranging it;
`rangeseq <slot> <limit>` ranges the kept function now (any number of times, also after
`clear`, `set`, `map…` calls in between); `nestseq <slot>` ranges it completely and, inside
the loop body, ranges it completely again.  As coded, `All()` itself touches nothing (its
whole body is the returned closure, which takes the read lock and reads `s.entries` when it
is RANGED): a handle carries no state, so ranging it is the call `.all limit` on the
CURRENT map (`c12_seq_handle_current`). -/

def runOps : List Nat → KV → List String → List String
  | _, _, [] => []
  | slots, s, line :: rest =>
    let ts := toks line
    match ts with
    | ["seq", k] =>
      match k.toNat? with
      | some k => "ok" :: runOps (k :: slots) s rest
      | none => "bad-op" :: runOps slots s rest
    | ["rangeseq", k, n] =>
      match k.toNat?, n.toNat? with
      | some k, some n =>
        if slots.contains k then
          let p := seqCall (.all n) s
          showResult ["all"] s.length p.2 :: runOps slots p.1 rest
        else "bad-op" :: runOps slots s rest
      | _, _ => "bad-op" :: runOps slots s rest
    | ["nestseq", k] =>
      match k.toNat? with
      | some k =>
        if slots.contains k then
          -- outer traversal complete; one complete inner traversal per outer element
          let outer := (seqCall (.all s.length) s).2.out.length
          let inner := (seqCall (.all s.length) s).2.out.length
          ("outer=" ++ toString (if s.isEmpty then 0 else outer) ++ " inner=" ++
            toString (if s.isEmpty then 0 else outer * inner)) :: runOps slots s rest
        else "bad-op" :: runOps slots s rest
      | none => "bad-op" :: runOps slots s rest
    | _ =>
      match parseCall? ts with
      | none => "bad-op" :: runOps slots s rest
      | some c =>
        let p := seqCall c s
        showResult ts s.length p.2 :: runOps slots p.1 rest

def runCase (hdr : List String) (ops : List String) : List String :=
  match hdr with
  | ["fkv", kind] => P.runCase kind ops
  | ["kv", cap] =>
    match cap.toNat? with
    | some _ => "ok" :: runOps [] [] ops
    | none => "bad-op" :: ops.map fun _ => "bad-op"
  | _ => "bad-op" :: ops.map fun _ => "bad-op"

end Golib.C12
