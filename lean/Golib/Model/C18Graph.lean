/-
Model of `Graph.GetMaximalCliques` / `Graph.BronKerbosch` (`/repo/algz/graph.go`).

```go
func (g *Graph[T]) BronKerbosch(R, P, X []T, cliques *[][]T) {
    if len(P) == 0 && len(X) == 0 { *cliques = append(*cliques, copy(R)); return }
    for _, v := range P {
        neighbors := g.Nodes[v]
        g.BronKerbosch(append(R, v), intersect(P, neighbors), intersect(X, neighbors), cliques)
        P = P[1:]
        X = append(X, v)
    }
}
```

* `nb v u` says `u ∈ g.Nodes[v]` (the adjacency maps; membership is all the code uses).
* `bk` is the recursion on values: `range P` walks the slice it was given while the
  variable `P` is re-sliced to `P[1:]`, so at the iteration of `v` the current `P` is
  exactly the not-yet-visited suffix `v :: P'`; `X` grows by `append`.  In nested calls
  `P` and `X` are the fresh results of `intersect`, so they do not share an array.
  Recursion depth is bounded by fuel (`none` = fuel exhausted; the theorem shows
  `|P| + 1` suffices for a graph without self-loops; with a self-loop the Go code itself
  recurses forever).
* `bkTop` is the top-level call made by `GetMaximalCliques`, where `X = P[:0]` **shares
  the backing array with `P`**: one array `arr`, `P` = window `[k, n)`, `X` = window
  `[0, k)` of capacity `n`; `range` reads `arr[k]` at iteration `k`, `append(X, v)`
  writes `arr[k]` in place.
* `R`: `append(R, v)` writes into the array allocated by the caller with capacity
  `len(g.Nodes)` at index `len(R)`; every frame only reads `R[0:len(R))`, deeper frames
  write at indices `≥ len(R)`, results are copied out; modelled as the value `R ++ [v]`.
-/
namespace Golib.C18

section
variable {V : Type} (nb : V → V → Bool)

/-- `intersect(a, g.Nodes[v])`. -/
def isect (a : List V) (v : V) : List V := a.filter (nb v)

/-- The `for _, v := range P` loop; `rec` is the recursive call. Arguments: current `P`
(the suffix still to visit) and current `X`. -/
def bkLoop (rec : List V → List V → List V → Option (List (List V))) (R : List V) :
    List V → List V → Option (List (List V))
  | [], _ => some []
  | v :: P', X =>
    match rec (R ++ [v]) (isect nb (v :: P') v) (isect nb X v) with
    | none => none
    | some a =>
      match bkLoop rec R P' (X ++ [v]) with
      | none => none
      | some b => some (a ++ b)

/-- `BronKerbosch(R, P, X, &cliques)`: the cliques appended, in order. -/
def bk : Nat → List V → List V → List V → Option (List (List V))
  | 0 => fun _ _ _ => none
  | fuel + 1 => fun R P X =>
    if P.isEmpty && X.isEmpty then some [R] else bkLoop nb (bk fuel) R P X

/-- Top-level loop on the shared array: iteration `k` with `steps` iterations left.
Returns the cliques and the final array. `none` = index out of range (Go panic) or fuel. -/
def bkTopLoop (fuel : Nat) : Nat → Nat → List V → Option (List (List V) × List V)
  | 0, _, arr => some ([], arr)
  | steps + 1, k, arr =>
    match arr[k]? with
    | none => none
    | some v =>
      -- P = arr[k:n], X = arr[0:k]
      match bk nb fuel [v] (isect nb (arr.drop k) v) (isect nb (arr.take k) v) with
      | none => none
      | some a =>
        -- P = P[1:]; X = append(X, v): len(X) = k < cap(X) = n, written in place at arr[k]
        match bkTopLoop fuel steps (k + 1) (arr.set k v) with
        | none => none
        | some (b, arr') => some (a ++ b, arr')

/-- `GetMaximalCliques` with the map iteration order `P` as input:
`BronKerbosch(R = [], P, X = P[:0], &cliques)`. -/
def bkTop (P : List V) : Option (List (List V) × List V) :=
  if P.isEmpty then some ([[]], P) else bkTopLoop nb (P.length + 1) P.length 0 P

def maximalCliques (P : List V) : Option (List (List V)) := (bkTop nb P).map (·.1)

end
end Golib.C18
