import Golib.Model.C20Id
import Golib.Model.C20Str
import Golib.Model.C20Count

namespace Golib.C20
open Golib.Proto

def badAll (ops : List String) : List String := "bad-op" :: ops.map fun _ => "bad-op"

/-- `count` cases: `addrule p,pe,i,im` may come at any point (before or after the first
`Generate`); `Generate` is a function of the CURRENT rule slice, the id and the diff only
(the model has no other state). -/
def runCountOps : List Rule → Bool → List String → List String
  | _, _, [] => []
  | rs, true, _ :: ls => "dead" :: runCountOps rs true ls
  | rs, false, l :: ls =>
    match toks l with
    | ["addrule", r] =>
      match parseRule r with
      | none => "bad-op" :: runCountOps rs false ls
      | some x =>
        let rs' := addRule rs x
        ("ok " ++ ";".intercalate (rs'.map showRule)) :: runCountOps rs' false ls
    | ts =>
      match countStep rs ts with
      | none => "panic" :: runCountOps rs true ls
      | some o => o :: runCountOps rs false ls

/-- Entry point of the C20 section of the oracle: header tokens after `@ C20`. -/
def runCase (hdr : List String) (ops : List String) : List String :=
  match hdr with
  | "id" :: rest => runIdCase rest ops
  | ["str", cs] =>
    match unhex cs with
    | none => badAll ops
    | some bs =>
      match newStrGen bs with
      | none => "panic" :: runOpsWith (fun _ => some "dead") true ops
      | some g =>
        s!"bits={g.charIdxBits} mask={g.charIdxMask} max={g.charIdxMax} n={g.charSet.length}"
          :: runOpsWith (strStep g) false ops
  | "count" :: rules =>
    match rules.mapM parseRule with
    | none => badAll ops
    | some rs =>
      let sorted := rs.foldl addRule []
      ("ok " ++ ";".intercalate (sorted.map showRule)) :: runCountOps sorted false ops
  | "countraw" :: rules =>
    -- the rule slice exactly as given (the harness installs this order through reflection):
    -- any order `sort.Slice` may leave among rules of equal period, and unsorted lists
    match rules.mapM parseRule with
    | none => badAll ops
    | some rs => ("ok " ++ ";".intercalate (rs.map showRule)) :: runOpsWith (countStep rs) false ops
  | _ => badAll ops

end Golib.C20
