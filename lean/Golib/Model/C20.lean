import Golib.Model.C20Id
import Golib.Model.C20Str
import Golib.Model.C20Count

namespace Golib.C20
open Golib.Proto

def badAll (ops : List String) : List String := "bad-op" :: ops.map fun _ => "bad-op"

/-- Entry point of the C20 section of the oracle: header tokens after `@ C20`. -/
def runCase (hdr : List String) (ops : List String) : List String :=
  match hdr with
  | "id" :: rest => runIdCase rest ops
  | ["str", cs] =>
    match unhex cs with
    | none => badAll ops
    | some bs =>
      match newStrGen bs with
      | none => "panic" :: runOpsWith (fun _ => some "dead") true ops
      | some g =>
        s!"bits={g.charIdxBits} mask={g.charIdxMask} max={g.charIdxMax} n={g.charSet.length}"
          :: runOpsWith (strStep g) false ops
  | "count" :: rules =>
    match rules.mapM parseRule with
    | none => badAll ops
    | some rs =>
      let sorted := rs.foldl addRule []
      ("ok " ++ ";".intercalate (sorted.map showRule)) :: runOpsWith (countStep sorted) false ops
  | "countraw" :: rules =>
    -- the rule slice exactly as given (the harness installs this order through reflection):
    -- any order `sort.Slice` may leave among rules of equal period, and unsorted lists
    match rules.mapM parseRule with
    | none => badAll ops
    | some rs => ("ok " ++ ";".intercalate (rs.map showRule)) :: runOpsWith (countStep rs) false ops
  | _ => badAll ops

end Golib.C20
