/-
Finite maps used as the "memory" of the pointer models of C13 (and C04):

* `PM` : `Nat → Option Nat`  — a pointer-valued field of every node (`none` = Go `nil`);
* `IM` : `Nat → Int`         — an integer field of every node / list (absent = Go zero value `0`).

Backed by `Std.TreeMap` so that the compiled oracle is fast; everything else only uses the
two laws `get_set` / `get_empty`, i.e. treats them as total functions with point update.
-/
import Std.Data.TreeMap

namespace Golib.C13

structure PM where
  m : Std.TreeMap Nat Nat

structure IM where
  m : Std.TreeMap Nat Int

def PM.empty : PM := ⟨∅⟩
def IM.empty : IM := ⟨∅⟩

def PM.get (p : PM) (x : Nat) : Option Nat := p.m[x]?

def PM.set (p : PM) (x : Nat) : Option Nat → PM
  | some y => ⟨p.m.insert x y⟩
  | none => ⟨p.m.erase x⟩

def IM.get (p : IM) (x : Nat) : Int := (p.m[x]?).getD 0

def IM.set (p : IM) (x : Nat) (v : Int) : IM := ⟨p.m.insert x v⟩

theorem PM.get_set (p : PM) (x : Nat) (v : Option Nat) (y : Nat) :
    (p.set x v).get y = if y = x then v else p.get y := by
  cases v <;> simp [PM.get, PM.set, Std.TreeMap.getElem?_insert, Std.TreeMap.getElem?_erase] <;>
    split <;> simp_all [eq_comm]

theorem PM.get_empty (y : Nat) : PM.empty.get y = none := by
  simp [PM.get, PM.empty]

theorem IM.get_set (p : IM) (x : Nat) (v : Int) (y : Nat) :
    (p.set x v).get y = if y = x then v else p.get y := by
  simp [IM.get, IM.set, Std.TreeMap.getElem?_insert]
  split <;> simp_all [eq_comm]

theorem IM.get_empty (y : Nat) : IM.empty.get y = 0 := by
  simp [IM.get, IM.empty]

end Golib.C13
