/-
C11 — driver of the SyncList model for the `oracle` executable.

Case format:
  header  `@ C11 list <ninit> T <call>… T <call>…`   (one `T` group per thread;
           calls: `u<int>` = Push(int), `o` = Pop(), `l` = Len(), `w` = PopWait(-1) (blocking:
           Pop in a Gosched loop), `z` = PopWait(0) (one Pop), `t<k>` = PopWait(d>0) whose deadline is observed on
           its k-th tick (k ≥ 1; the timer is an input); the list initially holds
           the values 1..ninit, pushed sequentially)
  op      `step <tid>`   thread <tid> performs its next ATOMIC access (followed by the
                          plain accesses up to its next atomic access);
                          answer: `<access>[ ret <result>] len=<len counter>`
          `drain`        round-robin over the unfinished threads until all returned
          `final`        `final len=<n> [values still stored]` when quiescent, else `busy`
The Go harness prints the same lines from what the real (shimmed) code did.
-/
import Golib.Model.C11List

namespace Golib.C11
open Golib.Proto

def showIdx : Option Nat → String
  | some n => toString n
  | none => "nil"

def Acc.show : Acc → String
  | .none => "idle"
  | .ldTail t => s!"ld tail={t}"
  | .ldNext i r => s!"ld next[{i}]={showIdx r}"
  | .casNext i true n => s!"cas next[{i}] nil->{n} ok"
  | .casNext i false _ => s!"cas next[{i}] nil->new fail"
  | .addLen d new => (if d ≥ 0 then s!"add len +{d}={new}" else s!"add len {d}={new}")
  | .stTail n => s!"st tail={n}"
  | .yield => "yield"
  | .tick => "tick"
  | .ldHead h => s!"ld head={h}"
  | .casHead h n ok => s!"cas head {h}->{showIdx n} {if ok then "ok" else "fail"}"
  | .rdVal n v => s!"rd val[{n}]={v}"
  | .wrVal n => s!"wr val[{n}]"
  | .ldLen v => s!"ld len={v}"

def Ret.show : Ret → String
  | .push => " ret push"
  | .pop v ok => s!" ret pop {v} {showBool ok}"
  | .len n => s!" ret len {n}"
  | .panic => " panic"

def parseCall (t : String) : Option Call :=
  if t = "o" then some .pop
  else if t = "l" then some .len
  else if t = "w" then some (.popWait true)
  else if t = "z" then some (.popWait false)
  else if t.startsWith "t" then (t.drop 1).toString.toNat?.map Call.popWaitT
  else if t.startsWith "u" then (t.drop 1).toString.toInt?.map Call.push
  else none

/-- Split `T a b T c` into `[[a,b],[c]]`; the token list must start with `T`. -/
def splitAux : List String → List String × List (List String)
  | [] => ([], [])
  | t :: rest =>
    let (p, gs) := splitAux rest
    if t = "T" then ([], p :: gs) else (t :: p, gs)

def splitProgs (l : List String) : Option (List (List String)) :=
  let (p, gs) := splitAux l
  if p.isEmpty then some gs else none

/-- The plain accesses that follow an atomic access of the same thread, and the tick
receive of a timed `PopWait` (`popTick`): under the scheduler's time shim a receive from the
ticker never parks the goroutine, so the harness sees it together with the preceding
atomic access; WHICH tick observes the deadline is the `ticks` input of `t<k>`. -/
def plainRun (ord : Order) : Nat → State → Nat → Event → State × Event
  | 0, s, _, e => (s, e)
  | k + 1, s, i, e =>
    match s.threads[i]? with
    | some th =>
      if th.pc.isPlain || th.pc == .popTick then
        let (s1, e1) := step ord s i
        plainRun ord k s1 i { e with ret := if e1.ret.isSome then e1.ret else e.ret }
      else (s, e)
    | none => (s, e)

def macroStep (ord : Order) (s : State) (i : Nat) : State × Event :=
  let (s1, e) := step ord s i
  plainRun ord 4 s1 i e

def showStep (s : State) (e : Event) : String :=
  e.acc.show ++ (match e.ret with | some r => r.show | none => "") ++ s!" len={s.len}"

def isIdle (s : State) (i : Nat) : Bool :=
  match s.threads[i]? with
  | some th => th.pc == .idle
  | none => true

/-- One round-robin pass over thread ids `i, i+1, …, n-1`. -/
def drainPass (ord : Order) : Nat → Nat → State → List String → State × List String
  | 0, _, s, acc => (s, acc)
  | k + 1, i, s, acc =>
    if isIdle s i then drainPass ord k (i + 1) s acc
    else
      let (s1, e) := macroStep ord s i
      drainPass ord k (i + 1) s1 (s!"t{i} {showStep s1 e}" :: acc)

def drain (ord : Order) : Nat → State → List String → State × Option (List String)
  | 0, s, _ => (s, none)
  | f + 1, s, acc =>
    let (s1, acc1) := drainPass ord s.threads.length 0 s acc
    if acc1.length = acc.length then (s1, some acc1) else drain ord f s1 acc1

def allIdle (s : State) : Bool := s.threads.all fun th => th.pc == .idle

def storedNow (s : State) : List Int := (s.chain.drop (s.head + 1)).take (s.tail - s.head)

def runOps (ord : Order) : State → List String → List String
  | _, [] => []
  | s, l :: ls =>
    match toks l with
    | ["step", t] =>
      match t.toNat? with
      | some i =>
        let (s1, e) := macroStep ord s i
        showStep s1 e :: runOps ord s1 ls
      | none => "bad-op" :: runOps ord s ls
    | ["drain"] =>
      match drain ord 400 s [] with
      | (s1, some acc) =>
        (if acc.isEmpty then "quiet" else " ; ".intercalate acc.reverse) :: runOps ord s1 ls
      | (s1, none) => "drain-timeout" :: runOps ord s1 ls
    | ["final"] =>
      (if allIdle s then s!"final len={s.len} {showInts (storedNow s)}" else "busy") :: runOps ord s ls
    | _ => "bad-op" :: runOps ord s ls

def bad (ops : List String) : List String := "bad-op" :: ops.map fun _ => "bad-op"

def runListCase (ord : Order) (hdr : List String) (ops : List String) : List String :=
  match hdr with
  | n :: rest =>
    match n.toNat?, splitProgs rest with
    | some n, some groups =>
      match groups.mapM (fun g => g.mapM parseCall) with
      | some progs =>
        let vals := (List.range n).map fun k => ((k + 1 : Nat) : Int)
        "ok" :: runOps ord (init vals progs) ops
      | none => bad ops
    | _, _ => bad ops
  | _ => bad ops

/-- Entry point of the C11 section of the oracle: header tokens after `@ C11`.
`list` = the code as repaired (F7); `list-old` = the statement order before the repair
(used by the findings file and for replaying the witness). -/
def runCase (hdr : List String) (ops : List String) : List String :=
  match hdr with
  | "list" :: rest => runListCase .addThenStore rest ops
  -- `list1`: the harness reports GOMAXPROCS == 1 to the code; the model does not depend on it
  | "list1" :: rest => runListCase .addThenStore rest ops
  | "list-old" :: rest => runListCase .storeThenAdd rest ops
  | _ => bad ops

end Golib.C11
