/-
Model of `IPv4ToLong` / `LongToIPv4` in `strz/enc.go`.

* `LongToIPv4(x) = net.IPv4(byte(x>>24), byte(x>>16), byte(x>>8), byte(x)).String()`; the
  stdlib prints the four bytes in decimal separated by dots (`ubtoa`): modelled.
* `IPv4ToLong(ip)`: `strings.Split(ip, ".")` (modelled: `splitDot`), for every part
  `n, _ := strconv.ParseInt(v, 10, 32)` (modelled on top of the `ParseUint` model, errors
  ignored as in the code), `long = long<<8 + uint32(n)` in `uint32` arithmetic (explicit `% 2^32`).
-/
import Golib.Model.C15Parse

namespace Golib.C15

/-- Decimal text of a byte (`net`'s `ubtoa`): no leading zeros. -/
def ubtoa (b : Nat) : List Nat :=
  if b < 10 then [48 + b]
  else if b < 100 then [48 + b / 10, 48 + b % 10]
  else [48 + b / 100, 48 + b / 10 % 10, 48 + b % 10]

def longToIPv4 (x : Nat) : List Nat :=
  ubtoa ((x >>> 24) % 256) ++ [46] ++ ubtoa ((x >>> 16) % 256) ++ [46] ++
  ubtoa ((x >>> 8) % 256) ++ [46] ++ ubtoa (x % 256)

/-- `strings.Split(s, ".")`: always at least one part. -/
def splitDot : List Nat → List (List Nat)
  | [] => [[]]
  | c :: rest =>
    if c = 46 then [] :: splitDot rest
    else
      match splitDot rest with
      | [] => [[c]]
      | h :: t => (c :: h) :: t

def two32 : Nat := 2 ^ 32

/-- One iteration of the `for _, v := range parts` loop. -/
def ipStep (long : Nat) (v : List Nat) : Nat :=
  let n := parseInt v 10 32
  ((long <<< 8) % two32 + (n % (two32 : Int)).toNat) % two32

def ipv4ToLong (ip : List Nat) : Nat :=
  (splitDot ip).foldl ipStep 0

end Golib.C15
