/-
C01 — model of the waiting forms `PushWait(value, maxWait)` / `PopWait(maxWait)` of
ringz/sync.go.  They are loops around `Push` / `Pop`; what the loop cannot control is
input of the model (the ENVIRONMENT): the outcome of every attempt (`some v` = the call of
`Push`/`Pop` returned true with result `v`; what it does to the ring is the machine of
Model/C01Ring.lean) and, for a positive `maxWait`, whether the deadline test
`now.Sub(begin) >= maxWait` holds on each tick of the 10 ms ticker.

  maxWait < 0 :  for { if attempt() {return true};  runtime.Gosched() }
  otherwise   :  if attempt() {return true}
                 if maxWait == 0 {return false}
                 for { now := <-ticker.C
                       if attempt() {ticker.Stop(); return true}          -- FIRST the attempt's result
                       if now.Sub(begin) >= maxWait {ticker.Stop(); return false} }

The result is `(r, n)`: `r` what the call returns (`none` = false) and `n` how many attempts
it made, i.e. which prefix of the attempt outcomes it consumed.  If the environment list
ends the call is still waiting; that is reported as `(none, n)` with all `n` attempts
failed, which is also what the theorems say about a false return.
Core-only imports.
-/
namespace Golib.C01

/-- the ticker loop: per tick (outcome of the attempt made on that tick, deadline reached) -/
def timedLoop {α : Type} : List (Option α × Bool) → Option α × Nat
  | [] => (none, 0)
  | (some v, _) :: _ => (some v, 1)
  | (none, true) :: _ => (none, 1)
  | (none, false) :: rest => let (r, n) := timedLoop rest; (r, n + 1)

/-- the `Gosched` loop of a negative `maxWait` -/
def spinLoop {α : Type} : List (Option α) → Option α × Nat
  | [] => (none, 0)
  | some v :: _ => (some v, 1)
  | none :: rest => let (r, n) := spinLoop rest; (r, n + 1)

/-- `PushWait` / `PopWait`: `env` = per attempt its outcome and (for the attempts made on a
tick) whether the deadline is reached on that tick; the flag of the first attempt is unused -/
def waitCall {α : Type} (maxWait : Int) (env : List (Option α × Bool)) : Option α × Nat :=
  if maxWait < 0 then spinLoop (env.map (·.1))
  else
    match env with
    | [] => (none, 0)
    | (some v, _) :: _ => (some v, 1)
    | (none, _) :: ticks =>
      if maxWait = 0 then (none, 1)
      else let (r, n) := timedLoop ticks; (r, n + 1)

/-- small-step form: after attempt number `k` (0 = the attempt before the ticker is
created) with the given outcome, and with the deadline test on that tick giving `expired`:
`some r` = the call returns `r`, `none` = another attempt follows.  This is what the driver
of the scheduled waiting forms executes (Model/C01.lean); `waitCall_eq_iter`
(Proof/C01Wait.lean) shows it is the big-step `waitCall`. -/
def waitDecide {α : Type} (maxWait : Int) (k : Nat) (outcome : Option α) (expired : Bool) :
    Option (Option α) :=
  match outcome with
  | some v => some (some v)
  | none =>
    if maxWait < 0 then none
    else if k = 0 then (if maxWait = 0 then some none else none)
    else if expired then some none else none

def waitIter {α : Type} (maxWait : Int) : Nat → List (Option α × Bool) → Option α × Nat
  | _, [] => (none, 0)
  | k, (o, b) :: rest =>
    match waitDecide maxWait k o b with
    | some r => (r, 1)
    | none => let (r, n) := waitIter maxWait (k + 1) rest; (r, n + 1)

/-- the control shape of the source the three definitions above mirror (compared on every
run with the shape the go/ast extractor reads off `PushWait` and `PopWait`):
`spinLoop` = the `maxWait < 0` loop, the two tests of `waitCall`, `timedLoop` = the ticker
loop with the attempt's result tested BEFORE the deadline. -/
def waitShape : List String :=
  ["if neg [", "loop [", "if attempt [", "ret true", "]", "gosched", "]", "]",
   "if attempt [", "ret true", "]",
   "if zero [", "ret false", "]",
   "loop [", "tick", "if attempt [", "ret true", "]", "if deadline [", "ret false", "]", "]"]

end Golib.C01
