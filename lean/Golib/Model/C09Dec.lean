/-
Buffer-level model of the repo wrappers `strz.Base64Decode` / `strz.HexDecode`
(`strz/enc.go`) as called by `cryptz.Decrypt` / `GCMDecrypt`:

  func Base64Decode(s, enc) ([]byte, error) {
      dst := make([]byte, enc.DecodedLen(len(s))); n, err := enc.Decode(dst, s); return dst[:n], err }
  func HexDecode(s) ([]byte, error) {
      dst := make([]byte, hex.DecodedLen(len(s))); n, err := hexDecode(dst, s); return dst[:n], err }

`enc.Decode` (standard library) is a PARAMETER (`B64Decode`); `Enc.b64DecodeRaw` is its
executable instance (the decoder of `Model/C09Enc.lean`, returning the bytes written before
an error as Go does).  `hexDecode` is repo code, modelled at buffer level by C15
(`Golib.C15.hexDecode?`).  A Go panic is `R.panic`.
-/
import Golib.Model.C08Pad
import Golib.Model.C09Enc
import Golib.Model.C15Hex

namespace Golib.C09
open Golib.C08

/-- `enc.Decode(dst, src)` of the standard library as a parameter: the bytes it wrote, in
order, and whether it succeeded (`false` = CorruptInputError).  It writes them to dst[0],
dst[1], … : an index past len(dst) is a panic. -/
abbrev B64Decode := Bytes → Bytes × Bool

/-- `strz.Base64Decode(s, base64.StdEncoding)` -/
def base64DecodeW (decode : B64Decode) (s : Bytes) : R Bytes :=
  let dst := List.replicate (s.length / 4 * 3) 0        -- make([]byte, enc.DecodedLen(len(s)))
  let (out, ok) := decode s
  if dst.length < out.length then .panic                 -- a write behind dst
  else
    let dst' := out ++ dst.drop out.length
    match sliceTo dst' out.length with                   -- dst[:n]
    | none => .panic
    | some r => if ok then .ok r else .err "b64"

/-- `strz.HexDecode(s)`: C15's buffer-level model of make + hexDecode + dst[:n] -/
def hexDecodeW (s : Bytes) : R Bytes :=
  match Golib.C15.hexDecode? s with
  | none => .panic
  | some (out, .ok) => .ok out
  | some (_, _) => .err "hex"

namespace Enc

/-- The loop of `Enc.b64DecodeLoop`, returning on an error (`false`) the bytes of the quanta
decoded before it (Go returns `n` = bytes written so far). -/
def b64DecodeRawLoop : Nat → List Nat → List Nat → List Nat × Bool
  | 0, _, out => (out, false)
  | fuel + 1, src, out =>
    match src with
    | [] => (out, true)
    | _ =>
      match quantum 0 [] src (src.length + 5) with
      | none => (out, false)
      | some (q, rest) => b64DecodeRawLoop fuel rest (out ++ sextetsToBytes q)

/-- `base64.StdEncoding.Decode(dst, src)`: bytes written and success. -/
def b64DecodeRaw (src : List Nat) : List Nat × Bool := b64DecodeRawLoop (src.length + 1) src []

/-! ### Tests — `#guard` evaluates, it proves nothing. -/

private def ascii (s : String) : List Nat := s.toList.map Char.toNat

-- test: success agrees with `b64Decode`; an error keeps the quanta decoded before it
#guard b64DecodeRaw (ascii "Zm9vYmFy") = (ascii "foobar", true) ∧ b64DecodeRaw (ascii "") = ([], true) ∧
  b64DecodeRaw (ascii "Zm9v\nYg=\r\n=\n") = (ascii "foob", true)
#guard b64DecodeRaw (ascii "Zm9vYg=") = (ascii "foo", false) ∧ b64DecodeRaw (ascii "Zm9vYmFy-") = (ascii "foobar", false) ∧
  b64DecodeRaw (ascii "=") = ([], false)

end Enc

-- test: the wrappers on good and bad input
#guard base64DecodeW Enc.b64DecodeRaw ("Zm9vYg==".toList.map Char.toNat) = .ok ("foob".toList.map Char.toNat)
#guard base64DecodeW Enc.b64DecodeRaw ("Zm9vYg=".toList.map Char.toNat) = .err "b64"
#guard hexDecodeW ("00ffAb".toList.map Char.toNat) = .ok [0, 255, 171] ∧ hexDecodeW ("0".toList.map Char.toNat) = .err "hex" ∧
  hexDecodeW ("0g".toList.map Char.toNat) = .err "hex"
-- test: a decoder that overruns `DecodedLen` makes the wrapper panic
#guard base64DecodeW (fun s => (s, true)) [1, 2, 3, 4] = .panic

end Golib.C09
