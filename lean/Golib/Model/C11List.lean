/-
C11 — model of `listz/sync_list.go` (SyncList) under arbitrary interleavings.

Shared memory: the chain of nodes (a `List Int` of node values, index 0 = the dummy
node; node `i`'s `next` pointer is `i+1` when that node exists and `nil` otherwise),
the `head` and `tail` pointers (chain indices) and the `len` counter.
Threads: one program counter per shared-memory access of `Push`, `Pop`, `Len`, in
source order; `PopWait(d)` with `d < 0` is `Pop` in a `Gosched` loop (`popYield`), with
`d = 0` it is exactly one `Pop`, with `d > 0` it is one `Pop`, then one `Pop` per tick until an
environment-chosen expiry tick (`Call.popWaitT`; the timer is an input of the model).  `step` performs exactly ONE access of one thread (atomic accesses and
the two plain accesses of `Pop` to `node.value`); `runtime.Gosched()` is a yield step.

The order of the two statements after the successful link CAS in `Push` is a
parameter (`Order`): the code as repaired by F7 is `addThenStore`
(`AddInt64(&l.len, 1)` before `StorePointer(&l.tail, node)`); the code before the
repair is `storeThenAdd` (refuted in `Golib/Findings/C11.lean`).
Core-only imports (this file is linked into the `oracle` executable).
-/
import Golib.Proto

namespace Golib.C11

inductive Call where
  | push (v : Int)
  | pop
  | len
  /-- `PopWait(d)`: `block = true` is `d < 0` (`Pop` in a `Gosched` loop until it succeeds),
  `block = false` is `d = 0` (exactly one `Pop`).  Positive durations (ticker-driven
  retries) are not modelled. -/
  | popWait (block : Bool)
  /-- `PopWait(d)` with `d > 0`: one immediate `Pop`, then one `Pop` per tick of the 10 ms
  ticker until the tick on which `now.Sub(begin) >= d` is observed.  The timer is an INPUT of
  the model: `ticks` = number of ticks up to and including that expiry tick (chosen by the
  environment; any `Nat`), and WHEN a tick fires is the scheduler's choice (`popTick` step).
  Returns the first successful `Pop`'s value, or false after the `Pop` on the expiry tick
  failed. -/
  | popWaitT (ticks : Nat)
deriving DecidableEq, Repr

inductive Order where
  | addThenStore   -- repaired code (F7)
  | storeThenAdd   -- code before the repair
deriving DecidableEq, Repr

/-- Program counter = the NEXT shared-memory access the thread performs, with the
locals that access needs. -/
inductive Pc where
  | idle
  -- Push(v):  for { tail := Load(&l.tail); next := Load(&tail.next);
  --                 if next == nil && CAS(&tail.next, nil, node) { <post1>; <post2>; return }
  --                 Gosched() }
  | pushLoadTail (v : Int)
  | pushLoadNext (v : Int) (t : Nat)
  | pushCAS (v : Int) (t : Nat)
  | pushAdd (v : Int) (n : Nat)      -- AddInt64(&l.len, 1); `n` = the node just linked
  | pushStore (v : Int) (n : Nat)    -- StorePointer(&l.tail, node)
  | pushYield (v : Int)              -- runtime.Gosched()
  -- Pop(): head := Load(&l.head); tail := Load(&l.tail); if head == tail {return false}
  --        next := Load(&head.next); if CAS(&l.head, head, next) { value := next.value;
  --        next.value = zero; AddInt64(&l.len, -1); return value, true }; return false
  | popLoadHead
  | popLoadTail (h : Nat)
  | popLoadNext (h : Nat)
  | popCAS (h : Nat) (n : Option Nat)
  | popRead (n : Nat)                -- plain read of node n's value
  | popClear (n : Nat) (v : Int)     -- plain write node n's value = zero
  | popAdd (v : Int)                 -- AddInt64(&l.len, -1)
  -- PopWait(d < 0): for { if v, ok := l.Pop(); ok { return v, ok }; runtime.Gosched() }
  | popYield                         -- runtime.Gosched() after a failed Pop of PopWait(d<0)
  | popTick                          -- `now := <-ticker.C` of PopWait(d>0): waiting for the next tick
  -- Len(): LoadInt64(&l.len)
  | lenLoad
deriving DecidableEq, Repr

structure Thread where
  pc : Pc
  prog : List Call
  /-- the call the thread is executing (`none` when idle) -/
  cur : Option Call
  /-- `PopWait(d>0)`: ticks left before the expiry tick has been consumed (0 otherwise) -/
  ticks : Nat
deriving DecidableEq, Repr

/-- the current call is `PopWait(d)` with `d < 0`: a failed `Pop` is retried after a
`Gosched` instead of being returned -/
def Thread.spin (th : Thread) : Bool := th.cur == some (.popWait true)

structure State where
  chain : List Int
  head : Nat
  tail : Nat
  len : Int
  threads : List Thread
  /-- set when a thread dereferenced nil (`head` would be nil from then on); an
  invariant shows it never happens -/
  crashed : Bool
deriving DecidableEq, Repr

/-- What one step did to shared memory. -/
inductive Acc where
  | none
  | ldTail (t : Nat)
  | ldNext (i : Nat) (r : Option Nat)
  | casNext (i : Nat) (ok : Bool) (n : Nat)
  | addLen (d : Int) (new : Int)
  | stTail (n : Nat)
  | yield
  | tick                 -- receive from the ticker channel
  | ldHead (h : Nat)
  | casHead (h : Nat) (n : Option Nat) (ok : Bool)
  | rdVal (n : Nat) (v : Int)
  | wrVal (n : Nat)
  | ldLen (v : Int)
deriving DecidableEq, Repr

inductive Ret where
  | push
  | pop (v : Int) (ok : Bool)
  | len (n : Int)
  | panic
deriving DecidableEq, Repr

structure Event where
  tid : Nat
  acc : Acc
  ret : Option Ret
deriving DecidableEq, Repr

def start : Call → Pc
  | .push v => .pushLoadTail v
  | .pop => .popLoadHead
  | .len => .lenLoad
  | .popWait _ => .popLoadHead
  | .popWaitT _ => .popLoadHead

def ticksOf : Call → Nat
  | .popWaitT k => k
  | _ => 0


/-- The current call returned: continue with the next call of the program. -/
def Thread.finish (th : Thread) : Thread :=
  match th.prog with
  | [] => { pc := .idle, prog := [], cur := none, ticks := 0 }
  | c :: rest => { pc := start c, prog := rest, cur := some c, ticks := ticksOf c }

def mkThread (prog : List Call) : Thread :=
  Thread.finish { pc := .idle, prog := prog, cur := none, ticks := 0 }

def State.setPc (s : State) (i : Nat) (th : Thread) (pc : Pc) : State :=
  { s with threads := s.threads.set i { th with pc := pc } }

def State.fin (s : State) (i : Nat) (th : Thread) : State :=
  { s with threads := s.threads.set i th.finish }

/-- The inner `Pop` of thread `i` failed (performing access `acc`): `Pop`, `PopWait(0)`
return `(zero, false)`; `PopWait(d < 0)` goes to its `runtime.Gosched()` and retries;
`PopWait(d > 0)` waits for the next tick while ticks are left and returns `(zero, false)`
when the failed `Pop` was the one of the expiry tick. -/
def State.popFail (s : State) (i : Nat) (th : Thread) (acc : Acc) : State × Event :=
  if th.spin then (s.setPc i th .popYield, ⟨i, acc, none⟩)
  else if 0 < th.ticks then
    ({ s with threads := s.threads.set i { th with pc := .popTick, ticks := th.ticks - 1 } },
      ⟨i, acc, none⟩)
  else (s.fin i th, ⟨i, acc, some (.pop 0 false)⟩)

/-- One shared-memory access of thread `i`. -/
def step (ord : Order) (s : State) (i : Nat) : State × Event :=
  match s.threads[i]? with
  | none => (s, ⟨i, .none, none⟩)
  | some th =>
    match th.pc with
    | .idle => (s, ⟨i, .none, none⟩)
    | .pushLoadTail v => (s.setPc i th (.pushLoadNext v s.tail), ⟨i, .ldTail s.tail, none⟩)
    | .pushLoadNext v t =>
      if t + 1 < s.chain.length then
        (s.setPc i th (.pushYield v), ⟨i, .ldNext t (some (t + 1)), none⟩)
      else
        (s.setPc i th (.pushCAS v t), ⟨i, .ldNext t none, none⟩)
    | .pushCAS v t =>
      if t + 1 = s.chain.length then
        let n := t + 1
        ({ s with chain := s.chain ++ [v] }.setPc i th
            (match ord with | .addThenStore => .pushAdd v n | .storeThenAdd => .pushStore v n),
          ⟨i, .casNext t true n, none⟩)
      else
        (s.setPc i th (.pushYield v), ⟨i, .casNext t false 0, none⟩)
    | .pushAdd v n =>
      match ord with
      | .addThenStore =>
        ({ s with len := s.len + 1 }.setPc i th (.pushStore v n), ⟨i, .addLen 1 (s.len + 1), none⟩)
      | .storeThenAdd =>
        ({ s with len := s.len + 1 }.fin i th, ⟨i, .addLen 1 (s.len + 1), some .push⟩)
    | .pushStore v n =>
      match ord with
      | .addThenStore =>
        ({ s with tail := n }.fin i th, ⟨i, .stTail n, some .push⟩)
      | .storeThenAdd =>
        ({ s with tail := n }.setPc i th (.pushAdd v n), ⟨i, .stTail n, none⟩)
    | .pushYield v => (s.setPc i th (.pushLoadTail v), ⟨i, .yield, none⟩)
    | .popLoadHead => (s.setPc i th (.popLoadTail s.head), ⟨i, .ldHead s.head, none⟩)
    | .popLoadTail h =>
      if h = s.tail then s.popFail i th (.ldTail s.tail)
      else (s.setPc i th (.popLoadNext h), ⟨i, .ldTail s.tail, none⟩)
    | .popLoadNext h =>
      let n : Option Nat := if h + 1 < s.chain.length then some (h + 1) else none
      (s.setPc i th (.popCAS h n), ⟨i, .ldNext h n, none⟩)
    | .popCAS h n =>
      if s.head = h then
        match n with
        | some n => ({ s with head := n }.setPc i th (.popRead n), ⟨i, .casHead h (some n) true, none⟩)
        | none => ({ s with crashed := true }.setPc i th .idle, ⟨i, .casHead h none true, some .panic⟩)
      else s.popFail i th (.casHead h n false)
    | .popRead n =>
      match s.chain[n]? with
      | some v => (s.setPc i th (.popClear n v), ⟨i, .rdVal n v, none⟩)
      | none => ({ s with crashed := true }.setPc i th .idle, ⟨i, .none, some .panic⟩)
    | .popClear n v => ({ s with chain := s.chain.set n 0 }.setPc i th (.popAdd v), ⟨i, .wrVal n, none⟩)
    | .popAdd v => ({ s with len := s.len - 1 }.fin i th, ⟨i, .addLen (-1) (s.len - 1), some (.pop v true)⟩)
    | .popYield => (s.setPc i th .popLoadHead, ⟨i, .yield, none⟩)
    | .popTick => (s.setPc i th .popLoadHead, ⟨i, .tick, none⟩)
    | .lenLoad => (s.fin i th, ⟨i, .ldLen s.len, some (.len s.len)⟩)

/-- Run a schedule (list of thread ids), collecting the events. -/
def run (ord : Order) : State → List Nat → State × List Event
  | s, [] => (s, [])
  | s, i :: σ =>
    let (s1, e) := step ord s i
    let (s2, es) := run ord s1 σ
    (s2, e :: es)

/-- Initial state: `vals` already stored (by a sequential prefix of pushes), every thread
in front of the first access of its first call. -/
def init (vals : List Int) (progs : List (List Call)) : State :=
  { chain := 0 :: vals, head := 0, tail := vals.length, len := vals.length,
    threads := progs.map mkThread, crashed := false }

/-- Source-level names of the accesses, for the regenerated facts file
(`Golib/Gen/FactsC11.lean`, written by the go/ast extractor on every run). -/
inductive SrcOp where
  | loadTail | loadNext | casNext | addLen (d : Int) | storeTail | gosched
  | loadHead | casHead | readVal | writeVal | loadLen
  | other (s : String)
  -- control skeleton of `PopWait` (Gen/FactsC11 `popWaitOps`)
  | cond (s : String) | loop | ret | callPop | ticker
deriving DecidableEq, Repr

def Acc.src : Acc → Option SrcOp
  | Acc.none => Option.none
  | .ldTail _ => some .loadTail
  | .ldNext _ _ => some .loadNext
  | .casNext _ _ _ => some .casNext
  | .addLen d _ => some (.addLen d)
  | .stTail _ => some .storeTail
  | .yield => some .gosched
  | .tick => some .ticker
  | .ldHead _ => some .loadHead
  | .casHead _ _ _ => some .casHead
  | .rdVal _ _ => some .readVal
  | .wrVal _ => some .writeVal
  | .ldLen _ => some .loadLen

/-- The accesses one thread performs when it runs `k` steps alone from `s`. -/
def soloSrc (ord : Order) (s : State) (k : Nat) : List SrcOp :=
  (run ord s (List.replicate k 0)).2.filterMap fun e => e.acc.src

def Pc.isPlain : Pc → Bool
  | .popRead _ => true
  | .popClear _ _ => true
  | _ => false

end Golib.C11
