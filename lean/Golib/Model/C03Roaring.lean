/-
C03 — executable model of `setz/roaring_bitmap.go` (+ the parts of `setz/bits.go`
and `setz/iter.go` it uses), statement by statement.  Core-only.

* A `uint16`/`uint32` value is a `Nat` (range hypotheses in the theorems, range checks
  in the driver); a bitmap word is a `BitVec 64`; Go `int` counters are `Int`.
* A Go panic (index out of range, nil dereference) is `none`.
* `containers listz.SkipList[uint16, container]` is used only through
  `GetNode / Get / Set / Remove / Head / node.Next / node.SetValue`; its ordered-map
  behaviour is C02's theorem.  Here it is a key-ascending association list
  (`om…` functions below).
* Containers are mutated in place through pointers in Go; here every mutation returns
  the new container and the caller stores it back under the same key (the bucket pointer
  stays in the skip list in the Go code).  Iterators read a container that is not
  mutated while they run (modelled-not-verified: no mutation during an enumeration).
-/
namespace Golib.C03

abbrev Word := BitVec 64

/-- `arrayContainer{values}` | `bitmapContainer{length, Bitmap{set}}`. -/
inductive Container where
  | arr (vals : Array Nat)
  | bmp (length : Int) (words : Array Word)
deriving Inhabited, Repr

/-- The conversion threshold (`len(ac.values) < 4096`, `buf [4096]uint16`). -/
def threshold : Nat := 4096

/-! ### `search` — binary search as coded (`mid := int(uint(low+high) >> 1)`) -/

/-- The loop of `search`; `fuel` bounds the iterations (`search` passes `len+1`, which
is proved sufficient); `none` = `values[mid]` out of range (or fuel exhausted). -/
def searchLoop (a : Array Nat) (x : Nat) : Nat → Nat → Nat → Option Nat
  | 0, _, _ => none
  | fuel + 1, low, high =>
    if low < high then
      let mid := (low + high) >>> 1
      match a[mid]? with
      | none => none
      | some v => if v < x then searchLoop a x fuel (mid + 1) high else searchLoop a x fuel low mid
    else some low

def search (a : Array Nat) (x : Nat) : Option Nat := searchLoop a x (a.size + 1) 0 a.size

/-! ### `Bitmap` / `Bits` (the parts the bitmap container uses) -/

/-- `set[index] & (1<<bit) != 0`. -/
def bitSet (w : Word) (bit : Nat) : Bool := w &&& (1#64 <<< bit) != 0#64

/-- Compile-time replacement for `bitSet` (the definition above is untouched; the oracle
executable tests the bit directly instead of building the mask with three bignum operations).
Kernel-checked equality, used only by the code generator (`csimp`). -/
def bitSetFast (w : Word) (bit : Nat) : Bool := w.getLsbD bit

@[csimp] theorem bitSet_eq_bitSetFast : @bitSet = @bitSetFast := by
  funext w bit
  unfold bitSet bitSetFast
  by_cases hb : bit < 64
  · have hmask : ∀ i, (1#64 <<< bit : BitVec 64).getLsbD i = decide (i = bit) := by
      intro i
      rw [BitVec.getLsbD_shiftLeft, BitVec.getLsbD_one]
      by_cases h : i = bit
      · subst h; simp [hb]
      · simp only [h, decide_false]
        by_cases h2 : i < bit
        · simp [h2]
        · have : ¬ (i - bit = 0) := by omega
          simp [this]
    by_cases h : w.getLsbD bit = true
    · rw [h]
      simp only [bne_iff_ne, ne_eq]
      intro h0
      have := congrArg (fun z => BitVec.getLsbD z bit) h0
      simp [BitVec.getLsbD_and, hmask, h] at this
    · simp only [Bool.not_eq_true] at h
      rw [h]
      simp only [bne_eq_false_iff_eq]
      apply BitVec.eq_of_getLsbD_eq
      intro i hi
      rw [BitVec.getLsbD_and, hmask]
      by_cases hib : i = bit
      · subst hib; simp [h]
      · simp [hib]
  · have hge : 64 ≤ bit := by omega
    rw [BitVec.getLsbD_of_ge w bit hge]
    simp only [bne_eq_false_iff_eq]
    apply BitVec.eq_of_getLsbD_eq
    intro i hi
    rw [BitVec.getLsbD_and, BitVec.getLsbD_shiftLeft]
    have : i < bit := by omega
    simp [this]

/-- `Bitmap.Add(num)`: returns the new word slice and whether the bit was newly set. -/
def bitmapAdd (w : Array Word) (num : Nat) : Option (Array Word × Bool) :=
  let index := num >>> 6
  let bit := num &&& 63
  if index ≥ w.size then
    let w1 := w ++ Array.replicate (index + 1 - w.size) (0#64 : Word)
    match w1[index]? with
    | none => none
    | some v => some (w1.setIfInBounds index (v ||| (1#64 <<< bit)), true)
  else
    match w[index]? with
    | none => none
    | some v =>
      if !bitSet v bit then some (w.setIfInBounds index (v ||| (1#64 <<< bit)), true)
      else some (w, false)

/-- `Bitmap.add(num)` (no growth, no result): `b.set[index] |= 1 << bit`. -/
def bitmapAddRaw (w : Array Word) (num : Nat) : Option (Array Word) :=
  let index := num >>> 6
  let bit := num &&& 63
  match w[index]? with
  | none => none
  | some v => some (w.setIfInBounds index (v ||| (1#64 <<< bit)))

/-- `Bitmap.Remove(num)`. -/
def bitmapRemove (w : Array Word) (num : Nat) : Array Word × Bool :=
  let index := num >>> 6
  let bit := num &&& 63
  match w[index]? with
  | none => (w, false)                     -- `index < len(b.set) && …` short-circuits
  | some v =>
    if bitSet v bit then (w.setIfInBounds index (v &&& ~~~(1#64 <<< bit)), true) else (w, false)

/-- `Bitmap.Contains(num)`. -/
def bitmapContains (w : Array Word) (num : Nat) : Bool :=
  let index := num >>> 6
  let bit := num &&& 63
  match w[index]? with
  | none => false
  | some v => bitSet v bit

/-! ### containers -/

/-- `for _, v := range buf { newContainer.add(uint(v)) }`. -/
def addAllRaw : List Nat → Array Word → Option (Array Word)
  | [], w => some w
  | v :: vs, w => match bitmapAddRaw w v with
    | none => none
    | some w' => addAllRaw vs w'

/-- `(*arrayContainer).Add(x, buf)`: returns (receiver after the call, returned container, ok).
The receiver is mutated in place in the two array branches (and is then also the returned
container); the conversion branch leaves it untouched and returns a fresh bitmap container. -/
def arrAdd (vals : Array Nat) (x : Nat) : Option (Array Nat × Container × Bool) :=
  match search vals x with
  | none => none
  | some pos =>
    if pos < vals.size && vals[pos]? == some x then some (vals, .arr vals, false)
    else if vals.size < threshold then
      -- ac.values = append(ac.values, 0); copy(ac.values[pos+1:], ac.values[pos:]); ac.values[pos] = x
      if pos > vals.size then none      -- `ac.values[pos+1:]` slice bounds out of range
      else
        let v' := vals.extract 0 pos ++ #[x] ++ vals.extract pos vals.size
        some (v', .arr v', true)
    else
      -- copy(buf, ac.values): len(buf) = 4096 ≤ len(ac.values) here, so buf = values[:4096]
      let buf := (vals.extract 0 threshold).toList
      -- t := *(*[1024]uint64)(&ac.values[0]); newContainer.setZero()
      let zero : Array Word := Array.replicate 1024 0#64
      match addAllRaw buf zero with
      | none => none
      | some w1 => match bitmapAddRaw w1 x with
        | none => none
        | some w2 => some (vals, .bmp 4097 w2, true)     -- newContainer.length = 4097

/-- `(*arrayContainer).Remove(x)`. -/
def arrRemove (vals : Array Nat) (x : Nat) : Option (Array Nat × Bool) :=
  match search vals x with
  | none => none
  | some pos =>
    if pos < vals.size && vals[pos]? == some x then
      some (vals.extract 0 pos ++ vals.extract (pos + 1) vals.size, true)
    else some (vals, false)

/-- `(*arrayContainer).Contains(x)`. -/
def arrContains (vals : Array Nat) (x : Nat) : Option Bool :=
  match search vals x with
  | none => none
  | some pos => some (pos < vals.size && vals[pos]? == some x)

/-- `container.Add(x, buf)`: (receiver after the call, returned container, ok). -/
def Container.add : Container → Nat → Option (Container × Container × Bool)
  | .arr vals, x => match arrAdd vals x with
    | none => none
    | some (v', ret, ok) => some (.arr v', ret, ok)
  | .bmp n w, x => match bitmapAdd w x with       -- (*Bits).Add: length++ when newly set
    | none => none
    | some (w', ok) =>
      let c := Container.bmp (if ok then n + 1 else n) w'
      some (c, c, ok)

/-- `container.Remove(x)`: (receiver after the call, ok). -/
def Container.remove : Container → Nat → Option (Container × Bool)
  | .arr vals, x => match arrRemove vals x with
    | none => none
    | some (v', ok) => some (.arr v', ok)
  | .bmp n w, x =>
    let (w', ok) := bitmapRemove w x
    some (.bmp (if ok then n - 1 else n) w', ok)

def Container.contains : Container → Nat → Option Bool
  | .arr vals, x => arrContains vals x
  | .bmp _ w, x => some (bitmapContains w x)

/-- `container.Len()`: `len(values)` / the cached `length`. -/
def Container.len : Container → Int
  | .arr vals => vals.size
  | .bmp n _ => n

/-! ### the skip list through its ordered-map interface (C02) -/

abbrev OMap := List (Nat × Container)

def omGet : OMap → Nat → Option Container
  | [], _ => none
  | (k, c) :: rest, key => if k = key then some c else omGet rest key

/-- `Set(key, c)` on an ordered map: replace or insert in key order. -/
def omSet : OMap → Nat → Container → OMap
  | [], key, c => [(key, c)]
  | (k, c0) :: rest, key, c =>
    if key < k then (key, c) :: (k, c0) :: rest
    else if key = k then (k, c) :: rest
    else (k, c0) :: omSet rest key c

/-- `node.SetValue(c)` for the node found under `key`. -/
def omSetValue : OMap → Nat → Container → OMap
  | [], _, _ => []
  | (k, c0) :: rest, key, c => if k = key then (k, c) :: rest else (k, c0) :: omSetValue rest key c

def omRemove : OMap → Nat → OMap
  | [], _ => []
  | (k, c0) :: rest, key => if k = key then rest else (k, c0) :: omRemove rest key

/-! ### RoaringBitmap -/

structure RB where
  cs : OMap
  len : Int
deriving Inhabited

/-- The zero value. -/
def RB.empty : RB := ⟨[], 0⟩

/-- `Add(num)`. -/
def RB.add (r : RB) (num : Nat) : Option (RB × Bool) :=
  let high := num >>> 16
  let low := num % 65536
  match omGet r.cs high with
  | none =>
    -- ac := &arrayContainer{}; ac.Add(low, buf) (result dropped); Set(high, ac); len++
    match arrAdd #[] low with
    | none => none
    | some (ac, _, _) => some (⟨omSet r.cs high (.arr ac), r.len + 1⟩, true)
  | some c =>
    match c.add low with
    | none => none
    | some (_, nc, ok) => some (⟨omSetValue r.cs high nc, if ok then r.len + 1 else r.len⟩, ok)

/-- `Remove(num)`. -/
def RB.remove (r : RB) (num : Nat) : Option (RB × Bool) :=
  let high := num >>> 16
  let low := num % 65536
  match omGet r.cs high with
  | none => some (r, false)
  | some c =>
    match c.remove low with
    | none => none
    | some (c', ok) =>
      let cs1 := omSetValue r.cs high c'        -- in-place mutation through the pointer
      if ok then
        some (⟨if c'.len == 0 then omRemove cs1 high else cs1, r.len - 1⟩, true)
      else some (⟨cs1, r.len⟩, false)

/-- `Contains(num)`. -/
def RB.contains (r : RB) (num : Nat) : Option Bool :=
  let high := num >>> 16
  let low := num % 65536
  match omGet r.cs high with
  | none => some false
  | some c => c.contains low

/-! ### Range / All -/

/-- The callback of the harness: collects, and answers `false` (stop) on the `stop`-th
call (`stop = 0`: never). -/
structure Sink where
  acc : List Nat      -- reversed
  n : Nat
  stop : Nat

def Sink.new (stop : Nat) : Sink := ⟨[], 0, stop⟩
def Sink.out (s : Sink) : List Nat := s.acc.reverse

/-- `fn(v)`: new sink and the callback's answer (`true` = go on). -/
def Sink.call (s : Sink) (v : Nat) : Sink × Bool :=
  (⟨v :: s.acc, s.n + 1, s.stop⟩, !(s.n + 1 == s.stop))

/-- `for _, low := range ac.values { if !fn(high<<16 | low) { return } }`; Bool = not returned. -/
def rangeArr (high : Nat) : List Nat → Sink → Sink × Bool
  | [], s => (s, true)
  | low :: rest, s =>
    let (s', go) := s.call (high <<< 16 ||| low)
    if go then rangeArr high rest s' else (s', false)

/-- `for j := 0; j < 64; j++ { if set[i]&(1<<j) != 0 { if !fn(high<<16 | (i<<6+j)) { return } } }`
with `n` = remaining iterations. -/
def rangeWord (high i : Nat) (w : Word) : Nat → Nat → Sink → Sink × Bool
  | 0, _, s => (s, true)
  | n + 1, j, s =>
    if bitSet w j then
      let (s', go) := s.call (high <<< 16 ||| (i <<< 6 + j))
      if go then rangeWord high i w n (j + 1) s' else (s', false)
    else rangeWord high i w n (j + 1) s

/-- `for i := 0; i < len(set); i++ { … }`. -/
def rangeWords (high : Nat) : List Word → Nat → Sink → Sink × Bool
  | [], _, s => (s, true)
  | w :: ws, i, s =>
    let (s', go) := rangeWord high i w 64 0 s
    if go then rangeWords high ws (i + 1) s' else (s', false)

/-- `for node != nil { …; node = node.Next() }`. -/
def rangeNodes : OMap → Sink → Sink × Bool
  | [], s => (s, true)
  | (high, c) :: rest, s =>
    let (s', go) := match c with
      | .arr vals => rangeArr high vals.toList s           -- c.Type() == 1
      | .bmp _ w => rangeWords high w.toList 0 s
    if go then rangeNodes rest s' else (s', false)

/-- `Range(fn)` with the stopping callback: the values passed to `fn`, in order. -/
def RB.range (r : RB) (stop : Nat) : List Nat := (rangeNodes r.cs (Sink.new stop)).1.out

/-- `All()` (setz/iter.go) has the same body as `Range` with `yield` for `fn`. -/
def RB.all (r : RB) (stop : Nat) : List Nat := (rangeNodes r.cs (Sink.new stop)).1.out

/-! ### Iter: the state machine -/

/-- `uint16Iter`: `arrayContainerIter{c, i}` | `bitmapContainerIter{bm, i, j, read}`. -/
inductive Inner where
  | arrIt (vals : Array Nat) (i : Int)
  | bmpIt (words : Array Word) (i j : Nat) (read : Bool)
deriving Inhabited

def Container.iter : Container → Inner
  | .arr vals => .arrIt vals (-1)
  | .bmp _ w => .bmpIt w 0 0 false

/-- inner `for bi.j < 64 { if set[i]&(1<<j) != 0 {…return true}; bi.j++ }`, `n` = 64 - j. -/
def scanWord (w : Word) : Nat → Nat → Option Nat
  | 0, _ => none
  | n + 1, j => if bitSet w j then some j else scanWord w n (j + 1)

/-- outer `for bi.i < len(set) { …; bi.i++; bi.j = 0 }` over the words from index `i` on:
final `(i, j, found)`. -/
def scanWords : List Word → Nat → Nat → Nat × Nat × Bool
  | [], i, j => (i, j, false)
  | w :: ws, i, j =>
    match scanWord w (64 - j) j with
    | some j' => (i, j', true)
    | none => scanWords ws (i + 1) 0

/-- `uint16Iter.Next()`. -/
def Inner.next : Inner → Inner × Bool
  | .arrIt vals i => if i < (vals.size : Int) - 1 then (.arrIt vals (i + 1), true) else (.arrIt vals i, false)
  | .bmpIt w i j read =>
    let j1 := if read then j + 1 else j            -- if bi.read { bi.read = false; bi.j++ }
    let (i', j', found) := scanWords (w.toList.drop i) i j1
    (.bmpIt w i' j' found, found)

/-- `scanWords (w.toList.drop i) i j` computed on the array by index (`n` = `w.size - i`). -/
def scanWordsA (w : Array Word) : Nat → Nat → Nat → Nat × Nat × Bool
  | 0, i, j => (i, j, false)
  | n + 1, i, j =>
    match w[i]? with
    | none => (i, j, false)
    | some x =>
      match scanWord x (64 - j) j with
      | some j' => (i, j', true)
      | none => scanWordsA w n (i + 1) 0

theorem scanWords_drop_eq (w : Array Word) : ∀ (n i j : Nat), n = w.size - i →
    scanWords (w.toList.drop i) i j = scanWordsA w n i j := by
  intro n
  induction n with
  | zero =>
    intro i j h
    have : w.toList.drop i = [] := List.drop_eq_nil_of_le (by simp; omega)
    rw [this]; rfl
  | succ n ih =>
    intro i j h
    have hi : i < w.size := by omega
    have hd : w.toList.drop i = w[i] :: w.toList.drop (i + 1) := by
      rw [← Array.getElem_toList (h := by simpa using hi)]
      exact List.drop_eq_getElem_cons (by simpa using hi)
    have hg : w[i]? = some w[i] := Array.getElem?_eq_getElem hi
    rw [hd]
    simp only [scanWords, scanWordsA, hg]
    cases hs : scanWord w[i] (64 - j) j with
    | some j' => rfl
    | none => exact ih (i + 1) 0 (by omega)

/-- Compile-time replacement for `Inner.next` (definition above untouched): the same scan
without rebuilding `w.toList.drop i` on every call.  Kernel-checked equality (`csimp`). -/
def Inner.nextFast : Inner → Inner × Bool
  | .arrIt vals i => if i < (vals.size : Int) - 1 then (.arrIt vals (i + 1), true) else (.arrIt vals i, false)
  | .bmpIt w i j read =>
    let j1 := if read then j + 1 else j
    let (i', j', found) := scanWordsA w (w.size - i) i j1
    (.bmpIt w i' j' found, found)

@[csimp] theorem Inner.next_eq_nextFast : @Inner.next = @Inner.nextFast := by
  funext it
  cases it with
  | arrIt vals i => rfl
  | bmpIt w i j read =>
    unfold Inner.next Inner.nextFast
    simp only [scanWords_drop_eq w (w.size - i) i _ rfl]

/-- `uint16Iter.Value()`. -/
def Inner.value : Inner → Option Nat
  | .arrIt vals i => if i < 0 then none else vals[i.toNat]?
  | .bmpIt _ i j _ => some ((i <<< 6 + j) % 65536)        -- uint16(uint(i<<6 + j))

/-- `RoaringBitmapIter{node, iter}`: `node` = the remaining bucket chain (`[]` = nil). -/
structure It where
  node : OMap
  iter : Option Inner

def RB.iter (r : RB) : It := ⟨r.cs, none⟩        -- Head(): nil when empty

/-- `RoaringBitmapIter.Next()`.  `reset = true` is the repaired code (`i.iter = nil` after
`i.node = i.node.Next()`); `reset = false` is the code before the fix (kept for
`Golib/Findings/C03.lean`). -/
def itNext (reset : Bool) : OMap → Option Inner → It × Bool
  | [], it => (⟨[], it⟩, false)
  | (k, c) :: rest, it =>
    let inner := match it with
      | none => c.iter
      | some x => x
    match inner.next with
    | (inner', true) => (⟨(k, c) :: rest, some inner'⟩, true)
    | (inner', false) => itNext reset rest (if reset then none else some inner')

def It.next (reset : Bool) (it : It) : It × Bool := itNext reset it.node it.iter

/-- `RoaringBitmapIter.Value()`: `uint32(node.Key())<<16 | uint32(iter.Value())`. -/
def It.value (it : It) : Option Nat :=
  match it.node, it.iter with
  | (k, _) :: _, some inner => match inner.value with
    | none => none
    | some v => some (k <<< 16 ||| v)
  | _, _ => none

/-- `for it.Next() { out = append(out, it.Value()) }` with at most `fuel` calls of `Next`;
`none` = a panic in `Value` or fuel exhausted before `Next` answered false. -/
def iterLoop (reset : Bool) : Nat → It → List Nat → Option (List Nat × It)
  | 0, _, _ => none
  | fuel + 1, it, acc =>
    match it.next reset with
    | (it', false) => some (acc.reverse, it')
    | (it', true) => match it'.value with
      | none => none
      | some v => iterLoop reset fuel it' (v :: acc)

/-- The whole enumeration through `Iter()`; `len+1` calls of `Next` suffice (proved). -/
def RB.iterAll (reset : Bool) (r : RB) : Option (List Nat × It) :=
  iterLoop reset (r.len.toNat + 1) r.iter []

/-! ### held handles

A held `iter.Seq[uint32]` (the value `All()` returns) is a closure over the OBJECT: it carries
no data of its own, so ranging it is running `All`'s body on the state the bitmap has when it
is ranged.  A held `RoaringBitmapIter` is a value `{node, iter}` (`It`), valid while the bitmap
is not mutated. -/

/-- Range a held Seq with a callback answering false on its `stop`-th call (0: never). -/
def RB.seqRange (r : RB) (stop : Nat) : List Nat := r.all stop

/-- Range a held Seq breaking after `j` elements, then range it again fully. -/
def RB.seqTwice (r : RB) (j : Nat) : List Nat × List Nat := (r.all j, r.all 0)

/-- `for a := range seq { inner := 0; for range seq { inner++ }; record a, inner; break after j }`:
the outer loop sees what `All` delivers to a `yield` that answers false at its `j`-th call; for
each of those elements the inner loop is a full range. -/
def RB.seqNest (r : RB) (j : Nat) : List Nat × List Nat :=
  let outer := r.all j
  (outer, outer.map fun _ => (r.all 0).length)

/-- Two `iter.Pull` cursors over the same held Seq, alternated; cursor 1 is stopped after `a`
values (`a = 0`: runs to the end).  Each cursor runs `All`'s body in its own coroutine. -/
def RB.pull2 (r : RB) (a : Nat) : List Nat × List Nat := (r.all a, r.all 0)

/-- Up to `n` times: `if !it.Next() { stop }; collect it.Value()` on the repaired iterator.
Result: the values, the iterator afterwards, and whether all `n` calls of `Next` answered
true; `none` = `Value` panicked. -/
def It.steps : Nat → It → List Nat → Option (List Nat × It × Bool)
  | 0, it, acc => some (acc.reverse, it, true)
  | n + 1, it, acc =>
    match it.next true with
    | (it', false) => some (acc.reverse, it', false)
    | (it', true) => match it'.value with
      | none => none
      | some v => It.steps n it' (v :: acc)

/-- The loop of `itPairs`: `j` = outer elements still wanted. -/
def itPairsLoop (r : RB) : Nat → It → List Nat → List Nat → Option (List Nat × List Nat)
  | 0, _, xs, cs => some (xs.reverse, cs.reverse)
  | j + 1, a, xs, cs =>
    match a.next true with
    | (_, false) => some (xs.reverse, cs.reverse)
    | (a', true) => match a'.value with
      | none => none
      | some x =>
        -- b := rb.Iter(); c := 0; for b.Next() { c++ }
        match r.iterAll true with
        | none => none
        | some (ys, _) => itPairsLoop r j a' (x :: xs) (ys.length :: cs)

/-- `a := rb.Iter(); for a.Next() { x := a.Value(); b := rb.Iter(); c := 0; for b.Next() { c++ };
record x, c; stop after j outer elements }`: two iterators alive in the same bitmap. -/
def RB.itPairs (r : RB) (j : Nat) : Option (List Nat × List Nat) := itPairsLoop r j r.iter [] []

end Golib.C03
