/-
C16 driver: a bank of registers (each a `setz.Bits`, a `setz.Bitmap` or a `dsz.Bits`,
fixed by the header) and two iterator slots that refer to a register (a `BitmapIter`
holds a pointer to the bitmap, so it observes later mutations of that register).

The oracle executes the ONE-MEMORY machine of `C16Heap.lean` (all word arrays in one heap,
registers are slice headers, `other` operands are header copies), instantiated with the Go
runtime growth rule; `C16Spec.lean` is the by-value specification machine it is proved to refine.

header : `@ C16 k0 k1 …`  with `ki ∈ {bits, bitmap, dsz}` (1..4 registers)
ops    : add r n | remove r n | contains r n | grow r n | len r | blen r | cap r
         clone d s | diff a b | intersect a b | merge a b
         iter k r | next k | value k | iterall r | range r stop | all r stop
         caps     (capacity of every register's word slice in the one-memory model)
         layout   (word count per register + pairs of registers whose backing arrays overlap)
-/
import Golib.Model.C16Heap

namespace Golib.C16
open Golib.Proto

def runCase (hdr : List String) (ops : List String) : List String :=
  match hdr.mapM parseKindH with
  | some kinds =>
    if kinds.length = 0 ∨ kinds.length > 4 then "bad-op" :: ops.map fun _ => "bad-op"
    else "ok" :: hrunOpsC goGrow8 (some (HSt.init kinds)) ops
  | none => "bad-op" :: ops.map fun _ => "bad-op"

end Golib.C16
