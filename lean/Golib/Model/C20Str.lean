/-
Model of `randz/str.go`: `NewStrGenerator` (rune slice of the character set, bit width
of its length, mask, indices per 63-bit word) and `StrGenerator.Generate` (rejection
sampling of fixed-width indices cut from one 63-bit word).  The random source is an
input: the list of words `Int63()` will return; running out of words is the explicit
result `exhausted` (the scripted source of the harness does the same).
-/
import Golib.Proto
import Golib.Prelude.Utf8

namespace Golib.C20
open Golib.Proto

structure StrGen where
  charSet     : List Int   -- `[]rune(charSet)`
  charIdxBits : Nat
  charIdxMask : Nat
  charIdxMax  : Nat
deriving Repr, DecidableEq

/-- `for l := len(r); l != 0; bits++ { l = l >> 1 }` -/
def bitsLoop (l bits : Nat) : Nat :=
  if h : l = 0 then bits else bitsLoop (l >>> 1) (bits + 1)
termination_by l
decreasing_by
  simp only [Nat.shiftRight_eq_div_pow, Nat.pow_one]
  omega

/-- `NewStrGenerator(charSet, _)`; `63 / bits` panics (division by zero) for the empty set. -/
def newStrGen (charSet : List Nat) : Option StrGen :=
  let r := Utf8.runes charSet
  let bits := bitsLoop r.length 0
  if bits = 0 then none
  else some { charSet := r, charIdxBits := bits, charIdxMask := (1 <<< bits) - 1,
              charIdxMax := 63 / bits }

/-- The body of the `for` loop of `Generate` while the current word lasts: `need` runes are
still to be written (`i = need - 1`), `remain` indices are left in `cache`.  Stops when
`need = 0` (loop condition `i >= 0`) or `remain = 0` (a new word is needed). -/
def chunks (g : StrGen) : Nat → Nat → Nat → List Int → Option (Nat × List Int)
  | 0, _, _, acc => some (0, acc)
  | need + 1, _, 0, acc => some (need + 1, acc)
  | need + 1, cache, remain + 1, acc =>
    let idx := cache &&& g.charIdxMask
    if idx < g.charSet.length then
      match g.charSet[idx]? with
      | none => none
      | some r => chunks g need (cache >>> g.charIdxBits) remain (acc ++ [r])
    else chunks g (need + 1) (cache >>> g.charIdxBits) remain acc

inductive GenRes where
  | done (out : List Int) (rest : List Nat)   -- runes written, unread words
  | exhausted                                 -- the scripted source ran out of words
  | panic
deriving Repr, DecidableEq

/-- Refill loop: one `Int63()` per iteration. -/
def genWords (g : StrGen) : Nat → List Nat → List Int → GenRes
  | 0, ws, acc => .done acc ws
  | _ + 1, [], _ => .exhausted
  | need + 1, w :: ws, acc =>
    match chunks g (need + 1) w g.charIdxMax acc with
    | none => .panic
    | some (need', acc') => genWords g need' ws acc'

/-- `Generate(n)`: `buf.Grow(n)` panics for `n < 0`; the loop initialiser reads one word
unconditionally. -/
def generate (g : StrGen) (n : Int) (ws : List Nat) : GenRes :=
  if n < 0 then .panic else
  match ws with
  | [] => .exhausted
  | w :: ws =>
    match chunks g n.toNat w g.charIdxMax [] with
    | none => .panic
    | some (need', acc') => genWords g need' ws acc'

/-! ### linear-time versions (reversed accumulator), used by the driver;
`c20_str_fast_eq` proves them equal to the definitions above -/

def chunksR (g : StrGen) : Nat → Nat → Nat → List Int → Option (Nat × List Int)
  | 0, _, _, acc => some (0, acc)
  | need + 1, _, 0, acc => some (need + 1, acc)
  | need + 1, cache, remain + 1, acc =>
    let idx := cache &&& g.charIdxMask
    if idx < g.charSet.length then
      match g.charSet[idx]? with
      | none => none
      | some r => chunksR g need (cache >>> g.charIdxBits) remain (r :: acc)
    else chunksR g (need + 1) (cache >>> g.charIdxBits) remain acc

def genWordsR (g : StrGen) : Nat → List Nat → List Int → GenRes
  | 0, ws, acc => .done acc.reverse ws
  | _ + 1, [], _ => .exhausted
  | need + 1, w :: ws, acc =>
    match chunksR g (need + 1) w g.charIdxMax acc with
    | none => .panic
    | some (need', acc') => genWordsR g need' ws acc'

def generateFast (g : StrGen) (n : Int) (ws : List Nat) : GenRes :=
  if n < 0 then .panic else
  match ws with
  | [] => .exhausted
  | w :: ws =>
    match chunksR g n.toNat w g.charIdxMax [] with
    | none => .panic
    | some (need', acc') => genWordsR g need' ws acc'

/-! ### driver -/

def strStep (g : StrGen) (ts : List String) : Option String :=
  match ts with
  | "gen" :: n :: ws =>
    match n.toInt?, nats? ws with
    | some n, some ws =>
      if ws.any (fun w => w ≥ 2^63) then some "bad-op" else
      match generateFast g n ws with
      | .panic => some "panicked"   -- `Generate(n<0)` panics in `buf.Grow`; the generator is untouched and stays usable
      | .exhausted => some "exhausted"
      | .done out rest => some s!"{hex (Utf8.encode out)} {ws.length - rest.length}"
    | _, _ => some "bad-op"
  | _ => some "bad-op"

end Golib.C20
