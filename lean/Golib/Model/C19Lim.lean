/-
C19 — model of `goz.Limiter` / `goz.Recover` (`goz/goz.go`) as a state machine, one
step per statement that touches shared state, in source order (order re-checked
against the regenerated facts `Golib/Gen/FactsC19.lean`):

  NewLimiter(limit):  if limit < 1 { limit = 3 };  c = make(chan struct{}, limit)
  Go(fn):             add() = { l.c <- struct{}{} ; l.w.Add(1) } ; go Recover(fn, l.panicHandler, l.done)
  Recover:            defer func() {                       -- outer deferred function
                        if p := recover(); p != nil { handler(p) (or print) }
                        if len(cleanups) == 0 { return }
                        defer func() { if p := recover(); p != nil { handler("cleanup panic …") } }()
                        for … cleanup()                    -- cleanups = [l.done]
                      }()
                      fn()
  done():             l.w.Done() ; <-l.c

State: channel token count `k` (capacity `n`), WaitGroup counter `wg`, one record per
submitted function with its program counter, and the `Wait()` callers.
Every submission is its own process (`Go` may be called from any number of
goroutines); a single submitting goroutine is the special case where submission
`i+1` takes no step before submission `i` has reached `ready`.
What `fn` does is an input — the ways a submitted function can END: `Outcome.ok` (returns;
also a function that panics and recovers by itself), `Outcome.panic v` (a panic whose value
`recover()` reports: any non-nil value, `panic(nil)` in a process running with the Go ≥ 1.21
default `panicnil=0` — the value is then a `*runtime.PanicNilError` —, a re-panic in a deferred
function: `v` is the value of the LAST panic), `Outcome.panicNil` (`panic(nil)` in a process
running with `GODEBUG=panicnil=1`, the default for main modules that say `go` < 1.21 such as
golib's own go.mod: the panic is stopped by `recover()`, which returns nil) and
`Outcome.goexit` (`runtime.Goexit()`, e.g. `t.FailNow` in a worker — NOT a panic: the deferred
calls run, `recover()` returns nil, the goroutine ends).  `Outcome.recovered` is what the
`recover()` call of the outer deferred function returns; the code branches on nothing else.
How long `fn` runs is the scheduler's choice (the step `running → recovering` can be delayed
forever).
A Go panic inside a cleanup (`w.Done()` on a zero counter) is modelled explicitly
(`cleanupPanicked`); the theorems show it is unreachable.
Core-only.
-/
namespace Golib.C19

inductive Outcome where
  | ok                 -- `fn` returns
  | panic (v : Int)    -- `fn` panics and `recover()` reports the value `v` (non-nil)
  | panicNil           -- `panic(nil)` under `GODEBUG=panicnil=1`: recovered, but `recover()` returns nil
  | goexit             -- `runtime.Goexit()`: deferred calls run, `recover()` returns nil (not a panic)
deriving DecidableEq, Repr

/-- What `recover()` returns in the outer deferred function of `Recover` once `fn` has been
left (`none` = nil).  The deferred function runs for EVERY way of leaving `fn` — return,
panic, `Goexit` — because it was registered by `defer` before `fn()` (fact `recoverBody`). -/
def Outcome.recovered : Outcome → Option Int
  | .panic v => some v
  | .ok | .panicNil | .goexit => none

/-- What a panic handler invocation received. -/
inductive HVal where
  | val (v : Int)           -- the value the function panicked with
  | cleanupPanic            -- the string "cleanup panic: …" from the inner deferred function
deriving DecidableEq, Repr

inductive Pc where
  | new          -- `Go` called; before `l.c <- struct{}{}`
  | sent         -- token sent; before `l.w.Add(1)`
  | added        -- before `go Recover(fn, l.panicHandler, l.done)`
  | ready        -- goroutine created (`Go` has returned); before `fn()`
  | running      -- inside `fn`
  | recovering   -- `fn` left (returned / panicked / `Goexit`); outer deferred function, before `recover()`
  | cleanup      -- handler called or skipped; before `l.w.Done()`
  | wgDone       -- after `l.w.Done()`; before `<-l.c`
  | exited       -- token received back; inner deferred function saw no panic; goroutine gone
  | cleanupPanicked  -- `l.w.Done()` panicked; inner handler called; goroutine gone, token NOT returned
deriving DecidableEq, Repr

def Pc.rank : Pc → Nat
  | .new => 0 | .sent => 1 | .added => 2 | .ready => 3 | .running => 4 | .recovering => 5
  | .cleanup => 6 | .wgDone => 7 | .exited => 8 | .cleanupPanicked => 8

/-- between the channel send and the channel receive -/
def Pc.holdsToken : Pc → Bool
  | .sent | .added | .ready | .running | .recovering | .cleanup | .wgDone | .cleanupPanicked => true
  | _ => false

/-- between `w.Add(1)` and `w.Done()` -/
def Pc.inWg : Pc → Bool
  | .added | .ready | .running | .recovering | .cleanup => true
  | _ => false

structure Task where
  pc : Pc
  outcome : Outcome
  starts : Nat := 0             -- how many times `fn` was entered
  handled : List HVal := []     -- what the handler (or the fallback print) got on behalf of this task
  hid : Nat := 0                -- which handler `go Recover(fn, l.panicHandler, l.done)` captured
deriving DecidableEq, Repr

/-- A `Wait()` call: the tasks whose `Go` had returned when it was called, and whether
it has returned. -/
structure Waiter where
  before : List Nat
  returned : Bool
deriving DecidableEq, Repr

structure St where
  n : Nat                 -- channel capacity
  k : Nat := 0            -- tokens in the channel
  wg : Nat := 0           -- WaitGroup counter
  tasks : List Task := []
  waiters : List Waiter := []
  cur : Nat := 0          -- `l.panicHandler`: id of the handler configured by the last `SetPanicHandler`
deriving DecidableEq, Repr

/-- `NewLimiter(limit)`. The two constants come from the source (see Props: compared
with the regenerated facts). -/
def limitOf (limit : Int) : Nat := if limit < 1 then 3 else limit.toNat

def newLimiter (limit : Int) : St := { n := limitOf limit }

/-- One step of task `i` (`none` = not enabled: blocked channel operation, or the
task does not exist / has exited). -/
def St.adv (s : St) (i : Nat) : Option St :=
  match s.tasks[i]? with
  | none => none
  | some t =>
    match t.pc with
    | .new =>        -- l.c <- struct{}{}   (blocks while the channel is full)
      if s.k < s.n then some { s with k := s.k + 1, tasks := s.tasks.set i { t with pc := .sent } }
      else none
    | .sent =>       -- l.w.Add(1)
      some { s with wg := s.wg + 1, tasks := s.tasks.set i { t with pc := .added } }
    | .added =>      -- go Recover(fn, l.panicHandler, l.done): the handler field is read HERE
      some { s with tasks := s.tasks.set i { t with pc := .ready, hid := s.cur } }
    | .ready =>      -- fn()
      some { s with tasks := s.tasks.set i { t with pc := .running, starts := t.starts + 1 } }
    | .running =>    -- fn ends: returns, panics, or calls runtime.Goexit (the deferred function runs in all cases)
      some { s with tasks := s.tasks.set i { t with pc := .recovering } }
    | .recovering => -- if p := recover(); p != nil { handler(p) }   (`recover()` = `t.outcome.recovered`)
      match t.outcome.recovered with
      | none => some { s with tasks := s.tasks.set i { t with pc := .cleanup } }
      | some v =>
        some { s with tasks := s.tasks.set i { t with pc := .cleanup, handled := t.handled ++ [.val v] } }
    | .cleanup =>    -- l.w.Done()   (panics on a zero counter)
      if s.wg = 0 then
        some { s with tasks := s.tasks.set i { t with pc := .cleanupPanicked, handled := t.handled ++ [.cleanupPanic] } }
      else some { s with wg := s.wg - 1, tasks := s.tasks.set i { t with pc := .wgDone } }
    | .wgDone =>     -- <-l.c   (blocks while the channel is empty)
      if 0 < s.k then some { s with k := s.k - 1, tasks := s.tasks.set i { t with pc := .exited } }
      else none
    | .exited => none
    | .cleanupPanicked => none

/-- Indices of the tasks whose `Go` call has returned. -/
def St.submittedIdx (s : St) : List Nat :=
  (List.range s.tasks.length).filter fun i =>
    match s.tasks[i]? with
    | some t => decide (3 ≤ t.pc.rank)
    | none => false

inductive Label where
  | submit (o : Outcome)   -- a goroutine calls `Go(fn)`
  | adv (i : Nat)          -- task `i` performs its next statement
  | waitCall               -- a goroutine calls `Wait()`
  | waitRet (j : Nat)      -- the `j`-th `Wait()` call returns
  | waitTimed              -- a goroutine calls `Wait(d)`, d > 0, and the call returns (idle or expired)
  | setHandler (h : Nat)   -- `SetPanicHandler(handler h)`: a plain store to `l.panicHandler`
deriving DecidableEq, Repr

def St.step (s : St) : Label → Option St
  | .submit o => some { s with tasks := s.tasks ++ [{ pc := .new, outcome := o }] }
  | .adv i => s.adv i
  | .waitCall => some { s with waiters := s.waiters ++ [{ before := s.submittedIdx, returned := false }] }
  | .waitRet j =>
    match s.waiters[j]? with
    | some w =>
      if s.wg = 0 ∧ w.returned = false then
        some { s with waiters := s.waiters.set j { w with returned := true } }
      else none
    | none => none
  -- `Wait(d)` as coded: a helper goroutine blocks in `l.w.Wait()` and signals a buffered
  -- channel; the caller selects on that channel and `time.After(d)`.  Neither of them
  -- sends to / receives from `l.c` or changes the WaitGroup counter: whenever the call
  -- returns (counter zero, or `d` expired with functions still running) the Limiter is
  -- as it was.  (Order re-checked against the regenerated fact `waitTimedBody`.)
  | .waitTimed => some s
  -- `SetPanicHandler(fn)`: `l.panicHandler = fn` (a plain field; calling it concurrently with
  -- `Go` is a data race and outside the model: the scripts call it when the submitter is idle)
  | .setHandler h => some { s with cur := h }

/-- Run a schedule; `none` if some step is not enabled. -/
def St.run (s : St) : List Label → Option St
  | [] => some s
  | l :: ls => match s.step l with
    | some s' => s'.run ls
    | none => none

/-- Reachable from `NewLimiter(limit)`. -/
def Reachable (limit : Int) (s : St) : Prop := ∃ ls, (newLimiter limit).run ls = some s

def St.running (s : St) : Nat := s.tasks.countP fun t => t.pc == .running

end Golib.C19
