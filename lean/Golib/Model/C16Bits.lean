/-
Model of `setz/bits.go` (`Bitmap`, `Bits`, `BitmapIter`), `setz/iter.go` (`Bits.All`) and
`dsz/bits.go` (`Bits`, `BitsIter`), mirroring the Go code statement by statement.

* the word array `set []uint64` is `List (BitVec 64)`; `&`, `|`, `^x`, `1 << bit` are the
  `BitVec 64` operations;
* `num uint` is a `Nat` (`num >> 6`, `num & 63` as written); `int(num>>6)` cannot overflow
  for a 64-bit `uint`, all index arithmetic is `Nat` guarded exactly as in the Go code;
* a Go index-out-of-range panic is `none`;
* `math/bits.OnesCount64` is `popcount` = number of set bit positions (modelled, not verified);
* `Bits.length` is an `Int` exactly as coded (`++` / `--` / recount after bulk operations).
-/
import Golib.Proto

namespace Golib.C16

abbrev W := BitVec 64

/-- `1 << bit` on `uint64`. -/
def bitMask (bit : Nat) : W := 1#64 <<< bit

/-- `w & (1 << bit) != 0`. -/
def testBit (w : W) (bit : Nat) : Bool := (w &&& bitMask bit) != 0#64

/-- `set[i] = v`; `none` = index-out-of-range panic. -/
def setIdx (ws : List W) (i : Nat) (v : W) : Option (List W) :=
  if i < ws.length then some (ws.set i v) else none

/-- `bits.OnesCount64`. -/
def popcount (w : W) : Nat := (List.range 64).countP fun j => w.getLsbD j

/-! ### setz.Bitmap -/

structure Bitmap where
  set : List W
deriving Repr, DecidableEq

def Bitmap.empty : Bitmap := ⟨[]⟩

def Bitmap.grow (b : Bitmap) (n : Nat) : Bitmap :=
  let index := n >>> 6
  if index ≥ b.set.length then
    let grow := index + 1 - b.set.length
    { set := b.set ++ List.replicate grow 0#64 }
  else b

def Bitmap.add (b : Bitmap) (num : Nat) : Option (Bitmap × Bool) :=
  let index := num >>> 6
  let bit := num &&& 63
  if index ≥ b.set.length then
    let grow := index + 1 - b.set.length
    let set := b.set ++ List.replicate grow 0#64
    match set[index]? with
    | none => none
    | some w =>
      match setIdx set index (w ||| bitMask bit) with
      | none => none
      | some s => some ({ set := s }, true)
  else
    match b.set[index]? with
    | none => none
    | some w =>
      if (w &&& bitMask bit) == 0#64 then
        match setIdx b.set index (w ||| bitMask bit) with
        | none => none
        | some s => some ({ set := s }, true)
      else some (b, false)

def Bitmap.remove (b : Bitmap) (num : Nat) : Option (Bitmap × Bool) :=
  let index := num >>> 6
  let bit := num &&& 63
  if index < b.set.length then
    match b.set[index]? with
    | none => none
    | some w =>
      if (w &&& bitMask bit) != 0#64 then
        match setIdx b.set index (w &&& ~~~ bitMask bit) with
        | none => none
        | some s => some ({ set := s }, true)
      else some (b, false)
  else some (b, false)

def Bitmap.contains (b : Bitmap) (num : Nat) : Option Bool :=
  let index := num >>> 6
  let bit := num &&& 63
  if index < b.set.length then
    match b.set[index]? with
    | none => none
    | some w => some ((w &&& bitMask bit) != 0#64)
  else some false

/-- `for _, v := range b.set { count += bits.OnesCount64(v) }`. -/
def Bitmap.len (b : Bitmap) : Int :=
  b.set.foldl (fun count v => count + (popcount v : Int)) 0

def Bitmap.cap (b : Bitmap) : Int := (b.set.length <<< 6 : Nat)

/-- `Diff`: `for i < len(b.set) { if i >= len(other.set) { break }; b.set[i] &= ^other.set[i] }`;
the recursion position is the loop index `i`. -/
def diffWords : List W → List W → List W
  | [], _ => []
  | a :: as, [] => a :: as
  | a :: as, o :: os => (a &&& ~~~ o) :: diffWords as os

/-- `Intersect`: `if i >= len(other.set) { b.set[i] = 0; continue }; b.set[i] &= other.set[i]`. -/
def intersectWords : List W → List W → List W
  | [], _ => []
  | _ :: as, [] => 0#64 :: intersectWords as []
  | a :: as, o :: os => (a &&& o) :: intersectWords as os

/-- `Merge`: `for i < len(other.set) { if i >= len(b.set) { b.set = append(b.set, other.set[i]);
continue }; b.set[i] |= other.set[i] }`. -/
def mergeWords : List W → List W → List W
  | as, [] => as
  | [], o :: os => o :: mergeWords [] os
  | a :: as, o :: os => (a ||| o) :: mergeWords as os

def Bitmap.diff (b other : Bitmap) : Bitmap := ⟨diffWords b.set other.set⟩
def Bitmap.intersect (b other : Bitmap) : Bitmap := ⟨intersectWords b.set other.set⟩
def Bitmap.merge (b other : Bitmap) : Bitmap := ⟨mergeWords b.set other.set⟩

/-- `make` + `copy`: a fresh array with the same content. -/
def Bitmap.clone (b : Bitmap) : Bitmap := ⟨b.set.map id⟩

/-! ### Range / All: the double loop with the early exit of the callback -/

/-- inner loop `for j := …; j < 64; j++` of `Range`/`All` on word `w` of index `i`;
returns the values `fn` was called with and whether the iteration goes on. -/
def rangeBits (fn : Nat → Bool) (w : W) (i : Nat) : (j fuel : Nat) → List Nat × Bool
  | _, 0 => ([], true)
  | j, f + 1 =>
    if testBit w j then
      let v := i <<< 6 + j
      if fn v then
        let (c, k) := rangeBits fn w i (j + 1) f
        (v :: c, k)
      else ([v], false)
    else rangeBits fn w i (j + 1) f

/-- outer loop `for i := 0; i < len(b.set); i++`. -/
def rangeWords (fn : Nat → Bool) : List W → Nat → List Nat
  | [], _ => []
  | w :: ws, i =>
    let (c, k) := rangeBits fn w i 0 64
    if k then c ++ rangeWords fn ws (i + 1) else c

/-- The calls made by `b.Range(fn)` (and by `Bits.All()` driven with `yield = fn`). -/
def Bitmap.range (b : Bitmap) (fn : Nat → Bool) : List Nat := rangeWords fn b.set 0

/-! ### BitmapIter / dsz.BitsIter -/

structure Iter where
  i : Nat
  j : Nat
  read : Bool
deriving Repr, DecidableEq

def Iter.init : Iter := ⟨0, 0, false⟩

/-- inner loop `for bi.j < 64 { if set[i]&(1<<j) != 0 {…return true}; bi.j++ }`, fuel `64 - j`. -/
def scanBit (w : W) : (j fuel : Nat) → Nat × Bool
  | j, 0 => (j, false)
  | j, f + 1 => if testBit w j then (j, true) else scanBit w (j + 1) f

/-- outer loop `for bi.i < len(set) { inner; bi.i++; bi.j = 0 }`, fuel `len - i`. -/
def Iter.scan (ws : List W) : (i j fuel : Nat) → Iter × Bool
  | i, j, 0 => (⟨i, j, false⟩, false)
  | i, j, f + 1 =>
    match ws[i]? with
    | none => (⟨i, j, false⟩, false)
    | some w =>
      match scanBit w j (64 - j) with
      | (j', true) => (⟨i, j', true⟩, true)
      | (_, false) => Iter.scan ws (i + 1) 0 f

def Iter.next (ws : List W) (it : Iter) : Iter × Bool :=
  let j := if it.read then it.j + 1 else it.j
  Iter.scan ws it.i j (ws.length - it.i)

def Iter.value (it : Iter) : Nat := it.i <<< 6 + it.j

/-- `for it.Next() { out = append(out, it.Value()) }` with a step budget. -/
def Iter.drain (ws : List W) : (fuel : Nat) → Iter → List Nat
  | 0, _ => []
  | f + 1, it =>
    match Iter.next ws it with
    | (it', true) => it'.value :: Iter.drain ws f it'
    | (_, false) => []

/-- `b.Iter()` drained completely (at most `64·len` hits, then one failing `Next`). -/
def Bitmap.iterAll (b : Bitmap) : List Nat :=
  Iter.drain b.set (64 * b.set.length + 1) Iter.init

/-! ### setz.Bits: embedded Bitmap plus cached length -/

structure Bits where
  length : Int
  bm : Bitmap
deriving Repr, DecidableEq

def Bits.empty : Bits := ⟨0, Bitmap.empty⟩

def Bits.add (b : Bits) (num : Nat) : Option (Bits × Bool) :=
  match b.bm.add num with
  | none => none
  | some (bm, true) => some ({ length := b.length + 1, bm := bm }, true)
  | some (bm, false) => some ({ b with bm := bm }, false)

def Bits.remove (b : Bits) (num : Nat) : Option (Bits × Bool) :=
  match b.bm.remove num with
  | none => none
  | some (bm, true) => some ({ length := b.length - 1, bm := bm }, true)
  | some (bm, false) => some ({ b with bm := bm }, false)

def Bits.len (b : Bits) : Int := b.length

def Bits.diff (b : Bits) (other : Bitmap) : Bits :=
  let bm := b.bm.diff other
  { length := bm.len, bm := bm }

def Bits.intersect (b : Bits) (other : Bitmap) : Bits :=
  let bm := b.bm.intersect other
  { length := bm.len, bm := bm }

def Bits.merge (b : Bits) (other : Bitmap) : Bits :=
  let bm := b.bm.merge other
  { length := bm.len, bm := bm }

/-! ### dsz.Bits (deprecated twin: no return values, no bulk operations) -/

structure DBits where
  length : Int
  set : List W
deriving Repr, DecidableEq

def DBits.empty : DBits := ⟨0, []⟩

def DBits.grow (b : DBits) (n : Nat) : DBits :=
  let index := n >>> 6
  if index ≥ b.set.length then
    let grow := index + 1 - b.set.length
    { b with set := b.set ++ List.replicate grow 0#64 }
  else b

def DBits.add (b : DBits) (num : Nat) : Option DBits :=
  let index := num >>> 6
  let bit := num &&& 63
  if index ≥ b.set.length then
    let grow := index + 1 - b.set.length
    let set := b.set ++ List.replicate grow 0#64
    match set[index]? with
    | none => none
    | some w =>
      match setIdx set index (w ||| bitMask bit) with
      | none => none
      | some s => some { length := b.length + 1, set := s }
  else
    match b.set[index]? with
    | none => none
    | some w =>
      if (w &&& bitMask bit) == 0#64 then
        match setIdx b.set index (w ||| bitMask bit) with
        | none => none
        | some s => some { length := b.length + 1, set := s }
      else some b

def DBits.remove (b : DBits) (num : Nat) : Option DBits :=
  let index := num >>> 6
  let bit := num &&& 63
  if index < b.set.length then
    match b.set[index]? with
    | none => none
    | some w =>
      if (w &&& bitMask bit) != 0#64 then
        match setIdx b.set index (w &&& ~~~ bitMask bit) with
        | none => none
        | some s => some { length := b.length - 1, set := s }
      else some b
  else some b

def DBits.contains (b : DBits) (num : Nat) : Option Bool :=
  let index := num >>> 6
  let bit := num &&& 63
  if index < b.set.length then
    match b.set[index]? with
    | none => none
    | some w => some ((w &&& bitMask bit) != 0#64)
  else some false

def DBits.len (b : DBits) : Int := b.length
def DBits.cap (b : DBits) : Int := (b.set.length <<< 6 : Nat)

end Golib.C16
