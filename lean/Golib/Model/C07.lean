/-
Driver of the C07 section of the oracle.  Header `@ C07 <codec>` with codec one of
`octal | hex | unicode | utf16`; operations (bytes as hex, `-` = empty):

  format <hex>            XxxFormat(bytes)                       -> <hex> | panic
  formatstr <hex>         XxxFormatToString(string)              -> <hex> | panic
  parse <hex> <dstlen>    XxxParse(make([]byte,dstlen), bytes)   -> <n> <hex of dst> | panic
  parsestr <hex>          XxxParseToString(string)               -> <hex> | panic
  parsebytes <hex>        XxxParseToString([]byte)               -> <hex> | panic
  roundtrip <hex>         XxxParseToString(XxxFormatToString(s)) -> <hex> | panic
-/
import Golib.Model.C07Enc

namespace Golib.C07
open Golib.Proto

structure Codec where
  format : Bytes → Option Bytes
  body   : Bytes → St → Option Step

def codec? : String → Option Codec
  | "octal" => some ⟨octalFormat, octalBody⟩
  | "hex" => some ⟨hexFormat, hexBody⟩
  | "unicode" => some ⟨unicodeFormat, unicodeBody⟩
  | "utf16" => some ⟨utf16Format, utf16Body⟩
  | _ => none

def showRes (r : Res Bytes) : String :=
  match r with
  | .ok b => hex b
  | .panic => "panic"
  | .fuel => "timeout"

def runOp (c : Codec) (t : List String) : String :=
  match t with
  | ["format", h] | ["formatstr", h] =>
    match unhex h with
    | none => "bad-op"
    | some b => match c.format b with
      | some o => hex o
      | none => "panic"
  | ["parse", h, n] =>
    match unhex h, n.toNat? with
    | some b, some n =>
      match parse c.body (List.replicate n 0) b with
      | .ok (k, dst) => s!"{k} {hex dst}"
      | .panic => "panic"
      | .fuel => "timeout"
    | _, _ => "bad-op"
  | ["parsestr", h] | ["parsebytes", h] =>
    match unhex h with
    | none => "bad-op"
    | some b => showRes (parseToString c.body b)
  | ["roundtrip", h] =>
    match unhex h with
    | none => "bad-op"
    | some b => match c.format b with
      | some o => showRes (parseToString c.body o)
      | none => "panic"
  | _ => "bad-op"

def runOps (c : Codec) : Bool → List String → List String
  | _, [] => []
  | true, _ :: rest => "dead" :: runOps c true rest
  | false, l :: rest =>
    let o := runOp c (toks l)
    o :: runOps c (o == "panic") rest

def runCase (hdr : List String) (ops : List String) : List String :=
  match hdr with
  | [k] =>
    match codec? k with
    | some c => "ok" :: runOps c false ops
    | none => "bad-op" :: ops.map fun _ => "bad-op"
  | _ => "bad-op" :: ops.map fun _ => "bad-op"

end Golib.C07
