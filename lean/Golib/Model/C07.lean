/-
Driver of the C07 section of the oracle.  Header `@ C07 <codec>` with codec one of
`octal | hex | unicode | utf16`; operations (bytes as hex, `-` = empty):

  format <hex>            XxxFormat(bytes)                       -> <hex> | panic
  formatstr <hex>         XxxFormatToString(string)              -> <hex> | panic
  parse <hex> <dstlen>    XxxParse(make([]byte,dstlen), bytes)   -> <n> <hex of dst> | panic
  parsestr <hex>          XxxParseToString(string)               -> <hex> | panic
  parsebytes <hex>        XxxParseToString([]byte)               -> <hex> | panic
  roundtrip <hex>         XxxParseToString(XxxFormatToString(s)) -> <hex> | panic
  formatdig <hex>         XxxFormat(bytes) of a huge input               -> <len> <64-bit digest of the output> | panic
  parsen <hex> <dstlen>   XxxParse(make([]byte,dstlen), bytes)   -> <n> <hex of dst[:n]> | panic
                          (large stream: only the result prefix is compared)

  parseip <hex> <k> <dl>  ONE memory: dst = arena[0:dl], src = arena[k:k+len] (k = 0: XxxParse(b, b), in place;
                          dl ≥ len(src)) -> <n> <hex of dst[:n]>; evaluated by the one-memory machine
                          `runIP` (Model/C07InPlace.lean; `c07_inplace_eq`: same bytes as a fresh buffer)
  parsew <hex> <dl> <gap> dst a window of src's arena BEHIND src (disjoint, `gap` bytes apart) -> as parsen

Inputs longer than 4096 bytes are evaluated by the linear-time `parseFast` (equal to the
cursor model by `c07_fast_eq_model`); `parsen` with `dstlen < len(src)` always runs the
cursor model (the harness keeps those inputs ≤ 4 KB).

Range operations for the exhaustive extras (one 64-bit FNV-1a style digest per range; the
harness folds the answers of the real functions in the same order and narrows a difference
down to one `format`/`roundtrip`/`parsestr` line):

  scalars <lo> <hi>       for every code point lo ≤ r ≤ hi (surrogates and values above U+10FFFF
                          included: `string(rune(r))` is then U+FFFD), s = UTF-8 of r:
                          XxxFormat(s) and XxxParseToString(XxxFormat(s))
  escapes <lo> <hi> <upper|lower>
                          for every value lo ≤ v ≤ hi: XxxParseToString of the escape text
                          `\ooo` (%03o) | `\xXX` (%02X) | `\UXXXXXXXX` (%08X) | `\uXXXX` (%04X)
-/
import Golib.Model.C07Enc
import Golib.Model.C07Fast
import Golib.Model.C07InPlace
import Golib.Model.C07FormatBuf

namespace Golib.C07
open Golib.Proto

structure DrvCodec where
  format : Bytes → Option Bytes
  body   : Bytes → St → Option Step
  /-- escape prefix, digit base and digit count of the codec (test-input construction only) -/
  pfx    : Bytes
  base   : Nat
  width  : Nat
  /-- the decision function of the functional layer with O(1) length tests (`parseFast`) -/
  decQ   : Bytes → Dec
  /-- the Format function at buffer level, as coded (`c07_format_buffer_eq`: = `format`) -/
  formatB : Bytes → Option Bytes

def codec? : String → Option DrvCodec
  | "octal" => some ⟨octalFormat, octalBody, [92], 8, 3, octalDecQ, octalFormatB⟩
  | "hex" => some ⟨hexFormat, hexBody, [92, 120], 16, 2, hexDecQ, hexFormatB⟩
  | "unicode" => some ⟨unicodeFormat, unicodeBody, [92, 85], 16, 8, unicodeDecQ, unicodeFormatB⟩
  | "utf16" => some ⟨utf16Format, utf16Body, [92, 117], 16, 4, utf16DecQ, fun s => (utf16FormatB s).map (·.b)⟩
  | _ => none

/-! ### digests for the range operations -/

def mix (h : UInt64) (x : Nat) : UInt64 := (h ^^^ UInt64.ofNat x) * 1099511628211
def h0 : UInt64 := 14695981039346656037

def mixBytes (h : UInt64) (o : Option Bytes) : UInt64 :=
  match o with
  | none => mix h 4096                       -- panic
  | some bs => bs.foldl mix (mix h bs.length)

def resBytes : Res Bytes → Option Bytes
  | .ok b => some b
  | _ => none

def mixScalar (c : DrvCodec) (h : UInt64) (r : Nat) : UInt64 :=
  let s := Utf8.encodeRune (r : Int)
  let f := c.format s
  let h := mixBytes h f
  match f with
  | none => mix h 4096
  | some o => mixBytes h (resBytes (parseToString c.body o))

/-- `width` digits of `v` in `base` (most significant first; the value is truncated to the
width), upper or lower case. -/
def fixedDigits (base : Nat) (lower : Bool) : Nat → Nat → Bytes
  | 0, _ => []
  | w + 1, v =>
    let d := v % base
    let ch := if d < 10 then 48 + d else (if lower then 87 else 55) + d
    fixedDigits base lower w (v / base) ++ [ch]

def escapeText (c : DrvCodec) (lower : Bool) (v : Nat) : Bytes :=
  c.pfx ++ fixedDigits c.base lower c.width v

def mixEscape (c : DrvCodec) (lower : Bool) (h : UInt64) (v : Nat) : UInt64 :=
  mixBytes h (resBytes (parseToString c.body (escapeText c lower v)))

/-- fold `f` over `n` consecutive naturals starting at `v`. -/
def foldRange (f : UInt64 → Nat → UInt64) : Nat → Nat → UInt64 → UInt64
  | 0, _, h => h
  | n + 1, v, h => foldRange f n (v + 1) (f h v)

def showRes (r : Res Bytes) : String :=
  match r with
  | .ok b => hex b
  | .panic => "panic"
  | .fuel => "timeout"

/-- `XxxParseToString`: the cursor model up to 4096 bytes, the proved-equal linear evaluator above. -/
def parseStrDrv (c : DrvCodec) (b : Bytes) : Res Bytes :=
  if b.length ≤ 4096 then parseToString c.body b else .ok (parseFast c.decQ b)

def runOp (c : DrvCodec) (t : List String) : String :=
  match t with
  | ["format", h] | ["formatstr", h] =>
    match unhex h with
    | none => "bad-op"
    | some b =>
      -- up to 256 bytes: the buffer-level program (cursors, indexed stores, appendUint's memory
      -- operations); above: the value-level formatter it is proved equal to
      match (if b.length ≤ 256 then c.formatB b else c.format b) with
      | some o => hex o
      | none => "panic"
  | ["parse", h, n] =>
    match unhex h, n.toNat? with
    | some b, some n =>
      match parse c.body (List.replicate n 0) b with
      | .ok (k, dst) => s!"{k} {hex dst}"
      | .panic => "panic"
      | .fuel => "timeout"
    | _, _ => "bad-op"
  | ["parsestr", h] | ["parsebytes", h] =>
    match unhex h with
    | none => "bad-op"
    | some b => showRes (parseStrDrv c b)
  | ["formatdig", h] =>
    -- huge inputs (output of several MiB): `<len> <digest>` of XxxFormat(bytes); the rune codecs by
    -- the tail-recursive evaluators (`c07_fast_eq_model`: equal to the value-level formatter)
    match unhex h with
    | none => "bad-op"
    | some b =>
      let o := if c.width = 8 then unicodeFormatFast b else if c.width = 4 then utf16FormatFast b else c.format b
      match o with
      | some o => s!"{o.length} {(o.foldl mix h0).toNat}"
      | none => "panic"
  | ["scalars", lo, hi] =>
    match lo.toNat?, hi.toNat? with
    | some lo, some hi =>
      if hi < 4294967296 ∧ hi - lo < 4194304 then
        toString (foldRange (mixScalar c) (hi + 1 - lo) lo h0).toNat
      else "bad-op"
    | _, _ => "bad-op"
  | ["escapes", lo, hi, cs] =>
    match lo.toNat?, hi.toNat?, (if cs = "upper" then some false else if cs = "lower" then some true else none) with
    | some lo, some hi, some lower =>
      if hi < 4294967296 ∧ hi - lo < 4194304 then
        toString (foldRange (mixEscape c lower) (hi + 1 - lo) lo h0).toNat
      else "bad-op"
    | _, _, _ => "bad-op"
  | ["parsen", h, n] | ["parsew", h, n, _] =>
    match unhex h, n.toNat? with
    | some b, some n =>
      if b.length ≤ n ∧ 4096 < b.length then
        let o := parseFast c.decQ b
        s!"{o.length} {hex o}"
      else
        match parse c.body (List.replicate n 0) b with
        | .ok (k, dst) => if k ≤ dst.length then s!"{k} {hex (dst.take k)}" else "panic"
        | .panic => "panic"
        | .fuel => "timeout"
    | _, _ => "bad-op"
  | ["parseip", h, k, dl] =>
    match unhex h, k.toNat?, dl.toNat? with
    | some b, some k, some dl =>
      if dl < b.length ∨ 65536 < k then "bad-op"
      else if 4096 < b.length then
        let o := parseFast c.decQ b
        s!"{o.length} {hex o}"
      else
        let (n, o) := runIP c.decQ k (List.replicate k 170 ++ b)
        s!"{n} {hex o}"
    | _, _, _ => "bad-op"
  | ["roundtrip", h] =>
    match unhex h with
    | none => "bad-op"
    | some b => match c.format b with
      | some o => showRes (parseStrDrv c o)
      | none => "panic"
  | _ => "bad-op"

def runOps (c : DrvCodec) : Bool → List String → List String
  | _, [] => []
  | true, _ :: rest => "dead" :: runOps c true rest
  | false, l :: rest =>
    let o := runOp c (toks l)
    o :: runOps c (o == "panic") rest

def runCase (hdr : List String) (ops : List String) : List String :=
  match hdr with
  | [k] =>
    match codec? k with
    | some c => "ok" :: runOps c false ops
    | none => "bad-op" :: ops.map fun _ => "bad-op"
  | _ => "bad-op" :: ops.map fun _ => "bad-op"

end Golib.C07
