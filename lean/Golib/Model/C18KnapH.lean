/-
`Knapsack` with its buffers (`/repo/algz/dp.go`): the scratch slice `tmp` and the per-cell
slices `dp[i].items` live in an explicit heap of buffers (the heap primitives of the
FindDpSolvers model: `readS`, `appendS` = Go `append`, in place when the capacity suffices,
otherwise a fresh buffer of capacity `grow n`).

```go
tmp = append(tmp[:0], dp[i-w].items...)
tmp = append(tmp, item)
dp[i].items = append(dp[i].items[:0], tmp...)      // a COPY into the cell's own buffer
```
A nil slice (`var tmp []T`, the zero `knapsack[T]` cells) behaves under `append` exactly like
a slice of capacity 0, so the initial heap holds one capacity-0 buffer for `tmp` and one per
cell.  What could go wrong — and does in "optimised" variants — is a cell sharing its buffer
with `tmp` or with another cell; `Golib.C18.knapsackH_refines` proves it never happens.
-/
import Golib.Model.C18Knap
import Golib.Model.C18Solv

namespace Golib.C18

structure KSt (α : Type) where
  heap : Heap α
  tmp : Slice
  dp : List (Int × Slice)

section
variable {α : Type} (br : Option (List α → List α → Bool)) (grow : Nat → Nat)

/-- `tmp = append(tmp[:0], src...); tmp = append(tmp, item)`. -/
def buildTmp (item : α) (h : Heap α) (tmp src : Slice) : Option (Heap α × Slice) :=
  match readS h src with
  | none => none
  | some sv =>
    match appendS grow h { tmp with len := 0 } sv with
    | none => none
    | some (h1, t1) => appendS grow h1 t1 [item]

/-- `dp[i].items = append(dp[i].items[:0], tmp...)`. -/
def storeCell (h : Heap α) (cur tmp : Slice) : Option (Heap α × Slice) :=
  match readS h tmp with
  | none => none
  | some tv => appendS grow h { cur with len := 0 } tv

def kStepH (item : α) (w : Nat) (value : Int) (n : Nat) (st : KSt α) : Option (KSt α) :=
  match st.dp[n]?, st.dp[w + n]? with
  | some src, some cur =>
    let newScore := src.1 + value
    if newScore > cur.1 then
      match buildTmp grow item st.heap st.tmp src.2 with
      | none => none
      | some (h2, t2) =>
        match storeCell grow h2 cur.2 t2 with
        | none => none
        | some (h3, c') => some { heap := h3, tmp := t2, dp := st.dp.set (w + n) (newScore, c') }
    else if newScore = cur.1 then
      match br with
      | none => some st
      | some b =>
        match buildTmp grow item st.heap st.tmp src.2 with
        | none => none
        | some (h2, t2) =>
          match readS h2 cur.2, readS h2 t2 with
          | some ov, some tv =>
            if b ov tv then
              match storeCell grow h2 cur.2 t2 with
              | none => none
              | some (h3, c') => some { heap := h3, tmp := t2, dp := st.dp.set (w + n) (newScore, c') }
            else some { st with heap := h2, tmp := t2 }
          | _, _ => none
    else some st
  | _, _ => none

def kInnerH (item : α) (w : Nat) (value : Int) : Nat → KSt α → Option (KSt α)
  | 0, st => some st
  | n + 1, st =>
    match kStepH br grow item w value n st with
    | none => none
    | some st' => kInnerH item w value n st'

variable (wf : α → Nat) (vf : α → Int) (W : Nat)

def kItemsH : List α → KSt α → Option (KSt α)
  | [], st => some st
  | x :: xs, st =>
    match kInnerH br grow x (wf x) (vf x) (W + 1 - wf x) st with
    | none => none
    | some st' => kItemsH xs st'

/-- Initial state: buffer 0 (capacity 0) for `tmp`, buffer `i + 1` (capacity 0) for cell `i`. -/
def kInitH : KSt α :=
  { heap := List.replicate (W + 2) { cap := 0, data := [] }
    tmp := { buf := 0, len := 0 }
    dp := (List.range (W + 1)).map fun i => ((0 : Int), ({ buf := i + 1, len := 0 } : Slice)) }

/-- `Knapsack` on the heap: the items read out of `dp[maxWeight].items` at the end. -/
def knapsackH (items : List α) : Option (List α) :=
  match kItemsH br grow wf vf W items (kInitH W) with
  | none => none
  | some st =>
    match st.dp[W]? with
    | none => none
    | some c => readS st.heap c.2

end
end Golib.C18
