/-
C02 — executable model of `listz/skip.go`, `listz/skip_cmp.go` and the skip-list part of
`listz/iter.go`, written as the code walks.  Core-only.

"Levels as lists": `lv[i]` is the chain of level `i` in chain order (`head.next[i]`,
then `.next[i]` of each node), as the list of the nodes' keys.  A node is identified by
its key (modelled-not-verified: raw pointer splicing is list surgery per level; the
harness compares the real towers, read by reflection, with `lv` after every operation).
Node values live in the association list `vals`.

* `cur : Option K` is the search cursor (`none` = `&s.head`).
* `after cur l` is `cur.next[i]`-onwards in chain `l`; it is `none` (index out of range:
  the node has no slot `i`) when `cur` is not a node of that chain.
* A Go panic is `none`.
* `SkipList` is the instance `lazy = true` with `cmp` = the built-in order;
  `SkipListWithCmp` is `lazy = false` with an arbitrary comparator.
* Tower heights: `set` receives the raw 64-bit word `r` that `s.rand.Uint64()` returns;
  `randomLevel` is the bit-level function of the source.  The theorems quantify over `r`.
* The model is of the REPAIRED code (F1): `RangeWithStart` starts with
  `if s.len == 0 { return }` and `SkipList.Clear` with `if s.head.next == nil { return }`.
  `fixed = false` gives the code before the fix (for `Golib/Findings/C02.lean`).
-/
namespace Golib.C02

def maxLevel : Nat := 32

/-- `math/bits.Len64`. -/
def len64 (n : Nat) : Nat := if n = 0 then 0 else Nat.log2 n + 1

/-- `randomLevel`: `k := r.Uint64() & zoneMask; ((maxLevel - bits.Len64(k)) & levelMask) + 1`. -/
def randomLevel (r : Nat) : Nat :=
  let k := r &&& (2 ^ maxLevel - 1)
  ((maxLevel - len64 k) &&& (maxLevel - 1)) + 1

structure Cfg (K V : Type) where
  cmp : K → K → Int
  lazy : Bool          -- `SkipList` (lazyInit in set, zero value usable) vs `SkipListWithCmp`
  zeroK : K
  zeroV : V
  fixed : Bool := true

structure SL (K V : Type) where
  lv : List (List K)       -- `head.next`: `[]` = nil slice (zero value), else 32 chains
  vals : List (K × V)
  level : Nat
  len : Int
  hasRand : Bool           -- `s.rand != nil`

variable {K V : Type} [DecidableEq K]

/-- The zero value `var s SkipList[K,V]`. -/
def SL.zero : SL K V := ⟨[], [], 0, 0, false⟩

/-- `Init()`. -/
def SL.init : SL K V := ⟨List.replicate maxLevel [], [], 1, 0, true⟩

/-! ### node values -/

def getVal : List (K × V) → K → Option V
  | [], _ => none
  | (k, v) :: rest, key => if k = key then some v else getVal rest key

def setVal : List (K × V) → K → V → List (K × V)
  | [], key, v => [(key, v)]
  | (k, v0) :: rest, key, v => if k = key then (k, v) :: rest else (k, v0) :: setVal rest key v

def eraseVal : List (K × V) → K → List (K × V)
  | [], _ => []
  | (k, v0) :: rest, key => if k = key then rest else (k, v0) :: eraseVal rest key

/-! ### chains -/

/-- The chain after node `c` (`c.next[i]` onwards); `none`: `c` is not on this chain. -/
def afterNode (c : K) : List K → Option (List K)
  | [] => none
  | x :: xs => if x = c then some xs else afterNode c xs

/-- `cur.next[i]` onwards. -/
def after (cur : Option K) (l : List K) : Option (List K) :=
  match cur with
  | none => some l
  | some c => afterNode c l

/-- The chain up to and including node `c`. -/
def uptoNode (c : K) : List K → Option (List K)
  | [] => none
  | x :: xs => if x = c then some [x] else (uptoNode c xs).map (x :: ·)

def upto (cur : Option K) (l : List K) : Option (List K) :=
  match cur with
  | none => some []
  | some c => uptoNode c l

/-- The inner search loop at one level:
`for cur.next[i] != nil { next := cur.next[i]; if next.key > key {break}; if next.key == key {HIT}; cur = next }`
over the chain `rest` after `cur`.  Returns the final `cur` and the node hit, if any
(on a hit `cur` has not been advanced). -/
def walk (cmp : K → K → Int) (key : K) : Option K → List K → Option K × Option K
  | cur, [] => (cur, none)
  | cur, n :: rest =>
    let c := cmp n key
    if c > 0 then (cur, none)
    else if c == 0 then (cur, some n)
    else walk cmp key (some n) rest

/-- The levels `s.level-1 … 0` in the order the search visits them; `none`:
`head.next[i]` would be out of range. -/
def SL.levelsDown (s : SL K V) : Option (List (List K)) :=
  if s.level ≤ s.lv.length then some (s.lv.take s.level).reverse else none

/-! ### GetNode / Get / Head / Len -/

/-- The level loop of `GetNode`. -/
def findLoop (cmp : K → K → Int) (key : K) : List (List K) → Option K → Option (Option K)
  | [], _ => some none
  | l :: ls, cur =>
    match after cur l with
    | none => none
    | some rest =>
      match walk cmp key cur rest with
      | (_, some n) => some (some n)
      | (cur', none) => findLoop cmp key ls cur'

/-- `GetNode(key)`: the node (its key) or nil. -/
def SL.getNode (cfg : Cfg K V) (s : SL K V) (key : K) : Option (Option K) :=
  match s.levelsDown with
  | none => none
  | some ls => findLoop cfg.cmp key ls none

/-- `Get(key)`. -/
def SL.get (cfg : Cfg K V) (s : SL K V) (key : K) : Option (V × Bool) :=
  match s.getNode cfg key with
  | none => none
  | some none => some (cfg.zeroV, false)
  | some (some n) => match getVal s.vals n with
    | none => none
    | some v => some (v, true)

/-- `Head()`: `if s.len == 0 { return nil }; return s.head.next[0]`. -/
def SL.head (s : SL K V) : Option (Option K) :=
  if s.len == 0 then some none
  else match s.lv with
    | [] => none
    | l :: _ => some l.head?

/-- `node.Next()`: `n.next[0]`. -/
def SL.nodeNext (s : SL K V) (n : K) : Option (Option K) :=
  match s.lv with
  | [] => none
  | l :: _ => (afterNode n l).map List.head?

/-! ### set -/

/-- The level loop of `set`: `inl n` = key found at node `n`; `inr upd` = not found,
`upd = [update[0], …, update[level-1]]`. -/
def setLoop (cmp : K → K → Int) (key : K) :
    List (List K) → Option K → List (Option K) → Option (K ⊕ List (Option K))
  | [], _, upd => some (.inr upd)
  | l :: ls, cur, upd =>
    match after cur l with
    | none => none
    | some rest =>
      match walk cmp key cur rest with
      | (_, some n) => some (.inl n)
      | (cur', none) => setLoop cmp key ls cur' (cur' :: upd)

/-- `node.next[i] = update[i].next[i]; update[i].next[i] = node` at one level. -/
def spliceAt (u : Option K) (key : K) (l : List K) : Option (List K) :=
  match upto u l, after u l with
  | some pre, some post => some (pre ++ key :: post)
  | _, _ => none

/-- `for i := 0; i < level; i++ { … }`. -/
def splice (key : K) : Nat → List (List K) → List (Option K) → Option (List (List K))
  | 0, lv, _ => some lv
  | _ + 1, [], _ => none                 -- update[i].next[i]: no such level
  | _ + 1, _ :: _, [] => none            -- update[i] == nil
  | n + 1, l :: lv, u :: us =>
    match spliceAt u key l, splice key n lv us with
    | some l', some lv' => some (l' :: lv')
    | _, _ => none

/-- `set(key, val, mode)` with the random level given (`h`): mode 0 = Set, 1 = SetX, 2 = SetNx. -/
def SL.setH (cfg : Cfg K V) (s : SL K V) (key : K) (val : V) (mode : Nat) (h : Nat) :
    Option (SL K V × Bool) :=
  -- s.lazyInit()
  let s := if cfg.lazy && s.lv.isEmpty then SL.init else s
  match s.levelsDown with
  | none => none
  | some ls =>
    match setLoop cfg.cmp key ls none [] with
    | none => none
    | some (.inl n) =>
      if mode == 2 then some (s, false)
      else some ({ s with vals := setVal s.vals n val }, true)
    | some (.inr upd) =>
      if mode == 1 then some (s, false)
      else if !s.hasRand then none               -- randomLevel(nil)
      else
        -- if level > s.level { level = s.level + 1; update[s.level] = &s.head; s.level = level }
        let grow := h > s.level
        if grow && s.level ≥ maxLevel then none    -- update[s.level]: index out of range
        else
          let level := if grow then s.level + 1 else h
          let upd := if grow then upd ++ [none] else upd
          match splice key level s.lv upd with
          | none => none
          | some lv' =>
            some ({ s with lv := lv', vals := (key, val) :: s.vals, level := if grow then level else s.level,
                           len := s.len + 1 }, true)

/-- `set` with the word drawn from the random source. -/
def SL.set (cfg : Cfg K V) (s : SL K V) (key : K) (val : V) (mode : Nat) (r : Nat) :
    Option (SL K V × Bool) :=
  s.setH cfg key val mode (randomLevel r)

/-- `node.SetValue(val)` on the node `GetNode(key)` returned. -/
def SL.setNodeValue (s : SL K V) (n : K) (val : V) : SL K V :=
  { s with vals := setVal s.vals n val }

/-! ### Remove -/

/-- The level loop of `Remove`; `i+1` = number of levels still to visit.
Result `(cur, curLevel, update[0..])`. -/
def removeLoop (cmp : K → K → Int) (key : K) :
    List (List K) → Option K → Nat → List (Option K) → Option (Option K × Nat × List (Option K))
  | [], cur, curLevel, upd => some (cur, curLevel, upd)
  | l :: ls, cur, curLevel, upd =>
    match after cur l with
    | none => none
    | some rest =>
      match walk cmp key cur rest with
      | (cur', hit) =>
        let curLevel := if hit.isSome && curLevel == 0 then ls.length + 1 else curLevel
        removeLoop cmp key ls cur' curLevel (cur' :: upd)

/-- `update[i].next[i] = cur.next[i]` at one level, `n` = the node being removed. -/
def unspliceAt (u : Option K) (n : K) (l : List K) : Option (List K) :=
  match upto u l, afterNode n l with
  | some pre, some post => some (pre ++ post)
  | _, _ => none

def unsplice (n : K) : Nat → List (List K) → List (Option K) → Option (List (List K))
  | 0, lv, _ => some lv
  | _ + 1, [], _ => none
  | _ + 1, _ :: _, [] => none
  | k + 1, l :: lv, u :: us =>
    match unspliceAt u n l, unsplice n k lv us with
    | some l', some lv' => some (l' :: lv')
    | _, _ => none

/-- `for s.level > 1 && s.head.next[s.level-1] == nil { s.level-- }`. -/
def shrink (lv : List (List K)) : Nat → Option Nat
  | 0 => some 0
  | 1 => some 1
  | n + 2 =>
    match lv[n + 1]? with
    | none => none
    | some [] => shrink lv (n + 1)
    | some (_ :: _) => some (n + 2)

/-- `Remove(key)`. -/
def SL.remove (cfg : Cfg K V) (s : SL K V) (key : K) : Option (SL K V × V × Bool) :=
  match s.levelsDown with
  | none => none
  | some ls =>
    match removeLoop cfg.cmp key ls none 0 [] with
    | none => none
    | some (cur, curLevel, upd) =>
      if curLevel == 0 then some (s, cfg.zeroV, false)
      else
        -- cur = cur.next[0]; val = cur.val
        match s.lv with
        | [] => none
        | l0 :: _ =>
          match after cur l0 with
          | none | some [] => none
          | some (n :: _) =>
            match getVal s.vals n with
            | none => none
            | some val =>
              match unsplice n curLevel s.lv upd with
              | none => none
              | some lv' =>
                let lvl := if curLevel ≥ s.level then shrink lv' s.level else some s.level
                match lvl with
                | none => none
                | some lvl =>
                  some ({ s with lv := lv', vals := eraseVal s.vals n, level := lvl, len := s.len - 1 }, val, true)

/-! ### Clear -/

/-- `Clear()`; the repaired `SkipList.Clear` leaves an uninitialised list alone. -/
def SL.clear (cfg : Cfg K V) (s : SL K V) : SL K V :=
  if cfg.fixed && cfg.lazy && s.lv.isEmpty then s
  else { s with lv := List.replicate maxLevel [], vals := [], level := 1, len := 0 }

/-! ### enumerations -/

/-- A callback state: collects `(key, val)`; answers `false` on its `stop`-th call (0: never). -/
structure Sink (K V : Type) where
  acc : List (K × V)    -- reversed
  n : Nat
  stop : Nat

def Sink.new (stop : Nat) : Sink K V := ⟨[], 0, stop⟩
def Sink.out (s : Sink K V) : List (K × V) := s.acc.reverse
def Sink.call (s : Sink K V) (k : K) (v : V) : Sink K V × Bool :=
  (⟨(k, v) :: s.acc, s.n + 1, s.stop⟩, !(s.n + 1 == s.stop))

/-- The callback `RangeWithRange` wraps around `f`:
`if key >= end { return false }; return f(key, val)`. -/
def callBounded (cmp : K → K → Int) (end_ : Option K) (s : Sink K V) (k : K) (v : V) : Sink K V × Bool :=
  match end_ with
  | none => s.call k v
  | some e => if cmp k e ≥ 0 then (s, false) else s.call k v

/-- `for cur.next[0] != nil { next := cur.next[0]; if !f(next.key, next.val) {break}; cur = next }`
over the level-0 chain `rest`.  `none`: a node without value (cannot happen: nil deref). -/
def rangeChain (cmp : K → K → Int) (end_ : Option K) (vals : List (K × V)) :
    List K → Sink K V → Option (Sink K V)
  | [], s => some s
  | n :: rest, s =>
    match getVal vals n with
    | none => none
    | some v =>
      match callBounded cmp end_ s n v with
      | (s', true) => rangeChain cmp end_ vals rest s'
      | (s', false) => some s'

/-- `Range(f)` / `All()`: `if s.len == 0 { return }`, then the level-0 chain. -/
def SL.range (cfg : Cfg K V) (s : SL K V) (stop : Nat) : Option (List (K × V)) :=
  if s.len == 0 then some []
  else match s.lv with
    | [] => none
    | l0 :: _ => (rangeChain cfg.cmp none s.vals l0 (Sink.new stop)).map Sink.out

/-- The level loop of `RangeWithStart` (label `top`): `inl (n, s)`: start found at node `n`
and `f` already called on it (`s.2 = false`: `f` said stop); `inr cur`: not found. -/
def startLoop (cmp : K → K → Int) (start : K) : List (List K) → Option K → Option (K ⊕ Option K)
  | [], cur => some (.inr cur)
  | l :: ls, cur =>
    match after cur l with
    | none => none
    | some rest =>
      match walk cmp start cur rest with
      | (_, some n) => some (.inl n)
      | (cur', none) => startLoop cmp start ls cur'

/-- `RangeWithStart(start, f)` (`end_ = none`) and `RangeWithRange(start, end, f)`. -/
def SL.rangeFrom (cfg : Cfg K V) (s : SL K V) (start : K) (end_ : Option K) (stop : Nat) :
    Option (List (K × V)) :=
  if cfg.fixed && cfg.lazy && s.len == 0 then some []      -- the guard exists in `SkipList` only
  else
    match s.levelsDown with
    | none => none
    | some ls =>
      match startLoop cfg.cmp start ls none with
      | none => none
      | some r =>
        -- the second loop runs over `cur.next[0]` onwards
        match s.lv with
        | [] => none                               -- cur.next[0] on a nil slice
        | l0 :: _ =>
          match r with
          | .inl n =>
            match getVal s.vals n with
            | none => none
            | some v =>
              match callBounded cfg.cmp end_ (Sink.new stop) n v with
              | (sk, false) => some sk.out
              | (sk, true) =>
                match afterNode n l0 with
                | none => none
                | some rest => (rangeChain cfg.cmp end_ s.vals rest sk).map Sink.out
          | .inr cur =>
            match after cur l0 with
            | none => none
            | some rest => (rangeChain cfg.cmp end_ s.vals rest (Sink.new stop)).map Sink.out

/-- `keys := make([]K, s.len); for e := head.next[0]; e != nil; e = e.next[0] { keys[i] = e.key; i++ }`:
index out of range when the chain is longer than `len`; zero padding when shorter. -/
def fillSlice {α : Type} (zero : α) (len : Int) (xs : List α) : Option (List α) :=
  if len < 0 then none                         -- makeslice: len out of range
  else if xs.length > len.toNat then none
  else some (xs ++ List.replicate (len.toNat - xs.length) zero)

/-- `Keys()`. -/
def SL.keys (cfg : Cfg K V) (s : SL K V) : Option (List K) :=
  if s.len == 0 then some []
  else match s.lv with
    | [] => none
    | l0 :: _ => fillSlice cfg.zeroK s.len l0

/-- `vals[i] = e.val` along the level-0 chain (`none`: a node without value). -/
def valuesOf (vals : List (K × V)) : List K → Option (List V)
  | [] => some []
  | n :: rest =>
    match getVal vals n, valuesOf vals rest with
    | some v, some vs => some (v :: vs)
    | _, _ => none

/-- `Values()`. -/
def SL.values (cfg : Cfg K V) (s : SL K V) : Option (List V) :=
  if s.len == 0 then some []
  else match s.lv with
    | [] => none
    | l0 :: _ =>
      match valuesOf s.vals l0 with
      | none => none
      | some vs => fillSlice cfg.zeroV s.len vs

/-! ### traversal through node handles -/

/-- `for n := start; n != nil; n = n.Next() { f(n.Key(), n.Value()) }` through the exported node
methods (`Next()` = `n.next[0]`); `fuel` bounds the number of nodes visited (`SL.walk` passes
the length of the level-0 chain, proved sufficient).  `none`: `Next()` on a node that is not
linked at level 0 (index out of range) or fuel exhausted. -/
def SL.walkNodes (s : SL K V) : Nat → Option K → Option (List (K × V))
  | _, none => some []
  | 0, some _ => none
  | fuel + 1, some n =>
    match getVal s.vals n, s.nodeNext n with
    | some v, some nx => (s.walkNodes fuel nx).map ((n, v) :: ·)
    | _, _ => none

/-- `for n := s.Head(); n != nil; n = n.Next() { … }`. -/
def SL.walk (s : SL K V) : Option (List (K × V)) :=
  match s.head with
  | none => none
  | some h => s.walkNodes (s.lv.headD []).length h

/-- `for n := s.GetNode(key); n != nil; n = n.Next() { … }`. -/
def SL.walkFrom (cfg : Cfg K V) (s : SL K V) (key : K) : Option (List (K × V)) :=
  match s.getNode cfg key with
  | none => none
  | some h => s.walkNodes (s.lv.headD []).length h

/-! ### held `iter.Seq2` values

`s.All()` returns a closure over the OBJECT `s` (not over a snapshot of its towers): the value
carries no data of its own, and every time it is ranged it reads `s.len` and `s.head.next[0]`
afresh.  A held Seq is therefore modelled by nothing at all; ranging it is `SL.range` on the
state the list has when the loop starts.  The functions below are the ways the harness ranges a
held Seq, written as its loops run. -/

/-- `for k, v := range seq { …; break after j }`, then `for k, v := range seq { … }`. -/
def SL.seqTwice (cfg : Cfg K V) (s : SL K V) (j : Nat) : Option (List (K × V) × List (K × V)) :=
  match s.range cfg j, s.range cfg 0 with
  | some xs, some ys => some (xs, ys)
  | _, _ => none

/-- `for a := range seq { n := 0; for range seq { n++ }; …; break after j }`: the outer
elements seen and the inner counts. -/
def SL.seqNest (cfg : Cfg K V) (s : SL K V) (j : Nat) : Option (List (K × V) × List Nat) :=
  match s.range cfg j with
  | none => none
  | some outer =>
    (outer.mapM fun _ => (s.range cfg 0).map List.length).map fun cs => (outer, cs)

/-- Two `iter.Pull2` cursors on the same Seq, advanced alternately; cursor 1 is stopped after
`a` values (`a = 0`: runs to the end).  Each cursor runs its own traversal of the closure. -/
def SL.pull2 (cfg : Cfg K V) (s : SL K V) (a : Nat) : Option (List (K × V) × List (K × V)) :=
  match s.range cfg a, s.range cfg 0 with
  | some xs, some ys => some (xs, ys)
  | _, _ => none

end Golib.C02
