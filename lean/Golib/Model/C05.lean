/-
Oracle driver for C05 (trie queries).  Header: `trie <hexpattern>…` (inserted in order,
then `BuildFailureLinks`).  Ops: `match <hex>`, `findall <hex>`, `prefix <hex>`,
`fuzzy <hex>`, and for histories `insert <hex>` / `build` (answer `ok`): Insert…, Build,
query, Insert…, Build, query.  String lists print as `[hex hex …]` (nil and empty both `[]`).

`dump` (no argument) prints the STRUCTURE of the trie, to be compared with the same line
computed by the Go harness from the real pointer structure (reflection over the unexported
fields of `algz.Trie`): every node in depth-first pre-order following the node's child
array in array order, one entry `<path>;<size>;<isEnd 0/1>;<failpath>` per node joined by
`|`; path = the runes from the root as signed decimals joined by `,` (root `.`), failpath =
path of `node.fail` (`nil` for a nil pointer).  This ties the label trie of the model
(`Trie.children`, `sizeOf`, `isEnd`, `Trie.failOf`) to the pointer trie node by node, not
only through query results.
-/
import Golib.Model.C05Trie
import Golib.Model.C05Ptr

namespace Golib.C05
open Golib.Proto

def showStrs (xs : List (List Nat)) : String :=
  "[" ++ " ".intercalate (xs.map hex) ++ "]"

def bytesOK (bs : List Nat) : Bool := bs.all (· < 256)

def showPath (n : Label) : String :=
  if n.isEmpty then "." else ",".intercalate (n.map fun (r : Int) => toString r)

/-- One node entry of `dump`. -/
def dumpEntry (t : Trie) (n : Label) : String :=
  showPath n ++ ";" ++ toString (sizeOf t.pats n) ++ ";" ++ (if isEnd t.pats n then "1" else "0") ++ ";" ++
    (match t.failOf n with
     | none => "nil"
     | some m => showPath m)

/-- Depth-first pre-order over the label trie with an explicit stack (top = head): pop a
node, print it, push its children in array order.  Every iteration prints one node, so
`nodeBound + 1` iterations suffice (`none` = out of fuel or a child array that panics). -/
def dumpLoop (t : Trie) : Nat → List Label → List String → Option (List String)
  | _, [], acc => some acc.reverse
  | 0, _ :: _, _ => none
  | fuel + 1, n :: stack, acc =>
    match t.children n with
    | none => none
    | some cs => dumpLoop t fuel (cs.map (fun v => n ++ [v]) ++ stack) (dumpEntry t n :: acc)

def dumpLine (t : Trie) : Option String :=
  (dumpLoop t (nodeBound t.pats + 1) [[]] []).map fun es => "|".intercalate es

/-- Pre-order walk of the POINTER model (children in array order): `(id, path)` of every node. -/
def pPaths (pt : PTrie) : Nat → List (Nat × Label) → List (Nat × Label) → Option (List (Nat × Label))
  | _, [], acc => some acc.reverse
  | 0, _ :: _, _ => none
  | fuel + 1, (id, path) :: stack, acc =>
    match pt.nodes[id]? with
    | none => none
    | some nd => pPaths pt fuel (nd.children.map (fun rc => (rc.2, path ++ [rc.1])) ++ stack) ((id, path) :: acc)

/-- The `dump` line computed from the pointer-level model (`Golib/Model/C05Ptr.lean`): the
node store is walked as the harness walks the real heap; a fail pointer is printed as the path
of the node it points to. -/
def pDumpLine (pt : PTrie) : Option String :=
  (pPaths pt (pt.nodes.length + 1) [(0, [])] []).bind fun ps =>
    (ps.mapM fun (ip : Nat × Label) =>
      (pt.nodes[ip.1]?).map fun nd =>
        showPath ip.2 ++ ";" ++ toString nd.size ++ ";" ++ (if nd.isEnd then "1" else "0") ++ ";" ++
          (match nd.fail with
           | none => "nil"
           | some f => match ps.lookup f with
             | some q => showPath q
             | none => "?")).map fun es => "|".intercalate es

/-- Driver state of a case: the trie, whether patterns were inserted since the last
`BuildFailureLinks` (`dirty`: queries are then outside the property; a panic of such a query
is recovered by the caller and the trie is used on), and the last string result (what the
argument `^` stands for: the caller feeds a result back in as the next text / key). -/
structure DState where
  t : Trie
  dirty : Bool
  last : List Nat
  /-- the pointer-level model of the same trie (`c05_pointer_refines_label`: it represents `t`
  after every `insert` / `build`); `dump` is printed from it -/
  pt : PTrie
deriving Repr

/-- A byte-string argument: hex, `-` = empty, `^` = the last result. -/
def argBytes (s : DState) (a : String) : Option (List Nat) :=
  if a == "^" then some s.last
  else (unhex a).bind fun bs => if bytesOK bs then some bs else none

/-- One query on the current trie; `none` = bad-op, `some none` = panic, otherwise the answer
and, for a non-empty list answer, its last element (the new `last`). -/
def runOp (s : DState) (ts : List String) : Option (Option (String × Option (List Nat))) :=
  let lastOf (xs : List (List Nat)) : Option (List Nat) := xs.getLast?
  match ts with
  | ["dump"] => some ((pDumpLine s.pt).map fun o => (o, none))
  | ["sibling", pat, text] =>
    -- an independent second trie (a copy of the zero value), built from one pattern
    match argBytes s pat, argBytes s text with
    | some p, some x =>
      some (((Trie.ofPatterns [p]).bind fun t2 => t2.findAll x).map fun ws => (showStrs ws, none))
    | _, _ => none
  | [op, arg] =>
    match argBytes s arg with
    | none => none
    | some bs =>
      match op with
      | "match" => some ((s.t.match bs).map fun b => (showBool b, none))
      | "findall" => some ((s.t.findAll bs).map fun ws => (showStrs ws, lastOf ws))
      | "prefix" => some ((s.t.prefixSearch bs).map fun ws => (showStrs ws, lastOf ws))
      | "fuzzy" => some ((s.t.fuzzySearch bs).map fun ws => (showStrs ws, lastOf ws))
      | _ => none
  | _ => none

/-- State-changing ops of the history stream: `insert <hex>` = `Insert(pattern)` on the
current trie (its failure table is left as it is: new nodes have `nil`), `build` =
`BuildFailureLinks()` on the current trie (`Trie.rebuild`: the old table stays underneath).
`none` = not such an op, `some none` = panic. -/
def mutOp (s : DState) (ts : List String) : Option (Option DState) :=
  match ts with
  | ["build"] =>
    some (match s.t.rebuild, s.pt.build with
      | some t', some pt' => some { s with t := t', pt := pt', dirty := false }
      | _, _ => none)
  | ["insert", arg] =>
    match argBytes s arg with
    | some bs => some ((s.pt.insert (decodeAll bs)).map fun pt' =>
        { s with t := s.t.insert (decodeAll bs), pt := pt', dirty := true })
    | none => none
  | _ => none

/-- One line: the answer and the next state (`none` = the case is dead: a panic of a call
that is inside the property).  A panicking QUERY on a dirty trie answers `panic` and leaves
the state as it was (the caller recovers and goes on). -/
def stepWith (query : DState → List String → Option (Option (String × Option (List Nat))))
    (s : DState) (ts : List String) : String × Option DState :=
  match mutOp s ts with
  | some (some s') => ("ok", some s')
  | some none => ("panic", none)
  | none =>
    match query s ts with
    | none => ("bad-op", some s)
    | some none => ("panic", if s.dirty then some s else none)
    | some (some (out, l)) => (out, some (match l with | some x => { s with last := x } | none => s))

def runOpsWith (query : DState → List String → Option (Option (String × Option (List Nat)))) :
    Option DState → List String → List String
  | _, [] => []
  | none, _ :: ls => "dead" :: runOpsWith query none ls
  | some s, l :: ls =>
    let r := stepWith query s (toks l)
    r.1 :: runOpsWith query r.2 ls

def parsePatterns (hdr : List String) : Option (List (List Nat)) :=
  hdr.mapM fun h => (unhex h).bind fun bs => if bytesOK bs then some bs else none

/-- Header `trie <pats>`: Insert all, BuildFailureLinks.  Header `raw <pats>`: Insert all, no
build (the trie is dirty from the start). -/
def initState (hdr : List String) : Option (Option DState) :=
  match hdr with
  | "trie" :: rest =>
    (parsePatterns rest).map fun pats =>
      match Trie.ofPatterns pats, PTrie.ofPatterns pats with
      | some t, some pt => some ⟨t, false, [], pt⟩
      | _, _ => none
  | "raw" :: rest =>
    (parsePatterns rest).map fun pats =>
      (PTrie.empty.insertAll pats).map fun pt =>
        ⟨pats.foldl (fun t p => t.insert (decodeAll p)) Trie.empty, true, [], pt⟩
  | _ => none

def runCaseWith (query : DState → List String → Option (Option (String × Option (List Nat))))
    (hdr : List String) (ops : List String) : List String :=
  match initState hdr with
  | none => "bad-op" :: ops.map fun _ => "bad-op"
  | some none => "panic" :: runOpsWith query none ops
  | some (some s) => "ok" :: runOpsWith query (some s) ops

def runCase (hdr : List String) (ops : List String) : List String := runCaseWith runOp hdr ops

end Golib.C05
