/-
Oracle driver for C05 (trie queries).  Header: `trie <hexpattern>…` (inserted in order,
then `BuildFailureLinks`).  Ops: `match <hex>`, `findall <hex>`, `prefix <hex>`,
`fuzzy <hex>`, and for histories `insert <hex>` / `build` (answer `ok`): Insert…, Build,
query, Insert…, Build, query.  String lists print as `[hex hex …]` (nil and empty both `[]`).

`dump` (no argument) prints the STRUCTURE of the trie, to be compared with the same line
computed by the Go harness from the real pointer structure (reflection over the unexported
fields of `algz.Trie`): every node in depth-first pre-order following the node's child
array in array order, one entry `<path>;<size>;<isEnd 0/1>;<failpath>` per node joined by
`|`; path = the runes from the root as signed decimals joined by `,` (root `.`), failpath =
path of `node.fail` (`nil` for a nil pointer).  This ties the label trie of the model
(`Trie.children`, `sizeOf`, `isEnd`, `Trie.failOf`) to the pointer trie node by node, not
only through query results.
-/
import Golib.Model.C05Trie

namespace Golib.C05
open Golib.Proto

def showStrs (xs : List (List Nat)) : String :=
  "[" ++ " ".intercalate (xs.map hex) ++ "]"

def bytesOK (bs : List Nat) : Bool := bs.all (· < 256)

def showPath (n : Label) : String :=
  if n.isEmpty then "." else ",".intercalate (n.map fun (r : Int) => toString r)

/-- One node entry of `dump`. -/
def dumpEntry (t : Trie) (n : Label) : String :=
  showPath n ++ ";" ++ toString (sizeOf t.pats n) ++ ";" ++ (if isEnd t.pats n then "1" else "0") ++ ";" ++
    (match t.failOf n with
     | none => "nil"
     | some m => showPath m)

/-- Depth-first pre-order over the label trie with an explicit stack (top = head): pop a
node, print it, push its children in array order.  Every iteration prints one node, so
`nodeBound + 1` iterations suffice (`none` = out of fuel or a child array that panics). -/
def dumpLoop (t : Trie) : Nat → List Label → List String → Option (List String)
  | _, [], acc => some acc.reverse
  | 0, _ :: _, _ => none
  | fuel + 1, n :: stack, acc =>
    match t.children n with
    | none => none
    | some cs => dumpLoop t fuel (cs.map (fun v => n ++ [v]) ++ stack) (dumpEntry t n :: acc)

def dumpLine (t : Trie) : Option String :=
  (dumpLoop t (nodeBound t.pats + 1) [[]] []).map fun es => "|".intercalate es

/-- One query; `none` = bad-op, `some none` = panic. -/
def runOp (t : Trie) (ts : List String) : Option (Option String) :=
  match ts with
  | ["dump"] => some (dumpLine t)
  | [op, arg] =>
    match unhex arg with
    | none => none
    | some bs =>
      if !bytesOK bs then none else
      match op with
      | "match" => some ((t.match bs).map showBool)
      | "findall" => some ((t.findAll bs).map showStrs)
      | "prefix" => some ((t.prefixSearch bs).map showStrs)
      | "fuzzy" => some ((t.fuzzySearch bs).map showStrs)
      | _ => none
  | _ => none

/-- State-changing ops of the history stream: `insert <hex>` = `Insert(pattern)` on the
current trie (its failure table is left as it is: new nodes have `nil`), `build` =
`BuildFailureLinks()` on the current trie (`Trie.rebuild`: the old table stays underneath).
`none` = not such an op, `some none` = panic. -/
def mutOp (t : Trie) (ts : List String) : Option (Option Trie) :=
  match ts with
  | ["build"] => some t.rebuild
  | ["insert", arg] =>
    match unhex arg with
    | some bs => if bytesOK bs then some (some (t.insert (decodeAll bs))) else none
    | none => none
  | _ => none

def runOps : Option Trie → List String → List String
  | _, [] => []
  | none, _ :: ls => "dead" :: runOps none ls
  | some t, l :: ls =>
    match mutOp t (toks l) with
    | some (some t') => "ok" :: runOps (some t') ls
    | some none => "panic" :: runOps none ls
    | none =>
      match runOp t (toks l) with
      | none => "bad-op" :: runOps (some t) ls
      | some none => "panic" :: runOps none ls
      | some (some out) => out :: runOps (some t) ls

def parsePatterns (hdr : List String) : Option (List (List Nat)) :=
  hdr.mapM fun h => (unhex h).bind fun bs => if bytesOK bs then some bs else none

def runCase (hdr : List String) (ops : List String) : List String :=
  match hdr with
  | "trie" :: rest =>
    match parsePatterns rest with
    | none => "bad-op" :: ops.map fun _ => "bad-op"
    | some pats =>
      match Trie.ofPatterns pats with
      | none => "panic" :: runOps none ops
      | some t => "ok" :: runOps (some t) ops
  | _ => "bad-op" :: ops.map fun _ => "bad-op"

end Golib.C05
