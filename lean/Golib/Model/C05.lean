/-
Oracle driver for C05 (trie queries).  Header: `trie <hexpattern>…` (inserted in order,
then `BuildFailureLinks`).  Ops: `match <hex>`, `findall <hex>`, `prefix <hex>`,
`fuzzy <hex>`.  String lists print as `[hex hex …]` (nil and empty both `[]`).
-/
import Golib.Model.C05Trie

namespace Golib.C05
open Golib.Proto

def showStrs (xs : List (List Nat)) : String :=
  "[" ++ " ".intercalate (xs.map hex) ++ "]"

def bytesOK (bs : List Nat) : Bool := bs.all (· < 256)

/-- One query; `none` = bad-op, `some none` = panic. -/
def runOp (t : Trie) (ts : List String) : Option (Option String) :=
  match ts with
  | [op, arg] =>
    match unhex arg with
    | none => none
    | some bs =>
      if !bytesOK bs then none else
      match op with
      | "match" => some ((t.match bs).map showBool)
      | "findall" => some ((t.findAll bs).map showStrs)
      | "prefix" => some ((t.prefixSearch bs).map showStrs)
      | "fuzzy" => some ((t.fuzzySearch bs).map showStrs)
      | _ => none
  | _ => none

def runOps : Option Trie → List String → List String
  | _, [] => []
  | none, _ :: ls => "dead" :: runOps none ls
  | some t, l :: ls =>
    match runOp t (toks l) with
    | none => "bad-op" :: runOps (some t) ls
    | some none => "panic" :: runOps none ls
    | some (some out) => out :: runOps (some t) ls

def parsePatterns (hdr : List String) : Option (List (List Nat)) :=
  hdr.mapM fun h => (unhex h).bind fun bs => if bytesOK bs then some bs else none

def runCase (hdr : List String) (ops : List String) : List String :=
  match hdr with
  | "trie" :: rest =>
    match parsePatterns rest with
    | none => "bad-op" :: ops.map fun _ => "bad-op"
    | some pats =>
      match Trie.ofPatterns pats with
      | none => "panic" :: runOps none ops
      | some t => "ok" :: runOps (some t) ops
  | _ => "bad-op" :: ops.map fun _ => "bad-op"

end Golib.C05
