/-
Oracle driver for C05 (trie queries).  Header: `trie <hexpattern>…` (inserted in order,
then `BuildFailureLinks`).  Ops: `match <hex>`, `findall <hex>`, `prefix <hex>`,
`fuzzy <hex>`, and for histories `insert <hex>` / `build` (answer `ok`): Insert…, Build,
query, Insert…, Build, query.  String lists print as `[hex hex …]` (nil and empty both `[]`).

`dump` (no argument) prints the STRUCTURE of the trie, to be compared with the same line
computed by the Go harness from the real pointer structure (reflection over the unexported
fields of `algz.Trie`): every node in depth-first pre-order following the node's child
array in array order, one entry `<path>;<size>;<isEnd 0/1>;<failpath>` per node joined by
`|`; path = the runes from the root as signed decimals joined by `,` (root `.`), failpath =
path of `node.fail` (`nil` for a nil pointer).  This ties the label trie of the model
(`Trie.children`, `sizeOf`, `isEnd`, `Trie.failOf`) to the pointer trie node by node, not
only through query results.
-/
import Golib.Model.C05Trie
import Golib.Model.C05Ptr
import Golib.Model.C05Arr

namespace Golib.C05
open Golib.Proto

def showStrs (xs : List (List Nat)) : String :=
  "[" ++ " ".intercalate (xs.map hex) ++ "]"

def bytesOK (bs : List Nat) : Bool := bs.all (· < 256)

def showPath (n : Label) : String :=
  if n.isEmpty then "." else ",".intercalate (n.map fun (r : Int) => toString r)

/-- One node entry of `dump`. -/
def dumpEntry (t : Trie) (n : Label) : String :=
  showPath n ++ ";" ++ toString (sizeOf t.pats n) ++ ";" ++ (if isEnd t.pats n then "1" else "0") ++ ";" ++
    (match t.failOf n with
     | none => "nil"
     | some m => showPath m)

/-- Depth-first pre-order over the label trie with an explicit stack (top = head): pop a
node, print it, push its children in array order.  Every iteration prints one node, so
`nodeBound + 1` iterations suffice (`none` = out of fuel or a child array that panics). -/
def dumpLoop (t : Trie) : Nat → List Label → List String → Option (List String)
  | _, [], acc => some acc.reverse
  | 0, _ :: _, _ => none
  | fuel + 1, n :: stack, acc =>
    match t.children n with
    | none => none
    | some cs => dumpLoop t fuel (cs.map (fun v => n ++ [v]) ++ stack) (dumpEntry t n :: acc)

def dumpLine (t : Trie) : Option String :=
  (dumpLoop t (nodeBound t.pats + 1) [[]] []).map fun es => "|".intercalate es

/-- Pre-order walk of the pointer store (children in array order): `(id, last rune, path)` of
every node; `withPaths = false` leaves the paths empty (compact dump of big tries). -/
def aPaths (a : ATrie) (withPaths : Bool) :
    Nat → List (Nat × Int × Label) → Array (Nat × Int × Label) → Option (Array (Nat × Int × Label))
  | _, [], acc => some acc
  | 0, _ :: _, _ => none
  | fuel + 1, (id, r, path) :: stack, acc =>
    match a.nodes[id]? with
    | none => none
    | some nd =>
      aPaths a withPaths fuel
        (nd.children.map (fun rc => (rc.2, rc.1, if withPaths then path ++ [rc.1] else [])) ++ stack)
        (acc.push (id, r, path))

/-- `index[id]` = position of node `id` in the pre-order. -/
def preIndex (n : Nat) (order : Array (Nat × Int × Label)) : Array Nat :=
  (List.range order.size).foldl (fun (m : Array Nat) k =>
    match order[k]? with
    | some e => m.setIfInBounds e.1 k
    | none => m) (Array.replicate n 0)

/-- The `dump` line computed from the pointer-level model (array-backed store
`Golib/Model/C05Arr.lean`, proved to compute what `Golib/Model/C05Ptr.lean` computes): the node
store is walked as the harness walks the real heap; a fail pointer is printed as the path of
the node it points to. -/
def pDumpLine (a : ATrie) : Option String :=
  (aPaths a true (a.nodes.size + 1) [(0, 0, [])] #[]).bind fun order =>
    let idx := preIndex a.nodes.size order
    (order.toList.mapM fun (e : Nat × Int × Label) =>
      (a.nodes[e.1]?).map fun nd =>
        showPath e.2.2 ++ ";" ++ toString nd.size ++ ";" ++ (if nd.isEnd then "1" else "0") ++ ";" ++
          (match nd.fail with
           | none => "nil"
           | some f => match idx[f]? with
             | some k => (match order[k]? with | some q => showPath q.2.2 | none => "?")
             | none => "?")).map fun es => "|".intercalate es

/-- Compact dump (`dumpc`) for big tries, linear in the number of nodes: per node in pre-order
`<last rune>;<size>;<isEnd>;<pre-order index of the fail target>` (root rune `.`, nil `nil`). -/
def pDumpCompact (a : ATrie) : Option String :=
  (aPaths a false (a.nodes.size + 1) [(0, 0, [])] #[]).bind fun order =>
    let idx := preIndex a.nodes.size order
    (order.toList.mapM fun (e : Nat × Int × Label) =>
      (a.nodes[e.1]?).map fun nd =>
        (if e.1 == 0 then "." else toString e.2.1) ++ ";" ++ toString nd.size ++ ";" ++
          (if nd.isEnd then "1" else "0") ++ ";" ++
          (match nd.fail with
           | none => "nil"
           | some f => match idx[f]? with
             | some k => toString k
             | none => "?")).map fun es => "|".intercalate es

/-- Headers with more pattern bytes than this run in big mode. -/
def bigLimit : Nat := 20000

/-- Driver state of a case: the trie, whether patterns were inserted since the last
`BuildFailureLinks` (`dirty`: queries are then outside the property; a panic of such a query
is recovered by the caller and the trie is used on), and the last string result (what the
argument `^` stands for: the caller feeds a result back in as the next text / key). -/
structure DState where
  t : Trie
  dirty : Bool
  last : List Nat
  /-- the pointer-level model of the same trie, in its array-backed form (`c05_array_refines`:
  it computes what the list-backed `PTrie` computes; `c05_pointer_refines_label`: that one
  represents `t` after every `insert` / `build`); `dump` is printed from it -/
  pt : ATrie
  /-- big mode (more than `bigLimit` pattern bytes in the header): only the pointer model is
  run (`t` stays empty); `match` / `findall` / `dumpc` are answered from it -/
  big : Bool := false

/-- A byte-string argument: hex, `-` = empty, `^` = the last result. -/
def argBytes (s : DState) (a : String) : Option (List Nat) :=
  if a == "^" then some s.last
  else (unhex a).bind fun bs => if bytesOK bs then some bs else none

/-- One query on the current trie; `none` = bad-op, `some none` = panic, otherwise the answer
and, for a non-empty list answer, its last element (the new `last`). -/
def runOp (s : DState) (ts : List String) : Option (Option (String × Option (List Nat))) :=
  let lastOf (xs : List (List Nat)) : Option (List Nat) := xs.getLast?
  match ts with
  | ["dump"] => some ((pDumpLine s.pt).map fun o => (o, none))
  | ["dumpc"] => some ((pDumpCompact s.pt).map fun o => (o, none))
  | ["sibling", pat, text] =>
    -- an independent second trie (a copy of the zero value), built from one pattern
    match argBytes s pat, argBytes s text with
    | some p, some x =>
      some (((Trie.ofPatterns [p]).bind fun t2 => t2.findAll x).map fun ws => (showStrs ws, none))
    | _, _ => none
  | [op, arg] =>
    match argBytes s arg with
    | none => none
    | some bs =>
      if s.big then
        match op with
        | "match" => some ((s.pt.match bs).map fun b => (showBool b, none))
        | "findall" => some ((s.pt.findAll bs).map fun ws => (showStrs ws, lastOf ws))
        | _ => none
      else
      match op with
      | "match" => some ((s.t.match bs).map fun b => (showBool b, none))
      | "findall" => some ((s.t.findAll bs).map fun ws => (showStrs ws, lastOf ws))
      | "prefix" => some ((s.t.prefixSearch bs).map fun ws => (showStrs ws, lastOf ws))
      | "fuzzy" => some ((s.t.fuzzySearch bs).map fun ws => (showStrs ws, lastOf ws))
      | _ => none
  | _ => none

/-- State-changing ops of the history stream: `insert <hex>` = `Insert(pattern)` on the
current trie (its failure table is left as it is: new nodes have `nil`), `build` =
`BuildFailureLinks()` on the current trie (`Trie.rebuild`: the old table stays underneath).
`none` = not such an op, `some none` = panic. -/
def mutOp (s : DState) (ts : List String) : Option (Option DState) :=
  match ts with
  | ["build"] =>
    some (if s.big then s.pt.build.map fun pt' => { s with pt := pt', dirty := false }
      else match s.t.rebuild, s.pt.build with
      | some t', some pt' => some { s with t := t', pt := pt', dirty := false }
      | _, _ => none)
  | ["insert", arg] =>
    match argBytes s arg with
    | some bs => some ((s.pt.insert (decodeAll bs)).map fun pt' =>
        { s with t := if s.big then s.t else s.t.insert (decodeAll bs), pt := pt', dirty := true })
    | none => none
  | _ => none

/-- One line: the answer and the next state (`none` = the case is dead: a panic of a call
that is inside the property).  A panicking QUERY on a dirty trie answers `panic` and leaves
the state as it was (the caller recovers and goes on). -/
def stepWith (query : DState → List String → Option (Option (String × Option (List Nat))))
    (s : DState) (ts : List String) : String × Option DState :=
  match mutOp s ts with
  | some (some s') => ("ok", some s')
  | some none => ("panic", none)
  | none =>
    match query s ts with
    | none => ("bad-op", some s)
    | some none => ("panic", if s.dirty then some s else none)
    | some (some (out, l)) => (out, some (match l with | some x => { s with last := x } | none => s))

def runOpsWith (query : DState → List String → Option (Option (String × Option (List Nat)))) :
    Option DState → List String → List String
  | _, [] => []
  | none, _ :: ls => "dead" :: runOpsWith query none ls
  | some s, l :: ls =>
    let r := stepWith query s (toks l)
    r.1 :: runOpsWith query r.2 ls

def parsePatterns (hdr : List String) : Option (List (List Nat)) :=
  hdr.mapM fun h => (unhex h).bind fun bs => if bytesOK bs then some bs else none

/-- Header `trie <pats>`: Insert all, BuildFailureLinks.  Header `raw <pats>`: Insert all, no
build (the trie is dirty from the start). -/
def initState (hdr : List String) : Option (Option DState) :=
  match hdr with
  | "trie" :: rest =>
    (parsePatterns rest).map fun pats =>
      if (pats.map List.length).sum > bigLimit then
        (ATrie.ofPatterns pats).map fun pt => ⟨Trie.empty, false, [], pt, true⟩
      else
      match Trie.ofPatterns pats, ATrie.ofPatterns pats with
      | some t, some pt => some ⟨t, false, [], pt, false⟩
      | _, _ => none
  | "raw" :: rest =>
    (parsePatterns rest).map fun pats =>
      (ATrie.empty.insertAll pats).map fun pt =>
        ⟨pats.foldl (fun t p => t.insert (decodeAll p)) Trie.empty, true, [], pt, false⟩
  | _ => none

def runCaseWith (query : DState → List String → Option (Option (String × Option (List Nat))))
    (hdr : List String) (ops : List String) : List String :=
  match initState hdr with
  | none => "bad-op" :: ops.map fun _ => "bad-op"
  | some none => "panic" :: runOpsWith query none ops
  | some (some s) => "ok" :: runOpsWith query (some s) ops

def runCase (hdr : List String) (ops : List String) : List String := runCaseWith runOp hdr ops

end Golib.C05
