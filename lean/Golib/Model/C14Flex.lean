/-
Model of `slicez/flex.go` (`FlexSlice[T]`), mirroring the Go code statement by statement.

`Values` is a Go slice: the model keeps its whole backing array `mem` (`cap = mem.length`)
and `len`; `Values = mem.take len`.  The cells beyond `len` are kept too (they are what
`Prepend`'s in-capacity shift and `Remove`'s zeroing touch), and the tie compares them.
`append`'s reallocation capacity is a parameter `grow oldCap newLen` of the model (the
theorems hold for every such function with `grow c n ≥ n`); the driver instantiates it with
the Go 1.2x runtime rule for 8-byte elements (`goGrow`).
-/
import Golib.Model.C14Slices

namespace Golib.C14

structure Flex where
  mem : List Int
  len : Nat
deriving Repr, DecidableEq

def Flex.cap (f : Flex) : Nat := f.mem.length
def Flex.values (f : Flex) : List Int := f.mem.take f.len

def zeros (n : Nat) : List Int := List.replicate n 0

/-- `make([]T, cap(src-content))` + `copy`: fresh array of capacity `c` holding `xs`. -/
def mkFlex (xs : List Int) (c : Nat) : Flex := ⟨xs ++ zeros (c - xs.length), xs.length⟩

/-- `f.Values = append(f.Values, v...)`. -/
def Flex.append (grow : Nat → Nat → Nat) (f : Flex) (v : List Int) : Flex :=
  let nl := f.len + v.length
  if nl ≤ f.cap then ⟨f.mem.take f.len ++ v ++ f.mem.drop nl, nl⟩
  else mkFlex (f.mem.take f.len ++ v) (grow f.cap nl)

/-- `copy(dst, src)` where `dst = m[d:]` (up to `m`'s length `hi`) and `src` is a snapshot. -/
def copyTo (m : List Int) (d : Nat) (src : List Int) : List Int :=
  let n := min (m.length - d) src.length
  m.take d ++ src.take n ++ m.drop (d + n)

def Flex.prepend (f : Flex) (v : List Int) : Flex :=
  let n1 := v.length
  let n2 := f.len
  let c := f.cap
  let nc := n1 + n2
  if c ≥ nc then
    -- f.Values = f.Values[:nc]; copy(f.Values[n1:], f.Values[:n2]); copy(f.Values, v)
    let vals := f.mem.take nc                     -- the slice f.Values[:nc]
    let vals := copyTo vals n1 (vals.take n2)
    let vals := copyTo vals 0 v
    ⟨vals ++ f.mem.drop nc, nc⟩
  else
    let c := if 2 * c ≥ nc then 2 * c else nc
    -- newValues := make([]T, nc, c); copy(newValues, v); copy(newValues[n1:], f.Values)
    let nv := zeros nc
    let nv := copyTo nv 0 v
    let nv := copyTo nv n1 (f.mem.take n2)
    ⟨nv ++ zeros (c - nc), nc⟩

def Flex.withinRange (f : Flex) (index : Int) : Bool := index ≥ 0 ∧ index < f.len

def Flex.get (f : Flex) (index : Int) : Option (Int × Bool) :=
  if f.withinRange index then
    match f.values[index.toNat]? with
    | none => none
    | some v => some (v, true)
  else some (0, false)

def Flex.shrink (f : Flex) : Flex :=
  if f.cap ≤ 8 then f
  else if f.len ≤ f.cap / 4 then
    let newCap := f.len * 2
    let newCap := if newCap < 8 then 8 else newCap
    mkFlex (f.mem.take f.len) newCap
  else f

def Flex.remove (f : Flex) (index : Int) : Option (Flex × Int × Bool) :=
  match Golib.C14.remove false f.values index with
  | none => none
  | some (_, _, v, false) => some (f, v, false)
  | some (m, res, v, true) =>
    -- the array cells of Values were rewritten in place; Values = values[:last]
    let f' : Flex := ⟨m ++ f.mem.drop f.len, res.xs.length⟩
    some (f'.shrink, v, true)

def Flex.pop (f : Flex) : Option (Flex × Int × Bool) := f.remove ((f.len : Int) - 1)
def Flex.shift (f : Flex) : Option (Flex × Int × Bool) := f.remove 0

/-- `SubSlice`: a new FlexSlice viewing `Values[start:end]` (cap = cap − start), then `shrink`. -/
def Flex.subSlice (f : Flex) (start «end» : Int) : Option Flex :=
  match Golib.C14.subSlice f.len start «end» with
  | none => none
  | some (.view st l) => some (Flex.shrink ⟨f.mem.drop st, l⟩)
  | some _ => some (Flex.shrink ⟨[], 0⟩)

/-! ### Go runtime `growslice` capacity for 8-byte elements (driver instantiation only) -/

def sizeClasses : List Nat :=
  [8, 16, 24, 32, 48, 64, 80, 96, 112, 128, 144, 160, 176, 192, 208, 224, 240, 256, 288, 320, 352,
   384, 416, 448, 480, 512, 576, 640, 704, 768, 896, 1024, 1152, 1280, 1408, 1536, 1792, 2048, 2304,
   2688, 3072, 3200, 3456, 4096, 4864, 5376, 6144, 6528, 6784, 6912, 8192, 9472, 9728, 10240, 10880,
   12288, 13568, 14336, 16384, 18432, 19072, 20480, 21760, 24576, 27264, 28672, 32768]

def roundUpSize (bytes : Nat) : Nat :=
  match sizeClasses.find? (· ≥ bytes) with
  | some c => c
  | none => (bytes + 8191) / 8192 * 8192

def nextCapLoop (newLen : Nat) : (fuel newcap : Nat) → Nat
  | 0, c => c
  | f + 1, c =>
    let c := c + (c + 3 * 256) / 4
    if c ≥ newLen then c else nextCapLoop newLen f c

def goGrow (oldCap newLen : Nat) : Nat :=
  let doublecap := oldCap + oldCap
  let newcap :=
    if newLen > doublecap then newLen
    else if oldCap < 256 then doublecap
    else nextCapLoop newLen 64 oldCap
  roundUpSize (newcap * 8) / 8

end Golib.C14
