/-
C16 specification machine (functional): a bank of registers (each a `setz.Bits`, a
`setz.Bitmap` or a `dsz.Bits`) holding their word lists BY VALUE, and two iterator slots that
refer to a register.  This is the machine the per-operation theorems of `Props/C16.lean` speak
about.  The machine that the oracle executes — and that is tied to the Go code on every run —
is the one-memory machine of `C16Heap.lean` (slice headers into one heap); `Proof/C16HeapSim`
proves that it refines this one step by step and that no step touches another register.

ops    : add r n | remove r n | contains r n | grow r n | len r | blen r | cap r
         clone d s | diff a b | intersect a b | merge a b
         iter k r | next k | value k | iterall r | range r stop | all r stop | layout
         addn r start d count | removen r start d count   (count element operations on start, start+d, …)
         string r | reseq r stop1 n stop2   (one `All()` value ranged, `Add(n)`, ranged again)
-/
import Golib.Model.C16Bits

namespace Golib.C16
open Golib.Proto

inductive Obj where
  | bits (b : Bits)
  | bitmap (m : Bitmap)
  | dsz (d : DBits)
deriving Repr, DecidableEq

def Obj.words : Obj → List W
  | .bits b => b.bm.set
  | .bitmap m => m.set
  | .dsz d => d.set

structure St where
  regs : List Obj
  iters : List (Option (Nat × Iter))
deriving Repr

inductive Op where
  | add (r n : Nat) | remove (r n : Nat) | contains (r n : Nat) | grow (r n : Nat)
  | len (r : Nat) | blen (r : Nat) | cap (r : Nat)
  | clone (d s : Nat) | diff (a b : Nat) | intersect (a b : Nat) | merge (a b : Nat)
  | iter (k r : Nat) | next (k : Nat) | value (k : Nat) | iterall (r : Nat)
  | range (r : Nat) (stop : Int) | all (r : Nat) (stop : Int)
  | layout
  | addn (r start d count : Nat) | removen (r start d count : Nat)
  | str (r : Nat)
  | reseq (r : Nat) (a : Int) (n : Nat) (b : Int)
deriving Repr, DecidableEq

def two (f : Nat → Nat → Op) (a b : String) : Option Op := do
  let x ← a.toNat?
  let y ← b.toNat?
  pure (f x y)

def parseOp (ts : List String) : Option Op :=
  match ts with
  | ["add", r, n] => two .add r n
  | ["remove", r, n] => two .remove r n
  | ["contains", r, n] => two .contains r n
  | ["grow", r, n] => two .grow r n
  | ["len", r] => r.toNat?.map .len
  | ["blen", r] => r.toNat?.map .blen
  | ["cap", r] => r.toNat?.map .cap
  | ["clone", d, s] => two .clone d s
  | ["diff", a, b] => two .diff a b
  | ["intersect", a, b] => two .intersect a b
  | ["merge", a, b] => two .merge a b
  | ["iter", k, r] => two .iter k r
  | ["next", k] => k.toNat?.map .next
  | ["value", k] => k.toNat?.map .value
  | ["iterall", r] => r.toNat?.map .iterall
  | ["range", r, s] => do
      let x ← r.toNat?
      let y ← s.toInt?
      pure (.range x y)
  | ["all", r, s] => do
      let x ← r.toNat?
      let y ← s.toInt?
      pure (.all x y)
  | ["layout"] => some .layout
  | ["string", r] => r.toNat?.map .str
  | ["reseq", r, a, n, b] => do
      let r ← r.toNat?
      let a ← a.toInt?
      let n ← n.toNat?
      let b ← b.toInt?
      pure (.reseq r a n b)
  | ["addn", r, a, d, c] => do
      let r ← r.toNat?
      let a ← a.toNat?
      let d ← d.toNat?
      let c ← c.toNat?
      pure (.addn r a d c)
  | ["removen", r, a, d, c] => do
      let r ← r.toNat?
      let a ← a.toNat?
      let d ← d.toNat?
      let c ← c.toNat?
      pure (.removen r a d c)
  | _ => none

/-- `layout`: the word count of every register and the pairs of registers whose backing arrays
overlap (`lens [l0 l1 …] overlap [i j i' j' …]`).  In the by-value machine nothing can overlap. -/
def showLayout (lens : List Nat) (pairs : List Nat) : String :=
  s!"lens {showNats lens} overlap {showNats pairs}"

def showSet (xs : List Nat) : String := "{" ++ " ".intercalate (xs.map toString) ++ "}"

/-- Result of one op: `bad` = not applicable to this register kind (the harness answers
`bad-op` too), `panic`, or new state and printed line. -/
inductive Res where
  | bad | panic | ok (s : St) (out : String)

def setReg (s : St) (r : Nat) (o : Obj) : St := { s with regs := s.regs.set r o }

/-- the callback used by the harness: record `v`, go on unless `v = stop`. -/
def stopFn (stop : Int) (v : Nat) : Bool := (v : Int) != stop

def bulk (s : St) (a b : Nat) (fb : Bits → Bitmap → Bits) (fm : Bitmap → Bitmap → Bitmap) : Res :=
  match s.regs[a]?, s.regs[b]? with
  | some oa, some ob =>
    let other : Option Bitmap :=
      match ob with
      | .bits x => some x.bm
      | .bitmap m => some m
      | .dsz _ => none
    match other with
    | none => .bad
    | some other =>
      match oa with
      | .bits x => .ok (setReg s a (.bits (fb x other))) "ok"
      | .bitmap m => .ok (setReg s a (.bitmap (fm m other))) "ok"
      | .dsz _ => .bad
  | _, _ => .bad

/-- one single operation (the bulk element operations `addn`/`removen` are loops over this) -/
def step1 (s : St) : Op → Res
  | .add r n =>
    match s.regs[r]? with
    | some (.bits b) =>
      match b.add n with
      | none => .panic
      | some (b', ch) => .ok (setReg s r (.bits b')) (showBool ch)
    | some (.bitmap m) =>
      match m.add n with
      | none => .panic
      | some (m', ch) => .ok (setReg s r (.bitmap m')) (showBool ch)
    | some (.dsz d) =>
      match d.add n with
      | none => .panic
      | some d' => .ok (setReg s r (.dsz d')) "ok"
    | none => .bad
  | .remove r n =>
    match s.regs[r]? with
    | some (.bits b) =>
      match b.remove n with
      | none => .panic
      | some (b', ch) => .ok (setReg s r (.bits b')) (showBool ch)
    | some (.bitmap m) =>
      match m.remove n with
      | none => .panic
      | some (m', ch) => .ok (setReg s r (.bitmap m')) (showBool ch)
    | some (.dsz d) =>
      match d.remove n with
      | none => .panic
      | some d' => .ok (setReg s r (.dsz d')) "ok"
    | none => .bad
  | .contains r n =>
    match s.regs[r]? with
    | some (.bits b) =>
      match b.bm.contains n with
      | none => .panic
      | some x => .ok s (showBool x)
    | some (.bitmap m) =>
      match m.contains n with
      | none => .panic
      | some x => .ok s (showBool x)
    | some (.dsz d) =>
      match d.contains n with
      | none => .panic
      | some x => .ok s (showBool x)
    | none => .bad
  | .grow r n =>
    match s.regs[r]? with
    | some (.bits b) => .ok (setReg s r (.bits { b with bm := b.bm.grow n })) "ok"
    | some (.bitmap m) => .ok (setReg s r (.bitmap (m.grow n))) "ok"
    | some (.dsz d) => .ok (setReg s r (.dsz (d.grow n))) "ok"
    | none => .bad
  | .len r =>
    match s.regs[r]? with
    | some (.bits b) => .ok s (toString b.len)
    | some (.bitmap m) => .ok s (toString m.len)
    | some (.dsz d) => .ok s (toString d.len)
    | none => .bad
  | .blen r =>
    match s.regs[r]? with
    | some (.bits b) => .ok s (toString b.bm.len)
    | some (.bitmap m) => .ok s (toString m.len)
    | _ => .bad
  | .cap r =>
    match s.regs[r]? with
    | some (.bits b) => .ok s (toString b.bm.cap)
    | some (.bitmap m) => .ok s (toString m.cap)
    | some (.dsz d) => .ok s (toString d.cap)
    | none => .bad
  | .clone d src =>
    -- `Clone` is a `Bitmap` method returning a `Bitmap`: the target must be a Bitmap register
    match s.regs[d]?, s.regs[src]? with
    | some (.bitmap _), some (.bits b) => .ok (setReg s d (.bitmap b.bm.clone)) "ok"
    | some (.bitmap _), some (.bitmap m) => .ok (setReg s d (.bitmap m.clone)) "ok"
    | _, _ => .bad
  | .diff a b => bulk s a b Bits.diff Bitmap.diff
  | .intersect a b => bulk s a b Bits.intersect Bitmap.intersect
  | .merge a b => bulk s a b Bits.merge Bitmap.merge
  | .iter k r =>
    if k < s.iters.length ∧ r < s.regs.length then
      .ok { s with iters := s.iters.set k (some (r, Iter.init)) } "ok"
    else .bad
  | .next k =>
    match s.iters[k]? with
    | some (some (r, it)) =>
      match s.regs[r]? with
      | some o =>
        let (it', ok) := Iter.next o.words it
        .ok { s with iters := s.iters.set k (some (r, it')) } (showBool ok)
      | none => .bad
    | _ => .bad
  | .value k =>
    match s.iters[k]? with
    | some (some (_, it)) => .ok s (toString it.value)
    | _ => .bad
  | .iterall r =>
    match s.regs[r]? with
    | some o => .ok s (showNats (Bitmap.iterAll ⟨o.words⟩))
    | none => .bad
  | .range r stop =>
    match s.regs[r]? with
    | some (.bits b) => .ok s (showNats (b.bm.range (stopFn stop)))
    | some (.bitmap m) => .ok s (showNats (m.range (stopFn stop)))
    | _ => .bad
  | .all r stop =>
    match s.regs[r]? with
    | some (.bits b) => .ok s (showNats (b.bm.range (stopFn stop)))
    | _ => .bad
  | .layout => .ok s (showLayout (s.regs.map fun o => o.words.length) [])
  | .addn _ _ _ _ => .bad
  | .removen _ _ _ _ => .bad
  | .reseq _ _ _ _ => .bad
  | .str r =>
    -- `String()`: the same double loop as `Range` (skipping zero words), printed as `{a b c}`;
    -- dsz.Bits appends "\nLength: n" (the harness prints the newline as `|`)
    match s.regs[r]? with
    | some (.dsz d) => .ok s (showSet (Bitmap.range ⟨d.set⟩ fun _ => true) ++ s!"|Length: {d.length}")
    | some o => .ok s (showSet (Bitmap.range ⟨o.words⟩ fun _ => true))
    | none => .bad

/-- `count` times `mk n` for `n = start, start+d, …` (large stream: `for … { x.Add(n) }`); the
answer is the number of calls that answered `true` -/
def loopN (mk : Nat → Op) : (count : Nat) → St → (n d hits : Nat) → Res
  | 0, s, _, _, hits => .ok s (toString hits)
  | c + 1, s, n, d, hits =>
    match step1 s (mk n) with
    | .ok s' out => loopN mk c s' (n + d) d (if out = "true" then hits + 1 else hits)
    | .bad => .bad
    | .panic => .panic

/-- three single operations in a row, answers joined by ` ; ` -/
def seq3 (s : St) (o1 o2 o3 : Op) : Res :=
  match step1 s o1 with
  | .ok s1 x1 =>
    match step1 s1 o2 with
    | .ok s2 x2 =>
      match step1 s2 o3 with
      | .ok s3 x3 => .ok s3 (x1 ++ " ; " ++ x2 ++ " ; " ++ x3)
      | .bad => .bad
      | .panic => .panic
    | .bad => .bad
    | .panic => .panic
  | .bad => .bad
  | .panic => .panic

def step (s : St) : Op → Res
  -- `seq := b.All()` obtained ONCE, ranged (stop at `a`), then `b.Add(n)`, then the SAME `seq` value
  -- ranged again (stop at `b`): `All` reads `b.set` when it is ranged, so the second range
  -- enumerates the current content
  | .reseq r a n b => seq3 s (.all r a) (.add r n) (.all r b)
  | .addn r a d c => if c = 0 then .bad else loopN (.add r) c s a d 0
  | .removen r a d c => if c = 0 then .bad else loopN (.remove r) c s a d 0
  | op => step1 s op

/-- the specification machine run on a list of op lines -/
def runOps : Option St → List String → List String
  | _, [] => []
  | none, _ :: ls => "dead" :: runOps none ls
  | some s, l :: ls =>
    match parseOp (toks l) with
    | none => "bad-op" :: runOps (some s) ls
    | some op =>
      match step s op with
      | .bad => "bad-op" :: runOps (some s) ls
      | .panic => "panic" :: runOps none ls
      | .ok s' out => out :: runOps (some s') ls

end Golib.C16
