/-
Model of the construction API of `algz.Graph` (`/repo/algz/graph.go`):
`Nodes map[T]map[T]struct{}` as an association list `node ↦ neighbour list`.

```go
func (g *Graph[T]) AddNode(node T)  { g.lazyInit(); if _, ok := g.Nodes[node]; !ok { g.Nodes[node] = make(map[T]struct{}) } }
func (g *Graph[T]) AddEdge(from, to T) {
    g.lazyInit()
    if _, ok := g.Nodes[from]; !ok { g.Nodes[from] = make(map[T]struct{}, 2) }
    g.Nodes[from][to] = struct{}{}
}
func (g *Graph[T]) AddUndirectedEdge(from, to T) { g.AddEdge(from, to); g.AddEdge(to, from) }
```
`lazyInit` / `Init` only allocate the outer map (the empty list here).  Note that `AddEdge`
creates the node `from` but not the node `to`.
-/
namespace Golib.C18

abbrev GMap := List (Nat × List Nat)

def gLookup : GMap → Nat → Option (List Nat)
  | [], _ => none
  | (k, ns) :: r, v => if k = v then some ns else gLookup r v

/-- `if _, ok := g.Nodes[node]; !ok { g.Nodes[node] = {} }` -/
def gAddNode (g : GMap) (v : Nat) : GMap :=
  match gLookup g v with
  | some _ => g
  | none => g ++ [(v, [])]

/-- `g.Nodes[from][to] = struct{}{}` on an existing entry. -/
def gSetAdd : GMap → Nat → Nat → GMap
  | [], _, _ => []
  | (k, ns) :: r, a, b =>
    if k = a then (k, if ns.contains b then ns else b :: ns) :: r else (k, ns) :: gSetAdd r a b

def gAddEdge (g : GMap) (a b : Nat) : GMap := gSetAdd (gAddNode g a) a b

def gAddUndirectedEdge (g : GMap) (a b : Nat) : GMap := gAddEdge (gAddEdge g a b) b a

inductive GOp where
  | addNode (v : Nat)
  | addEdge (a b : Nat)
  | addUndirected (a b : Nat)
deriving Repr, DecidableEq

def gStep (g : GMap) : GOp → GMap
  | .addNode v => gAddNode g v
  | .addEdge a b => gAddEdge g a b
  | .addUndirected a b => gAddUndirectedEdge g a b

/-- Any sequence of construction calls on the zero-value graph. -/
def gBuild (ops : List GOp) : GMap := ops.foldl gStep []

/-- `g.Init(cap)`: `g.Nodes = make(map…, cap)` — a fresh empty map, whatever the graph was. -/
def gInit (_ : GMap) : GMap := []

/-- Direct writes to the exported map: `delete(g.Nodes, v)` and `delete(ns, v)` for every remaining
neighbour set `ns` (the node and every arc from / to it disappear). -/
def gDelNode (g : GMap) (v : Nat) : GMap :=
  (g.filter fun e => e.1 != v).map fun e => (e.1, e.2.filter fun u => u != v)

/-- The keys of `g.Nodes` (in insertion order; Go ranges over them in random order). -/
def gKeys (g : GMap) : List Nat := g.map (·.1)

/-- `u ∈ g.Nodes[v]` — the only thing `BronKerbosch` asks of the graph. -/
def gNb (g : GMap) (v u : Nat) : Bool :=
  match gLookup g v with
  | some ns => ns.contains u
  | none => false

/-- `_, ok := g.Nodes[v]` — `GetMaximalCliques` ranges over these. -/
def gIsNode (g : GMap) (v : Nat) : Bool := (gLookup g v).isSome

end Golib.C18
