/-
Model of `listz/doubly_list.go` (`DList[T]`, `DNode[T]`), mirroring the Go code statement by
statement.

* Memory: every `DNode` (the sentinels `l.root` included) is a natural number; the fields
  `next`, `prev`, `list` are pointer maps (`none` = `nil`), `Value` an `Int` map.
  A `*DList` is identified with the id of its sentinel `&l.root` (ids `0 … nl-1`);
  `l.len` is `len.get l`.  Allocation `&DNode[T]{Value: v}` takes the id `fresh`.
* Every primitive (`insert`, `remove`, `move`) performs the coded pointer writes in the coded
  order; a nil dereference is a Go panic = `none`.
* Public methods carry the coded ownership guards.
-/
import Golib.Proto
import Golib.Model.C13Map

namespace Golib.C13

abbrev Ptr := Option Nat

structure DSt where
  next  : PM
  prev  : PM
  list  : PM          -- `e.list` (as the id of the owner's sentinel)
  val   : IM
  len   : IM          -- `l.len`, by list
  nl    : Nat         -- number of lists; their sentinels are the ids `0 … nl-1`
  fresh : Nat         -- next node id to allocate

/-- `nl` zero-value lists and no node. -/
def DSt.zero (nl : Nat) : DSt :=
  { next := .empty, prev := .empty, list := .empty, val := .empty, len := .empty,
    nl := nl, fresh := nl }

/-! ### primitives -/

/-- The four pointer writes shared by `insert` and `move`:
```
e.prev = at
e.next = at.next
e.prev.next = e
e.next.prev = e
``` -/
def DSt.linkAfter (s : DSt) (e : Nat) (at_ : Ptr) : Option DSt := do
  let s1 := { s with prev := s.prev.set e at_ }
  let a ← at_
  let s2 := { s1 with next := s1.next.set e (s1.next.get a) }
  let p ← s2.prev.get e
  let s3 := { s2 with next := s2.next.set p (some e) }
  let n ← s3.next.get e
  pure { s3 with prev := s3.prev.set n (some e) }

/-- The two pointer writes shared by `remove` and `move`:
```
e.prev.next = e.next
e.next.prev = e.prev
``` -/
def DSt.unlink (s : DSt) (e : Nat) : Option DSt := do
  let p ← s.prev.get e
  let s1 := { s with next := s.next.set p (s.next.get e) }
  let n ← s1.next.get e
  pure { s1 with prev := s1.prev.set n (s1.prev.get e) }

/-- `l.Init()` -/
def DSt.init (s : DSt) (l : Nat) : DSt :=
  { s with next := s.next.set l (some l), prev := s.prev.set l (some l), len := s.len.set l 0 }

/-- `l.lazyInit()` -/
def DSt.lazyInit (s : DSt) (l : Nat) : DSt :=
  if s.next.get l = none then s.init l else s

/-- `l.insert(e, at)` -/
def DSt.insert (s : DSt) (l e : Nat) (at_ : Ptr) : Option DSt := do
  let s1 ← s.linkAfter e at_
  pure { s1 with list := s1.list.set e (some l), len := s1.len.set l (s1.len.get l + 1) }

/-- `&DNode[T]{Value: v}` -/
def DSt.alloc (s : DSt) (v : Int) : DSt × Nat :=
  ({ s with fresh := s.fresh + 1, val := s.val.set s.fresh v }, s.fresh)

/-- `l.insertValue(v, at)` (the node is allocated before `insert` runs) -/
def DSt.insertValue (s : DSt) (l : Nat) (v : Int) (at_ : Ptr) : Option (DSt × Nat) := do
  let (s1, e) := s.alloc v
  let s2 ← s1.insert l e at_
  pure (s2, e)

/-- `l.remove(e)` -/
def DSt.remove (s : DSt) (l e : Nat) : Option DSt := do
  let s1 ← s.unlink e
  pure { s1 with next := s1.next.set e none, prev := s1.prev.set e none,
                 list := s1.list.set e none, len := s1.len.set l (s1.len.get l - 1) }

/-- `l.move(e, at)` -/
def DSt.move (s : DSt) (e : Nat) (at_ : Ptr) : Option DSt :=
  if some e = at_ then some s else do
  let s1 ← s.unlink e
  s1.linkAfter e at_

/-! ### public methods (`l` = id of the receiver's sentinel, never nil; nodes never nil) -/

def DSt.lenOf (s : DSt) (l : Nat) : Int := s.len.get l

def DSt.front (s : DSt) (l : Nat) : Ptr := if s.len.get l = 0 then none else s.next.get l
def DSt.back (s : DSt) (l : Nat) : Ptr := if s.len.get l = 0 then none else s.prev.get l

/-- `e.Next()`: `if p := e.next; e.list != nil && p != &e.list.root { return p }; return nil` -/
def DSt.nodeNext (s : DSt) (e : Nat) : Ptr :=
  match s.list.get e with
  | none => none
  | some r => if s.next.get e ≠ some r then s.next.get e else none

def DSt.nodePrev (s : DSt) (e : Nat) : Ptr :=
  match s.list.get e with
  | none => none
  | some r => if s.prev.get e ≠ some r then s.prev.get e else none

/-- `l.Remove(e)`; returns `e.Value`. -/
def DSt.removeNode (s : DSt) (l e : Nat) : Option (DSt × Int) :=
  if s.list.get e = some l then do
    let s1 ← s.remove l e
    pure (s1, s1.val.get e)
  else some (s, s.val.get e)

def DSt.pushFront (s : DSt) (l : Nat) (v : Int) : Option (DSt × Nat) :=
  let s1 := s.lazyInit l
  s1.insertValue l v (some l)

def DSt.pushBack (s : DSt) (l : Nat) (v : Int) : Option (DSt × Nat) :=
  let s1 := s.lazyInit l
  s1.insertValue l v (s1.prev.get l)

/-- `InsertBefore`: result `none` in the second component = returned `nil`. -/
def DSt.insertBefore (s : DSt) (l : Nat) (v : Int) (mark : Nat) : Option (DSt × Ptr) :=
  if s.list.get mark ≠ some l then some (s, none) else do
  let (s1, e) ← s.insertValue l v (s.prev.get mark)
  pure (s1, some e)

def DSt.insertAfter (s : DSt) (l : Nat) (v : Int) (mark : Nat) : Option (DSt × Ptr) :=
  if s.list.get mark ≠ some l then some (s, none) else do
  let (s1, e) ← s.insertValue l v (some mark)
  pure (s1, some e)

def DSt.pushFrontNode (s : DSt) (l e : Nat) : Option DSt :=
  let s1 := s.lazyInit l
  s1.insert l e (some l)

def DSt.pushBackNode (s : DSt) (l e : Nat) : Option DSt :=
  let s1 := s.lazyInit l
  s1.insert l e (s1.prev.get l)

def DSt.insertNodeBefore (s : DSt) (l e mark : Nat) : Option DSt :=
  if s.list.get mark ≠ some l then some s else s.insert l e (s.prev.get mark)

def DSt.insertNodeAfter (s : DSt) (l e mark : Nat) : Option DSt :=
  if s.list.get mark ≠ some l then some s else s.insert l e (some mark)

def DSt.moveToFront (s : DSt) (l e : Nat) : Option DSt :=
  if s.list.get e ≠ some l ∨ s.next.get l = some e then some s else s.move e (some l)

def DSt.moveToBack (s : DSt) (l e : Nat) : Option DSt :=
  if s.list.get e ≠ some l ∨ s.prev.get l = some e then some s else s.move e (s.prev.get l)

def DSt.moveBefore (s : DSt) (l e mark : Nat) : Option DSt :=
  if s.list.get e ≠ some l ∨ e = mark ∨ s.list.get mark ≠ some l then some s
  else s.move e (s.prev.get mark)

def DSt.moveAfter (s : DSt) (l e mark : Nat) : Option DSt :=
  if s.list.get e ≠ some l ∨ e = mark ∨ s.list.get mark ≠ some l then some s
  else s.move e (some mark)

/-- Loop of `PushBackDList`:
`for i, e := other.Len(), other.Front(); i > 0; i, e = i-1, e.Next() { l.insertValue(e.Value, l.root.prev) }`
(`e.Value` / `e.Next()` on a nil `e` panic). -/
def DSt.pushBackLoop (l : Nat) : Nat → Ptr → DSt → Option DSt
  | 0, _, s => some s
  | i + 1, e, s => do
    let e ← e
    let (s1, _) ← s.insertValue l (s.val.get e) (s.prev.get l)
    DSt.pushBackLoop l i (s1.nodeNext e) s1

def DSt.pushBackDList (s : DSt) (l other : Nat) : Option DSt :=
  let s1 := s.lazyInit l
  DSt.pushBackLoop l (s1.lenOf other).toNat (s1.front other) s1

def DSt.pushFrontLoop (l : Nat) : Nat → Ptr → DSt → Option DSt
  | 0, _, s => some s
  | i + 1, e, s => do
    let e ← e
    let (s1, _) ← s.insertValue l (s.val.get e) (some l)
    DSt.pushFrontLoop l i (s1.nodePrev e) s1

def DSt.pushFrontDList (s : DSt) (l other : Nat) : Option DSt :=
  let s1 := s.lazyInit l
  DSt.pushFrontLoop l (s1.lenOf other).toNat (s1.back other) s1

/-- `*b = *a` for two `DList` values: the sentinel `root` (its `next`/`prev`) and `len` are copied by
value; the nodes still point at `&a.root`. -/
def DSt.copyList (s : DSt) (a b : Nat) : DSt :=
  { s with next := s.next.set b (s.next.get a), prev := s.prev.set b (s.prev.get a),
           len := s.len.set b (s.len.get a) }

/-! ### traversals (what the harness prints after every operation) -/

/-- `for e := start; e != nil; e = step(e)`, cut after `fuel` nodes (printed as `!`). -/
def walk (step : Nat → Ptr) : Nat → Ptr → List Nat × Bool
  | _, none => ([], true)
  | 0, some _ => ([], false)
  | f + 1, some e => let (xs, ok) := walk step f (step e); (e :: xs, ok)

def DSt.forward (s : DSt) (l : Nat) (fuel : Nat) : List Nat × Bool :=
  walk s.nodeNext fuel (s.front l)

def DSt.backward (s : DSt) (l : Nat) (fuel : Nat) : List Nat × Bool :=
  walk s.nodePrev fuel (s.back l)

/-! ### driver -/

open Golib.Proto

def walkCap : Nat := 200

def showPtr : Ptr → String
  | none => "nil"
  | some e => toString e

def showWalk (w : List Nat × Bool) (f : Nat → String) : String :=
  "[" ++ " ".intercalate (w.1.map f ++ if w.2 then [] else ["!"]) ++ "]"

/-- `A <len> f[ids] b[ids] v[values via All()]` -/
def DSt.dump (s : DSt) (l : Nat) : String :=
  let f := s.forward l walkCap
  -- a sentinel reached by a walk (only possible after misuse of the API) is not a handle: `?`
  let nm := fun (e : Nat) => if e < s.nl then "?" else toString e
  s!"{s.lenOf l} f{showWalk f nm} b{showWalk (s.backward l walkCap) nm} v{showWalk f fun e => toString (s.val.get e)}"

def DSt.dumpAll (s : DSt) : String :=
  " | ".intercalate ((List.range s.nl).map fun l => s.dump l)

/-- Tail-recursive traversal folding `f` over the visited nodes (same cut-off as `walk`;
`Proof/C13DWalk.walkFold_eq`: it is `foldl f` over the list `walk` returns). -/
def walkFold {α : Type} (step : Nat → Ptr) (f : α → Nat → α) : Nat → Ptr → α → α × Bool
  | _, none, a => (a, true)
  | 0, some _, a => (a, false)
  | n + 1, some e, a => walkFold step f n (step e) (f a e)

/-- Cut-off of the traversals of the `big` dumps. -/
def bigCap : Nat := 200000

def digestMod : Nat := 2147483647

/-- Digest of a traversal: number of nodes visited and a polynomial hash of `g` of the nodes. -/
def digestStep (g : Nat → Int) (a : Nat × Nat) (e : Nat) : Nat × Nat :=
  (a.1 + 1, ((a.2 * 1000003 + ((g e + 11) % (digestMod : Int)).toNat) % digestMod))

def showDigest (w : (Nat × Nat) × Bool) : String :=
  s!"{w.1.1}:{w.1.2}" ++ (if w.2 then "" else "!")

/-- Dump of a long list: `<len> f~<n>:<hash of ids front to back> b~<n>:<hash back to front>
v~<n>:<hash of values>`. -/
def DSt.dumpBig (s : DSt) (l : Nat) : String :=
  let ids := fun (e : Nat) => (e : Int)
  let f := walkFold s.nodeNext (digestStep ids) bigCap (s.front l) (0, 0)
  let b := walkFold s.nodePrev (digestStep ids) bigCap (s.back l) (0, 0)
  let v := walkFold s.nodeNext (digestStep fun e => s.val.get e) bigCap (s.front l) (0, 0)
  s!"{s.lenOf l} f~{showDigest f} b~{showDigest b} v~{showDigest v}"

def DSt.dumpAllBig (s : DSt) : String :=
  " | ".intercalate ((List.range s.nl).map fun l => s.dumpBig l)

def parseList (s : DSt) (t : String) : Option Nat :=
  if t = "A" then (if 0 < s.nl then some 0 else none)
  else if t = "B" then (if 1 < s.nl then some 1 else none)
  else if t = "C" then (if 2 < s.nl then some 2 else none)
  else none

/-- A handle is the id of an allocated node. -/
def parseHandle (s : DSt) (t : String) : Option Nat :=
  match t.toNat? with
  | some h => if s.nl ≤ h ∧ h < s.fresh then some h else none
  | none => none

/-! ### operations as data (what the refinement theorem `c13_dlist_refines` quantifies over) -/

/-- One call of the `DList` / `DNode` API: `l`, `o` = receiver / other list (sentinel ids),
`e`, `mark` = node handles, `v` = value. -/
inductive DOp where
  | new (v : Int)                              -- `&DNode[T]{Value: v}`
  | init (l : Nat)
  | pushFront (l : Nat) (v : Int)
  | pushBack (l : Nat) (v : Int)
  | insertBefore (l : Nat) (v : Int) (mark : Nat)
  | insertAfter (l : Nat) (v : Int) (mark : Nat)
  | pushFrontNode (l e : Nat)
  | pushBackNode (l e : Nat)
  | insertNodeBefore (l e mark : Nat)
  | insertNodeAfter (l e mark : Nat)
  | moveToFront (l e : Nat)
  | moveToBack (l e : Nat)
  | moveBefore (l e mark : Nat)
  | moveAfter (l e mark : Nat)
  | remove (l e : Nat)
  | pushBackDList (l o : Nat)
  | pushFrontDList (l o : Nat)
  | len (l : Nat)
  | front (l : Nat)
  | back (l : Nat)
  | next (e : Nat)
  | prev (e : Nat)
  | setValue (e : Nat) (v : Int)               -- `e.Value = v` through the node handle

/-- What a call returns: nothing, a node pointer (`none` = nil), or a value / length. -/
inductive DRes where
  | unit
  | ptr (p : Ptr)
  | int (v : Int)
deriving DecidableEq

/-- Run one call on the memory; `none` = Go panic. -/
def DSt.apply (s : DSt) : DOp → Option (DSt × DRes)
  | .new v => let (s1, e) := s.alloc v; some (s1, .ptr (some e))
  | .init l => some (s.init l, .unit)
  | .pushFront l v => (s.pushFront l v).map fun (s1, e) => (s1, .ptr (some e))
  | .pushBack l v => (s.pushBack l v).map fun (s1, e) => (s1, .ptr (some e))
  | .insertBefore l v m => (s.insertBefore l v m).map fun (s1, e) => (s1, .ptr e)
  | .insertAfter l v m => (s.insertAfter l v m).map fun (s1, e) => (s1, .ptr e)
  | .pushFrontNode l e => (s.pushFrontNode l e).map fun s1 => (s1, .unit)
  | .pushBackNode l e => (s.pushBackNode l e).map fun s1 => (s1, .unit)
  | .insertNodeBefore l e m => (s.insertNodeBefore l e m).map fun s1 => (s1, .unit)
  | .insertNodeAfter l e m => (s.insertNodeAfter l e m).map fun s1 => (s1, .unit)
  | .moveToFront l e => (s.moveToFront l e).map fun s1 => (s1, .unit)
  | .moveToBack l e => (s.moveToBack l e).map fun s1 => (s1, .unit)
  | .moveBefore l e m => (s.moveBefore l e m).map fun s1 => (s1, .unit)
  | .moveAfter l e m => (s.moveAfter l e m).map fun s1 => (s1, .unit)
  | .remove l e => (s.removeNode l e).map fun (s1, v) => (s1, .int v)
  | .pushBackDList l o => (s.pushBackDList l o).map fun s1 => (s1, .unit)
  | .pushFrontDList l o => (s.pushFrontDList l o).map fun s1 => (s1, .unit)
  | .len l => some (s, .int (s.lenOf l))
  | .front l => some (s, .ptr (s.front l))
  | .back l => some (s, .ptr (s.back l))
  | .next e => some (s, .ptr (s.nodeNext e))
  | .prev e => some (s, .ptr (s.nodePrev e))
  | .setValue e v => some ({ s with val := s.val.set e v }, .unit)

/-- Run a list of calls on the memory, collecting the results (`none` = some call panicked). -/
def DSt.run : DSt → List DOp → Option (DSt × List DRes)
  | s, [] => some (s, [])
  | s, op :: ops => do
    let (s1, r) ← s.apply op
    let (s2, rs) ← s1.run ops
    pure (s2, r :: rs)

/-- `for v := range l.All() { body }` / `for e := l.Front(); e != nil; e = e.Next() { body }`
(iter.go: the two are the same loop): the cursor stands on `e`; the value is read, then the loop
body runs — the calls `body i` at the `i`-th iteration, through handles the caller holds — and
only THEN `e.Next()` is evaluated, in the memory the body left behind.  `stop i` = the body
breaks.  Yields (node, value) pairs; the flag is false when `fuel` ran out. -/
def DSt.rangeAll (body : Nat → List DOp) (stop : Nat → Bool) :
    Nat → Nat → Ptr → DSt → List (Nat × Int) → Option (DSt × List (Nat × Int) × Bool)
  | _, _, none, s, acc => some (s, acc.reverse, true)
  | 0, _, some _, s, acc => some (s, acc.reverse, false)
  | f + 1, i, some e, s, acc => do
    let y := (e, s.val.get e)
    let (s1, _) ← s.run (body i)
    if stop i then some (s1, (y :: acc).reverse, true)
    else DSt.rangeAll body stop f (i + 1) (s1.nodeNext e) s1 (y :: acc)

def showRes : DRes → String
  | .unit => "ok"
  | .ptr p => showPtr p
  | .int v => toString v

/-- Parse one protocol line into a call (`none` = unparsable). -/
def parseDOp (s : DSt) (ts : List String) : Option DOp :=
  match ts with
  | ["new", v] => do let v ← v.toInt?; pure (.new v)
  | ["init", l] => do let l ← parseList s l; pure (.init l)
  | ["pf", l, v] => do let l ← parseList s l; let v ← v.toInt?; pure (.pushFront l v)
  | ["pb", l, v] => do let l ← parseList s l; let v ← v.toInt?; pure (.pushBack l v)
  | ["ib", l, v, m] => do
    let l ← parseList s l; let v ← v.toInt?; let m ← parseHandle s m; pure (.insertBefore l v m)
  | ["ia", l, v, m] => do
    let l ← parseList s l; let v ← v.toInt?; let m ← parseHandle s m; pure (.insertAfter l v m)
  | ["pfn", l, e] => do let l ← parseList s l; let e ← parseHandle s e; pure (.pushFrontNode l e)
  | ["pbn", l, e] => do let l ← parseList s l; let e ← parseHandle s e; pure (.pushBackNode l e)
  | ["inb", l, e, m] => do
    let l ← parseList s l; let e ← parseHandle s e; let m ← parseHandle s m; pure (.insertNodeBefore l e m)
  | ["ina", l, e, m] => do
    let l ← parseList s l; let e ← parseHandle s e; let m ← parseHandle s m; pure (.insertNodeAfter l e m)
  | ["mtf", l, e] => do let l ← parseList s l; let e ← parseHandle s e; pure (.moveToFront l e)
  | ["mtb", l, e] => do let l ← parseList s l; let e ← parseHandle s e; pure (.moveToBack l e)
  | ["mb", l, e, m] => do
    let l ← parseList s l; let e ← parseHandle s e; let m ← parseHandle s m; pure (.moveBefore l e m)
  | ["ma", l, e, m] => do
    let l ← parseList s l; let e ← parseHandle s e; let m ← parseHandle s m; pure (.moveAfter l e m)
  | ["rm", l, e] => do let l ← parseList s l; let e ← parseHandle s e; pure (.remove l e)
  | ["pbl", l, o] => do let l ← parseList s l; let o ← parseList s o; pure (.pushBackDList l o)
  | ["pfl", l, o] => do let l ← parseList s l; let o ← parseList s o; pure (.pushFrontDList l o)
  | ["len", l] => do let l ← parseList s l; pure (.len l)
  | ["front", l] => do let l ← parseList s l; pure (.front l)
  | ["back", l] => do let l ← parseList s l; pure (.back l)
  | ["next", e] => do let e ← parseHandle s e; pure (.next e)
  | ["prev", e] => do let e ← parseHandle s e; pure (.prev e)
  | ["setv", e, v] => do let e ← parseHandle s e; let v ← v.toInt?; pure (.setValue e v)
  | _ => none

/-- One protocol line: `none` = unparsable, `some none` = panic.  The oracle runs exactly the
function `DSt.apply` the refinement theorem is about. -/
def DSt.step (s : DSt) (ts : List String) : Option (Option (DSt × String)) := do
  let op ← parseDOp s ts
  pure ((s.apply op).map fun (s1, r) =>
    (s1, match r with
      | .ptr (some e) => if e < s.nl then "?" else toString e   -- a sentinel is not a handle
      | r => showRes r))

/-- Bulk line `pushn L k`: `k` times `PushBack(i % 10)`, i.e. `k` applications of `DSt.apply`. -/
def DSt.pushN (l : Nat) : Nat → Nat → DSt → Option DSt
  | 0, _, s => some s
  | k + 1, i, s => do
    let (s1, _) ← s.apply (.pushBack l ((i % 10 : Nat) : Int))
    DSt.pushN l k (i + 1) s1

/-- Bulk lines `removen L k` / `removebn L k`: `k` times `l.Remove(l.Front())` (`l.Back()`),
stopping when the list is empty; again only applications of `DSt.apply`. -/
def DSt.removeN (l : Nat) (back : Bool) : Nat → DSt → Option DSt
  | 0, s => some s
  | k + 1, s =>
    match (if back then s.back l else s.front l) with
    | none => some s
    | some e => do
      let (s1, _) ← s.apply (.remove l e)
      DSt.removeN l back k s1

/-- Script of a loop body: tokens `k:op:args…` (the call `op args…` at iteration `k`) and
`k:break`. -/
def parseBody {Op : Type} (parse : List String → Option Op) :
    List String → Option (List (Nat × Op) × List Nat)
  | [] => some ([], [])
  | tok :: rest => do
    let (ops, brk) ← parseBody parse rest
    match tok.splitOn ":" with
    | k :: "break" :: [] => do let k ← k.toNat?; pure (ops, k :: brk)
    | k :: more => do
      let k ← k.toNat?
      let op ← parse more
      pure ((k, op) :: ops, brk)
    | [] => none

def bodyAt {Op : Type} (ops : List (Nat × Op)) (i : Nat) : List Op :=
  (ops.filter fun p => p.1 == i).map fun p => p.2

def showYield (ys : List (Nat × Int)) (ids : Bool) (ok : Bool) : String :=
  "y[" ++ " ".intercalate (ys.map (fun y => if ids then toString y.1 else toString y.2) ++
    if ok then [] else ["!"]) ++ "]"

/-- Bulk lines (expanded into calls of `DSt.apply`). -/
def DSt.stepBulk (s : DSt) (ts : List String) : Option (Option (DSt × String)) :=
  match ts with
  | ["pushn", l, k] => do
    let l ← parseList s l; let k ← k.toNat?
    pure ((DSt.pushN l k 0 s).map fun s1 => (s1, "ok"))
  | ["removen", l, k] => do
    let l ← parseList s l; let k ← k.toNat?
    pure ((DSt.removeN l false k s).map fun s1 => (s1, "ok"))
  | ["removebn", l, k] => do
    let l ← parseList s l; let k ← k.toNat?
    pure ((DSt.removeN l true k s).map fun s1 => (s1, "ok"))
  | "allbody" :: l :: script => do
    let l ← parseList s l
    let (ops, brk) ← parseBody (parseDOp s) script
    pure ((DSt.rangeAll (bodyAt ops) (fun i => brk.contains i) bigCap 0 (s.front l) s []).map
      fun (s1, ys, ok) => (s1, showYield ys false ok))
  | "walkbody" :: l :: script => do
    let l ← parseList s l
    let (ops, brk) ← parseBody (parseDOp s) script
    pure ((DSt.rangeAll (bodyAt ops) (fun i => brk.contains i) bigCap 0 (s.front l) s []).map
      fun (s1, ys, ok) => (s1, (showYield ys true ok)))
  | _ => s.step ts

def runDOps (big : Bool) : Option DSt → List String → List String
  | _, [] => []
  | none, _ :: ls => "dead" :: runDOps big none ls
  | some s, l :: ls =>
    match s.stepBulk (toks l) with
    | none => "bad-op" :: runDOps big (some s) ls
    | some none => "panic" :: runDOps big none ls
    | some (some (s1, out)) =>
      (out ++ " | " ++ (if big then s1.dumpAllBig else s1.dumpAll)) :: runDOps big (some s1) ls

/-- Header `@ C13 dlist <kA> <kB> [<kC>] [big]`: two or three lists, each starting as the zero
value (`z`) or from `NewDoubly()` (`n`); `big` = long lists, dumps are digests of the full
traversals. -/
def runDListCase (hdr : List String) (ops : List String) : List String :=
  let bad : List String := "bad-op" :: ops.map fun _ => "bad-op"
  let kinds := hdr.takeWhile fun k => k = "z" || k = "n"
  let rest := hdr.dropWhile fun k => k = "z" || k = "n"
  let nl := kinds.length
  if (nl = 2 ∨ nl = 3) ∧ (rest = [] ∨ rest = ["big"]) then
    let big := rest = ["big"]
    -- `NewDoubly()` = zero value + `Init()`
    let s := (List.range nl).foldl (fun (s : DSt) l => if kinds[l]? = some "n" then s.init l else s)
      (DSt.zero nl)
    ("ok | " ++ (if big then s.dumpAllBig else s.dumpAll)) :: runDOps big (some s) ops
  else bad

end Golib.C13
