/-
C14: array representation of the FlexSlice model for the oracle.  The proved model
(`C14Flex.lean`) keeps the backing array as a `List`, which makes every `Pop` cost O(len);
here the backing array is an `Array Int`, `Pop` and `Get` touch one cell (and reallocate only
when `shrink` fires); every other operation goes through the list model.  `c14_flex_fast_eq`
(Proof/C14FlexFast.lean) proves the two agree on every state, so the oracle may run this one.
-/
import Golib.Model.C14Flex

namespace Golib.C14

structure FlexA where
  mem : Array Int
  len : Nat

def FlexA.toFlex (f : FlexA) : Flex := ⟨f.mem.toList, f.len⟩
def FlexA.ofFlex (f : Flex) : FlexA := ⟨f.mem.toArray, f.len⟩

/-- `Pop()` = `Remove(len-1)`: `v := s[last]; s[last] = zero; Values = s[:last]; shrink()` -/
def FlexA.pop (f : FlexA) : Option (FlexA × Int × Bool) :=
  if 0 < f.len ∧ f.len ≤ f.mem.size then
    let last := f.len - 1
    match f.mem[last]? with
    | none => none
    | some v =>
      let f' : FlexA := ⟨f.mem.setIfInBounds last 0, last⟩
      -- shrink(): only when cap > 8 and len ≤ cap/4 a new array is made
      if f'.mem.size ≤ 8 then some (f', v, true)
      else if f'.len ≤ f'.mem.size / 4 then some (FlexA.ofFlex f'.toFlex.shrink, v, true)
      else some (f', v, true)
  else f.toFlex.pop.map fun r => (FlexA.ofFlex r.1, r.2.1, r.2.2)

/-- `Get(index)` -/
def FlexA.get (f : FlexA) (index : Int) : Option (Int × Bool) :=
  if index ≥ 0 ∧ index < f.len ∧ f.len ≤ f.mem.size then
    match f.mem[index.toNat]? with
    | none => none
    | some v => some (v, true)
  else f.toFlex.get index

end Golib.C14
