/-
Model of `strz/std_hex.go` (`hexEncode`, `hexDecode`, `fromHexChar`) and of the wrappers
`HexEncode`, `HexDecode`, `HexDecodeInPlace` in `strz/enc.go`.

* Strings / byte slices are `List Nat` (bytes `< 256`); one model for both instantiations.
* `hextable` comes from the regenerated facts file (`Golib.Gen.C15.hextable`, extracted from
  the constant in the source on every run).
* `dst` is `make([]byte, len/2)`: an explicit array; a write out of range is a panic (`none`).
* The error is a value (`HErr`); its text (`fmt.Errorf("encoding/hex: invalid byte: %#U", rune(c))`,
  `hex.ErrLength`) is produced by `HErr.text` (fmt's `%#U` for runes < 256 is stdlib behaviour,
  modelled: `U+00XX` followed by `'c'` iff `strconv.IsPrint`).
-/
import Golib.Proto
import Golib.Prelude.Utf8
import Golib.Gen.FactsC15

namespace Golib.C15

def hextable : List Nat := Golib.Gen.C15.hextable

/-- `hexEncode`: two table lookups per source byte (`none` = index out of range panic). -/
def hexEncode? : List Nat → Option (List Nat)
  | [] => some []
  | b :: rest =>
    match hextable[b >>> 4]?, hextable[b &&& 0x0f]?, hexEncode? rest with
    | some hi, some lo, some r => some (hi :: lo :: r)
    | _, _, _ => none

/-- `fromHexChar`. -/
def fromHexChar (c : Nat) : Option Nat :=
  if 48 ≤ c ∧ c ≤ 57 then some (c - 48)
  else if 97 ≤ c ∧ c ≤ 102 then some (c - 97 + 10)
  else if 65 ≤ c ∧ c ≤ 70 then some (c - 65 + 10)
  else none

inductive HErr where
  | ok
  | invalidByte (c : Nat)
  | length
deriving Repr, DecidableEq

/-- `dst[i] = v` on an explicit array; `none` = panic. -/
def setByte (dst : List Nat) (i v : Nat) : Option (List Nat) :=
  if i < dst.length then some (dst.set i v) else none

/-- The loop of `hexDecode` (`i` = write cursor, the list = `src[j-1:]`); returns
`(dst, i, err)`; outer `none` = panic on `dst[i]`. -/
def hexDecodeLoop : List Nat → List Nat → Nat → Option (List Nat × Nat × HErr)
  | a :: b :: rest, dst, i =>
    match fromHexChar a with
    | none => some (dst, i, .invalidByte a)
    | some x =>
      match fromHexChar b with
      | none => some (dst, i, .invalidByte b)
      | some y =>
        match setByte dst i (((x <<< 4) % 256) ||| y) with
        | none => none
        | some dst' => hexDecodeLoop rest dst' (i + 1)
  | [c], dst, i =>
    -- len(src) odd: check for invalid char before reporting bad length
    match fromHexChar c with
    | none => some (dst, i, .invalidByte c)
    | some _ => some (dst, i, .length)
  | [], dst, i => some (dst, i, .ok)

/-- `HexDecode`: `dst := make([]byte, len(s)/2)`, `n, err := hexDecode(dst, s)`, `dst[:n], err`. -/
def hexDecode? (s : List Nat) : Option (List Nat × HErr) :=
  match hexDecodeLoop s (List.replicate (s.length / 2) 0) 0 with
  | none => none
  | some (dst, n, e) => some (dst.take n, e)

/-- `HexDecodeInPlace(b) = hex.Decode(b, b)` (fact from the extractor): the stdlib loop reads
`src[j-1]`, `src[j]` and writes `dst[i]` with `dst` and `src` the same array.
`k` = read position `j-1`, fuel = remaining pairs. Returns `(buffer, n, err)`. -/
def hexDecodeInPlaceLoop : Nat → List Nat → Nat → Nat → Option (List Nat × Nat × HErr)
  | 0, buf, i, k =>
    if buf.length % 2 = 1 then
      match buf[k]? with
      | none => none
      | some c =>
        match fromHexChar c with
        | none => some (buf, i, .invalidByte c)
        | some _ => some (buf, i, .length)
    else some (buf, i, .ok)
  | fuel + 1, buf, i, k =>
    match buf[k]?, buf[k + 1]? with
    | some p, some q =>
      match fromHexChar p with
      | none => some (buf, i, .invalidByte p)
      | some x =>
        match fromHexChar q with
        | none => some (buf, i, .invalidByte q)
        | some y =>
          match setByte buf i (((x <<< 4) % 256) ||| y) with
          | none => none
          | some buf' => hexDecodeInPlaceLoop fuel buf' (i + 1) (k + 2)
    | _, _ => none

def hexDecodeInPlace? (b : List Nat) : Option (List Nat × Nat × HErr) :=
  hexDecodeInPlaceLoop (b.length / 2) b 0 0

/-! ### error text -/

def asciiBytes (s : String) : List Nat := s.toList.map Char.toNat

def upperHexDigit (n : Nat) : Nat := if n < 10 then 48 + n else 65 + (n - 10)

/-- `strconv.IsPrint` restricted to runes `< 256` (Latin-1): stdlib table, modelled. -/
def isPrintLatin1 (c : Nat) : Bool :=
  (0x20 ≤ c && c ≤ 0x7e) || (0xa1 ≤ c && c ≤ 0xff && c != 0xad)

/-- `fmt.Sprintf("%#U", rune(c))` for a byte `c`. -/
def fmtSharpU (c : Nat) : List Nat :=
  asciiBytes "U+00" ++ [upperHexDigit (c / 16 % 16), upperHexDigit (c % 16)] ++
    (if isPrintLatin1 c then [32, 39] ++ Golib.Utf8.encodeRune (c : Int) ++ [39] else [])

/-- The error text; `none` for a nil error. -/
def HErr.text : HErr → Option (List Nat)
  | .ok => none
  | .invalidByte c => some (asciiBytes "encoding/hex: invalid byte: " ++ fmtSharpU c)
  | .length => some (asciiBytes "encoding/hex: odd length hex string")

end Golib.C15
