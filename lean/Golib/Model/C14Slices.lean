/-
Model of `slicez/slices.go`, mirroring the Go code statement by statement.

* Elements are `Int`.  A slice *value* is `Sl` (nil flag + content).
* Everything that WRITES is modelled on explicit memory: `Mem` holds the backing arrays of
  the two input slices; the destination of `Diff/Intersect/Unique/UniqueByKey/Filter` is an
  `Out` that either owns detached memory (dst nil / fresh, or after `append` had to
  reallocate) or lives inside `m1` / `m2` with a write cursor `j` (dst = s1[:k] / s2[:k]);
  the loops read `s1[i]` from the *live* memory at iteration `i`, exactly as
  `for _, v := range s1` does.  `append` within capacity writes cell `j`, otherwise it
  detaches (copies the `j` cells written so far).
* membership maps (`map[T]struct{}`) are finite sets = lists without order significance;
  `len(seen)` is the number of distinct keys.
* A Go panic (index out of range) is `none`.
-/
import Golib.Proto

namespace Golib.C14

structure Sl where
  isNil : Bool
  xs : List Int
deriving Repr, DecidableEq

def Sl.nil : Sl := ⟨true, []⟩

structure Mem where
  m1 : List Int
  m2 : List Int
deriving Repr, DecidableEq

inductive Loc where
  | own | in1 | in2
deriving Repr, DecidableEq

/-- The slice `dst` during a loop. -/
structure Out where
  loc : Loc
  own : List Int
  j : Nat
  isNil : Bool
deriving Repr, DecidableEq

/-- What the caller passed as `dst`. `alias1`/`alias2`: `s1[:k]` / `s2[:k]` (any `k`). -/
inductive Dst where
  | nil | fresh | alias1 | alias2
deriving Repr, DecidableEq

/-- `dst = dst[:0]`. An alias of a nil slice is nil. -/
def Out.init (d : Dst) (nil1 nil2 : Bool) : Out :=
  match d with
  | .nil => ⟨.own, [], 0, true⟩
  | .fresh => ⟨.own, [], 0, false⟩
  | .alias1 => if nil1 then ⟨.own, [], 0, true⟩ else ⟨.in1, [], 0, false⟩
  | .alias2 => if nil2 then ⟨.own, [], 0, true⟩ else ⟨.in2, [], 0, false⟩

/-- `dst = append(dst, v)` (capacity of an aliased dst = length of that input's array). -/
def push (M : Mem) (o : Out) (v : Int) : Mem × Out :=
  match o.loc with
  | .own => (M, { o with own := o.own ++ [v], isNil := false })
  | .in1 =>
    if o.j < M.m1.length then ({ M with m1 := M.m1.set o.j v }, { o with j := o.j + 1 })
    else (M, ⟨.own, M.m1.take o.j ++ [v], 0, false⟩)
  | .in2 =>
    if o.j < M.m2.length then ({ M with m2 := M.m2.set o.j v }, { o with j := o.j + 1 })
    else (M, ⟨.own, M.m2.take o.j ++ [v], 0, false⟩)

/-- The returned slice. -/
def Out.result (M : Mem) (o : Out) : Sl :=
  match o.loc with
  | .own => ⟨o.isNil, o.own⟩
  | .in1 => ⟨false, M.m1.take o.j⟩
  | .in2 => ⟨false, M.m2.take o.j⟩

/-- One iteration of `for _, v := range s1 { if sel(v) { dst = append(dst, v) } }` at read
cursor `i`: read `s1[i]` from the live memory, maybe append.  The selector may carry state
(the `seen` map of `Unique`). -/
def selStep {σ : Type} (sel : σ → Int → σ × Bool) (i : Nat) (st : σ) (M : Mem) (o : Out) :
    Option (σ × Mem × Out) :=
  match M.m1[i]? with
  | none => none
  | some v =>
    let (st', take) := sel st v
    let (M', o') := if take then push M o v else (M, o)
    some (st', M', o')

/-- The whole loop: `i` is the read cursor, fuel = `len(s1) - i`. -/
def selLoop {σ : Type} (sel : σ → Int → σ × Bool) :
    (fuel i : Nat) → σ → Mem → Out → Option (Mem × Out)
  | 0, _, _, M, o => some (M, o)
  | f + 1, i, st, M, o =>
    match selStep sel i st M o with
    | none => none
    | some (st', M', o') => selLoop sel f (i + 1) st' M' o'

/-- `append(dst, s1...)`. -/
def pushAll (fuel i : Nat) (M : Mem) (o : Out) : Option (Mem × Out) :=
  selLoop (σ := Unit) (fun _ _ => ((), true)) fuel i () M o

/-- `seen[k] = struct{}{}` -/
def mapInsert (seen : List Int) (k : Int) : List Int := if seen.contains k then seen else k :: seen

/-- the `Unique` selector: `seen[key(v)] = {}; if uniqueCount < len(seen) { …; uniqueCount = len(seen) }` -/
def uniqueSel (key : Int → Int) (st : List Int × Nat) (v : Int) : (List Int × Nat) × Bool :=
  let seen := mapInsert st.1 (key v)
  if st.2 < seen.length then ((seen, seen.length), true) else ((seen, st.2), false)

def statelessSel (p : Int → Bool) (_ : Unit) (v : Int) : Unit × Bool := ((), p v)

/-- result of a dst-style function: final memories and the returned slice -/
structure DstRes where
  mem : Mem
  res : Sl
deriving Repr, DecidableEq

def finish (r : Option (Mem × Out)) : Option DstRes :=
  r.map fun (M, o) => ⟨M, o.result M⟩

def diff (d : Dst) (nil1 nil2 : Bool) (M : Mem) : Option DstRes :=
  let o := Out.init d nil1 nil2
  if M.m1.length = 0 then some ⟨M, o.result M⟩
  else if M.m2.length = 0 then finish (pushAll M.m1.length 0 M o)
  else
    let m := M.m2     -- the map is built from s2 before the first write
    finish (selLoop (statelessSel fun v => !m.contains v) M.m1.length 0 () M o)

def intersect (d : Dst) (nil1 nil2 : Bool) (M : Mem) : Option DstRes :=
  let o := Out.init d nil1 nil2
  if M.m1.length = 0 ∨ M.m2.length = 0 then some ⟨M, o.result M⟩
  else
    let m := M.m2
    finish (selLoop (statelessSel fun v => m.contains v) M.m1.length 0 () M o)

def uniqueByKey (key : Int → Int) (d : Dst) (nil1 : Bool) (M : Mem) : Option DstRes :=
  let o := Out.init d nil1 true
  if M.m1.length = 0 then some ⟨M, o.result M⟩
  else finish (selLoop (uniqueSel key) M.m1.length 0 ([], 0) M o)

def unique (d : Dst) (nil1 : Bool) (M : Mem) : Option DstRes := uniqueByKey id d nil1 M

def filter (p : Int → Bool) (d : Dst) (nil1 : Bool) (M : Mem) : Option DstRes :=
  let o := Out.init d nil1 true
  finish (selLoop (statelessSel p) M.m1.length 0 () M o)

/-! ### in-place variants: swap partition -/

/-- `s[remain], s[i] = s[i], s[remain]` -/
def swap (m : List Int) (r i : Nat) : Option (List Int) :=
  match m[i]?, m[r]? with
  | some vi, some vr => some ((m.set r vi).set i vr)
  | _, _ => none

/-- `for i := range s { if sel(s[i]) { swap; remain++ } }` -/
def ipLoop {σ : Type} (sel : σ → Int → σ × Bool) :
    (fuel i : Nat) → σ → (m : List Int) → (remain : Nat) → Option (List Int × Nat)
  | 0, _, _, m, r => some (m, r)
  | f + 1, i, st, m, r =>
    match m[i]? with
    | none => none
    | some v =>
      let (st', take) := sel st v
      if take then
        match swap m r i with
        | none => none
        | some m' => ipLoop sel f (i + 1) st' m' (r + 1)
      else ipLoop sel f (i + 1) st' m r

/-- result of an in-place function: the argument's memory afterwards and `s[:remain]` -/
structure IpRes where
  mem : List Int
  res : Sl
deriving Repr, DecidableEq

def ipFinish (nil1 : Bool) (r : Option (List Int × Nat)) : Option IpRes :=
  r.map fun (m, k) => ⟨m, ⟨nil1, m.take k⟩⟩

def diffInPlaceFirst (nil1 : Bool) (m1 m2 : List Int) : Option IpRes :=
  if m1.length = 0 ∨ m2.length = 0 then some ⟨m1, ⟨nil1, m1⟩⟩
  else ipFinish nil1 (ipLoop (statelessSel fun v => !m2.contains v) m1.length 0 () m1 0)

def intersectInPlaceFirst (nil1 : Bool) (m1 m2 : List Int) : Option IpRes :=
  if m1.length = 0 ∨ m2.length = 0 then some ⟨m1, ⟨nil1, []⟩⟩
  else ipFinish nil1 (ipLoop (statelessSel fun v => m2.contains v) m1.length 0 () m1 0)

def uniqueByKeyInPlace (key : Int → Int) (nil1 : Bool) (m1 : List Int) : Option IpRes :=
  if m1.length = 0 then some ⟨m1, ⟨nil1, m1⟩⟩
  else ipFinish nil1 (ipLoop (uniqueSel key) m1.length 0 ([], 0) m1 0)

def uniqueInPlace (nil1 : Bool) (m1 : List Int) : Option IpRes := uniqueByKeyInPlace id nil1 m1

def filterInPlace (p : Int → Bool) (nil1 : Bool) (m1 : List Int) : Option IpRes :=
  ipFinish nil1 (ipLoop (statelessSel p) m1.length 0 () m1 0)

/-! ### pure readers with clamping -/

/-- `Equal`: lengths differ → false; otherwise element-wise (`s2[:len(s1)]` cannot panic then). -/
def equalLoop : List Int → List Int → Option Bool
  | [], _ => some true
  | _ :: _, [] => none          -- s2[i] out of range: unreachable after the length test
  | a :: as, b :: bs => if a != b then some false else equalLoop as bs

def equal (s1 s2 : List Int) : Option Bool :=
  if s1.length != s2.length then some false else equalLoop s1 s2

/-- `Index` / `IndexFunc`: first `i` with `fn(s[i])`, else `-1`. -/
def indexFuncFrom (fn : Int → Bool) : List Int → Nat → Int
  | [], _ => -1
  | x :: xs, i => if fn x then (i : Int) else indexFuncFrom fn xs (i + 1)

def indexFunc (s : List Int) (fn : Int → Bool) : Int := indexFuncFrom fn s 0
def index (s : List Int) (v : Int) : Int := indexFunc s (fun x => v == x)
def contains (s : List Int) (v : Int) : Bool := index s v ≥ 0
def containsFunc (s : List Int) (fn : Int → Bool) : Bool := indexFunc s fn ≥ 0

/-- A returned slice that may share memory with the argument: a view `[start, start+len)`
of the argument's array, or `nil`, or freshly allocated memory. -/
inductive View where
  | nil
  | view (start len : Nat)
  | fresh (xs : List Int)
deriving Repr, DecidableEq

/-- Go slice expression `s[lo:hi]` (cap = len): panics unless `0 ≤ lo ≤ hi ≤ len`. -/
def sliceView (n : Nat) (lo hi : Int) : Option View :=
  if 0 ≤ lo ∧ lo ≤ hi ∧ hi ≤ (n : Int) then some (.view lo.toNat (hi.toNat - lo.toNat)) else none

def View.content (s : List Int) : View → Sl
  | .nil => Sl.nil
  | .view st len => ⟨false, (s.drop st).take len⟩
  | .fresh xs => ⟨false, xs⟩

def subSlice (n : Nat) (start «end» : Int) : Option View :=
  if start > n then some .nil
  else
    let start := if start < 0 then 0 else start
    let «end» := if «end» < 0 ∨ «end» > n then (n : Int) else «end»
    if start ≥ «end» then some .nil
    else sliceView n start «end»

def copy (s : List Int) (start length : Int) : Option View :=
  let l : Int := s.length
  if l = 0 ∨ start ≥ l ∨ length = 0 then some .nil
  else
    let start := if start < 0 then 0 else start
    let maxn := l - start
    let length := if length < 0 ∨ length > maxn then maxn else length
    match sliceView s.length start (start + length) with
    | none => none
    | some v => some (.fresh (v.content s).xs)     -- append([]T(nil), s[a:b]...)

/-- `Values(fn, ss...)`: `make([]V, n)` then fill with a running index. -/
def valuesFill (fn : Int → Int) : List Int → List Int → Nat → Option (List Int × Nat)
  | [], ret, n => some (ret, n)
  | v :: vs, ret, n =>
    if n < ret.length then valuesFill fn vs (ret.set n (fn v)) (n + 1) else none

def valuesLoop (fn : Int → Int) : List (List Int) → List Int → Nat → Option (List Int)
  | [], ret, _ => some ret
  | s :: ss, ret, n =>
    match valuesFill fn s ret n with
    | none => none
    | some (ret', n') => valuesLoop fn ss ret' n'

def values (fn : Int → Int) (ss : List (List Int)) : Option (List Int) :=
  let n := (ss.map List.length).sum
  valuesLoop fn ss (List.replicate n 0) 0

/-- `copy(dst, src)` inside one array: `copy(m[d:], m[s:])` with memmove semantics. -/
def copyWithin (m : List Int) (d s : Nat) : List Int :=
  let src := m.drop s
  let n := min (m.length - d) src.length
  m.take d ++ src.take n ++ m.drop (d + n)

/-- `Remove(s, index)`: memory of `s` afterwards, returned slice, value, ok. -/
def remove (nil1 : Bool) (s : List Int) (index : Int) : Option (List Int × Sl × Int × Bool) :=
  if index < 0 ∨ index ≥ s.length then some (s, ⟨nil1, s⟩, 0, false)
  else
    let last := s.length - 1
    let i := index.toNat
    match s[i]? with
    | none => none
    | some v =>
      let m := if i < last then copyWithin s i (i + 1) else s
      if last < m.length then
        let m := m.set last 0
        some (m, ⟨false, m.take last⟩, v, true)
      else none

/-! ### Chunk / ChunkProcess -/

/-- the loop `for i := 0; i < n; i++ { end = start+size; chunks = append(chunks, s[start:end]); start = end }`;
chunks are views (start, len); `none` = slice-bounds panic. -/
def chunkLoop (len size : Nat) : (fuel start : Nat) → List (Nat × Nat) → Option (List (Nat × Nat) × Nat)
  | 0, start, acc => some (acc, start)
  | f + 1, start, acc =>
    let «end» := start + size
    if «end» ≤ len then chunkLoop len size f «end» (acc ++ [(start, size)]) else none

/-- `Chunk`: `none` result = nil; otherwise the list of views. -/
def chunk (len : Nat) (chunkSize : Int) : Option (Option (List (Nat × Nat))) :=
  if len = 0 then some none
  else if chunkSize < 1 ∨ (len : Int) ≤ chunkSize then some (some [(0, len)])
  else
    let size := chunkSize.toNat
    let n := len / size
    match chunkLoop len size n 0 [] with
    | none => none
    | some (chunks, start) =>
      if len > start then some (some (chunks ++ [(start, len - start)])) else some (some chunks)

/-- `ChunkProcess` with a callback that fails on its `failAt`-th call (1-based; 0 = never):
the chunks `process` was called with, and whether an error came back. -/
def chunkProcLoop (len size failAt : Nat) : (fuel start calls : Nat) → List (Nat × Nat) →
    Option (List (Nat × Nat) × Nat × Bool)
  | 0, start, _, acc => some (acc, start, false)
  | f + 1, start, calls, acc =>
    let «end» := start + size
    if «end» ≤ len then
      let acc := acc ++ [(start, size)]
      if calls + 1 = failAt then some (acc, «end», true)
      else chunkProcLoop len size failAt f «end» (calls + 1) acc
    else none

def chunkProcess (len : Nat) (chunkSize : Int) (failAt : Nat) : Option (List (Nat × Nat) × Bool) :=
  if len = 0 then some ([], false)
  else if chunkSize < 1 ∨ (len : Int) ≤ chunkSize then some ([(0, len)], failAt = 1)
  else
    let size := chunkSize.toNat
    let n := len / size
    match chunkProcLoop len size failAt n 0 0 [] with
    | none => none
    | some (calls, _, true) => some (calls, true)
    | some (calls, start, false) =>
      if len > start then some (calls ++ [(start, len - start)], calls.length + 1 = failAt)
      else some (calls, false)

end Golib.C14
