/-
The scan loops of `Match` / `find` AS CODED: `for i := 0; i < len(text); { r, size = decodeRune(text, i);
i += size; … }` — one rune is decoded at position `i`, the automaton steps, `i` advances by
`size`.  State: the rest of the text `text[i:]`, the node, `i`, the scopes so far.  (The model
in `Golib/Model/C05Trie.lean` decodes the whole text first; `c05_stream_eq_decoded` proves the
two equal.)  The fuel is `len(text)`; every iteration consumes at least one byte.
-/
import Golib.Model.C05Trie

namespace Golib.C05
open Golib

def findStream (t : Trie) : Nat → List Nat → Label → Nat → List Scope → Option (List Scope)
  | _, [], _, _, acc => some acc                      -- i == len(text)
  | 0, _ :: _, _, _, _ => none
  | fuel + 1, b :: rest, node, i, acc =>
    let st := decodeStep (b :: rest)                  -- r, size = decodeRune(text, i)
    let i := i + st.2                                 -- i += size
    match fallback t node st.1 with
    | none => none
    | some (node, none) => findStream t fuel ((b :: rest).drop st.2) node i acc
    | some (node, some idx) =>
      match childAt t node idx with
      | none => none
      | some node' =>
        match outWalk t i (node'.length + 1) node' with
        | none => none
        | some out => findStream t fuel ((b :: rest).drop st.2) node' i (acc ++ out)

def matchStream (t : Trie) : Nat → List Nat → Label → Option Bool
  | _, [], _ => some false
  | 0, _ :: _, _ => none
  | fuel + 1, b :: rest, node =>
    let st := decodeStep (b :: rest)
    match fallback t node st.1 with
    | none => none
    | some (node, none) => matchStream t fuel ((b :: rest).drop st.2) node
    | some (node, some idx) =>
      match childAt t node idx with
      | none => none
      | some node' =>
        match anyEndWalk t (node'.length + 1) node' with
        | none => none
        | some true => some true
        | some false => matchStream t fuel ((b :: rest).drop st.2) node'

/-- `find(text, &scopes)` as coded. -/
def Trie.findStreaming (t : Trie) (text : List Nat) : Option (List Scope) :=
  findStream t text.length text [] 0 []
/-- `Match(text)` as coded. -/
def Trie.matchStreaming (t : Trie) (text : List Nat) : Option Bool :=
  matchStream t text.length text []

end Golib.C05
