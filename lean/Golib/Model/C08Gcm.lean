/-
AES-GCM (NIST SP 800-38D) with a 16-byte tag and any non-empty nonce, core-only and
executable: GHASH over GF(2^128), GCTR with the 32-bit counter increment.

Executable instance of the `AEAD` parameter of the C08/C09 models; a model of the Go
standard library (`cipher.NewGCMWithNonceSize`), NOT of code in /repo.  Nothing is proved
about it (`open (seal p) = some p` is a hypothesis of the property theorems).  Validated
  * at build time against the test cases 1–6, 10, 16 of the GCM specification
    (McGrew–Viega, the vectors behind SP 800-38D) — `#guard` lines at the end: TESTS;
  * on every run against `crypto/cipher` through the correspondence check.
-/
import Golib.Model.C08Aes

namespace Golib.C08.GCM
open Golib.C08.AES

def toNatBE (b : List Nat) : Nat := b.foldl (fun a x => a * 256 + x % 256) 0

def ofNatBE (len : Nat) (n : Nat) : List Nat :=
  (List.range len).map fun i => (n >>> (8 * (len - 1 - i))) % 256

/-- `R = 11100001 ‖ 0^120` -/
def rPoly : Nat := 0xe1 <<< 120

/-- multiplication in GF(2^128), SP 800-38D algorithm 1 (bit 0 = most significant). -/
def gfMul (x y : Nat) : Nat :=
  ((List.range 128).foldl (fun (zv : Nat × Nat) i =>
      let z := zv.1
      let v := zv.2
      let z' := if (x >>> (127 - i)) % 2 = 1 then z ^^^ v else z
      let v' := if v % 2 = 1 then (v >>> 1) ^^^ rPoly else v >>> 1
      (z', v')) (0, y)).1

def pad16 (b : List Nat) : List Nat := b ++ List.replicate ((16 - b.length % 16) % 16) 0

def chunks16 : Nat → List Nat → List (List Nat)
  | 0, _ => []
  | f + 1, x => if x.isEmpty then [] else x.take 16 :: chunks16 f (x.drop 16)

/-- GHASH_H over a byte string whose length is a multiple of 16. -/
def ghash (h : Nat) (data : List Nat) : Nat :=
  (chunks16 data.length data).foldl (fun y blk => gfMul (y ^^^ toNatBE blk) h) 0

def ghashAC (h : Nat) (a c : List Nat) : Nat :=
  ghash h (pad16 a ++ pad16 c ++ ofNatBE 8 (8 * a.length) ++ ofNatBE 8 (8 * c.length))

def j0 (h : Nat) (nonce : List Nat) : List Nat :=
  if nonce.length = 12 then nonce ++ [0, 0, 0, 1]
  else ofNatBE 16 (ghash h (pad16 nonce ++ List.replicate 8 0 ++ ofNatBE 8 (8 * nonce.length)))

def inc32 (cb : List Nat) : List Nat :=
  cb.take 12 ++ ofNatBE 4 ((toNatBE (cb.drop 12) + 1) % 2 ^ 32)

def gctr (key : List Nat) : Nat → List Nat → List Nat → List Nat
  | 0, _, _ => []
  | f + 1, cb, x =>
    if x.isEmpty then []
    else xorBlock (x.take 16) (encryptBlock key cb) ++ gctr key f (inc32 cb) (x.drop 16)

def tagOf (key : List Nat) (h : Nat) (j : List Nat) (ad c : List Nat) : List Nat :=
  xorBlock (encryptBlock key j) (ofNatBE 16 (ghashAC h ad c))

/-- `gcm.Seal(nil, nonce, plaintext, ad)` -/
def gcmSeal (key nonce plaintext ad : List Nat) : List Nat :=
  let h := toNatBE (encryptBlock key (List.replicate 16 0))
  let j := j0 h nonce
  let c := gctr key plaintext.length (inc32 j) plaintext
  c ++ tagOf key h j ad c

/-- `gcm.Open(nil, nonce, ciphertext, ad)`; `none` = "message authentication failed"
(also for inputs shorter than the tag). -/
def gcmOpen (key nonce ciphertext ad : List Nat) : Option (List Nat) :=
  if ciphertext.length < 16 then none
  else
    let c := ciphertext.take (ciphertext.length - 16)
    let tag := ciphertext.drop (ciphertext.length - 16)
    let h := toNatBE (encryptBlock key (List.replicate 16 0))
    let j := j0 h nonce
    if tagOf key h j ad c = tag then some (gctr key c.length (inc32 j) c) else none

/-! ### Tests (GCM specification test cases) — `#guard` evaluates, it proves nothing. -/

private def hx (s : String) : List Nat :=
  let d := fun (c : Char) => if c.toNat ≥ 97 then c.toNat - 87 else c.toNat - 48
  let rec go : List Char → List Nat
    | a :: b :: r => (d a * 16 + d b) :: go r
    | _ => []
  go s.toList

private def kK := hx "feffe9928665731c6d6a8f9467308308"
private def pP := hx "d9313225f88406e5a55909c5aff5269a86a7a9531534f7da2e4c303d8a318a721c3c0c95956809532fcf0e2449a6b525b16aedf5aa0de657ba637b391aafd255"
private def aA := hx "feedfacedeadbeeffeedfacedeadbeefabaddad2"
private def iv96 := hx "cafebabefacedbaddecaf888"

-- test: case 1 (empty plaintext, zero key and IV)
#guard gcmSeal (List.replicate 16 0) (List.replicate 12 0) [] [] = hx "58e2fccefa7e3061367f1d57a4e7455a"
-- test: case 2
#guard gcmSeal (List.replicate 16 0) (List.replicate 12 0) (List.replicate 16 0) [] =
  hx "0388dace60b6a392f328c2b971b2fe78ab6e47d42cec13bdf53a67b21257bddf"
-- test: case 3 (four blocks)
#guard gcmSeal kK iv96 pP [] =
  hx "42831ec2217774244b7221b784d0d49ce3aa212f2c02a4e035c17e2329aca12e21d514b25466931c7d8f6a5aac84aa051ba30b396a0aac973d58e091473f59854d5c2af327cd64a62cf35abd2ba6fab4"
-- test: case 4 (60-byte plaintext, additional data)
#guard gcmSeal kK iv96 (pP.take 60) aA =
  hx "42831ec2217774244b7221b784d0d49ce3aa212f2c02a4e035c17e2329aca12e21d514b25466931c7d8f6a5aac84aa051ba30b396a0aac973d58e0915bc94fbc3221a5db94fae95ae7121a47"
-- test: case 5 (8-byte IV)
#guard gcmSeal kK (hx "cafebabefacedbad") (pP.take 60) aA =
  hx "61353b4c2806934a777ff51fa22a4755699b2a714fcdc6f83766e5f97b6c742373806900e49f24b22b097544d4896b424989b5e1ebac0f07c23f45983612d2e79e3b0785561be14aaca2fccb"
-- test: case 6 (60-byte IV)
#guard gcmSeal kK (hx "9313225df88406e555909c5aff5269aa6a7a9538534f7da1e4c303d2a318a728c3c0c95156809539fcf0e2429a6b525416aedbf5a0de6a57a637b39b") (pP.take 60) aA =
  hx "8ce24998625615b603a033aca13fb894be9112a5c3a211a8ba262a3cca7e2ca701e4a9a4fba43c90ccdcb281d48c7c6fd62875d2aca417034c34aee5619cc5aefffe0bfa462af43c1699d050"
-- test: case 10 (AES-192)
#guard gcmSeal (kK ++ hx "feffe9928665731c") iv96 (pP.take 60) aA =
  hx "3980ca0b3c00e841eb06fac4872a2757859e1ceaa6efd984628593b40ca1e19c7d773d00c144c525ac619d18c84a3f4718e2448b2fe324d9ccda27102519498e80f1478f37ba55bd6d27618c"
-- test: case 16 (AES-256)
#guard gcmSeal (kK ++ kK) iv96 (pP.take 60) aA =
  hx "522dc1f099567d07f47f37a32a84427d643a8cdcbfe5c0c97598a2bd2555d1aa8cb08e48590dbb3da7b08b1056828838c5f61e6393ba7a0abcc9f66276fc6ece0f4e1768cddf8853bb2d551b"
-- test: Open inverts Seal and rejects a flipped tag bit / a short input
#guard gcmOpen kK iv96 (gcmSeal kK iv96 (pP.take 60) aA) aA = some (pP.take 60)
#guard gcmOpen kK iv96 ((gcmSeal kK iv96 (pP.take 60) aA).set 75 0) aA = none
#guard gcmOpen kK iv96 (pP.take 15) aA = none

end Golib.C08.GCM
