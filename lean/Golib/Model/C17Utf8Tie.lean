/-
Exhaustive tie of the shared UTF-8 prelude (`Golib/Prelude/Utf8.lean`) to Go's
`unicode/utf8`.  The prelude is the trusted base of C05, C07, C17 and C20; this section of
the oracle lets the harness compare it with the standard library on whole *ranges* of
inputs with one protocol line per range: the driver folds every result of the range into a
64-bit digest (FNV-1a style, `UInt64` wrap-around), the harness folds the results of the
real `utf8.DecodeRune / AppendRune / RuneLen / ValidRune` in the same order and compares.
On a difference the harness narrows the range down to one input and prints both answers
(`seq`, `rune`).

Header `@ C17 utf8`; operations (all numbers decimal):

  dec0                          DecodeRune of the empty input
  dec1 <lo> <hi>                DecodeRune([b0])                      for lo ≤ b0 ≤ hi
  dec <a> <b> <c> <d> <s2> <s3> DecodeRune([b0,b1(,b2(,b3))])         for a ≤ b0 ≤ b, c ≤ b1 ≤ d,
                                b2 ∈ s2, b3 ∈ s3 with s = none | bnd | all  (`none`: the input ends there)
  runes <lo> <hi>               for every int32 value lo ≤ r ≤ hi: AppendRune(nil, r) (length, bytes),
                                RuneLen(r), ValidRune(r), DecodeRune(AppendRune(nil, r))
  seq <hex>                     DecodeRune(bytes)            -> <rune> <size>
  rune <r>                      -> <hex AppendRune> <RuneLen> <ValidRune>
  str <hex>                     -> <Valid> <RuneCount> <hex string([]rune(s))> <off:rune:size,…>  (the range loop)
-/
import Golib.Proto
import Golib.Prelude.Utf8

namespace Golib.C17.Tie
open Golib.Proto Golib.Utf8

def mix (h : UInt64) (x : Nat) : UInt64 := (h ^^^ UInt64.ofNat x) * 1099511628211

/-- runes are `int32`: shifted by 2^32 so that negative values fold as naturals. -/
def mixInt (h : UInt64) (r : Int) : UInt64 := mix h (r + 4294967296).toNat

def mixDec (h : UInt64) (bs : List Nat) : UInt64 :=
  let (r, sz) := decodeRune bs
  mix (mixInt h r) sz

def h0 : UInt64 := 14695981039346656037

/-- Boundary values of a second/third/fourth byte: the edges of every accept range of
`leader`, of the continuation range and of the byte range. -/
def bnd : List Nat :=
  [0x00, 0x01, 0x7f, 0x80, 0x81, 0x8f, 0x90, 0x9f, 0xa0, 0xbe, 0xbf, 0xc0, 0xc2, 0xe0, 0xed, 0xf0, 0xf4, 0xff]

def setOf : String → Option (Option (List Nat))
  | "none" => some none
  | "bnd" => some (some bnd)
  | "all" => some (some (List.range 256))
  | _ => none

/-- `[lo, lo+1, …, hi]` (empty when `hi < lo`). -/
def fromTo (lo hi : Nat) : List Nat := List.range' lo (hi + 1 - lo)

def decRange (a b c d : Nat) (s2 s3 : Option (List Nat)) : UInt64 :=
  (fromTo a b).foldl (init := h0) fun h b0 =>
    (fromTo c d).foldl (init := h) fun h b1 =>
      match s2 with
      | none => mixDec h [b0, b1]
      | some l2 =>
        l2.foldl (init := h) fun h b2 =>
          match s3 with
          | none => mixDec h [b0, b1, b2]
          | some l3 => l3.foldl (init := h) fun h b3 => mixDec h [b0, b1, b2, b3]

def mixRune (h : UInt64) (r : Int) : UInt64 :=
  let e := encodeRune r
  let h := mix h e.length
  let h := e.foldl mix h
  let h := mixInt h (runeLen r)
  let h := mix h (if validRune r then 1 else 0)
  mixDec h e

/-- `n` consecutive runes starting at `r`. -/
def runesRange : Nat → Int → UInt64 → UInt64
  | 0, _, h => h
  | n + 1, r, h => runesRange n (r + 1) (mixRune h r)

def showStr (bs : List Nat) : String :=
  let steps := rangeDecode bs
  let items := steps.map fun (off, r, sz) => s!"{off}:{r}:{sz}"
  let tail := if items.isEmpty then "-" else ",".intercalate items
  s!"{showBool (valid bs)} {runeCount bs} {hex (encode (runes bs))} {tail}"

def runOp (ts : List String) : String :=
  match ts with
  | ["dec0"] => toString (mixDec h0 []).toNat
  | ["dec1", lo, hi] =>
    match lo.toNat?, hi.toNat? with
    | some lo, some hi =>
      if hi < 256 then toString ((fromTo lo hi).foldl (init := h0) fun h b0 => mixDec h [b0]).toNat
      else "bad-op"
    | _, _ => "bad-op"
  | ["dec", a, b, c, d, s2, s3] =>
    match a.toNat?, b.toNat?, c.toNat?, d.toNat?, setOf s2, setOf s3 with
    | some a, some b, some c, some d, some s2, some s3 =>
      if b < 256 ∧ d < 256 ∧ ¬ (s2.isNone ∧ s3.isSome) then toString (decRange a b c d s2 s3).toNat
      else "bad-op"
    | _, _, _, _, _, _ => "bad-op"
  | ["runes", lo, hi] =>
    match lo.toInt?, hi.toInt? with
    | some lo, some hi =>
      if -2147483648 ≤ lo ∧ hi ≤ 2147483647 ∧ hi - lo < 4194304 then
        toString (runesRange (hi + 1 - lo).toNat lo h0).toNat
      else "bad-op"
    | _, _ => "bad-op"
  | ["seq", h] =>
    match unhex h with
    | some bs => let (r, sz) := decodeRune bs; s!"{r} {sz}"
    | none => "bad-op"
  | ["rune", r] =>
    match r.toInt? with
    | some r =>
      if -2147483648 ≤ r ∧ r ≤ 2147483647 then
        s!"{hex (encodeRune r)} {runeLen r} {showBool (validRune r)}"
      else "bad-op"
    | none => "bad-op"
  | ["str", h] =>
    match unhex h with
    | some bs => showStr bs
    | none => "bad-op"
  | _ => "bad-op"

def runCase (ops : List String) : List String :=
  "ok" :: ops.map fun l => runOp (toks l)

end Golib.C17.Tie
