/-
Driver of the C04 section of the oracle.

  @ C04 slice <cmp> v…       Slice[int] from FromSlice(v…)      ops: push pop peek len rm fix set setfix popall popalln seq range rangeall popallbody pull next stop
  @ C04 heap <cmp>           two Heap[int] (A, B) from New(0,·) ops: init initc push pushe pop peek len rm fix setv setfix setrm popall popalln seq range rangeall copyrm copyfix popallbody pull next stop
  @ C04 slicen <cmp> <cap>   Slice[int] from NewSlice(cap,·)     ops: as slice
  @ C04 generic <cmp> v…     recording container holding v…     ops: init push pop rm fix set

After every operation the whole observable state is printed: `Slice.Values` / `Len()` of both
heaps and `Index()`,`Value` of every element ever allocated / the `Less`,`Swap` calls made and
the container's data.
-/
import Golib.Model.C04Clients

namespace Golib.C04
open Golib.Proto
open Golib.C13 (PM IM)

def bad (ops : List String) : List String := "bad-op" :: ops.map fun _ => "bad-op"

/-- Generic op loop: `none` = unparsable, `some none` = panic. -/
def runOps {σ : Type} (step : σ → List String → Option (Option (σ × String))) :
    Option σ → List String → List String
  | _, [] => []
  | none, _ :: ls => "dead" :: runOps step none ls
  | some s, l :: ls =>
    match step s (toks l) with
    | none => "bad-op" :: runOps step (some s) ls
    | some none => "panic" :: runOps step none ls
    | some (some (s1, out)) => out :: runOps step (some s1) ls

/-! ### slice -/

def showSRet : SRet → String
  | .unit => "ok"
  | .val x ok => s!"{x} {showBool ok}"
  | .len n => toString n
  | .vals xs => showInts xs

/-- One line → one client call (`SOp`), or the bare write `set i v` (`s.Values[i] = v` without a
`Fix`; the generator follows it by `fix`). -/
def parseSOp (ts : List String) : Option SOp :=
  match ts with
  | ["push", x] => do pure (.push (← x.toInt?))
  | ["pop"] => pure .pop
  | ["peek"] => pure .peek
  | ["len"] => pure .len
  | ["rm", i] => do pure (.remove (← i.toInt?))
  | ["fix", i] => do pure (.fix (← i.toInt?))
  | ["setfix", i, v] => do pure (.setFix (← i.toNat?) (← v.toInt?))
  | ["popall"] => pure .popAll
  | ["popalln", k] => do
    let k ← k.toNat?
    if k = 0 then none else pure (.popAllN k)
  | _ => none

/-- `i:act[:arg]` items of a `popallbody` line → the script (calls of iteration 0, 1, …). -/
def mkScript {α : Type} (items : List (Nat × α)) : List (List α) :=
  let n := items.foldl (fun acc p => max acc (p.1 + 1)) 0
  (List.range n).map fun i => (items.filter fun p => p.1 == i).map fun p => p.2

def parseSBodyItem (t : String) : Option (Nat × SOp) :=
  match t.splitOn ":" with
  | [i, "push", v] => do pure (← i.toNat?, .push (← v.toInt?))
  | [i, "peek"] => do pure (← i.toNat?, .peek)
  | [i, "len"] => do pure (← i.toNat?, .len)
  | [i, "pop"] => do pure (← i.toNat?, .pop)
  | [i, "rm", j] => do pure (← i.toNat?, .remove (← j.toInt?))
  | [i, "fix", j] => do pure (← i.toNat?, .fix (← j.toInt?))
  | _ => none

/-- The slice driver's state: `Values`, the number of Seq values (`q := s.PopAll()`) the client
holds — all of them denote this one slice, so `range i k` is `popalln k` for every known slot — and
the `iter.Pull` cursors made from them (`true` = still active; `next` on an active cursor is one
`Pop`, which finishes the cursor when the slice is empty). -/
structure SClient where
  s    : List Int
  nseq : Nat
  curs : List Bool

def sliceStep (cmp : Int → Int → Bool) (st : SClient) (ts : List String) :
    Option (Option (SClient × String)) :=
  let s := st.s
  match ts with
  | ["set", i, v] => do
    let i ← i.toNat?; let v ← v.toInt?
    if i < s.length then pure (some ({ st with s := s.set i v }, s!"ok {showInts (s.set i v)}")) else none
  | ["seq"] => pure (some ({ st with nseq := st.nseq + 1 }, s!"ok {showInts s}"))
  | ["pull", i] => do
    let i ← i.toNat?
    if i < st.nseq then pure (some ({ st with curs := st.curs ++ [true] }, s!"ok {showInts s}")) else none
  | ["stop", j] => do
    let j ← j.toNat?
    if j < st.curs.length then pure (some ({ st with curs := st.curs.set j false }, s!"ok {showInts s}")) else none
  | ["next", j] => do
    let j ← j.toNat?
    match st.curs[j]? with
    | none => none
    | some false => pure (some (st, s!"0 false {showInts s}"))
    | some true =>
      pure ((stepS cmp s .pop).map fun (s1, r) =>
        match r with
        | .val x true => ({ st with s := s1 }, s!"{x} true {showInts s1}")
        | _ => ({ st with s := s1, curs := st.curs.set j false }, s!"0 false {showInts s1}"))
  | "popallbody" :: k :: items => do
    let k ← k.toNat?
    let items ← items.mapM parseSBodyItem
    let script := mkScript items
    let fuel := s.length + (script.map List.length).sum + 1
    pure ((Slice.popAllBody cmp (scriptBodyS script) k fuel 0 s).map fun (s1, xs, rs, d) =>
      ({ st with s := s1 },
       if d then s!"{showInts xs} {showInts (rs.flatMap SRet.toInts)} {showInts s1}" else s!"hang {showInts s1}"))
  | _ => do
    let op ← (match ts with
      | ["range", i, k] => do
        let i ← i.toNat?; let k ← k.toNat?
        if i < st.nseq ∧ k ≠ 0 then pure (SOp.popAllN k) else none
      | ["rangeall", i] => do
        let i ← i.toNat?
        if i < st.nseq then pure SOp.popAll else none
      | _ => parseSOp ts)
    pure ((stepS cmp s op).map fun (s1, r) => ({ st with s := s1 }, s!"{showSRet r} {showInts s1}"))

def runSliceFrom (cmp : Int → Int → Bool) (vs : List Int) (ops : List String) : List String :=
  match Slice.fromSlice cmp vs with
  | none => "panic" :: runOps (sliceStep cmp) none ops
  | some s => s!"ok {showInts s}" :: runOps (sliceStep cmp) (some ⟨s, 0, []⟩) ops

def runSlice (hdr ops : List String) : List String :=
  match hdr with
  | c :: vs =>
    match cmpOf c, ints? vs with
    | some cmp, some vs => runSliceFrom cmp vs ops
    | _, _ => bad ops
  | _ => bad ops

/-- `@ C04 slicen <cmp> <cap>` : `NewSlice(cap, cmp)` — the capacity is not observable. -/
def runSliceN (hdr ops : List String) : List String :=
  match hdr with
  | [c, cap] =>
    match cmpOf c, cap.toNat? with
    | some cmp, some _ => runSliceFrom cmp [] ops
    | _, _ => bad ops
  | _ => bad ops

/-! ### heap -/

def HMem.dump (m : HMem) : String :=
  let cells := (List.range m.fresh).map fun e => s!"{e}:{m.idx.get e}:{m.val.get e}"
  s!"A={m.a0.length} B={m.a1.length} | " ++ " ".intercalate cells

def parseHeap (t : String) : Option (Fin 2) :=
  if t = "A" then some 0 else if t = "B" then some 1 else none

def parseElem (m : HMem) (t : String) : Option Nat :=
  match t.toNat? with
  | some e => if e < m.fresh then some e else none
  | none => none

def showElem : Option Nat → String
  | none => "nil"
  | some e => toString e

def showRet (m : HMem) : HRet → String
  | .unit => "ok"
  | .handle e => showElem e
  | .len n => toString n
  | .vals xs => showInts xs
  | .popped es => showInts (es.map m.val.get)   -- the values the iterator yielded
  | .bodyRes es xs d => if d then s!"{showInts (es.map m.val.get)} {showInts xs}" else "hang"

/-- One line → one client call (`HOp`), or the bare field write `setv e v` (`e.Value = v`
without a `Fix`; the generator follows it by `fix` on the owner). `init` passes the comparator of
the header again, `initc` another one. -/
def parseHOp (cmp : Int → Int → Bool) (m : HMem) (ts : List String) : Option HOp :=
  match ts with
  | "init" :: h :: vs => do
    let h ← parseHeap h; let vs ← ints? vs
    pure (.init h cmp vs)
  | "initc" :: h :: c :: vs => do
    let h ← parseHeap h; let c ← cmpOf c; let vs ← ints? vs
    pure (.init h c vs)
  | ["push", h, x] => do
    let h ← parseHeap h; let x ← x.toInt?
    pure (.push h x)
  | ["pushe", h, e] => do
    let h ← parseHeap h; let e ← parseElem m e
    pure (.pushElem h e)
  | ["pop", h] => do pure (.pop (← parseHeap h))
  | ["peek", h] => do pure (.peek (← parseHeap h))
  | ["len", h] => do pure (.len (← parseHeap h))
  | ["rm", h, e] => do
    let h ← parseHeap h; let e ← parseElem m e
    pure (.remove h e)
  | ["fix", h, e] => do
    let h ← parseHeap h; let e ← parseElem m e
    pure (.fix h e)
  | ["setfix", h, e, v] => do
    let h ← parseHeap h; let e ← parseElem m e; let v ← v.toInt?
    pure (.setFix h e v)
  | ["setrm", h, e, v] => do
    let h ← parseHeap h; let e ← parseElem m e; let v ← v.toInt?
    pure (.setRemove h e v)
  | ["popall", h] => do pure (.popAll (← parseHeap h))
  | ["popalln", h, k] => do
    let h ← parseHeap h; let k ← k.toNat?
    if k = 0 then none else pure (.popAllN h k)
  | _ => none

def parseHBodyItem (m : HMem) (t : String) : Option (Nat × HOp) :=
  match t.splitOn ":" with
  | [i, "push", h, v] => do pure (← i.toNat?, .push (← parseHeap h) (← v.toInt?))
  | [i, "peek", h] => do pure (← i.toNat?, .peek (← parseHeap h))
  | [i, "len", h] => do pure (← i.toNat?, .len (← parseHeap h))
  | [i, "pop", h] => do pure (← i.toNat?, .pop (← parseHeap h))
  | [i, "rm", h, e] => do pure (← i.toNat?, .remove (← parseHeap h) (← parseElem m e))
  | [i, "fix", h, e] => do pure (← i.toNat?, .fix (← parseHeap h) (← parseElem m e))
  | _ => none

/-- One line → one `COp` of the client (`HOp`s, held Seq values, struct copies). -/
def parseCOp (cmp : Int → Int → Bool) (c : HClient) (ts : List String) : Option COp :=
  match ts with
  | ["seq", h] => do pure (.seq (← parseHeap h))
  | ["range", i, k] => do
    let i ← i.toNat?; let k ← k.toNat?
    if i < c.seqs.length ∧ k ≠ 0 then pure (.range i k) else none
  | ["rangeall", i] => do
    let i ← i.toNat?
    if i < c.seqs.length then pure (.rangeAll i) else none
  | "popallbody" :: h :: k :: items => do
    let h ← parseHeap h; let k ← k.toNat?
    let items ← items.mapM (parseHBodyItem c.st.m)
    pure (.popAllBody h k (mkScript items))
  | ["pull", i] => do
    let i ← i.toNat?
    if i < c.seqs.length then pure (.pull i) else none
  | ["next", j] => do
    let j ← j.toNat?
    if j < c.curs.length then pure (.next j) else none
  | ["stop", j] => do
    let j ← j.toNat?
    if j < c.curs.length then pure (.stop j) else none
  | ["copyrm", h, e] => do
    let h ← parseHeap h; let e ← parseElem c.st.m e
    pure (.copyRemove h e)
  | ["copyfix", h, e] => do
    let h ← parseHeap h; let e ← parseElem c.st.m e
    pure (.copyFix h e)
  | _ => do pure (.op (← parseHOp cmp c.st.m ts))

def heapStep (cmp : Int → Int → Bool) (c : HClient) (ts : List String) :
    Option (Option (HClient × String)) :=
  match ts with
  | ["setv", e, v] => do
    let e ← parseElem c.st.m e; let v ← v.toInt?
    let m1 : HMem := { c.st.m with val := c.st.m.val.set e v }
    pure (some ({ c with st := { c.st with m := m1 } }, s!"ok | {m1.dump}"))
  | _ => do
    let op ← parseCOp cmp c ts
    pure ((stepC c op).map fun (c1, r) =>
      match op, r with
      | .next _, .handle (some e) => (c1, s!"{c1.st.m.val.get e} true | {c1.st.m.dump}")
      | .next _, _ => (c1, s!"0 false | {c1.st.m.dump}")
      | _, _ => (c1, s!"{showRet c1.st.m r} | {c1.st.m.dump}"))

/-- `@ C04 heap <cmp> [<capA> <capB> [zv]]` : two heaps from `New(cap, cmp)` — or, with `zv`, two
zero values that the generator initialises by `init`/`initc` before any other use. Neither the
capacity nor the way the empty heap came about is observable. -/
def runHeap (hdr ops : List String) : List String :=
  let go (c : String) : List String :=
    match cmpOf c with
    | some cmp => s!"ok | {HMem.zero.dump}" :: runOps (heapStep cmp) (some ⟨HState.zero cmp, [], []⟩) ops
    | none => bad ops
  match hdr with
  | [c] => go c
  | [c, a, b] => if a.toNat?.isSome ∧ b.toNat?.isSome then go c else bad ops
  | [c, a, b, "zv"] => if a.toNat?.isSome ∧ b.toNat?.isSome then go c else bad ops
  | _ => bad ops

/-! ### generic functions on the recording container -/

def Rec.show (s : Rec) : String := "{" ++ " ".intercalate s.log ++ "} " ++ showInts s.data

def genStep (cmp : Int → Int → Bool) (s0 : Rec) (ts : List String) : Option (Option (Rec × String)) :=
  let s : Rec := { s0 with log := [] }
  match ts with
  | ["init"] => pure ((Gen.init cmp s).map fun s1 => (s1, s!"ok {s1.show}"))
  | ["push", x] => do
    let x ← x.toInt?
    pure ((Gen.push cmp s x).map fun s1 => (s1, s!"ok {s1.show}"))
  | ["pop"] => pure ((Gen.pop cmp s).map fun (s1, x) => (s1, s!"{x} {s1.show}"))
  | ["rm", i] => do
    let i ← i.toInt?
    pure ((Gen.remove cmp s i).map fun (s1, x) => (s1, s!"{x} {s1.show}"))
  | ["fix", i] => do
    let i ← i.toInt?
    pure ((Gen.fix cmp s i).map fun s1 => (s1, s!"ok {s1.show}"))
  | ["set", i, v] => do
    let i ← i.toNat?; let v ← v.toInt?
    if i < s.data.length then
      let s1 := { s with data := s.data.set i v }
      pure (some (s1, s!"ok {s1.show}"))
    else none
  | _ => none

def runGeneric (hdr ops : List String) : List String :=
  match hdr with
  | c :: vs =>
    match cmpOf c, ints? vs with
    | some cmp, some vs =>
      let s : Rec := { data := vs, log := [] }
      s!"ok {s.show}" :: runOps (genStep cmp) (some s) ops
    | _, _ => bad ops
  | _ => bad ops

/-- Entry point of the C04 section of the oracle: header tokens after `@ C04`. -/
def runCase (hdr : List String) (ops : List String) : List String :=
  match hdr with
  | "slice" :: rest => runSlice rest ops
  | "slicen" :: rest => runSliceN rest ops
  | "heap" :: rest => runHeap rest ops
  | "generic" :: rest => runGeneric rest ops
  | _ => bad ops

end Golib.C04
