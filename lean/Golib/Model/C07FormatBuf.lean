/-
C07: the four Format functions at BUFFER level, as coded in `strz/enc.go:86-314`.

`OctalFormat/HexFormat/UnicodeFormat` allocate the whole output first
(`make([]byte, len(s)*4)`, `make([]byte, utf8.RuneCountInString(src)*10)`) and then fill it
through the cursors `j` (end of the current escape) and `f` (start of its digit window):
`b[j] = '\\'`, `b[j+1] = 'x'`, `appendUint(b[f:j], v, base)`, `toUpper(b[f:j])`,
`copy(b[f:j], "0000FFFD")`.  Every one of these is an indexed write into the fixed buffer: an
index or slice bound outside the buffer is a Go panic = `none` here.  `appendUint` is modelled
with its three memory operations in order: `strconv.AppendUint(dst[:0], …)` writes the digits
at the START of the window (in place when they fit the capacity that reaches to the end of the
buffer, otherwise into a fresh array), `copy(dst[x:], b)` moves them to the END of the window
(memmove), `copy(dst[:x], zeroPadding)` pads (at most 8 zeros: `zeroPadding` has 8).

`Utf16Format` starts with `make([]byte, 0, RuneCount*6)` and grows by
`append(b, '\\','u','0','0','0','0')`; the model keeps length and capacity and counts the
re-allocations (a rune above U+FFFF needs 12 bytes, the estimate reserves 6).

`Props/C07.lean` `c07_format_buffer_eq`: these programs never index outside their buffer and
return exactly what the value-level formatters of `C07Enc.lean` return.  Core-only.
-/
import Golib.Model.C07Enc

namespace Golib.C07

/-- `copy(buf[at:at+len(bs)], bs)` where the target range is known to lie inside: `none` = out of range. -/
def writeB (buf : Bytes) (pos : Nat) (bs : Bytes) : Option Bytes :=
  if pos + bs.length ≤ buf.length then some (buf.take pos ++ bs ++ buf.drop (pos + bs.length)) else none

/-- `appendUint(b[f:j], v, base)` on the buffer `buf`. -/
def appendUintB (buf : Bytes) (f j v base : Nat) : Option Bytes :=
  if ¬ (f ≤ j ∧ j ≤ buf.length) then none else        -- the slice expression b[f:j]
  let d := (toDigits base v).map digitChar
  -- b := strconv.AppendUint(dst[:0], v, base): cap(dst) = len(buf) - f
  let buf1 := if f + d.length ≤ buf.length then buf.take f ++ d ++ buf.drop (f + d.length) else buf
  if d.length ≤ j - f then
    let x := j - f - d.length
    match writeB buf1 (f + x) d with                    -- copy(dst[x:], b)
    | none => none
    | some buf2 => writeB buf2 f (List.replicate (min x 8) 48)   -- copy(dst[:x], zeroPadding)
  else none                                             -- dst[x:] with x < 0

/-- `toUpper(b[f:j])`. -/
def toUpperB (buf : Bytes) (f j : Nat) : Option Bytes :=
  if f ≤ j ∧ j ≤ buf.length then some (buf.take f ++ toUpper ((buf.take j).drop f) ++ buf.drop j) else none

/-- One escape: the prefix bytes at `b[j]`, `b[j+1]`…, then the digit window `b[f:j']`:
`appendUint` (+ `toUpper` when `up`). -/
def escB (buf : Bytes) (j : Nat) (pfx : Bytes) (w v base : Nat) (up : Bool) : Option Bytes :=
  match writeB buf j pfx with                          -- b[j] = '\\' (; b[j+1] = 'x')
  | none => none
  | some b1 =>
    match appendUintB b1 (j + pfx.length) (j + pfx.length + w) v base with
    | none => none
    | some b2 => if up then toUpperB b2 (j + pfx.length) (j + pfx.length + w) else some b2

/-- `OctalFormat` loop from byte `i` on: `rest = s[i:]`, `j` as coded. -/
def octalLoopB : Bytes → Bytes → Nat → Option Bytes
  | [], buf, _ => some buf
  | c :: rest, buf, j =>
    match escB buf j [92] 3 c 8 false with
    | none => none
    | some b => octalLoopB rest b (j + 4)

def octalFormatB (s : Bytes) : Option Bytes := octalLoopB s (List.replicate (s.length * 4) 0) 0

def hexLoopB : Bytes → Bytes → Nat → Option Bytes
  | [], buf, _ => some buf
  | c :: rest, buf, j =>
    match escB buf j [92, 120] 2 c 16 true with
    | none => none
    | some b => hexLoopB rest b (j + 4)

def hexFormatB (s : Bytes) : Option Bytes := hexLoopB s (List.replicate (s.length * 4) 0) 0

/-- `UnicodeFormat` loop on the remaining `src[i:]` (fuel as in `unicodeFormatAux`). -/
def unicodeLoopB : Nat → Bytes → Bytes → Nat → Option Bytes
  | _, [], buf, _ => some buf
  | 0, _ :: _, _, _ => none
  | fuel + 1, bt :: rest, buf, j =>
    if bt < 0x80 then
      match escB buf j [92, 85] 8 bt 16 true with
      | none => none
      | some b => unicodeLoopB fuel rest b (j + 10)
    else
      let (c, size) := Utf8.decodeRune (bt :: rest)
      if c = Utf8.runeError then
        -- b[j] = '\\'; b[j+1] = 'U'; copy(b[f:j], "0000FFFD")
        match writeB buf j [92, 85] with
        | none => none
        | some b1 =>
          match writeB b1 (j + 2) lit0000FFFD with
          | none => none
          | some b2 => unicodeLoopB fuel ((bt :: rest).drop size) b2 (j + 10)
      else
        match escB buf j [92, 85] 8 c.toNat 16 true with
        | none => none
        | some b => unicodeLoopB fuel ((bt :: rest).drop size) b (j + 10)

def unicodeFormatB (s : Bytes) : Option Bytes :=
  unicodeLoopB s.length s (List.replicate (Utf8.runeCount s * 10) 0) 0

/-- Growing buffer of `Utf16Format`: contents, capacity, number of re-allocations. -/
structure GBuf where
  b : Bytes
  cap : Nat
  grown : Nat
deriving Repr, DecidableEq

/-- `b = append(b, '\\', 'u', '0', '0', '0', '0')` (Go's growth policy is at least doubling;
only "room or not" matters here). -/
def appendEsc (g : GBuf) : GBuf :=
  let nb := g.b ++ [92, 117, 48, 48, 48, 48]
  if nb.length ≤ g.cap then { g with b := nb } else { b := nb, cap := max (2 * g.cap) nb.length, grown := g.grown + 1 }

/-- digits into the window of the escape just appended: `appendUint(b[f:j], v, 16); toUpper(b[f:j])`. -/
def fillEsc (g : GBuf) (f j v : Nat) : Option GBuf :=
  match appendUintB g.b f j v 16 with
  | none => none
  | some b1 => match toUpperB b1 f j with
    | none => none
    | some b2 => some { g with b := b2 }

/-- the `switch` of `Utf16Format` after `b = append(...)`; `j` is already advanced. -/
def utf16RuneB (g : GBuf) (j : Nat) (c : Int) : Option (GBuf × Nat) :=
  if c = Utf8.runeError then (writeB g.b (j - 4) litFFFD).map fun b => ({ g with b := b }, j)
  else if (0 ≤ c ∧ c < 0xd800) ∨ (0xe000 ≤ c ∧ c < 0x10000) then (fillEsc g (j - 4) j c.toNat).map fun g' => (g', j)
  else if 0x10000 ≤ c ∧ c ≤ Utf8.maxRune then
    let (r1, r2) := utf16Enc c.toNat
    match fillEsc g (j - 4) j r1 with
    | none => none
    | some g1 =>
      let g2 := appendEsc g1
      (fillEsc g2 (j + 2) (j + 6) r2).map fun g3 => (g3, j + 6)
  else (writeB g.b (j - 4) litFFFD).map fun b => ({ g with b := b }, j)

def utf16LoopB : Nat → Bytes → GBuf → Nat → Option GBuf
  | _, [], g, _ => some g
  | 0, _ :: _, _, _ => none
  | fuel + 1, bt :: rest, g, j =>
    let g1 := appendEsc g
    if bt < 0x80 then
      match fillEsc g1 (j + 2) (j + 6) bt with
      | none => none
      | some g2 => utf16LoopB fuel rest g2 (j + 6)
    else
      let (c, size) := Utf8.decodeRune (bt :: rest)
      match utf16RuneB g1 (j + 6) c with
      | none => none
      | some (g2, j') => utf16LoopB fuel ((bt :: rest).drop size) g2 j'

def utf16FormatB (s : Bytes) : Option GBuf :=
  utf16LoopB s.length s ⟨[], Utf8.runeCount s * 6, 0⟩ 0

end Golib.C07
