/-
C19 — trace acceptance, structured: the logged events as a datatype (`Ev`), the parser of
one logged line (`parseEv?`, exactly the token shapes `acceptEv` of `Golib.Model.C19`
understands), the acceptor on structured events (`acceptE`; `acceptEv_eq`:
`acceptEv s ts = (parseEv? ts).bind (acceptE s)`), the acceptor of a whole trace
(`accepts`), and the clauses of property C19 as predicates ON TRACES (`TraceBound`,
`TraceOnce`, `TraceWait`, `TraceHandler`): pure list predicates, no machine state.
`Golib.Props.C19` proves that every accepted trace satisfies them
(`c19_trace_bound`, …) and that "every line answered ok" gives an accepted trace
(`c19_acceptAll_sound`).
Core-only.
-/
import Golib.Model.C19

namespace Golib.C19
open Golib.Proto

/-- One logged event of a real run. -/
inductive Ev where
  | submit (o : Outcome)        -- a `Go(fn)` call is issued
  | start (i : Nat)             -- function `i` is entered
  | finish (i : Nat)            -- function `i` is left (returned or panicked)
  | handler (v : Int) (h : Nat) -- handler number `h` received the value `v`
  | waitcall                    -- a `Wait()` call is issued
  | waitret                     -- a `Wait()` call returned
  | timedwait                   -- a `Wait(d)` call, d > 0, was issued and returned
  | sethandler (h : Nat)        -- `SetPanicHandler(handler h)`
deriving DecidableEq, Repr

def parseEv? (ts : List String) : Option Ev :=
  match ts with
  | "submit" :: o => Ev.submit <$> parseOutcome? o
  | ["start", i] => Ev.start <$> i.toNat?
  | ["finish", i] => Ev.finish <$> i.toNat?
  | ["handler", v] => (fun (p : Int × Nat) => Ev.handler p.1 p.2) <$> parseHandled? v
  | ["sethandler", h] => Ev.sethandler <$> h.toNat?
  | ["waitcall"] => some .waitcall
  | ["timedwait"] => some .timedwait
  | ["waitret"] => some .waitret
  | _ => none

/-- The machine performs one logged event (after the internal steps chosen by `settle`);
`none` = not enabled. -/
def acceptE (s : St) : Ev → Option St
  | .submit o => s.step (.submit o)
  | .start i =>
    match s.tasks[i]? with
    | some t => if t.pc ≠ .new then none else advN (settle s) i 4
    | none => none
  | .finish i =>
    match s.tasks[i]? with
    | some t => if t.pc ≠ .running then none else s.step (.adv i)
    | none => none
  | .handler v h =>
    match findIdx? s.tasks fun t => t.pc == .recovering && t.outcome == .panic v && t.hid == h with
    | some i => s.step (.adv i)
    | none => none
  | .sethandler h => s.step (.setHandler h)
  | .waitcall => s.step .waitCall
  | .timedwait => s.step .waitTimed
  | .waitret => (List.range (settle s).waiters.length).findSome? fun j => (settle s).step (.waitRet j)

/-- `acceptEv` (the function the oracle runs on every logged line) is: parse, then `acceptE`. -/
theorem acceptEv_eq (s : St) (ts : List String) :
    acceptEv s ts = (parseEv? ts).bind (acceptE s) := by
  unfold acceptEv
  split
  · rename_i o
    simp only [parseEv?]
    cases parseOutcome? o <;> rfl
  · rename_i i
    simp only [parseEv?]
    cases i.toNat? with
    | none => rfl
    | some i =>
      show (s.tasks[i]?).bind _ = acceptE s (.start i)
      simp only [acceptE]; cases s.tasks[i]? <;> rfl
  · rename_i i
    simp only [parseEv?]
    cases i.toNat? with
    | none => rfl
    | some i =>
      show (s.tasks[i]?).bind _ = acceptE s (.finish i)
      simp only [acceptE]; cases s.tasks[i]? <;> rfl
  · rename_i v
    simp only [parseEv?]
    cases parseHandled? v with
    | none => rfl
    | some p =>
      obtain ⟨v, h⟩ := p
      show (findIdx? s.tasks _).bind _ = acceptE s (.handler v h)
      simp only [acceptE]
      cases findIdx? s.tasks fun t => t.pc == .recovering && t.outcome == .panic v && t.hid == h <;> rfl
  · rename_i h
    simp only [parseEv?]
    cases h.toNat? <;> rfl
  · simp only [parseEv?]; rfl
  · simp only [parseEv?]; rfl
  · simp only [parseEv?]; rfl
  · rename_i h1 h2 h3 h4 h5 h6 h7 h8
    unfold parseEv?
    split <;> first | rfl | (exfalso; simp_all)

/-- Accept a whole trace; `none` if some event is not enabled. -/
def accepts : St → List Ev → Option St
  | s, [] => some s
  | s, e :: es =>
    match acceptE s e with
    | some s' => accepts s' es
    | none => none

/-! ### Counting events -/

def Ev.isSubmit : Ev → Bool | .submit _ => true | _ => false
def Ev.isStart : Ev → Bool | .start _ => true | _ => false
def Ev.isFinish : Ev → Bool | .finish _ => true | _ => false
def Ev.isWaitcall : Ev → Bool | .waitcall => true | _ => false
def Ev.isWaitret : Ev → Bool | .waitret => true | _ => false

def submits (tr : List Ev) : Nat := tr.countP Ev.isSubmit
def starts (tr : List Ev) : Nat := tr.countP Ev.isStart
def finishes (tr : List Ev) : Nat := tr.countP Ev.isFinish
def waitcalls (tr : List Ev) : Nat := tr.countP Ev.isWaitcall
def waitrets (tr : List Ev) : Nat := tr.countP Ev.isWaitret

/-- What the submitted functions do, in submission order: entry `i` belongs to task id `i`. -/
def submitted (tr : List Ev) : List Outcome :=
  tr.filterMap fun e => match e with | .submit o => some o | _ => none

/-- The handler configured after the events `tr` (last `sethandler`, default 0). -/
def curOf (tr : List Ev) : Nat :=
  tr.foldl (fun c e => match e with | .sethandler h => h | _ => c) 0

/-! ### The clauses of C19 as predicates on traces -/

/-- At every moment of the trace at most `n` functions are inside: (#start − #finish) ≤ n
in every prefix. -/
def TraceBound (n : Nat) (tr : List Ev) : Prop :=
  ∀ p, p <+: tr → starts p ≤ finishes p + n

/-- No task id is started twice or finished twice; a started id was submitted before
(`start i` is preceded by at least `i+1` submit events); a finished id was started before. -/
def TraceOnce (tr : List Ev) : Prop :=
  (∀ i, tr.count (.start i) ≤ 1) ∧
  (∀ i, tr.count (.finish i) ≤ 1) ∧
  (∀ p i, p ++ [Ev.start i] <+: tr → i < submits p) ∧
  (∀ p i, p ++ [Ev.finish i] <+: tr → Ev.start i ∈ p)

/-- When a `Wait()` returns, every function that was entered before has been left
(stronger than "everything submitted before the call has finished": `waitRet` needs the
WaitGroup counter at zero); and no more `Wait()` calls return than were issued. -/
def TraceWait (tr : List Ev) : Prop :=
  (∀ p, p ++ [Ev.waitret] <+: tr → ∀ i, Ev.start i ∈ p → Ev.finish i ∈ p) ∧
  (∀ p, p <+: tr → waitrets p ≤ waitcalls p)

/-- Handler events are matched INJECTIVELY to task ids (`m` maps the position of a handler
event to a task id): the matched task was submitted with `panic v` for the received value
`v`, it has left its function before the handler event, and the receiving handler `h` is the
one that was configured when the task was started (last `sethandler` before `start i`,
default 0); two handler events are never matched to the same task; and when a `Wait()`
returns, every finished task that panicked has had its handler event. -/
def TraceHandler (tr : List Ev) : Prop :=
  ∃ m : Nat → Nat,
    (∀ p v h, p ++ [Ev.handler v h] <+: tr →
        (submitted p)[m p.length]? = some (.panic v) ∧ Ev.finish (m p.length) ∈ p ∧
        ∃ p0, p0 ++ [Ev.start (m p.length)] <+: p ∧ curOf p0 = h) ∧
    (∀ p v h p' v' h', p ++ [Ev.handler v h] <+: tr → p' ++ [Ev.handler v' h'] <+: tr →
        m p.length = m p'.length → p = p') ∧
    (∀ p, p ++ [Ev.waitret] <+: tr → ∀ i v, Ev.finish i ∈ p →
        (submitted p)[i]? = some (.panic v) →
        ∃ p' h, p' ++ [Ev.handler v h] <+: p ∧ m p'.length = i)

end Golib.C19
