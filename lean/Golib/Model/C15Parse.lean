/-
Model of `strz/std_strconv.go`: `ParseUint[T string|[]byte]`, `underscoreOK`, `lower`,
mirroring the Go code branch by branch.

* A string / byte slice is a `List Nat` of bytes (`< 256`); the same model serves both
  instantiations of the type parameter (the code only uses `len(s)`, `s[i]`, `s[a:]`).
* `uint64` arithmetic is `Nat` with an explicit `% 2^64` at every operation that can wrap
  (`n *= base`, `n + d`, `1<<bitSize - 1`) — the property is about exactly these overflows.
* `base`, `bitSize` are Go `int`s: `Int`.
* `typez.WordBits` is 64 (the harness runs on a 64-bit platform; recorded as assumption and
  re-checked by the facts extractor against `strconv.IntSize`).
* Errors are classes (`PErr`); the value/err pair is what the Go function returns.
-/
import Golib.Proto

namespace Golib.C15

inductive PErr where
  | ok | syntax | range | base | bitSize
deriving Repr, DecidableEq

def PErr.show : PErr → String
  | .ok => "ok" | .syntax => "syntax" | .range => "range" | .base => "base" | .bitSize => "bitsize"

def two64 : Nat := 2 ^ 64
def maxUint64 : Nat := 2 ^ 64 - 1
def wordBits : Nat := 64

/-- `lower(c) = c | 32` (byte). -/
def lower (c : Nat) : Nat := c ||| 32

/-- The digit switch of the loop: `'0'..'9'` → `c-'0'`; `'a' ≤ lower(c) ≤ 'z'` → `lower(c)-'a'+10`;
`none` = the `default:` branch (syntax error). -/
def digit? (c : Nat) : Option Nat :=
  if 48 ≤ c ∧ c ≤ 57 then some (c - 48)
  else if 97 ≤ lower c ∧ lower c ≤ 122 then some (lower c - 97 + 10)
  else none

/-- Outcome of the digit loop. -/
inductive LoopRes where
  | done (n : Nat) (underscores : Bool)
  | syntaxErr
  | rangeErr
deriving Repr, DecidableEq

/-- The `for i := 0; i < len(s); i++` loop: state `n`, `underscores`; recursion on the rest of `s`. -/
def loop (base0 : Bool) (base cutoff maxVal : Nat) : List Nat → Nat → Bool → LoopRes
  | [], n, us => .done n us
  | c :: rest, n, us =>
    if c = 95 ∧ base0 = true then loop base0 base cutoff maxVal rest n true
    else
      match digit? c with
      | none => .syntaxErr
      | some d =>
        if d ≥ base % 256 then .syntaxErr            -- d >= byte(base)
        else if n ≥ cutoff then .rangeErr            -- n*base overflows
        else
          let n' := (n * base) % two64               -- n *= uint64(base)
          let n1 := (n' + d) % two64                 -- n1 := n + uint64(d)
          if n1 < n' ∨ n1 > maxVal then .rangeErr    -- n+d overflows
          else loop base0 base cutoff maxVal rest n1 us

/-- `underscoreOK`'s `saw` variable. -/
inductive Saw where
  | start | digit | under | other      -- '^' '0' '_' '!'
deriving Repr, DecidableEq

/-- "Number proper" loop of `underscoreOK`. -/
def usLoop (hex : Bool) : List Nat → Saw → Bool
  | [], saw => saw != .under
  | c :: rest, saw =>
    if (48 ≤ c ∧ c ≤ 57) ∨ (hex = true ∧ 97 ≤ lower c ∧ lower c ≤ 102) then usLoop hex rest .digit
    else if c = 95 then
      if saw != .digit then false else usLoop hex rest .under
    else if saw = .under then false
    else usLoop hex rest .other

def isPrefixLetter (c : Nat) : Bool := lower c = 98 || lower c = 111 || lower c = 120

def underscoreOK (s : List Nat) : Bool :=
  -- optional sign
  let s := match s with
    | c :: rest => if c = 45 ∨ c = 43 then rest else s
    | [] => s
  -- optional base prefix
  match s with
  | 48 :: c1 :: rest =>
    if isPrefixLetter c1 then usLoop (lower c1 = 120) rest .digit
    else usLoop false s .start
  | _ => usLoop false s .start

/-- `base == 0`: look for octal / hex / binary prefix. Returns the base and the rest of `s`. -/
def base0Prefix (s : List Nat) : Nat × List Nat :=
  match s with
  | 48 :: c1 :: c2 :: rest =>            -- s[0]=='0' && len(s) >= 3
    if lower c1 = 98 then (2, c2 :: rest)
    else if lower c1 = 111 then (8, c2 :: rest)
    else if lower c1 = 120 then (16, c2 :: rest)
    else (8, c1 :: c2 :: rest)
  | 48 :: rest => (8, rest)              -- s[0]=='0', len(s) < 3: default branch
  | _ => (10, s)

/-- `uint64(1)<<uint(bitSize) - 1` (a shift by 64 gives 0 in Go, then `-1` wraps). -/
def maxValOf (bitSize : Nat) : Nat :=
  (((1 <<< bitSize) % two64) + two64 - 1) % two64

/-- `maxUint64/uint64(base) + 1`. -/
def cutoffOf (base : Nat) : Nat := maxUint64 / base + 1

def parseUint (s : List Nat) (base bitSize : Int) : Nat × PErr :=
  if s.isEmpty then (0, .syntax) else
  let base0 := base == 0
  let pre : Option (Nat × List Nat) :=
    if 2 ≤ base ∧ base ≤ 36 then some (base.toNat, s)
    else if base = 0 then some (base0Prefix s)
    else none
  match pre with
  | none => (0, .base)
  | some (b, body) =>
    let bits? : Option Nat :=
      if bitSize = 0 then some wordBits
      else if bitSize < 0 ∨ bitSize > 64 then none
      else some bitSize.toNat
    match bits? with
    | none => (0, .bitSize)
    | some bits =>
      let cutoff := cutoffOf b
      let maxVal := maxValOf bits
      match loop base0 b cutoff maxVal body 0 false with
      | .syntaxErr => (0, .syntax)
      | .rangeErr => (maxVal, .range)
      | .done n us =>
        if us ∧ ¬ underscoreOK s then (0, .syntax) else (n, .ok)

/-! ### `strconv.ParseInt(v, 10, 32)` as used by `IPv4ToLong` (stdlib, modelled)

`ParseInt` strips a sign, calls `ParseUint`, and clamps; `IPv4ToLong` ignores the error
and converts the `int64` with `uint32(n)`. -/

/-- Returns the `int64` result (errors ignored, as `IPv4ToLong` does). -/
def parseInt (s : List Nat) (base bitSize : Int) : Int :=
  match s with
  | [] => 0
  | c :: rest =>
    let neg := c = 45
    let body := if c = 43 ∨ c = 45 then rest else s
    let (un, err) := parseUint body base bitSize
    if err ≠ .ok ∧ err ≠ .range then 0 else
    let bits : Nat := if bitSize = 0 then wordBits else bitSize.toNat
    let cut : Nat := 1 <<< (bits - 1)
    if ¬ neg ∧ un ≥ cut then (cut : Int) - 1
    else if neg ∧ un > cut then - (cut : Int)
    else if neg then - (un : Int) else (un : Int)

end Golib.C15
