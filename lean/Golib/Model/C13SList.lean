/-
Model of `listz/singly_list.go` (`SList[T]`, `SNode[T]`), mirroring the Go code statement by
statement: `next` pointer map, `Value` map, `head`, `tail`, `len`; index walks with the coded
`before` tracking; a nil dereference is a Go panic = `none`.
-/
import Golib.Proto
import Golib.Model.C13Map
import Golib.Model.C13DList

namespace Golib.C13

structure SSt where
  next  : PM
  val   : IM
  head  : Ptr
  tail  : Ptr
  len   : Int
  fresh : Nat

/-- `NewSingly()` / the zero value. -/
def SSt.zero : SSt := { next := .empty, val := .empty, head := none, tail := none, len := 0, fresh := 0 }

def SSt.withinRange (s : SSt) (i : Int) : Bool := decide (0 ≤ i) && decide (i < s.len)

/-- `for index := 0; index < i; index++ { e = e.next }` (nil dereference = `none`). -/
def SSt.advance (s : SSt) : Nat → Ptr → Option Ptr
  | 0, e => some e
  | k + 1, e => do
    let x ← e
    s.advance k (s.next.get x)

/-- `Get(i)` -/
def SSt.getAt (s : SSt) (i : Int) : Option Ptr :=
  if !s.withinRange i then some none else s.advance i.toNat s.head

/-- `for index := 0; index < i; index++ { before = e; e = e.next }` -/
def SSt.advance2 (s : SSt) : Nat → Ptr → Ptr → Option (Ptr × Ptr)
  | 0, before, e => some (before, e)
  | k + 1, _, e => do
    let x ← e
    s.advance2 k e (s.next.get x)

/-- `Remove(i)` -/
def SSt.removeAt (s : SSt) (i : Int) : Option (SSt × Ptr) :=
  if !s.withinRange i then some (s, none) else do
  let (before, e) ← s.advance2 i.toNat none s.head
  -- if e == l.head { l.head = e.next }
  let s1 ← if e = s.head then (do let x ← e; pure { s with head := s.next.get x }) else some s
  -- if e == l.tail { l.tail = before }
  let s2 := if e = s1.tail then { s1 with tail := before } else s1
  -- if before != nil { before.next = e.next }
  let s3 ← match before with
    | none => some s2
    | some b => do let x ← e; pure { s2 with next := s2.next.set b (s2.next.get x) }
  -- e.next = nil; l.len--
  let x ← e
  pure ({ s3 with next := s3.next.set x none, len := s3.len - 1 }, some x)

/-- `RemoveFront()` -/
def SSt.removeFront (s : SSt) : Option (SSt × Ptr) :=
  if s.len = 0 then some (s, none) else do
  let x ← s.head
  let s1 := { s with head := s.next.get x }
  let s2 := { s1 with next := s1.next.set x none }
  let s3 := if s2.len = 1 then { s2 with tail := none } else s2
  pure ({ s3 with len := s3.len - 1 }, some x)

/-- `PushFrontNode(e)` -/
def SSt.pushFrontNode (s : SSt) (e : Nat) : SSt :=
  let s1 := { s with next := s.next.set e s.head }
  let s2 := { s1 with head := some e }
  let s3 := if s2.len = 0 then { s2 with tail := some e } else s2
  { s3 with len := s3.len + 1 }

/-- `PushBackNode(e)` -/
def SSt.pushBackNode (s : SSt) (e : Nat) : Option SSt := do
  let s1 ← if s.len = 0 then some { s with head := some e }
           else (do let t ← s.tail; pure { s with next := s.next.set t (some e) })
  pure { s1 with tail := some e, len := s1.len + 1 }

/-- `InsertNodeAt(i, e)` -/
def SSt.insertNodeAt (s : SSt) (i : Int) (e : Nat) : Option SSt :=
  if i ≤ 0 then some (s.pushFrontNode e)
  else if i ≥ s.len then s.pushBackNode e
  else do
    -- before := l.head; for index := 0; index < i-1; index++ { before = before.next }
    let before ← s.advance (i - 1).toNat s.head
    let b ← before
    let s1 := { s with next := s.next.set e (s.next.get b) }
    pure { s1 with next := s1.next.set b (some e), len := s1.len + 1 }

/-- `&SNode[T]{Value: v}` -/
def SSt.alloc (s : SSt) (v : Int) : SSt × Nat :=
  ({ s with fresh := s.fresh + 1, val := s.val.set s.fresh v }, s.fresh)

def SSt.pushFront (s : SSt) (v : Int) : SSt :=
  let (s1, e) := s.alloc v
  s1.pushFrontNode e

def SSt.pushBack (s : SSt) (v : Int) : Option SSt :=
  let (s1, e) := s.alloc v
  s1.pushBackNode e

def SSt.insertAt (s : SSt) (i : Int) (v : Int) : Option SSt :=
  let (s1, e) := s.alloc v
  s1.insertNodeAt i e

/-- Loop of `Swap`:
`for index, ce := 0, l.head; e1 == nil || e2 == nil; index, ce = index+1, ce.next { switch index { case i: e1 = ce; case j: e2 = ce } }`.
`fuel` bounds the number of iterations (`len + 1` suffices, see `Proof/C13SList`);
running out of fuel is reported like a panic (the Go loop would not terminate normally). -/
def SSt.swapLoop (s : SSt) (i j : Int) : Nat → Int → Ptr → Ptr → Ptr → Option (Ptr × Ptr)
  | 0, _, _, e1, e2 => if e1 = none ∨ e2 = none then none else some (e1, e2)
  | f + 1, index, ce, e1, e2 =>
    if e1 = none ∨ e2 = none then
      let (e1', e2') := if index = i then (ce, e2) else if index = j then (e1, ce) else (e1, e2)
      match ce with
      | none => none
      | some c => s.swapLoop i j f (index + 1) (s.next.get c) e1' e2'
    else some (e1, e2)

/-- `Swap(i, j)` -/
def SSt.swap (s : SSt) (i j : Int) : Option SSt :=
  if s.withinRange i && s.withinRange j && decide (i ≠ j) then do
    let (e1, e2) ← s.swapLoop i j (s.len.toNat + 1) 0 s.head none none
    let x ← e1
    let y ← e2
    let v1 := s.val.get x
    let v2 := s.val.get y
    -- e1.Value, e2.Value = e2.Value, e1.Value
    let s1 := { s with val := s.val.set x v2 }
    pure { s1 with val := s1.val.set y v1 }
  else some s

/-! ### driver -/

open Golib.Proto

/-- `<len> h=<Front> t=<Back> n[ids via Next] v[values via All()]` -/
def SSt.dump (s : SSt) : String :=
  let w := walk (fun e => s.next.get e) walkCap s.head
  s!"{s.len} h={showPtr s.head} t={showPtr s.tail} n{showWalk w toString} v{showWalk w fun e => toString (s.val.get e)}"

/-- Dump of a long list: `<len> h= t= n~<n>:<hash of ids via Next> v~<n>:<hash of values>`. -/
def SSt.dumpBig (s : SSt) : String :=
  let nx := fun e => s.next.get e
  let n := walkFold nx (digestStep fun e => (e : Int)) bigCap s.head (0, 0)
  let v := walkFold nx (digestStep fun e => s.val.get e) bigCap s.head (0, 0)
  s!"{s.len} h={showPtr s.head} t={showPtr s.tail} n~{showDigest n} v~{showDigest v}"

def SSt.parseHandle (s : SSt) (t : String) : Option Nat :=
  match t.toNat? with
  | some h => if h < s.fresh then some h else none
  | none => none

/-! ### operations as data (what the refinement theorem `c13_slist_refines` quantifies over) -/

/-- One call of the `SList` / `SNode` API (`i`, `j` = indices, any integer; `e` = node handle). -/
inductive SOp where
  | new (v : Int)                    -- `&SNode[T]{Value: v}`
  | get (i : Int)
  | remove (i : Int)
  | removeFront
  | pushFront (v : Int)
  | pushBack (v : Int)
  | insertAt (i : Int) (v : Int)
  | pushFrontNode (e : Nat)
  | pushBackNode (e : Nat)
  | insertNodeAt (i : Int) (e : Nat)
  | swap (i j : Int)
  | len
  | front
  | back
  | next (e : Nat)
  | setValue (e : Nat) (v : Int)     -- `e.Value = v` through the node handle

/-- Run one call; `none` = Go panic (or the `Swap` loop not terminating). -/
def SSt.apply (s : SSt) : SOp → Option (SSt × DRes)
  | .new v => let (s1, e) := s.alloc v; some (s1, .ptr (some e))
  | .get i => (s.getAt i).map fun p => (s, .ptr p)
  | .remove i => (s.removeAt i).map fun (s1, p) => (s1, .ptr p)
  | .removeFront => (s.removeFront).map fun (s1, p) => (s1, .ptr p)
  | .pushFront v => some (s.pushFront v, .unit)
  | .pushBack v => (s.pushBack v).map fun s1 => (s1, .unit)
  | .insertAt i v => (s.insertAt i v).map fun s1 => (s1, .unit)
  | .pushFrontNode e => some (s.pushFrontNode e, .unit)
  | .pushBackNode e => (s.pushBackNode e).map fun s1 => (s1, .unit)
  | .insertNodeAt i e => (s.insertNodeAt i e).map fun s1 => (s1, .unit)
  | .swap i j => (s.swap i j).map fun s1 => (s1, .unit)
  | .len => some (s, .int s.len)
  | .front => some (s, .ptr s.head)
  | .back => some (s, .ptr s.tail)
  | .next e => some (s, .ptr (s.next.get e))
  | .setValue e v => some ({ s with val := s.val.set e v }, .unit)

def SSt.run : SSt → List SOp → Option (SSt × List DRes)
  | s, [] => some (s, [])
  | s, op :: ops => do
    let (s1, r) ← s.apply op
    let (s2, rs) ← s1.run ops
    pure (s2, r :: rs)

/-- `for v := range l.All() { body }` / `for e := l.Front(); e != nil; e = e.Next() { body }`:
value read, body run, then `e.Next()` evaluated in the memory the body left behind. -/
def SSt.rangeAll (body : Nat → List SOp) (stop : Nat → Bool) :
    Nat → Nat → Ptr → SSt → List (Nat × Int) → Option (SSt × List (Nat × Int) × Bool)
  | _, _, none, s, acc => some (s, acc.reverse, true)
  | 0, _, some _, s, acc => some (s, acc.reverse, false)
  | f + 1, i, some e, s, acc => do
    let y := (e, s.val.get e)
    let (s1, _) ← s.run (body i)
    if stop i then some (s1, (y :: acc).reverse, true)
    else SSt.rangeAll body stop f (i + 1) (s1.next.get e) s1 (y :: acc)

def parseSOp (s : SSt) (ts : List String) : Option SOp :=
  match ts with
  | ["new", v] => do let v ← v.toInt?; pure (.new v)
  | ["get", i] => do let i ← i.toInt?; pure (.get i)
  | ["rm", i] => do let i ← i.toInt?; pure (.remove i)
  | ["rmf"] => pure .removeFront
  | ["pf", v] => do let v ← v.toInt?; pure (.pushFront v)
  | ["pb", v] => do let v ← v.toInt?; pure (.pushBack v)
  | ["ins", i, v] => do let i ← i.toInt?; let v ← v.toInt?; pure (.insertAt i v)
  | ["pfn", e] => do let e ← s.parseHandle e; pure (.pushFrontNode e)
  | ["pbn", e] => do let e ← s.parseHandle e; pure (.pushBackNode e)
  | ["insn", i, e] => do let i ← i.toInt?; let e ← s.parseHandle e; pure (.insertNodeAt i e)
  | ["swap", i, j] => do let i ← i.toInt?; let j ← j.toInt?; pure (.swap i j)
  | ["len"] => pure .len
  | ["front"] => pure .front
  | ["back"] => pure .back
  | ["next", e] => do let e ← s.parseHandle e; pure (.next e)
  | ["setv", e, v] => do let e ← s.parseHandle e; let v ← v.toInt?; pure (.setValue e v)
  | _ => none

/-- One protocol line: `none` = unparsable, `some none` = panic.  The oracle runs exactly the
function `SSt.apply` the refinement theorem is about. -/
def SSt.step (s : SSt) (ts : List String) : Option (Option (SSt × String)) := do
  let op ← parseSOp s ts
  pure ((s.apply op).map fun (s1, r) => (s1, showRes r))

/-- Bulk line `pushn k`: `k` times `PushBack(i % 10)` = `k` applications of `SSt.apply`. -/
def SSt.pushN : Nat → Nat → SSt → Option SSt
  | 0, _, s => some s
  | k + 1, i, s => do
    let (s1, _) ← s.apply (.pushBack ((i % 10 : Nat) : Int))
    SSt.pushN k (i + 1) s1

/-- Bulk line `removen k`: `k` times `RemoveFront()`; `removeln k`: `k` times `Remove(Len()-1)`. -/
def SSt.removeN (last : Bool) : Nat → SSt → Option SSt
  | 0, s => some s
  | k + 1, s => do
    let (s1, _) ← s.apply (if last then .remove (s.len - 1) else .removeFront)
    SSt.removeN last k s1

def SSt.stepBulk (s : SSt) (ts : List String) : Option (Option (SSt × String)) :=
  match ts with
  | ["pushn", k] => do
    let k ← k.toNat?
    pure ((SSt.pushN k 0 s).map fun s1 => (s1, "ok"))
  | ["removen", k] => do
    let k ← k.toNat?
    pure ((SSt.removeN false k s).map fun s1 => (s1, "ok"))
  | ["removeln", k] => do
    let k ← k.toNat?
    pure ((SSt.removeN true k s).map fun s1 => (s1, "ok"))
  | "allbody" :: script => do
    let (ops, brk) ← parseBody (parseSOp s) script
    pure ((SSt.rangeAll (bodyAt ops) (fun i => brk.contains i) bigCap 0 s.head s []).map
      fun (s1, ys, ok) => (s1, showYield ys false ok))
  | "walkbody" :: script => do
    let (ops, brk) ← parseBody (parseSOp s) script
    pure ((SSt.rangeAll (bodyAt ops) (fun i => brk.contains i) bigCap 0 s.head s []).map
      fun (s1, ys, ok) => (s1, showYield ys true ok))
  | _ => s.step ts

/-! ### a family of `SList`s over one node store -/

/-- Any number of `SList`s (`head`/`tail`/`len` per list id) sharing the nodes. -/
structure SFam where
  next  : PM
  val   : IM
  fresh : Nat
  hd    : PM
  tl    : PM
  ln    : IM

def SFam.zero : SFam :=
  { next := .empty, val := .empty, fresh := 0, hd := .empty, tl := .empty, ln := .empty }

/-- The `*SList` with id `k`, as the single-list state the methods are written against. -/
def SFam.view (F : SFam) (k : Nat) : SSt :=
  { next := F.next, val := F.val, head := F.hd.get k, tail := F.tl.get k, len := F.ln.get k,
    fresh := F.fresh }

def SFam.put (F : SFam) (k : Nat) (s : SSt) : SFam :=
  { next := s.next, val := s.val, fresh := s.fresh, hd := F.hd.set k s.head, tl := F.tl.set k s.tail,
    ln := F.ln.set k s.len }

/-- A call on list `k` of the family. -/
def SFam.apply (F : SFam) (k : Nat) (op : SOp) : Option (SFam × DRes) :=
  ((F.view k).apply op).map fun (s1, r) => (F.put k s1, r)

def SFam.run : SFam → List (Nat × SOp) → Option (SFam × List DRes)
  | F, [] => some (F, [])
  | F, (k, op) :: ops => do
    let (F1, r) ← F.apply k op
    let (F2, rs) ← F1.run ops
    pure (F2, r :: rs)

/-- Ranging over list `l` (`All()` / the `Front`–`Next` loop) while the body calls the API on ANY
list of the family; `Next` is evaluated after the body. -/
def SFam.rangeAll (body : Nat → List (Nat × SOp)) (stop : Nat → Bool) :
    Nat → Nat → Ptr → SFam → List (Nat × Int) → Option (SFam × List (Nat × Int) × Bool)
  | _, _, none, F, acc => some (F, acc.reverse, true)
  | 0, _, some _, F, acc => some (F, acc.reverse, false)
  | f + 1, i, some e, F, acc => do
    let y := (e, F.val.get e)
    let (F1, _) ← F.run (body i)
    if stop i then some (F1, (y :: acc).reverse, true)
    else SFam.rangeAll body stop f (i + 1) (F1.next.get e) F1 (y :: acc)

/-- Body-script call names: `op` acts on the list in focus, `o.op` on the other list. -/
def parseFOp (F : SFam) (cur : Nat) (ts : List String) : Option (Nat × SOp) :=
  match ts with
  | [] => none
  | name :: args =>
    if name.startsWith "o." then (parseSOp (F.view cur) ((name.drop 2).toString :: args)).map fun op => (1 - cur, op)
    else (parseSOp (F.view cur) ts).map fun op => (cur, op)

/-- One protocol line on the family; `cur` = the list in focus. -/
def SFam.stepLine (F : SFam) (cur : Nat) (ts : List String) : Option (Option (SFam × String)) :=
  match ts with
  | "allbody" :: script => do
    let (ops, brk) ← parseBody (parseFOp F cur) script
    pure ((SFam.rangeAll (bodyAt ops) (fun i => brk.contains i) bigCap 0 (F.hd.get cur) F []).map
      fun (F1, ys, ok) => (F1, showYield ys false ok))
  | "walkbody" :: script => do
    let (ops, brk) ← parseBody (parseFOp F cur) script
    pure ((SFam.rangeAll (bodyAt ops) (fun i => brk.contains i) bigCap 0 (F.hd.get cur) F []).map
      fun (F1, ys, ok) => (F1, showYield ys true ok))
  | "pushn" :: _ | "removen" :: _ | "removeln" :: _ => do
    -- bulk lines: repeated calls on the view of the list in focus
    let r ← (F.view cur).stepBulk ts
    pure (r.map fun (s1, out) => (F.put cur s1, out))
  | _ => do
    let op ← parseSOp (F.view cur) ts
    pure ((F.apply cur op).map fun (F1, r) => (F1, showRes r))

/-- Driver: the family with two lists (ids 0 and 1); the line `flip` changes the list in focus;
every other line is `SFam.apply` on the list in focus (the function `c13_slist_family_refines`
is about). -/
def runSOps (big : Bool) : Nat → Option SFam → List String → List String
  | _, _, [] => []
  | cur, none, _ :: ls => "dead" :: runSOps big cur none ls
  | cur, some F, l :: ls =>
    let dump (F : SFam) (k : Nat) := if big then (F.view k).dumpBig else (F.view k).dump
    if toks l = ["flip"] then
      ("ok | " ++ dump F (1 - cur)) :: runSOps big (1 - cur) (some F) ls
    else
    match F.stepLine cur (toks l) with
    | none => "bad-op" :: runSOps big cur (some F) ls
    | some none => "panic" :: runSOps big cur none ls
    | some (some (F1, out)) => (out ++ " | " ++ dump F1 cur) :: runSOps big cur (some F1) ls

/-- Header `@ C13 slist [z|n] [big]` (`z` = `new(SList)`, `n` = `NewSingly()`: the same state). -/
def runSListCase (hdr : List String) (ops : List String) : List String :=
  let go (big : Bool) : List String :=
    ("ok | " ++ (if big then SSt.zero.dumpBig else SSt.zero.dump)) ::
      runSOps big 0 (some SFam.zero) ops
  match hdr with
  | [] => go false
  | ["z"] => go false
  | ["n"] => go false
  | ["big"] => go true
  | ["z", "big"] => go true
  | ["n", "big"] => go true
  | _ => "bad-op" :: ops.map fun _ => "bad-op"

end Golib.C13
