/-
C08, buffer level: `cryptz/aes.go` over ONE arena of memory cells, with a write log.

The value-level model (`C08Pad.lean`) takes and returns byte STRINGS: where the arguments live
is not an input and "nothing else is written" cannot even be said.  Here every argument is a
window `(off, len, cap)` of one arena `Mem.cells` (as in the harness's `arena` mode), every
statement of `aes.go` that writes memory is a `Mem.wr` at an absolute offset, and `Mem.log`
records the range of each write.  `Proof/C08Arena.lean` proves (1) frame: cells outside the
logged ranges keep their content; (2) `c08_writes_within_dst`: with `dst` sized by the
library's helper every logged range lies inside the `dst` window — for AES-GCM this is the
append-to-`dst[:0]` contract of `Seal`/`Open` (`sliceForAppend`: the result lands in `dst`'s
array iff it fits its capacity); (3) refinement: when the windows do not overlap, or overlap
the way the doc comments allow (plaintext / ciphertext starting at `dst`'s first byte), the
final content of the `dst` window is what the value-level model computes from the contents
the windows had before the call.

Standard-library facts used (trusted, as everywhere in C08): `CryptBlocks` and `Seal`/`Open`
work correctly when `dst` and `src` overlap EXACTLY and panic ("invalid buffer overlap") when
they overlap inexactly; `NewCipher` expands the key and `NewCBCEncrypter/Decrypter` copy the
iv when they are called; `Open` clears the output region on an authentication failure.
-/
import Golib.Model.C08Pad

namespace Golib.C08.Arena
open Golib.C08

/-- a Go slice into the arena: `arena[off : off+len : off+cap]` -/
structure Win where
  off : Nat
  len : Nat
  cap : Nat
deriving Repr, DecidableEq

structure Mem where
  cells : Bytes
  /-- `(offset, length)` of every write so far, oldest first -/
  log : List (Nat × Nat)
deriving Repr

/-- the window lies inside the arena and `len ≤ cap` -/
def Win.wf (w : Win) (m : Mem) : Prop := w.len ≤ w.cap ∧ w.off + w.cap ≤ m.cells.length

def Mem.rd (m : Mem) (w : Win) : Bytes := (m.cells.drop w.off).take w.len

/-- store `v` at absolute offset `off` (callers check `off + |v| ≤ |cells|`, as Go's bounds
checks do) and log the range -/
def Mem.wr (m : Mem) (off : Nat) (v : Bytes) : Mem :=
  { cells := m.cells.take off ++ v ++ m.cells.drop (off + v.length),
    log := m.log ++ [(off, v.length)] }

/-- the two windows share at least one cell -/
def overlap (a b : Win) : Bool := a.len > 0 && b.len > 0 && a.off < b.off + b.len && b.off < a.off + a.len

/-- `alias.InexactOverlap(a, b)`: they overlap and do not start at the same cell -/
def inexactOverlap (a b : Win) : Bool := overlap a b && a.off != b.off

/-- `copy(dst, src)` (a memmove: the source is read before anything is written) -/
def copyW (m : Mem) (dst src : Win) : Mem :=
  m.wr dst.off ((m.rd src).take (min dst.len src.len))

/-- `AESCBCEncrypt(dst, plainText, key, iv)`: the memory afterwards and the outcome -/
def aesCBCEncryptA (C : Cipher) (m : Mem) (dst pt key iv : Win) : Mem × R Unit :=
  -- block, err := aes.NewCipher(key)
  let keyv := m.rd key
  if ¬ keyOK keyv then (m, .err "key")
  else
    let paddingLen := aesBlockSize - (pt.len &&& blockSizeMask)
    -- copy(dst, plainText)
    let m1 := copyW m dst pt
    -- dst[len(plainText):]
    if dst.len < pt.len then (m1, .panic)
    else
      match prePadPatterns[paddingLen]? with
      | none => (m1, .panic)
      | some pat =>
        -- copy(dst[len(plainText):], prePadPatterns[paddingLen])
        let m2 := m1.wr (dst.off + pt.len) (pat.take (min (dst.len - pt.len) pat.length))
        -- cbc := cipher.NewCBCEncrypter(block, iv): the iv is read NOW
        let ivv := m2.rd iv
        if ivv.length ≠ 16 then (m2, .panic)
        else
          -- cbc.CryptBlocks(dst, dst)
          let src := m2.rd dst
          if src.length % 16 ≠ 0 then (m2, .panic)
          else (m2.wr dst.off (cbcEncrypt (C.E keyv) ivv src), .ok ())

/-- `AESCBCDecrypt(dst, cipherText, key, iv)` -/
def aesCBCDecryptA (C : Cipher) (m : Mem) (dst ct key iv : Win) : Mem × R Int :=
  if ct.len < aesBlockSize ∨ ct.len &&& blockSizeMask ≠ 0 then (m, .err "len")
  else
    let keyv := m.rd key
    if ¬ keyOK keyv then (m, .err "key")
    else
      let ivv := m.rd iv
      if ivv.length ≠ 16 then (m, .panic)
      -- CryptBlocks(dst, cipherText): "output smaller than input", "invalid buffer overlap"
      else if dst.len < ct.len then (m, .panic)
      else if inexactOverlap { dst with len := ct.len } ct then (m, .panic)
      else
        let m1 := m.wr dst.off (cbcDecrypt (C.D keyv) ivv (m.rd ct))
        -- return pkcs7UnPadding(dst)
        match pkcs7UnPadding (m1.rd dst) with
        | .ok n => (m1, .ok n)
        | .err e => (m1, .err e)
        | .panic => (m1, .panic)

/-- `sliceForAppend(dst[:0], n)`: the output lands in `dst`'s array iff `n ≤ cap(dst)` -/
def fitsCap (dst : Win) (n : Nat) : Bool := n ≤ dst.cap

/-- `AESGCMEncrypt(dst, plainText, key, nonce, additionalData)` -/
def aesGCMEncryptA (A : AEAD) (m : Mem) (dst pt key nonce ad : Win) : Mem × R Unit :=
  let keyv := m.rd key
  if ¬ keyOK keyv then (m, .err "key")
  else if nonce.len = 0 then (m, .err "nonce")
  else
    -- gcm.Seal(dst[:0], nonce, plainText, additionalData)
    let out := A.sealF keyv (m.rd nonce) (m.rd pt) (m.rd ad)
    if fitsCap dst (pt.len + gcmTagSize) then
      if inexactOverlap { dst with len := pt.len + gcmTagSize } pt then (m, .panic)
      else (m.wr dst.off out, .ok ())
    else (m, .ok ())   -- a new array was allocated: the arena is not touched

/-- `AESGCMDecrypt(dst, cipherText, key, nonce, additionalData)` -/
def aesGCMDecryptA (A : AEAD) (m : Mem) (dst ct key nonce ad : Win) : Mem × R Unit :=
  let keyv := m.rd key
  if ¬ keyOK keyv then (m, .err "key")
  else if nonce.len = 0 then (m, .err "nonce")
  else if ct.len < gcmTagSize then (m, .err "open")     -- Open returns before touching anything
  else
    let n := ct.len - gcmTagSize
    -- gcm.Open(dst[:0], nonce, cipherText, additionalData)
    if fitsCap dst n then
      if inexactOverlap { dst with len := n } ct then (m, .panic)
      else
        match A.openF keyv (m.rd nonce) (m.rd ct) (m.rd ad) with
        | some p => (m.wr dst.off p, .ok ())
        | none => (m.wr dst.off (List.replicate n 0), .err "open")   -- clear(out)
    else
      match A.openF keyv (m.rd nonce) (m.rd ct) (m.rd ad) with
      | some _ => (m, .ok ())
      | none => (m, .err "open")

/-! ### the PKCS#7 helpers at buffer level (every block size, not only 16) -/

/-- what a Go function returns as `[]byte`: a window of the caller's arena, or a new array -/
inductive Slice where
  | inArena (w : Win)
  | fresh (v : Bytes)
deriving Repr

/-- `PKCS7Padding(data, blockSize)`: `append(data, bytes.Repeat([]byte{byte(paddingLen)}, paddingLen)...)`.
`append` writes into the SPARE CAPACITY of `data` when the padding fits there (cells
`[off+len, off+len+paddingLen)` of the caller's arena) and allocates otherwise. -/
def pkcs7PaddingA (m : Mem) (data : Win) (blockSize : Int) : Mem × R Slice :=
  if data.len = 0 then (m, .err "empty")
  else if blockSize ≤ 0 then (m, .err "blocksize")
  else
    let paddingLen : Int := blockSize - Int.tmod data.len blockSize
    match goRepeat (toByte paddingLen.toNat) paddingLen with
    | none => (m, .panic)
    | some pad =>
      if data.len + pad.length ≤ data.cap then
        (m.wr (data.off + data.len) pad, .ok (.inArena { data with len := data.len + pad.length }))
      else (m, .ok (.fresh (m.rd data ++ pad)))

/-- `PKCS7UnPadding(data, blockSize)`: reads only (`bytes.Repeat` allocates, `bytes.Equal`
compares) and returns the sub-slice `data[:len(data)-paddingLen]`. -/
def pkcs7UnPaddingPubA (m : Mem) (data : Win) (blockSize : Int) : Mem × R Win :=
  match pkcs7UnPaddingPub (m.rd data) blockSize with
  | .ok d => (m, .ok { data with len := d.length })
  | .err e => (m, .err e)
  | .panic => (m, .panic)

/-- the content of a returned slice -/
def Slice.content (m : Mem) : Slice → Bytes
  | .inArena w => m.rd w
  | .fresh v => v

end Golib.C08.Arena
