/-
C01 — model of `ringz/sync.go` (SyncRing, a Vyukov-style ticket ring) under arbitrary
interleavings.

Shared memory: the position counters `head`, `tail` and, per slot, the sequence number
`seq` (`item.pos` in the source) and the stored value.  One program counter per
shared-memory access of `Push`, `Pop`, `Len`, `IsEmpty`, `IsFull`, in source order;
`step` performs exactly ONE access of one thread (atomic accesses and the plain
accesses to `holder.value`).

The machine is generic in the ticket arithmetic: `Cfg.M` is the modulus of the
counters (`2^w` for `w`-bit tickets; the code has `w = 32`) and `M = 0` makes them
unbounded (`x % 0 = x`): that is the ghost machine `Conc` of DESIGN §5, `M = 2^32` is
`Conc32`.  Slots are indexed by `pos &&& mask` exactly as the code does.
Core-only imports (linked into the `oracle` executable).
-/
import Golib.Proto

namespace Golib.C01

structure Cfg where
  /-- ticket modulus: `2^w`, or `0` for unbounded ghost counters -/
  M : Nat
  /-- capacity (a power of two ≥ 2 after `Init`) -/
  cap : Nat
deriving DecidableEq, Repr

def Cfg.mask (c : Cfg) : Nat := c.cap - 1
/-- fixed-width wrap of a counter value -/
def Cfg.norm (c : Cfg) (x : Nat) : Nat := x % c.M
/-- slot index of a position: `pos & r.mask` -/
def Cfg.idx (c : Cfg) (pos : Nat) : Nat := pos &&& c.mask
/-- `t - h` in ticket arithmetic.  On the ghost machine a negative difference (possible
only for the racy reads of `Len`) is reported as `cap + 1`, i.e. "more than `cap`",
which is all the code looks at. -/
def Cfg.sub (c : Cfg) (t h : Nat) : Nat :=
  if c.M = 0 then (if h ≤ t then t - h else c.cap + 1) else (t + c.M - h % c.M) % c.M

inductive Call where
  | push (v : Int)
  | pop
  | len
  | isEmpty
  | isFull
deriving DecidableEq, Repr

structure Slot where
  seq : Nat
  val : Int
deriving DecidableEq, Repr

/-- Program counter = the NEXT shared-memory access, with the locals it needs. -/
inductive Pc where
  | idle
  -- Push(v): pos := Load(&r.tail); seq := Load(&holder.pos); if pos != seq {return false}
  --          if !CAS(&r.tail, pos, pos+1) {return false}; holder.value = v;
  --          Store(&holder.pos, seq+1); return true
  | pushLoadTail (v : Int)
  | pushLoadSeq (v : Int) (pos : Nat)
  | pushCAS (v : Int) (pos seq : Nat)
  | pushWrite (v : Int) (pos seq : Nat)
  | pushStore (pos seq : Nat)
  -- Pop(): pos := Load(&r.head); seq := Load(&holder.pos); if pos+1 != seq {return false}
  --        if !CAS(&r.head, pos, pos+1) {return false}; value := holder.value;
  --        holder.value = zero; Store(&holder.pos, seq+r.mask); return value, true
  | popLoadHead
  | popLoadSeq (pos : Nat)
  | popCAS (pos seq : Nat)
  | popRead (pos seq : Nat)
  | popClear (pos seq : Nat) (v : Int)
  | popStore (pos seq : Nat) (v : Int)
  -- Len(): Load(&r.tail) - Load(&r.head), clamped to cap
  | lenLoadTail
  | lenLoadHead (t : Nat)
  -- IsEmpty(): Load(&r.head) == Load(&r.tail)
  | emptyLoadHead
  | emptyLoadTail (h : Nat)
  -- IsFull(): Load(&r.tail) - Load(&r.head) == r.cap
  | fullLoadTail
  | fullLoadHead (t : Nat)
deriving DecidableEq, Repr

structure Thread where
  pc : Pc
  prog : List Call
deriving DecidableEq, Repr

structure State where
  head : Nat
  tail : Nat
  slots : List Slot
  threads : List Thread
  /-- set when a thread indexed outside `values` (Go panic); never happens for the
  capacities `Init` produces -/
  crashed : Bool
deriving DecidableEq, Repr

inductive Acc where
  | none
  | ldTail (v : Nat)
  | ldHead (v : Nat)
  | ldSeq (i : Nat) (v : Nat)
  | casTail (old new : Nat) (ok : Bool)
  | casHead (old new : Nat) (ok : Bool)
  | stSeq (i : Nat) (v : Nat)
  | wrVal (i : Nat) (v : Int)
  | rdVal (i : Nat) (v : Int)
deriving DecidableEq, Repr

inductive Ret where
  | push (ok : Bool)
  | pop (v : Int) (ok : Bool)
  | len (n : Nat)
  | isEmpty (b : Bool)
  | isFull (b : Bool)
  | panic
deriving DecidableEq, Repr

structure Event where
  tid : Nat
  acc : Acc
  ret : Option Ret
deriving DecidableEq, Repr

def start : Call → Pc
  | .push v => .pushLoadTail v
  | .pop => .popLoadHead
  | .len => .lenLoadTail
  | .isEmpty => .emptyLoadHead
  | .isFull => .fullLoadTail

def Thread.finish (th : Thread) : Thread :=
  match th.prog with
  | [] => { pc := .idle, prog := [] }
  | c :: rest => { pc := start c, prog := rest }

def mkThread (prog : List Call) : Thread := Thread.finish { pc := .idle, prog := prog }

def State.setPc (s : State) (i : Nat) (th : Thread) (pc : Pc) : State :=
  { s with threads := s.threads.set i { th with pc := pc } }

def State.fin (s : State) (i : Nat) (th : Thread) : State :=
  { s with threads := s.threads.set i th.finish }

def State.crash (s : State) (i : Nat) (th : Thread) : State :=
  { s with crashed := true, threads := s.threads.set i { th with pc := .idle } }

/-- `Len()` from the two loaded counters. -/
def Cfg.lenOf (c : Cfg) (t h : Nat) : Nat :=
  let l := c.sub t h
  if l > c.cap then c.cap else l

/-- One shared-memory access of thread `i`. -/
def step (c : Cfg) (s : State) (i : Nat) : State × Event :=
  match s.threads[i]? with
  | none => (s, ⟨i, .none, none⟩)
  | some th =>
    match th.pc with
    | .idle => (s, ⟨i, .none, none⟩)
    | .pushLoadTail v => (s.setPc i th (.pushLoadSeq v s.tail), ⟨i, .ldTail s.tail, none⟩)
    | .pushLoadSeq v pos =>
      match s.slots[c.idx pos]? with
      | none => (s.crash i th, ⟨i, .none, some .panic⟩)
      | some sl =>
        if pos ≠ sl.seq then (s.fin i th, ⟨i, .ldSeq (c.idx pos) sl.seq, some (.push false)⟩)
        else (s.setPc i th (.pushCAS v pos sl.seq), ⟨i, .ldSeq (c.idx pos) sl.seq, none⟩)
    | .pushCAS v pos seq =>
      if s.tail = pos then
        ({ s with tail := c.norm (pos + 1) }.setPc i th (.pushWrite v pos seq),
          ⟨i, .casTail pos (c.norm (pos + 1)) true, none⟩)
      else (s.fin i th, ⟨i, .casTail pos (c.norm (pos + 1)) false, some (.push false)⟩)
    | .pushWrite v pos seq =>
      match s.slots[c.idx pos]? with
      | none => (s.crash i th, ⟨i, .none, some .panic⟩)
      | some sl =>
        ({ s with slots := s.slots.set (c.idx pos) { sl with val := v } }.setPc i th (.pushStore pos seq),
          ⟨i, .wrVal (c.idx pos) v, none⟩)
    | .pushStore pos seq =>
      match s.slots[c.idx pos]? with
      | none => (s.crash i th, ⟨i, .none, some .panic⟩)
      | some sl =>
        ({ s with slots := s.slots.set (c.idx pos) { sl with seq := c.norm (seq + 1) } }.fin i th,
          ⟨i, .stSeq (c.idx pos) (c.norm (seq + 1)), some (.push true)⟩)
    | .popLoadHead => (s.setPc i th (.popLoadSeq s.head), ⟨i, .ldHead s.head, none⟩)
    | .popLoadSeq pos =>
      match s.slots[c.idx pos]? with
      | none => (s.crash i th, ⟨i, .none, some .panic⟩)
      | some sl =>
        if c.norm (pos + 1) ≠ sl.seq then
          (s.fin i th, ⟨i, .ldSeq (c.idx pos) sl.seq, some (.pop 0 false)⟩)
        else (s.setPc i th (.popCAS pos sl.seq), ⟨i, .ldSeq (c.idx pos) sl.seq, none⟩)
    | .popCAS pos seq =>
      if s.head = pos then
        ({ s with head := c.norm (pos + 1) }.setPc i th (.popRead pos seq),
          ⟨i, .casHead pos (c.norm (pos + 1)) true, none⟩)
      else (s.fin i th, ⟨i, .casHead pos (c.norm (pos + 1)) false, some (.pop 0 false)⟩)
    | .popRead pos seq =>
      match s.slots[c.idx pos]? with
      | none => (s.crash i th, ⟨i, .none, some .panic⟩)
      | some sl => (s.setPc i th (.popClear pos seq sl.val), ⟨i, .rdVal (c.idx pos) sl.val, none⟩)
    | .popClear pos seq v =>
      match s.slots[c.idx pos]? with
      | none => (s.crash i th, ⟨i, .none, some .panic⟩)
      | some sl =>
        ({ s with slots := s.slots.set (c.idx pos) { sl with val := 0 } }.setPc i th (.popStore pos seq v),
          ⟨i, .wrVal (c.idx pos) 0, none⟩)
    | .popStore pos seq v =>
      match s.slots[c.idx pos]? with
      | none => (s.crash i th, ⟨i, .none, some .panic⟩)
      | some sl =>
        ({ s with slots := s.slots.set (c.idx pos) { sl with seq := c.norm (seq + c.mask) } }.fin i th,
          ⟨i, .stSeq (c.idx pos) (c.norm (seq + c.mask)), some (.pop v true)⟩)
    | .lenLoadTail => (s.setPc i th (.lenLoadHead s.tail), ⟨i, .ldTail s.tail, none⟩)
    | .lenLoadHead t => (s.fin i th, ⟨i, .ldHead s.head, some (.len (c.lenOf t s.head))⟩)
    | .emptyLoadHead => (s.setPc i th (.emptyLoadTail s.head), ⟨i, .ldHead s.head, none⟩)
    | .emptyLoadTail h => (s.fin i th, ⟨i, .ldTail s.tail, some (.isEmpty (h == s.tail))⟩)
    | .fullLoadTail => (s.setPc i th (.fullLoadHead s.tail), ⟨i, .ldTail s.tail, none⟩)
    | .fullLoadHead t => (s.fin i th, ⟨i, .ldHead s.head, some (.isFull (c.sub t s.head == c.cap))⟩)

/-- Run a schedule (list of thread ids), collecting the events. -/
def run (c : Cfg) : State → List Nat → State × List Event
  | s, [] => (s, [])
  | s, i :: σ =>
    let (s1, e) := step c s i
    let (s2, es) := run c s1 σ
    (s2, e :: es)

/-- The empty ring after `k` push/pop pairs (`k = 0`: a fresh ring): slot `i` is free
for the unique position `p ∈ [k, k+cap)` with `p ≡ i (mod cap)`. -/
def slotSeq (cap k i : Nat) : Nat := k + (i + cap - k % cap) % cap

def initAt (c : Cfg) (k : Nat) (progs : List (List Call)) : State :=
  { head := c.norm k, tail := c.norm k,
    slots := (List.range c.cap).map fun i => { seq := c.norm (slotSeq c.cap k i), val := 0 },
    threads := progs.map mkThread, crashed := false }

def init (c : Cfg) (progs : List (List Call)) : State := initAt c 0 progs

/-- All counters and sequence numbers advanced by `k` (`k` a multiple of `cap`): the
state reached when `k` further positions go by and every slot ends up in the same
phase (e.g. `k` pop-then-push pairs on a full ring re-pushing the popped values).
Thread-local copies are NOT advanced — a parked call keeps its stale ticket. -/
def State.shift (c : Cfg) (s : State) (k : Nat) : State :=
  { s with head := c.norm (s.head + k), tail := c.norm (s.tail + k),
           slots := s.slots.map fun sl => { sl with seq := c.norm (sl.seq + k) } }

def Pc.isPlain : Pc → Bool
  | .pushWrite _ _ _ => true
  | .popRead _ _ => true
  | .popClear _ _ _ => true
  | _ => false

/-- Source-level names of the accesses, for the regenerated facts file. -/
inductive SrcOp where
  | loadTail | loadHead | loadSeq | casTail | casHead | storeSeqPlus1 | storeSeqPlusMask
  | writeVal | readVal | clearVal
  /-- a PLAIN (non-atomic) read of `r.head` / `r.tail` (the source has none) -/
  | plainHead | plainTail
  | other (s : String)
deriving DecidableEq, Repr

def Pc.src : Pc → Option SrcOp
  | .idle => none
  | .pushLoadTail _ => some .loadTail
  | .pushLoadSeq _ _ => some .loadSeq
  | .pushCAS _ _ _ => some .casTail
  | .pushWrite _ _ _ => some .writeVal
  | .pushStore _ _ => some .storeSeqPlus1
  | .popLoadHead => some .loadHead
  | .popLoadSeq _ => some .loadSeq
  | .popCAS _ _ => some .casHead
  | .popRead _ _ => some .readVal
  | .popClear _ _ _ => some .clearVal
  | .popStore _ _ _ => some .storeSeqPlusMask
  | .lenLoadTail => some .loadTail
  | .lenLoadHead _ => some .loadHead
  | .emptyLoadHead => some .loadHead
  | .emptyLoadTail _ => some .loadTail
  | .fullLoadTail => some .loadTail
  | .fullLoadHead _ => some .loadHead

/-- The accesses thread 0 performs when it runs `k` steps alone from `s`. -/
def soloSrc (c : Cfg) : State → Nat → List SrcOp
  | _, 0 => []
  | s, k + 1 =>
    match s.threads[0]? with
    | some th =>
      match th.pc.src with
      | some o => o :: soloSrc c (step c s 0).1 k
      | none => []
    | none => []

end Golib.C01
