import Golib.Proto
import Golib.Model.C02Skip

/-
C02 driver.  Header `@ C02 <kind> <ktype> <cmp> <dump|nodump>`:
  kind  zero = `var s SkipList[K,int]`, new = `NewSkipList`, cmp = `NewSkipListWithCmp`
  ktype int | str (keys as hex bytes)
  cmp   nat | rev | mod3 (int: key mod 3, then value) | len (str: length, then bytes)
        diff (a-b) | scaled (7(a-b)) | sgnhash (sign·(1+hash)) | bytesdiff (str: byte/length difference):
        the natural order with results of arbitrary magnitude; halfdiff: `half` with magnitudes
        half (int: compare k>>1 — identifies 2m and 2m+1) | lenonly (str: compare lengths only):
        weak orders, `cmp a b = 0` for distinct keys; the stored key is kept on replace
Operations (values are ints, `r` is the word the random source returns):
  set k v r | setnx k v r | setx k v r | get k | getnode k | setnode k v | rm k | clear | init
  len | head | keys | values | range n | all n | rfrom s n | rrange s e n
  walk (Head(), then Next() to the end) | walkfrom k (GetNode(k), then Next() to the end)
  hold k (keep the node GetNode(k) returns) | held (Key/Value/Next of the kept node) |
  heldset v (SetValue on the kept node) | heldwalk (Next() from the kept node to the end);
  the kept node is dropped when it is removed from the list (rm hit on an equivalent key, clear, init)
Every answer is `<result> | L=<level> n=<len> <towers>`.
-/
namespace Golib.C02
open Golib.Proto

structure KeyIO (K : Type) where
  parse : String → Option K
  show_ : K → String

def intIO : KeyIO Int := ⟨String.toInt?, toString⟩
def strIO : KeyIO (List Nat) := ⟨unhex, hex⟩

def cmpInt (a b : Int) : Int := if a < b then -1 else if a = b then 0 else 1

/-- Go string comparison: bytewise lexicographic. -/
def cmpBytes : List Nat → List Nat → Int
  | [], [] => 0
  | [], _ :: _ => -1
  | _ :: _, [] => 1
  | a :: as, b :: bs => if a < b then -1 else if a > b then 1 else cmpBytes as bs

def cmpMod3 (a b : Int) : Int :=
  let x := a.emod 3
  let y := b.emod 3
  if x ≠ y then cmpInt x y else cmpInt a b

def cmpLen (a b : List Nat) : Int :=
  if a.length ≠ b.length then cmpInt a.length b.length else cmpBytes a b

/-! Comparators whose results have arbitrary magnitudes (a comparator only promises the SIGN). -/

/-- `a - b`. -/
def cmpDiff (a b : Int) : Int := a - b

/-- `7 * (a - b)`. -/
def cmpScaled (a b : Int) : Int := 7 * (a - b)

/-- `sign(a - b) * (1 + (31 a + 17 b) mod 5)`: the magnitude depends on both arguments and is not
symmetric. -/
def cmpSgnHash (a b : Int) : Int :=
  let h := 1 + (31 * a + 17 * b) % 5
  if a < b then -h else if a = b then 0 else h

/-- Bytewise order with magnitudes: the difference of the first differing bytes, else of the lengths. -/
def cmpBytesDiff : List Nat → List Nat → Int
  | [], [] => 0
  | [], _ :: bs => -((bs.length : Int) + 1)
  | _ :: as, [] => (as.length : Int) + 1
  | a :: as, b :: bs => if a ≠ b then (a : Int) - (b : Int) else cmpBytesDiff as bs

/-- The weak order `k >> 1` with magnitudes. -/
def cmpHalfDiff (a b : Int) : Int := 3 * (a / 2 - b / 2)

/-- A weak order on ints: compares `k >> 1` (Go's arithmetic shift = floor division by 2). -/
def cmpHalf (a b : Int) : Int := cmpInt (a / 2) (b / 2)

/-- A weak order on strings: compares the lengths only. -/
def cmpLenOnly (a b : List Nat) : Int := cmpInt a.length b.length

variable {K : Type} [DecidableEq K]

def showTowers (io : KeyIO K) (s : SL K Int) : String :=
  let chains := (s.lv.reverse.dropWhile List.isEmpty).reverse
  let body := if s.lv.isEmpty then "nil"
    else "/".intercalate (chains.map fun l => " ".intercalate (l.map io.show_))
  s!"L={s.level} n={s.len} {body}"

def showKVs (io : KeyIO K) (xs : List (K × Int)) : String :=
  "[" ++ " ".intercalate (xs.map fun (k, v) => io.show_ k ++ ":" ++ toString v) ++ "]"

def showKeys (io : KeyIO K) (xs : List K) : String :=
  "[" ++ " ".intercalate (xs.map io.show_) ++ "]"

/-- One operation on the list: `none` = bad-op, `some none` = panic. -/
def stepList (io : KeyIO K) (cfg : Cfg K Int) (s : SL K Int) (t : List String) :
    Option (Option (SL K Int × String)) :=
  let setOp (mode : Nat) (k v r : String) (sh : Bool → String) : Option (Option (SL K Int × String)) :=
    match io.parse k, v.toInt?, r.toNat? with
    | some k, some v, some r =>
      if r < 2 ^ 64 then some ((s.set cfg k v mode r).map fun (s', ok) => (s', sh ok)) else none
    | _, _, _ => none
  match t with
  | ["set", k, v, r] => setOp 0 k v r fun _ => "ok"
  | ["setx", k, v, r] => setOp 1 k v r showBool
  | ["setnx", k, v, r] => setOp 2 k v r showBool
  | ["get", k] => (io.parse k).map fun k => (s.get cfg k).map fun (v, ok) => (s, s!"{v} {showBool ok}")
  | ["getnode", k] => (io.parse k).map fun k =>
      match s.getNode cfg k with
      | none => none
      | some none => some (s, "nil")
      | some (some n) =>
        match getVal s.vals n, s.nodeNext n with
        | some v, some nx =>
          some (s, s!"{io.show_ n} {v} next={match nx with | none => "nil" | some x => io.show_ x}")
        | _, _ => none
  | ["setnode", k, v] =>
    match io.parse k, v.toInt? with
    | some k, some v =>
      some (match s.getNode cfg k with
        | none => none
        | some none => some (s, "nil")
        | some (some n) => some (s.setNodeValue n v, "ok"))
    | _, _ => none
  | ["rm", k] => (io.parse k).map fun k =>
      (s.remove cfg k).map fun (s', v, ok) => (s', s!"{v} {showBool ok}")
  | ["clear"] => some (some (s.clear cfg, "ok"))
  | ["init"] => some (some (SL.init, "ok"))
  | ["len"] => some (some (s, toString s.len))
  | ["head"] => some (match s.head with
      | none => none
      | some none => some (s, "nil")
      | some (some n) => (getVal s.vals n).map fun v => (s, s!"{io.show_ n} {v}"))
  | ["keys"] => some ((s.keys cfg).map fun ks => (s, showKeys io ks))
  | ["values"] => some ((s.values cfg).map fun vs => (s, showInts vs))
  | ["range", n] => n.toNat?.map fun n => (s.range cfg n).map fun xs => (s, showKVs io xs)
  | ["all", n] => n.toNat?.map fun n => (s.range cfg n).map fun xs => (s, showKVs io xs)
  | ["rfrom", st, n] =>
    match io.parse st, n.toNat? with
    | some st, some n => some ((s.rangeFrom cfg st none n).map fun xs => (s, showKVs io xs))
    | _, _ => none
  | ["rrange", st, e, n] =>
    match io.parse st, io.parse e, n.toNat? with
    | some st, some e, some n => some ((s.rangeFrom cfg st (some e) n).map fun xs => (s, showKVs io xs))
    | _, _, _ => none
  | _ => none

/-- `key val next=…` of a node. -/
def showNode (io : KeyIO K) (s : SL K Int) (n : K) : Option String :=
  match getVal s.vals n, s.nodeNext n with
  | some v, some nx => some s!"{io.show_ n} {v} next={match nx with | none => "nil" | some x => io.show_ x}"
  | _, _ => none

/-- One operation; the state is the list and the node handle the harness keeps (`hold`). -/
def step (io : KeyIO K) (cfg : Cfg K Int) (st : SL K Int × Option K) (t : List String) :
    Option (Option ((SL K Int × Option K) × String)) :=
  let (s, held) := st
  match t with
  | ["walk"] => some (s.walk.map fun xs => ((s, held), showKVs io xs))
  | ["walkfrom", k] => (io.parse k).map fun k => (s.walkFrom cfg k).map fun xs => ((s, held), showKVs io xs)
  | ["hold", k] => (io.parse k).map fun k =>
      match s.getNode cfg k with
      | none => none
      | some none => some ((s, none), "nil")
      | some (some n) => (showNode io s n).map fun o => ((s, some n), o)
  | ["held"] => some (match held with
      | none => some ((s, held), "none")
      | some n => (showNode io s n).map fun o => ((s, held), o))
  | ["heldset", v] => v.toInt?.map fun v =>
      match held with
      | none => some ((s, held), "none")
      | some n => some ((s.setNodeValue n v, held), "ok")
  | ["heldwalk"] => some (match held with
      | none => some ((s, held), "none")
      | some n => (s.walkNodes (s.lv.headD []).length (some n)).map fun xs => ((s, held), showKVs io xs))
  | _ =>
    -- the kept node leaves the list: Remove of an equivalent key that succeeds, Clear, Init
    let drops : Bool := match t, held with
      | ["rm", k], some n => (match io.parse k with
          | some k => cfg.cmp n k == 0
          | none => false)
      | ["clear"], _ => true
      | ["init"], _ => true
      | _, _ => false
    (stepList io cfg s t).map fun r => r.map fun (s', o) => ((s', if drops then none else held), o)

def withDump (io : KeyIO K) (dump : Bool) (out : String) (s : SL K Int) : String :=
  if dump then out ++ " | " ++ showTowers io s else out

def runOps (io : KeyIO K) (cfg : Cfg K Int) (dump : Bool) :
    Option (SL K Int × Option K) → List String → List String
  | _, [] => []
  | none, _ :: ls => "dead" :: runOps io cfg dump none ls
  | some s, l :: ls =>
    match step io cfg s (toks l) with
    | none => "bad-op" :: runOps io cfg dump (some s) ls
    | some none => "panic" :: runOps io cfg dump none ls
    | some (some (s', out)) => withDump io dump out s'.1 :: runOps io cfg dump (some s') ls

def runWith (io : KeyIO K) (cfg : Cfg K Int) (kind : String) (dump : Bool) (ops : List String) : List String :=
  let s0 : SL K Int := if kind = "zero" then SL.zero else SL.init
  withDump io dump "ok" s0 :: runOps io cfg dump (some (s0, none)) ops

def bad (ops : List String) : List String := "bad-op" :: ops.map fun _ => "bad-op"

def runCase (hdr : List String) (ops : List String) : List String :=
  match hdr with
  | [kind, kt, c, d] =>
    if d ≠ "dump" ∧ d ≠ "nodump" then bad ops else
    let dump := d = "dump"
    if kind = "zero" ∨ kind = "new" then
      if c ≠ "nat" then bad ops
      else if kt = "int" then runWith intIO ⟨cmpInt, true, 0, 0, true⟩ kind dump ops
      else if kt = "str" then runWith strIO ⟨cmpBytes, true, [], 0, true⟩ kind dump ops
      else bad ops
    else if kind = "cmp" then
      if kt = "int" then
        if c = "nat" then runWith intIO ⟨cmpInt, false, 0, 0, true⟩ kind dump ops
        else if c = "rev" then runWith intIO ⟨fun a b => cmpInt b a, false, 0, 0, true⟩ kind dump ops
        else if c = "mod3" then runWith intIO ⟨cmpMod3, false, 0, 0, true⟩ kind dump ops
        else if c = "half" then runWith intIO ⟨cmpHalf, false, 0, 0, true⟩ kind dump ops
        else if c = "diff" then runWith intIO ⟨cmpDiff, false, 0, 0, true⟩ kind dump ops
        else if c = "scaled" then runWith intIO ⟨cmpScaled, false, 0, 0, true⟩ kind dump ops
        else if c = "sgnhash" then runWith intIO ⟨cmpSgnHash, false, 0, 0, true⟩ kind dump ops
        else if c = "halfdiff" then runWith intIO ⟨cmpHalfDiff, false, 0, 0, true⟩ kind dump ops
        else bad ops
      else if kt = "str" then
        if c = "nat" then runWith strIO ⟨cmpBytes, false, [], 0, true⟩ kind dump ops
        else if c = "rev" then runWith strIO ⟨fun a b => cmpBytes b a, false, [], 0, true⟩ kind dump ops
        else if c = "len" then runWith strIO ⟨cmpLen, false, [], 0, true⟩ kind dump ops
        else if c = "lenonly" then runWith strIO ⟨cmpLenOnly, false, [], 0, true⟩ kind dump ops
        else if c = "bytesdiff" then runWith strIO ⟨cmpBytesDiff, false, [], 0, true⟩ kind dump ops
        else bad ops
      else bad ops
    else bad ops
  | _ => bad ops

end Golib.C02
