import Golib.Proto
import Golib.Model.C02Skip
import Golib.Model.C02Ptr

/-
C02 driver.  Header `@ C02 <kind> <ktype> <cmp> <dump|nodump>`:
  kind  zero = `var s SkipList[K,int]`, new = `NewSkipList`, cmp = `NewSkipListWithCmp`
  ktype int | str (keys as hex bytes) | ptr (*int compared by dereferencing; cmp kind only) |
        f64 (float64 keys of SkipList: integers, halves, -0, +Inf, -Inf; zero/new kinds only) |
        pair (struct{A,B int} keys `a,b`; cmp kind only: lex | first | rev)
  cmp   nat | rev | mod3 (int: key mod 3, then value) | len (str: length, then bytes)
        diff (a-b) | scaled (7(a-b)) | sgnhash (sign·(1+hash)) | bytesdiff (str: byte/length difference):
        the natural order with results of arbitrary magnitude; halfdiff: `half` with magnitudes
        half (int: compare k>>1 — identifies 2m and 2m+1) | lenonly (str: compare lengths only):
        weak orders, `cmp a b = 0` for distinct keys; the stored key is kept on replace
Operations (values are ints, `r` is the word the random source returns):
  set k v r | setnx k v r | setx k v r | get k | getnode k | setnode k v | rm k | clear | init
  len | head | keys | values | range n | all n | rfrom s n | rrange s e n
  walk (Head(), then Next() to the end) | walkfrom k (GetNode(k), then Next() to the end)
  hold k (keep the node GetNode(k) returns) | held (Key/Value/Next of the kept node) |
  heldset v (SetValue on the kept node) | heldwalk (Next() from the kept node to the end);
  the kept node is dropped when it is removed from the list (rm hit on an equivalent key, clear, init)
  seq k (slot k := s.All(), k < 4) | seqrange k n (range the held Seq, stop after n) |
  seqtwice k j (range with break after j, then fully) | seqnest k j (nested over itself, j outer
  rounds) | pull2 k a (two alternating iter.Pull2 cursors, the first stopped after a values)
  obj k (k < 4: make list k of the case's four independent lists the current one)
  initcmp <name> (SkipListWithCmp only: `s.Init(<comparator name>)` — re-configuration with another comparator)
  fill lo hi step seed nat|tall | rmrange lo hi step asc|desc|stride s   (int keys; see below)
Every answer is `<result> | L=<level> n=<len> <towers>` (`dump`), `<result> | L= n= lens=<chain lengths>`
(`vdump`, for large lists) or `<result>` (`nodump`).
-/
namespace Golib.C02
open Golib.Proto

structure KeyIO (K : Type) where
  parse : String → Option K
  show_ : K → String
  ofInt : Option (Int → K)      -- bulk operations generate int keys

def intIO : KeyIO Int := ⟨String.toInt?, toString, some id⟩
def strIO : KeyIO (List Nat) := ⟨unhex, hex, none⟩

/-! Further key types (type matrix).
* `ptr`: `*int` keys compared by dereferencing — in the model a pointer key is the int it points
  to (the harness makes one pointer per token); the zero value of the key type (nil) is not a key.
* `f64`: `float64` keys of `SkipList` (built-in `<`, `==`).  Tokens: integers, halves (`2.5`),
  `-0`, `+Inf`, `-Inf`.  A key is `(2·value, isNegZero)`; the built-in order ignores the sign of
  zero: `-0` and `0` are distinguishable keys that compare equal (a weak order: the stored
  representation is the one reported).  NaN is excluded: `<`/`==` on NaN is not a weak order
  (`NaN == NaN` is false — a NaN key can be Set but never found or removed, every Set adds another
  node); the property's "total-order" clause does not cover it and neither model nor harness
  drive it.
* `pair`: struct keys `struct{A, B int}` through `SkipListWithCmp`, token `a,b`. -/

def infQ : Int := 4000000000000000000000

def f64Parse (t : String) : Option (Int × Bool) :=
  if t = "-0" then some (0, true)
  else if t = "+Inf" then some (infQ, false)
  else if t = "-Inf" then some (-infQ, false)
  else match t.splitOn "." with
    | [a] => a.toInt?.map fun v => (2 * v, false)
    | [a, "5"] =>
      match a.toInt? with
      | some v => some (if a.startsWith "-" then 2 * v - 1 else 2 * v + 1, false)
      | none => none
    | _ => none

def f64Show (k : Int × Bool) : String :=
  if k.2 then "-0"
  else if k.1 = infQ then "+Inf" else if k.1 = -infQ then "-Inf"
  else if k.1 % 2 = 0 then toString (k.1 / 2)
  else
    -- odd: value = k/2 with a half; Go prints -0.5 as "-0.5", 2.5 as "2.5"
    let a := k.1.natAbs / 2
    (if k.1 < 0 then "-" else "") ++ toString a ++ ".5"

def f64IO : KeyIO (Int × Bool) := ⟨f64Parse, f64Show, some fun i => (2 * i, false)⟩

def pairParse (t : String) : Option (Int × Int) :=
  match t.splitOn "," with
  | [a, b] => match a.toInt?, b.toInt? with
    | some a, some b => some (a, b)
    | _, _ => none
  | _ => none

def pairIO : KeyIO (Int × Int) := ⟨pairParse, fun k => toString k.1 ++ "," ++ toString k.2, none⟩

/-! Bulk operations (large lists in short cases).
`fill lo hi step seed kind`: `SetNx(k, 1000+i, w_i)` for `k = lo, lo+step, … < hi`; answers the
number of keys inserted.  The random-source words `w_i` come from a 64-bit LCG started at `seed`
(`kind = nat`: natural geometric heights) or force a tower of height 12…19 every fourth insert
(`kind = tall`).  `rmrange lo hi step order s`: `Remove` of the same keys in ascending (`asc`),
descending (`desc`) or strided (`stride`: index `i*s mod n`) order; answers the number removed. -/

def lcg (x : Nat) : Nat := (x * 6364136223846793005 + 1442695040888963407) % 2 ^ 64

def bulkWord (tall : Bool) (x : Nat) : Nat :=
  if tall && (x >>> 60) % 4 == 0 then 1 <<< (32 - (12 + (x >>> 56) % 8)) else x >>> 16

def bulkCount (lo hi step : Int) : Nat :=
  if hi ≤ lo ∨ step ≤ 0 then 0 else ((hi - lo + step - 1) / step).toNat

def cmpInt (a b : Int) : Int := if a < b then -1 else if a = b then 0 else 1

/-- Go string comparison: bytewise lexicographic. -/
def cmpBytes : List Nat → List Nat → Int
  | [], [] => 0
  | [], _ :: _ => -1
  | _ :: _, [] => 1
  | a :: as, b :: bs => if a < b then -1 else if a > b then 1 else cmpBytes as bs

def cmpMod3 (a b : Int) : Int :=
  let x := a.emod 3
  let y := b.emod 3
  if x ≠ y then cmpInt x y else cmpInt a b

def cmpLen (a b : List Nat) : Int :=
  if a.length ≠ b.length then cmpInt a.length b.length else cmpBytes a b

/-! Comparators whose results have arbitrary magnitudes (a comparator only promises the SIGN). -/

/-- `a - b`. -/
def cmpDiff (a b : Int) : Int := a - b

/-- `7 * (a - b)`. -/
def cmpScaled (a b : Int) : Int := 7 * (a - b)

/-- `sign(a - b) * (1 + (31 a + 17 b) mod 5)`: the magnitude depends on both arguments and is not
symmetric. -/
def cmpSgnHash (a b : Int) : Int :=
  let h := 1 + (31 * a + 17 * b) % 5
  if a < b then -h else if a = b then 0 else h

/-- Bytewise order with magnitudes: the difference of the first differing bytes, else of the lengths. -/
def cmpBytesDiff : List Nat → List Nat → Int
  | [], [] => 0
  | [], _ :: bs => -((bs.length : Int) + 1)
  | _ :: as, [] => (as.length : Int) + 1
  | a :: as, b :: bs => if a ≠ b then (a : Int) - (b : Int) else cmpBytesDiff as bs

/-- The weak order `k >> 1` with magnitudes. -/
def cmpHalfDiff (a b : Int) : Int := 3 * (a / 2 - b / 2)

/-- A weak order on ints: compares `k >> 1` (Go's arithmetic shift = floor division by 2). -/
def cmpHalf (a b : Int) : Int := cmpInt (a / 2) (b / 2)

/-- A weak order on strings: compares the lengths only. -/
def cmpLenOnly (a b : List Nat) : Int := cmpInt a.length b.length

/-- `float64` under `<` / `==`: the sign of zero is ignored. -/
def cmpF64 (a b : Int × Bool) : Int := cmpInt a.1 b.1

/-- Struct keys, lexicographic. -/
def cmpPairLex (a b : Int × Int) : Int := if a.1 ≠ b.1 then cmpInt a.1 b.1 else cmpInt a.2 b.2

/-- Struct keys compared by their first field only (distinguishable keys compare equal). -/
def cmpPairFirst (a b : Int × Int) : Int := cmpInt a.1 b.1

def lowerByte (b : Nat) : Nat := if 65 ≤ b ∧ b ≤ 90 then b + 32 else b

/-- Case-insensitive (ASCII) string order: `"Banana"` and `"banana"` are one binding; the stored
representation is the one every enumeration reports. -/
def cmpFold (a b : List Nat) : Int := cmpBytes (a.map lowerByte) (b.map lowerByte)

variable {K : Type} [DecidableEq K]

def showTowers (io : KeyIO K) (s : SL K Int) : String :=
  let chains := (s.lv.reverse.dropWhile List.isEmpty).reverse
  let body := if s.lv.isEmpty then "nil"
    else "/".intercalate (chains.map fun l => " ".intercalate (l.map io.show_))
  s!"L={s.level} n={s.len} {body}"

/-- `vdump`: level, len and the length of every level chain (the Go side validates the
structure of the reflected towers itself in this mode). -/
def showTowerLens (s : SL K Int) : String :=
  let chains := (s.lv.reverse.dropWhile List.isEmpty).reverse
  let body := if s.lv.isEmpty then "nil" else ",".intercalate (chains.map fun l => toString l.length)
  s!"L={s.level} n={s.len} lens={body}"

/-- The loop of `fill`. -/
def fillLoop (cfg : Cfg K Int) (ofInt : Int → K) (tall : Bool) (lo step : Int) :
    Nat → Nat → Nat → SL K Int → Nat → Option (SL K Int × Nat)
  | 0, _, _, s, cnt => some (s, cnt)
  | n + 1, i, x, s, cnt =>
    let x' := lcg x
    match s.set cfg (ofInt (lo + step * i)) (1000 + i) 2 (bulkWord tall x') with
    | none => none
    | some (s', ok) => fillLoop cfg ofInt tall lo step n (i + 1) x' s' (if ok then cnt + 1 else cnt)

/-- The loop of `rmrange`; `order`: 0 asc, 1 desc, 2 stride. -/
def rmLoop (cfg : Cfg K Int) (ofInt : Int → K) (lo step : Int) (total order stride : Nat) :
    Nat → Nat → SL K Int → Nat → Option (SL K Int × Nat)
  | 0, _, s, cnt => some (s, cnt)
  | n + 1, i, s, cnt =>
    let idx := if order == 0 then i else if order == 1 then total - 1 - i else (i * stride) % total
    match s.remove cfg (ofInt (lo + step * idx)) with
    | none => none
    | some (s', _, ok) => rmLoop cfg ofInt lo step total order stride n (i + 1) s' (if ok then cnt + 1 else cnt)

def showKVs (io : KeyIO K) (xs : List (K × Int)) : String :=
  "[" ++ " ".intercalate (xs.map fun (k, v) => io.show_ k ++ ":" ++ toString v) ++ "]"

def showKeys (io : KeyIO K) (xs : List K) : String :=
  "[" ++ " ".intercalate (xs.map io.show_) ++ "]"

/-- One operation on the list: `none` = bad-op, `some none` = panic. -/
def stepList (io : KeyIO K) (cfg : Cfg K Int) (s : SL K Int) (t : List String) :
    Option (Option (SL K Int × String)) :=
  let setOp (mode : Nat) (k v r : String) (sh : Bool → String) : Option (Option (SL K Int × String)) :=
    match io.parse k, v.toInt?, r.toNat? with
    | some k, some v, some r =>
      if r < 2 ^ 64 then some ((s.set cfg k v mode r).map fun (s', ok) => (s', sh ok)) else none
    | _, _, _ => none
  match t with
  | ["set", k, v, r] => setOp 0 k v r fun _ => "ok"
  | ["setx", k, v, r] => setOp 1 k v r showBool
  | ["setnx", k, v, r] => setOp 2 k v r showBool
  | ["get", k] => (io.parse k).map fun k => (s.get cfg k).map fun (v, ok) => (s, s!"{v} {showBool ok}")
  | ["getnode", k] => (io.parse k).map fun k =>
      match s.getNode cfg k with
      | none => none
      | some none => some (s, "nil")
      | some (some n) =>
        match getVal s.vals n, s.nodeNext n with
        | some v, some nx =>
          some (s, s!"{io.show_ n} {v} next={match nx with | none => "nil" | some x => io.show_ x}")
        | _, _ => none
  | ["setnode", k, v] =>
    match io.parse k, v.toInt? with
    | some k, some v =>
      some (match s.getNode cfg k with
        | none => none
        | some none => some (s, "nil")
        | some (some n) => some (s.setNodeValue n v, "ok"))
    | _, _ => none
  | ["rm", k] => (io.parse k).map fun k =>
      (s.remove cfg k).map fun (s', v, ok) => (s', s!"{v} {showBool ok}")
  | ["clear"] => some (some (s.clear cfg, "ok"))
  | ["init"] => some (some (SL.init, "ok"))
  | ["len"] => some (some (s, toString s.len))
  | ["head"] => some (match s.head with
      | none => none
      | some none => some (s, "nil")
      | some (some n) => (getVal s.vals n).map fun v => (s, s!"{io.show_ n} {v}"))
  | ["keys"] => some ((s.keys cfg).map fun ks => (s, showKeys io ks))
  | ["values"] => some ((s.values cfg).map fun vs => (s, showInts vs))
  | ["range", n] => n.toNat?.map fun n => (s.range cfg n).map fun xs => (s, showKVs io xs)
  | ["all", n] => n.toNat?.map fun n => (s.range cfg n).map fun xs => (s, showKVs io xs)
  | ["rfrom", st, n] =>
    match io.parse st, n.toNat? with
    | some st, some n => some ((s.rangeFrom cfg st none n).map fun xs => (s, showKVs io xs))
    | _, _ => none
  | ["rrange", st, e, n] =>
    match io.parse st, io.parse e, n.toNat? with
    | some st, some e, some n => some ((s.rangeFrom cfg st (some e) n).map fun xs => (s, showKVs io xs))
    | _, _, _ => none
  | _ => none

/-- `key val next=…` of a node. -/
def showNode (io : KeyIO K) (s : SL K Int) (n : K) : Option String :=
  match getVal s.vals n, s.nodeNext n with
  | some v, some nx => some s!"{io.show_ n} {v} next={match nx with | none => "nil" | some x => io.show_ x}"
  | _, _ => none

/-- One operation; the state is the list and the node handle the harness keeps (`hold`). -/
def stepH (io : KeyIO K) (cfg : Cfg K Int) (st : SL K Int × Option K) (t : List String) :
    Option (Option ((SL K Int × Option K) × String)) :=
  let (s, held) := st
  match t with
  | ["walk"] => some (s.walk.map fun xs => ((s, held), showKVs io xs))
  | ["walkfrom", k] => (io.parse k).map fun k => (s.walkFrom cfg k).map fun xs => ((s, held), showKVs io xs)
  | ["hold", k] => (io.parse k).map fun k =>
      match s.getNode cfg k with
      | none => none
      | some none => some ((s, none), "nil")
      | some (some n) => (showNode io s n).map fun o => ((s, some n), o)
  | ["held"] => some (match held with
      | none => some ((s, held), "none")
      | some n => (showNode io s n).map fun o => ((s, held), o))
  | ["heldset", v] => v.toInt?.map fun v =>
      match held with
      | none => some ((s, held), "none")
      | some n => some ((s.setNodeValue n v, held), "ok")
  | ["heldwalk"] => some (match held with
      | none => some ((s, held), "none")
      | some n => (s.walkNodes (s.lv.headD []).length (some n)).map fun xs => ((s, held), showKVs io xs))
  | ["fill", lo, hi, st, seed, kind] =>
    match io.ofInt, lo.toInt?, hi.toInt?, st.toInt?, seed.toNat? with
    | some ofInt, some lo, some hi, some st, some seed =>
      let n := bulkCount lo hi st
      -- (not on an uninitialised list: the harness cannot force the height of the lazy-init insert)
      if n > 100000 ∨ seed ≥ 2 ^ 64 ∨ (kind ≠ "nat" ∧ kind ≠ "tall") ∨ s.lv.isEmpty then none
      else some ((fillLoop cfg ofInt (kind = "tall") lo st n 0 seed s 0).map fun (s', c) => ((s', held), toString c))
    | _, _, _, _, _ => none
  | ["rmrange", lo, hi, st, order, stride] =>
    match io.ofInt, lo.toInt?, hi.toInt?, st.toInt?, stride.toNat? with
    | some ofInt, some lo, some hi, some st, some stride =>
      let n := bulkCount lo hi st
      let o := if order = "asc" then some 0 else if order = "desc" then some 1 else if order = "stride" then some 2 else none
      match o with
      | none => none
      | some o =>
        if n > 100000 then none
        else some ((rmLoop cfg ofInt lo st n o stride n 0 s 0).bind fun (s', c) =>
          -- the kept node is dropped when it is no longer in the list
          match held with
          | none => some ((s', none), toString c)
          | some h => match s'.getNode cfg h with
            | none => none
            | some none => some ((s', none), toString c)
            | some (some _) => some ((s', held), toString c))
    | _, _, _, _, _ => none
  | _ =>
    -- the kept node leaves the list: Remove of an equivalent key that succeeds, Clear, Init
    let drops : Bool := match t, held with
      | ["rm", k], some n => (match io.parse k with
          | some k => cfg.cmp n k == 0
          | none => false)
      | ["clear"], _ => true
      | ["init"], _ => true
      | _, _ => false
    (stepList io cfg s t).map fun r => r.map fun (s', o) => ((s', if drops then none else held), o)

/-! ### the pointer-level model in lockstep

Every case is run on BOTH models: the levels-as-lists model `SL` (answers) and the pointer-level
model `PSL` (`Model/C02Ptr.lean`: node heap with ids, towers of `next` pointers, pointer writes in
the coded order).  The tower dump that is compared with the reflected heap of the real list is
printed from the POINTER model (`key#id` per node object); the answers of the two models are
compared here as well (`MODEL-DISAGREE` can never be printed: `c02_pointer_refines_levels`). -/

def showTowersP (io : KeyIO K) (p : PSL K Int) : String :=
  match p.head with
  | none => s!"L={p.level} n={p.len} nil"
  | some h =>
    let chains := (List.range h.size).map fun i =>
      (p.chain i).map fun id => (match p.keyOf id with | some k => io.show_ k | none => "?") ++ "#" ++ toString id
    let chains := (chains.reverse.dropWhile List.isEmpty).reverse
    s!"L={p.level} n={p.len} " ++ "/".intercalate (chains.map fun l => " ".intercalate l)

def showTowerLensP (p : PSL K Int) : String :=
  match p.head with
  | none => s!"L={p.level} n={p.len} lens=nil"
  | some h =>
    let lens := (List.range h.size).map fun i => (p.chain i).length
    let lens := (lens.reverse.dropWhile (· == 0)).reverse
    s!"L={p.level} n={p.len} lens=" ++ ",".intercalate (lens.map toString)

def showNodeP (io : KeyIO K) (p : PSL K Int) (id : Nat) : Option String :=
  match p.nodes[id]?, p.nodeNext id with
  | some nd, some nx =>
    let nxs := match nx with
      | none => some "nil"
      | some j => (p.keyOf j).map io.show_
    nxs.map fun x => s!"{io.show_ nd.key} {nd.val} next={x}"
  | _, _ => none

def fillLoopP (cfg : Cfg K Int) (ofInt : Int → K) (tall : Bool) (lo step : Int) :
    Nat → Nat → Nat → PSL K Int → Nat → Option (PSL K Int × Nat)
  | 0, _, _, p, cnt => some (p, cnt)
  | n + 1, i, x, p, cnt =>
    let x' := lcg x
    match p.set cfg (ofInt (lo + step * i)) (1000 + i) 2 (bulkWord tall x') with
    | none => none
    | some (p', ok) => fillLoopP cfg ofInt tall lo step n (i + 1) x' p' (if ok then cnt + 1 else cnt)

def rmLoopP (cfg : Cfg K Int) (ofInt : Int → K) (lo step : Int) (total order stride : Nat) :
    Nat → Nat → PSL K Int → Nat → Option (PSL K Int × Nat)
  | 0, _, p, cnt => some (p, cnt)
  | n + 1, i, p, cnt =>
    let idx := if order == 0 then i else if order == 1 then total - 1 - i else (i * stride) % total
    match p.remove cfg (ofInt (lo + step * idx)) with
    | none => none
    | some (p', _, ok) => rmLoopP cfg ofInt lo step total order stride n (i + 1) p' (if ok then cnt + 1 else cnt)

/-- The same operation on the pointer model: outer `none` = not mirrored (reads through handles,
malformed lines); inner `none` = panic; the answer (if any) must equal the list model's. -/
def stepPtr (io : KeyIO K) (cfg : Cfg K Int) (p : PSL K Int) (heldKey : Option K) (t : List String) :
    Option (Option (PSL K Int × Option String)) :=
  let setOp (mode : Nat) (k v r : String) (sh : Bool → String) : Option (Option (PSL K Int × Option String)) :=
    match io.parse k, v.toInt?, r.toNat? with
    | some k, some v, some r =>
      if r < 2 ^ 64 then some ((p.set cfg k v mode r).map fun (p', ok) => (p', some (sh ok))) else none
    | _, _, _ => none
  let kvs (r : Option (List (K × Int))) : Option (PSL K Int × Option String) := r.map fun xs => (p, some (showKVs io xs))
  match t with
  | ["set", k, v, r] => setOp 0 k v r fun _ => "ok"
  | ["setx", k, v, r] => setOp 1 k v r showBool
  | ["setnx", k, v, r] => setOp 2 k v r showBool
  | ["get", k] => (io.parse k).map fun k => (p.get cfg k).map fun (v, ok) => (p, some s!"{v} {showBool ok}")
  | ["getnode", k] => (io.parse k).map fun k =>
      match p.getNode cfg k with
      | none => none
      | some none => some (p, some "nil")
      | some (some id) => (showNodeP io p id).map fun o => (p, some o)
  | ["hold", k] => (io.parse k).map fun k =>
      match p.getNode cfg k with
      | none => none
      | some none => some (p, some "nil")
      | some (some id) => (showNodeP io p id).map fun o => (p, some o)
  | ["setnode", k, v] =>
    match io.parse k, v.toInt? with
    | some k, some v =>
      some (match p.getNode cfg k with
        | none => none
        | some none => some (p, some "nil")
        | some (some id) => some (p.setNodeValue id v, some "ok"))
    | _, _ => none
  | ["heldset", v] => v.toInt?.map fun v =>
      match heldKey with
      | none => some (p, some "none")
      | some k => match p.getNode cfg k with
        | some (some id) => some (p.setNodeValue id v, some "ok")
        | _ => none
  | ["held"] => some (match heldKey with
      | none => some (p, some "none")
      | some k => match p.getNode cfg k with
        | some (some id) => (showNodeP io p id).map fun o => (p, some o)
        | _ => none)
  | ["heldwalk"] => some (match heldKey with
      | none => some (p, some "none")
      | some k => match p.getNode cfg k with
        | some (some id) => kvs (p.walkNodes p.fuel (some id))
        | _ => none)
  | ["rm", k] => (io.parse k).map fun k =>
      (p.remove cfg k).map fun (p', v, ok) => (p', some s!"{v} {showBool ok}")
  | ["clear"] => some (some (p.clear cfg, some "ok"))
  | ["init"] => some (some (p.doInit, some "ok"))
  | ["len"] => some (some (p, some (toString p.len)))
  | ["head"] => some (match p.headNode with
      | none => none
      | some none => some (p, some "nil")
      | some (some id) => (p.nodes[id]?).map fun nd => (p, some s!"{io.show_ nd.key} {nd.val}"))
  | ["keys"] => some ((p.keys cfg).map fun ks => (p, some (showKeys io ks)))
  | ["values"] => some ((p.values cfg).map fun vs => (p, some (showInts vs)))
  -- `SkipList.Range` is the `cur.next[0]` loop; `SkipListWithCmp.Range` and both `All` are the `e = e.next[0]` loop
  | ["range", n] => n.toNat?.map fun n => kvs (if cfg.lazy then p.rangeCur cfg n else p.rangeE cfg n)
  | ["all", n] => n.toNat?.map fun n => kvs (p.rangeE cfg n)
  | ["seqrange", _, n] => n.toNat?.map fun n => (p.rangeE cfg n).map fun _ => (p, none)
  | ["rfrom", st, n] =>
    match io.parse st, n.toNat? with
    | some st, some n => some (kvs (p.rangeFrom cfg st none n))
    | _, _ => none
  | ["rrange", st, e, n] =>
    match io.parse st, io.parse e, n.toNat? with
    | some st, some e, some n => some (kvs (p.rangeFrom cfg st (some e) n))
    | _, _, _ => none
  | ["walk"] => some (kvs p.walk)
  | ["walkfrom", k] => (io.parse k).map fun k => kvs (p.walkFrom cfg k)
  | ["fill", lo, hi, st, seed, kind] =>
    match io.ofInt, lo.toInt?, hi.toInt?, st.toInt?, seed.toNat? with
    | some ofInt, some lo, some hi, some st, some seed =>
      let n := bulkCount lo hi st
      if n > 100000 ∨ seed ≥ 2 ^ 64 ∨ (kind ≠ "nat" ∧ kind ≠ "tall") ∨ p.head.isNone then none
      else some ((fillLoopP cfg ofInt (kind = "tall") lo st n 0 seed p 0).map fun (p', c) => (p', some (toString c)))
    | _, _, _, _, _ => none
  | ["rmrange", lo, hi, st, order, stride] =>
    match io.ofInt, lo.toInt?, hi.toInt?, st.toInt?, stride.toNat? with
    | some ofInt, some lo, some hi, some st, some stride =>
      let n := bulkCount lo hi st
      let o := if order = "asc" then some 0 else if order = "desc" then some 1 else if order = "stride" then some 2 else none
      match o with
      | none => none
      | some o =>
        if n > 100000 then none
        else some ((rmLoopP cfg ofInt lo st n o stride n 0 p 0).map fun (p', c) => (p', some (toString c)))
    | _, _, _, _, _ => none
  | _ => none

def slot? (k : String) : Option Nat :=
  match k.toNat? with
  | some n => if n < 4 then some n else none
  | none => none

/-- One operation; `seqs` = which of the four Seq slots hold a value obtained from `All()`.
A held Seq is a closure over the list object: it has no state in the model, ranging it reads
the current list. -/
def step (io : KeyIO K) (cfg : Cfg K Int) (st : (SL K Int × Option K) × List Bool) (t : List String) :
    Option (Option (((SL K Int × Option K) × List Bool) × String)) :=
  let (sh, seqs) := st
  let s := sh.1
  let have_ (k : Nat) : Bool := seqs.getD k false
  match t with
  | ["seq", k] => (slot? k).map fun k => some ((sh, seqs.set k true), "ok")
  | ["seqrange", k, n] =>
    match slot? k, n.toNat? with
    | some k, some n => some (if have_ k then (s.range cfg n).map fun xs => (st, showKVs io xs) else some (st, "none"))
    | _, _ => none
  | ["seqtwice", k, j] =>
    match slot? k, j.toNat? with
    | some k, some j =>
      if j = 0 then none
      else some (if have_ k then (s.seqTwice cfg j).map fun (xs, ys) => (st, showKVs io xs ++ " ; " ++ showKVs io ys)
        else some (st, "none"))
    | _, _ => none
  | ["seqnest", k, j] =>
    match slot? k, j.toNat? with
    | some k, some j =>
      if j = 0 then none
      else some (if have_ k then (s.seqNest cfg j).map fun (xs, cs) =>
          (st, "outer=" ++ showKVs io xs ++ " inner=" ++ ",".intercalate (cs.map toString))
        else some (st, "none"))
    | _, _ => none
  | ["pull2", k, a] =>
    match slot? k, a.toNat? with
    | some k, some a =>
      some (if have_ k then (s.pull2 cfg a).map fun (xs, ys) => (st, showKVs io xs ++ " ; " ++ showKVs io ys)
        else some (st, "none"))
    | _, _ => none
  | _ => (stepH io cfg sh t).map fun r => r.map fun (sh', o) => ((sh', seqs), o)

/-- The dump is printed from the pointer model; `!MODEL-DISAGREE` if its abstraction is not the
list model's state (cannot happen: `c02_pointer_refines_levels`). -/
def withDump (io : KeyIO K) (dump : String) (out : String) (s : SL K Int) (p : PSL K Int) : String :=
  if dump = "dump" then
    out ++ " | " ++ showTowersP io p ++ (if p.absLv == s.lv && p.level == s.level && p.len == s.len then "" else " !MODEL-DISAGREE " ++ showTowers io s)
  else if dump = "vdump" then
    out ++ " | " ++ showTowerLensP p ++ (if showTowerLensP p == showTowerLens s then "" else " !MODEL-DISAGREE " ++ showTowerLens s)
  else out

/-- The comparators of `SkipListWithCmp` cases, by name. -/
def intCmp? (c : String) : Option (Int → Int → Int) :=
  if c = "nat" then some cmpInt else if c = "rev" then some (fun a b => cmpInt b a)
  else if c = "mod3" then some cmpMod3 else if c = "half" then some cmpHalf
  else if c = "diff" then some cmpDiff else if c = "scaled" then some cmpScaled
  else if c = "sgnhash" then some cmpSgnHash else if c = "halfdiff" then some cmpHalfDiff else none

def strCmp? (c : String) : Option (List Nat → List Nat → Int) :=
  if c = "nat" then some cmpBytes else if c = "rev" then some (fun a b => cmpBytes b a)
  else if c = "len" then some cmpLen else if c = "lenonly" then some cmpLenOnly
  else if c = "bytesdiff" then some cmpBytesDiff else if c = "fold" then some cmpFold else none

def pairCmp? (c : String) : Option (Int × Int → Int × Int → Int) :=
  if c = "lex" then some cmpPairLex else if c = "first" then some cmpPairFirst
  else if c = "rev" then some (fun a b => cmpPairLex b a) else none

/-- `tbl`: the comparator table for `initcmp <name>` = `s.Init(<other comparator>)` on a
`SkipListWithCmp` (re-configuration: everything is reset and the NEW comparator rules from then
on; held Seq values stay valid — they are closures over the list object). -/
def runOps (io : KeyIO K) (tbl : String → Option (K → K → Int)) (cfg : Cfg K Int) (dump : String) :
    Option (((SL K Int × Option K) × List Bool) × PSL K Int) → List String → List String
  | _, [] => []
  | none, _ :: ls => "dead" :: runOps io tbl cfg dump none ls
  | some (s, p), l :: ls =>
    match toks l with
    | ["initcmp", c] =>
      match (if cfg.lazy then none else tbl c) with
      | none => "bad-op" :: runOps io tbl cfg dump (some (s, p)) ls
      | some f =>
        let s' : (SL K Int × Option K) × List Bool := ((SL.init, none), s.2)
        let p' := p.doInit
        withDump io dump "ok" s'.1.1 p' :: runOps io tbl { cfg with cmp := f } dump (some (s', p')) ls
    | t =>
      match step io cfg s t with
      | none => "bad-op" :: runOps io tbl cfg dump (some (s, p)) ls
      | some none => "panic" :: runOps io tbl cfg dump none ls
      | some (some (s', out)) =>
        -- the same call on the pointer model
        match stepPtr io cfg p s.1.2 t with
        | none => withDump io dump out s'.1.1 p :: runOps io tbl cfg dump (some (s', p)) ls
        | some none => ("MODEL-DISAGREE pointer model panics, list model answers " ++ out) :: runOps io tbl cfg dump none ls
        | some (some (p', outP)) =>
          let out' := match outP with
            | none => out
            | some o => if o == out then out else "MODEL-DISAGREE list=" ++ out ++ " pointer=" ++ o
          withDump io dump out' s'.1.1 p' :: runOps io tbl cfg dump (some (s', p')) ls

def runWith (io : KeyIO K) (tbl : String → Option (K → K → Int)) (cfg : Cfg K Int) (kind : String) (dump : String)
    (ops : List String) : List String :=
  let s0 : SL K Int := if kind = "zero" then SL.zero else SL.init
  let p0 : PSL K Int := if kind = "zero" then PSL.zero else PSL.init
  withDump io dump "ok" s0 p0 :: runOps io tbl cfg dump (some (((s0, none), [false, false, false, false]), p0)) ops

def bad (ops : List String) : List String := "bad-op" :: ops.map fun _ => "bad-op"

def runCaseOne (hdr : List String) (ops : List String) : List String :=
  match hdr with
  | [kind, kt, c, d] =>
    if d ≠ "dump" ∧ d ≠ "nodump" ∧ d ≠ "vdump" then bad ops else
    let dump := d
    if kind = "zero" ∨ kind = "new" then
      if c ≠ "nat" then bad ops
      else if kt = "int" then runWith intIO intCmp? ⟨cmpInt, true, 0, 0, true⟩ kind dump ops
      else if kt = "str" then runWith strIO strCmp? ⟨cmpBytes, true, [], 0, true⟩ kind dump ops
      else if kt = "f64" then runWith f64IO (fun _ => none) ⟨cmpF64, true, (0, false), 0, true⟩ kind dump ops
      else bad ops
    else if kind = "cmp" then
      if kt = "int" ∨ kt = "ptr" then
        match intCmp? c with
        | some f => runWith intIO intCmp? ⟨f, false, 0, 0, true⟩ kind dump ops
        | none => bad ops
      else if kt = "str" then
        match strCmp? c with
        | some f => runWith strIO strCmp? ⟨f, false, [], 0, true⟩ kind dump ops
        | none => bad ops
      else if kt = "pair" then
        match pairCmp? c with
        | some f => runWith pairIO pairCmp? ⟨f, false, (0, 0), 0, true⟩ kind dump ops
        | none => bad ops
      else bad ops
    else bad ops
  | _ => bad ops

/-! ### several lists in one case

`obj k` (k < 4) makes list k the current one; all four lists are created by the header (same
kind, key type and comparator) and every other line acts on the current list.  The lists are
independent objects: the model runs each list's own lines on its own (`runCaseOne`) and puts the
answers back in the order of the case. -/

def objLine? (l : String) : Option (Option Nat) :=
  match toks l with
  | ["obj", k] => some (match k.toNat? with
      | some n => if n < 4 then some n else none
      | none => none)
  | "obj" :: _ => some none
  | _ => none

/-- The lines of object `k` (`cur` = the current object). -/
def ownLines (k : Nat) : Nat → List String → List String
  | _, [] => []
  | cur, l :: ls =>
    match objLine? l with
    | some (some n) => ownLines k n ls
    | some none => ownLines k cur ls
    | none => if cur = k then l :: ownLines k cur ls else ownLines k cur ls

/-- Put the per-object answers back in case order. -/
def mergeOuts : Nat → List String → (Nat → List String) → List String
  | _, [], _ => []
  | cur, l :: ls, outs =>
    match objLine? l with
    | some (some n) => "ok" :: mergeOuts n ls outs
    | some none => "bad-op" :: mergeOuts cur ls outs
    | none =>
      match outs cur with
      | [] => "bad-op" :: mergeOuts cur ls outs          -- cannot happen: one answer per line
      | o :: rest => o :: mergeOuts cur ls (fun j => if j = cur then rest else outs j)

def runCase (hdr : List String) (ops : List String) : List String :=
  if ops.all (fun l => (objLine? l).isNone) then runCaseOne hdr ops
  else
    let run (k : Nat) : List String := runCaseOne hdr (ownLines k 0 ops)
    let r0 := run 0
    let r1 := run 1
    let r2 := run 2
    let r3 := run 3
    let outs (k : Nat) : List String := (if k = 0 then r0 else if k = 1 then r1 else if k = 2 then r2 else r3).drop 1
    r0.headD "bad-op" :: mergeOuts 0 ops outs

end Golib.C02

