/-
C01 — driver of the SyncRing model (`Conc32`: 32-bit tickets, what the code does) for
the `oracle` executable.

Case format:
  header  `@ C01 ring <cap> <warp> <fill> T <call>… T <call>…`
           NewSync(cap); counters advanced as by <warp> push/pop pairs; then the values
           1..fill pushed sequentially; one `T` group per thread; calls: `u<int>` Push,
           `o` Pop, `l` Len, `e` IsEmpty, `f` IsFull
  op      `step <tid>`   next ATOMIC access of the thread (+ its plain accesses up to the
                          next atomic one): `<access>[ ret <result>] len=<Len()>`
          `drain`        round-robin until every thread returned
          `warp <k>`     all counters / sequence numbers advanced by k (a multiple of
                          cap) — used only by the F12 (ticket ABA) replay
          `final`        `final len=<n> empty=<b> full=<b> [values popped until false]`
          `expire <tid>` from now on every deadline test of thread <tid>'s waiting forms
                          succeeds (the ticks of the ticker are scheduler choices)
           calls `U<int>` = PushWait(v, d), `O` = PopWait(d) with d > 0: a sequence of
           Push / Pop attempts of the machine, continued or ended by `waitDecide`
           (Model/C01Wait.lean) after every attempt; result `ret pushw <b>` / `ret popw <v> <b>`
  header  `@ C01 races <cap> <fill> T <call>… T …`, line `search`: all interleavings of the
           accesses extracted from the source are searched for a data race; answer
           `race-free states=<n>` or `race after schedule […] :: t<i> …: <access> || t<j> …: <access>`
  header  `@ C01 ringc <prov> <pcap> <pfill> <cap> <warp> <fill> T …`  (re-configuration)
           prov 1: tmpl := NewSync(pcap); Push 9001..9000+pfill; r := tmpl (struct copy);
                   r.Init(cap); then as `ring` on r — `final` also observes tmpl
           prov 2: r0 as in `ring`; backlog := r0; r0.Init(pcap); then as `ring` on backlog —
                   `final` also observes r0
           `Init` ALLOCATES its slot array (Model/C01Heap.lean: the array is a heap object
           with identity, `init_fresh`), so the other ring value is untouched: `final` ends
           in ` other=[…] probe=ok` (content of the other ring, then a fill/refuse/drain
           cycle on it).
-/
import Golib.Model.C01Ring
import Golib.Model.C01Wait
import Golib.Model.C01Races

namespace Golib.C01
open Golib.Proto

def conc32 (cap : Nat) : Cfg := { M := 2 ^ 32, cap := cap }

def Acc.show : Acc → String
  | .none => "idle"
  | .ldTail v => s!"ld tail={v}"
  | .ldHead v => s!"ld head={v}"
  | .ldSeq i v => s!"ld slot[{i}]={v}"
  | .casTail o n ok => s!"cas tail {o}->{n} {if ok then "ok" else "fail"}"
  | .casHead o n ok => s!"cas head {o}->{n} {if ok then "ok" else "fail"}"
  | .stSeq i v => s!"st slot[{i}]={v}"
  | .wrVal i v => s!"wr val[{i}]={v}"
  | .rdVal i v => s!"rd val[{i}]={v}"

def Ret.show : Ret → String
  | .push ok => s!" ret push {showBool ok}"
  | .pop v ok => s!" ret pop {v} {showBool ok}"
  | .len n => s!" ret len {n}"
  | .isEmpty b => s!" ret empty {showBool b}"
  | .isFull b => s!" ret full {showBool b}"
  | .panic => " panic"

/-- driver-level call: (waiting form with a positive duration?, the call it attempts) -/
def parseDCall (t : String) : Option (Bool × Call) :=
  if t = "O" then some (true, .pop)
  else if t.startsWith "U" then (t.drop 1).toString.toInt?.map fun v => (true, Call.push v)
  else if t = "o" then some (false, .pop)
  else if t = "l" then some (false, .len)
  else if t = "e" then some (false, .isEmpty)
  else if t = "f" then some (false, .isFull)
  else if t.startsWith "u" then (t.drop 1).toString.toInt?.map fun v => (false, Call.push v)
  else none

/-- what the driver keeps beside the machine state for the waiting forms -/
structure Aux where
  dprogs : List (List (Bool × Call))
  /-- attempts the thread's current waiting call has already made -/
  att : List Nat
  expired : List Bool

def parseCall (t : String) : Option Call :=
  if t = "o" then some .pop
  else if t = "l" then some .len
  else if t = "e" then some .isEmpty
  else if t = "f" then some .isFull
  else if t.startsWith "u" then (t.drop 1).toString.toInt?.map Call.push
  else none

def splitAux : List String → List String × List (List String)
  | [] => ([], [])
  | t :: rest =>
    let (p, gs) := splitAux rest
    if t = "T" then ([], p :: gs) else (t :: p, gs)

def splitProgs (l : List String) : Option (List (List String)) :=
  let (p, gs) := splitAux l
  if p.isEmpty then some gs else none

/-- `Init`: capacity rounding on uint32 (`none` = the panic for cap ≤ 0 and, since the F6
repair, for cap > 2^31). -/
def initCap (capreq : Int) : Option Nat :=
  if capreq ≤ 0 ∨ capreq > 2 ^ 31 then none
  else if capreq = 1 then some 2
  else
    let c := capreq.toNat % 2 ^ 32
    if c &&& (c - 1) > 0 then some ((1 <<< (Nat.log2 c + 1)) % 2 ^ 32) else some c

def plainRun (c : Cfg) : Nat → State → Nat → Event → State × Event
  | 0, s, _, e => (s, e)
  | k + 1, s, i, e =>
    match s.threads[i]? with
    | some th =>
      if th.pc.isPlain then
        let (s1, e1) := step c s i
        plainRun c k s1 i { e with ret := if e1.ret.isSome then e1.ret else e.ret }
      else (s, e)
    | none => (s, e)

def macroStep (c : Cfg) (s : State) (i : Nat) : State × Event :=
  let (s1, e) := step c s i
  plainRun c 4 s1 i e

def lenNow (c : Cfg) (s : State) : Nat := c.lenOf s.tail s.head

def showStep (c : Cfg) (s : State) (e : Event) : String :=
  e.acc.show ++ (match e.ret with | some r => r.show | none => "") ++ s!" len={lenNow c s}"

def isIdle (s : State) (i : Nat) : Bool :=
  match s.threads[i]? with
  | some th => th.pc == .idle
  | none => true

/-- the waiting call thread `i` is in, if its current call is one: `remaining` = number of
calls after the current one (length of the machine thread's program before the step) -/
def Aux.timedCur (a : Aux) (i remaining : Nat) : Option Call :=
  match a.dprogs[i]? with
  | some dp =>
    match dp[dp.length - remaining - 1]? with
    | some (true, call) => some call
    | _ => none
  | none => none

def showTimed (call : Call) (res : Option Ret) : String :=
  match call, res with
  | .push _, some _ => " ret pushw true"
  | .push _, none => " ret pushw false"
  | _, some (.pop v _) => s!" ret popw {v} true"
  | _, _ => " ret popw 0 false"

/-- one scheduler step of thread `i`: the machine's macro step; when it ends an attempt of
a waiting form, `waitDecide` says whether the call returns or makes another attempt (the
thread is then put back at the first access of the same call). -/
def dStep (c : Cfg) (s : State) (a : Aux) (i : Nat) : State × Aux × String :=
  let (s1, e) := macroStep c s i
  match e.ret, s.threads[i]? with
  | some r, some th =>
    match a.timedCur i th.prog.length with
    | some call =>
      let k := match a.att[i]? with | some k => k | none => 0
      let ex := match a.expired[i]? with | some b => b | none => false
      let outcome : Option Ret :=
        match r with
        | .push true => some r
        | .pop _ true => some r
        | _ => none
      match waitDecide (15 : Int) k outcome ex with
      | none =>
        let s2 := { s1 with threads := s1.threads.set i { pc := start call, prog := th.prog } }
        (s2, { a with att := a.att.set i (k + 1) }, e.acc.show ++ s!" len={lenNow c s2}")
      | some res =>
        (s1, { a with att := a.att.set i 0 }, e.acc.show ++ showTimed call res ++ s!" len={lenNow c s1}")
    | none => (s1, a, showStep c s1 e)
  | _, _ => (s1, a, showStep c s1 e)

def drainPass (c : Cfg) : Nat → Nat → State → Aux → List String → State × Aux × List String
  | 0, _, s, a, acc => (s, a, acc)
  | k + 1, i, s, a, acc =>
    if isIdle s i then drainPass c k (i + 1) s a acc
    else
      let (s1, a1, str) := dStep c s a i
      drainPass c k (i + 1) s1 a1 (s!"t{i} {str}" :: acc)

def drain (c : Cfg) : Nat → State → Aux → List String → State × Aux × Option (List String)
  | 0, s, a, _ => (s, a, none)
  | f + 1, s, a, acc =>
    let (s1, a1, acc1) := drainPass c s.threads.length 0 s a acc
    if acc1.length = acc.length then (s1, a1, some acc1) else drain c f s1 a1 acc1

def allIdle (s : State) : Bool := s.threads.all fun th => th.pc == .idle

/-- Run thread `i` (macro steps) until its current call returns; `none` = fuel ran out. -/
def runCall (c : Cfg) : Nat → State → Nat → Option (State × Ret)
  | 0, _, _ => none
  | k + 1, s, i =>
    let (s1, e) := macroStep c s i
    match e.ret with
    | some r => some (s1, r)
    | none => if isIdle s1 i then none else runCall c k s1 i

/-- Sequential pops by a fresh thread until one fails (the `final` observation). -/
def popAll (c : Cfg) : Nat → State → List Int → List Int
  | 0, _, acc => acc.reverse
  | k + 1, s, acc =>
    let i := s.threads.length
    match runCall c 8 { s with threads := s.threads ++ [mkThread [.pop]] } i with
    | some (s1, .pop v true) => popAll c k { s1 with threads := s.threads } (v :: acc)
    | _ => acc.reverse

/-- `fill` sequential pushes of 1..fill by a temporary thread. -/
def fillUp (c : Cfg) : Nat → Nat → State → State
  | 0, _, s => s
  | k + 1, v, s =>
    let i := s.threads.length
    match runCall c 8 { s with threads := s.threads ++ [mkThread [.push v]] } i with
    | some (s1, _) => fillUp c k (v + 1) { s1 with threads := s.threads }
    | none => s

def runOps (c : Cfg) (suffix : String) : State → Aux → List String → List String
  | _, _, [] => []
  | s, a, l :: ls =>
    match toks l with
    | ["step", t] =>
      match t.toNat? with
      | some i =>
        let (s1, a1, str) := dStep c s a i
        str :: runOps c suffix s1 a1 ls
      | none => "bad-op" :: runOps c suffix s a ls
    | ["drain"] =>
      match drain c 400 s a [] with
      | (s1, a1, some acc) =>
        (if acc.isEmpty then "quiet" else " ; ".intercalate acc.reverse) :: runOps c suffix s1 a1 ls
      | (s1, a1, none) => "drain-timeout" :: runOps c suffix s1 a1 ls
    | ["warp", k] =>
      match k.toNat? with
      | some k =>
        if c.cap ≠ 0 ∧ k % c.cap = 0 then
          let s1 := s.shift c k
          s!"warped len={lenNow c s1}" :: runOps c suffix s1 a ls
        else "bad-op" :: runOps c suffix s a ls
      | none => "bad-op" :: runOps c suffix s a ls
    | ["expire", t] =>
      match t.toNat? with
      | some i =>
        if i ≤ 65536 then "expired" :: runOps c suffix s { a with expired := a.expired.set i true } ls
        else "bad-op" :: runOps c suffix s a ls
      | none => "bad-op" :: runOps c suffix s a ls
    | ["final"] =>
      (if allIdle s then
        let n := lenNow c s
        let e := s.head == s.tail
        let f := c.sub s.tail s.head == c.cap
        s!"final len={n} empty={showBool e} full={showBool f} {showInts (popAll c (c.cap + 2) s [])}{suffix}"
       else "busy") :: runOps c suffix s a ls
    | _ => "bad-op" :: runOps c suffix s a ls

def bad (ops : List String) : List String := "bad-op" :: ops.map fun _ => "bad-op"

def runRingCase (suffix : String) (hdr : List String) (ops : List String) : List String :=
  match hdr with
  | capS :: warpS :: fillS :: rest =>
    match capS.toInt?, warpS.toNat?, fillS.toNat?, splitProgs rest with
    | some capreq, some k, some fill, some groups =>
      match groups.mapM (fun g => g.mapM parseDCall) with
      | some dprogs =>
        let progs := dprogs.map fun g => g.map (·.2)
        let aux : Aux := { dprogs := dprogs, att := dprogs.map fun _ => 0, expired := dprogs.map fun _ => false }
        match initCap capreq with
        | none => "panic" :: ops.map fun _ => "dead"
        | some cap =>
          let c := conc32 cap
          let s0 := fillUp c fill 1 (initAt c k [])
          "ok" :: runOps c suffix { s0 with threads := progs.map mkThread } aux ops
      | none => bad ops
    | _, _, _, _ => bad ops
  | _ => bad ops

/-- Entry point of the C01 section of the oracle: header tokens after `@ C01`. -/
def runCase (hdr : List String) (ops : List String) : List String :=
  match hdr with
  | "ring" :: rest => runRingCase "" rest ops
  | "races" :: capS :: fillS :: rest =>
    -- `@ C01 races <cap> <fill> T <call>… T …` + lines `search`: exhaustive race search on
    -- the access order extracted from the source (Model/C01Races.lean)
    match capS.toNat?, fillS.toNat?, splitProgs rest with
    | some cap, some fill, some groups =>
      match groups.mapM (fun g => g.mapM parseCall) with
      | some progs =>
        if 2 ≤ cap ∧ cap ≤ 8 ∧ fill ≤ cap then
          "ok" :: ops.map fun l => if l = "search" then Races.search cap fill progs else "bad-op"
        else bad ops
      | none => bad ops
    | _, _, _ => bad ops
  | "ringc" :: prov :: pcapS :: pfillS :: rest =>
    match prov.toNat?, pcapS.toNat?, pfillS.toNat? with
    | some pv, some pcap, some pfill =>
      if (pv = 1 ∨ pv = 2) ∧ 1 ≤ pcap ∧ pcap ≤ 65536 ∧ pfill ≤ 65536 then
        match initCap pcap with
        | some c =>
          -- what the OTHER ring value of the pair holds: Init allocated a fresh array
          let other : List Int :=
            if pv = 1 then (List.range (min pfill c)).map fun (i : Nat) => Int.ofNat (9001 + i) else []
          runRingCase s!" other={showInts other} probe=ok" rest ops
        | none => bad ops
      else bad ops
    | _, _, _ => bad ops
  | _ => bad ops

end Golib.C01
