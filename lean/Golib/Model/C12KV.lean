/-
C12 — the bodies of the SafeKV methods (`mapz/safekv.go`, `mapz/iter.go`) as lists of
actions over a finite map, in source order, as coded AFTER the repair of F8
(`Keys`/`Values` take the read lock before evaluating `len(s.entries)`).

* The map is an association list `KV` with pairwise distinct keys (`KV.NodupKeys`);
  the list order plays the role of Go's unspecified iteration order: it is an input.
* K = V = Int (the methods are generic and never inspect keys/values beyond `==`).
* `evs (body c)` is compared with the REGENERATED facts in `Props/C12.lean`.
* A statement inside a loop is one action performing the whole loop (the extractor
  guarantees that no lock event occurs inside a loop or branch).
Core-only.
-/
import Golib.Model.C12Conc

namespace Golib.C12

abbrev KV := List (Int × Int)

def KV.get (m : KV) (k : Int) : Option Int := List.lookup k m
def KV.del (m : KV) (k : Int) : KV := m.filter (fun p => p.1 != k)
/-- `m[k] = v` -/
def KV.set (m : KV) (k v : Int) : KV :=
  if (m.get k).isSome then m.map (fun p => if p.1 == k then (k, v) else p)
  else m ++ [(k, v)]
def KV.NodupKeys (m : KV) : Prop := (m.map (·.1)).Nodup

/-- Goroutine-local state of one call: the named temporaries of the Go bodies. -/
structure Loc where
  ok  : Bool := false
  val : Int := 0
  n   : Int := 0
  out : List (Int × Int) := []
deriving Repr, DecidableEq

/-- One call of a SafeKV method with its arguments.  User callbacks are represented by
what the harness passes: `range`/`all` get a callback that answers `false` at its
`limit`-th invocation (so it is invoked `min (max limit 1) len` times); `Map` gets an
arbitrary function on the map. -/
inductive Call where
  | get (k : Int)
  | getWithMap (m : List (Int × Int))
  | getWithLock (k : Int)
  | set (k v : Int)
  | setNx (k v : Int)
  | setX (k v : Int)
  | delete (ks : List Int)
  | has (k : Int)
  | contains (k : Int)
  | len
  | keys
  | values
  | range (limit : Nat)
  | all (limit : Nat)
  | clear
  | map (g : KV → Loc → KV × Loc)

abbrev A := Act KV Loc

def aRLock : A := { ev := .rlock }
def aRUnlock : A := { ev := .runlock }
def aLock : A := { ev := .lock }
def aUnlock : A := { ev := .unlock }
def rd (f : KV → Loc → Loc) : A := { ev := .read, f := fun s l => (s, f s l) }
def wr (f : KV → Loc → KV × Loc) : A := { ev := .write, f := f }
def callFn (f : Loc → Loc) : A := { ev := .callFn, g := f }

/-- `value, ok := s.entries[key]` -/
def rdLookup (k : Int) : A :=
  rd fun s l => { l with val := (s.get k).getD 0, ok := (s.get k).isSome }

/-- `v, ok := s.entries[k]; if ok { m[k] = v }` for one entry of the caller's map -/
def fillFrom (s : KV) (p : Int × Int) : Int × Int :=
  match s.get p.1 with
  | some v => (p.1, v)
  | none => p

def Call.init : Call → Loc
  | .getWithMap m => { out := m }
  | _ => {}

def body : Call → List A
  | .get k => [aRLock, rdLookup k, aRUnlock]
  | .getWithMap _ =>
      [aRLock,
       rd (fun s l => { l with out := l.out.map (fillFrom s) }),
       aRUnlock]
  | .getWithLock k =>
      [aRLock, rdLookup k,
       callFn (fun l => if l.ok then { l with out := [(k, l.val)] } else l),
       aRUnlock]
  | .set k v => [aLock, wr (fun s l => (s.set k v, l)), aUnlock]
  | .setNx k v =>
      [aLock, rdLookup k,
       wr (fun s l => if !l.ok then (s.set k v, l) else (s, l)),
       aUnlock]
  | .setX k v =>
      [aLock, rdLookup k,
       wr (fun s l => if l.ok then (s.set k v, l) else (s, l)),
       aUnlock]
  | .delete ks => [aLock, wr (fun s l => (ks.foldl KV.del s, l)), aUnlock]
  | .has k => [aRLock, rdLookup k, aRUnlock]
  | .contains k => [aRLock, rdLookup k, aRUnlock]
  | .len => [aRLock, rd (fun s l => { l with n := s.length }), aRUnlock]
  | .keys =>   -- repaired order: RLock; make(…, len(s.entries)); range
      [aRLock, rd (fun s l => { l with n := s.length }), rd (fun s l => { l with out := s }), aRUnlock]
  | .values =>
      [aRLock, rd (fun s l => { l with n := s.length }), rd (fun s l => { l with out := s }), aRUnlock]
  | .range limit =>
      [aRLock, rd (fun s l => { l with out := s }),
       callFn (fun l => { l with out := l.out.take (max limit 1) }),
       aRUnlock]
  | .all limit =>
      [aRLock, rd (fun s l => { l with out := s }),
       callFn (fun l => { l with out := l.out.take (max limit 1) }),
       aRUnlock]
  | .clear =>
      [aLock, rd (fun s l => { l with n := s.length }),
       { ev := .replace, f := fun _ l => ([], l) },
       aUnlock]
  | .map g => [aLock, rd (fun _ l => l), { ev := .callFnMap, f := g }, aUnlock]

/-- The method as one uninterrupted function on the map: new map and the call's
final local state (from which the return value is read). -/
def seqCall (c : Call) (s : KV) : KV × Loc := runActs (body c) s c.init

/-- Method names as they appear in the source, for the comparison with the facts. -/
def Call.name : Call → String
  | .get _ => "Get" | .getWithMap _ => "GetWithMap" | .getWithLock _ => "GetWithLock"
  | .set _ _ => "Set" | .setNx _ _ => "SetNx" | .setX _ _ => "SetX" | .delete _ => "Delete"
  | .has _ => "Has" | .contains _ => "Contains" | .len => "Len" | .keys => "Keys"
  | .values => "Values" | .range _ => "Range" | .all _ => "All" | .clear => "Clear"
  | .map _ => "Map"

/-- One representative call per method (the event list does not depend on the arguments). -/
def representatives : List Call :=
  [.get 0, .getWithMap [], .getWithLock 0, .set 0 0, .setNx 0 0, .setX 0 0, .delete [],
   .has 0, .contains 0, .len, .keys, .values, .range 0, .clear, .map (fun s l => (s, l)), .all 0]

/-- (name, events) of the hand-written model, in the order of `representatives`. -/
def modelEvents : List (String × List Ev) := representatives.map fun c => (c.name, evs (body c))

end Golib.C12
