/-
The three clients of the sift routines, mirroring `heapz/slice.go`, `heapz/heap.go`,
`heapz/std_heap.go` and `heapz/iter.go`.
-/
import Golib.Model.C04Adjust
import Golib.Model.C13Map

namespace Golib.C04
open Golib.C13 (PM IM)

/-! ### `Slice[T]` : `Values []T`, plain `swap` -/

def sliceOps (cmp : Int → Int → Bool) : Ops (List Int) where
  less s j i :=
    match nth s j, nth s i with
    | some a, some b => some (s, cmp a b)
    | _, _ => none
  swap s i j := swapL s i j

/-- `FromSlice(s, cmp)` -/
def Slice.fromSlice (cmp : Int → Int → Bool) (s : List Int) : Option (List Int) :=
  build (sliceOps cmp) s s.length

/-- `Push(x)` -/
def Slice.push (cmp : Int → Int → Bool) (s : List Int) (x : Int) : Option (List Int) :=
  let s1 := s ++ [x]
  upF (sliceOps cmp) s1 ((s1.length : Int) - 1)

/-- `Pop()`; result `(Values, x, ok)` -/
def Slice.pop (cmp : Int → Int → Bool) (s : List Int) : Option (List Int × Int × Bool) :=
  let n : Int := s.length
  if n = 0 then some (s, 0, false)
  else if n = 1 then
    match nth s 0 with
    | none => none
    | some x => some (s.take 0, x, true)
  else
    let n := n - 1
    match swapL s 0 n with
    | none => none
    | some s1 =>
      match downB (sliceOps cmp) s1 0 n with
      | none => none
      | some (s2, _) =>
        match nth s2 n with
        | none => none
        | some x => some (s2.take n.toNat, x, true)

/-- `Peek()` -/
def Slice.peek (s : List Int) : Option (Int × Bool) :=
  if (s.length : Int) = 0 then some (0, false)
  else match nth s 0 with
    | none => none
    | some x => some (x, true)

/-- `Remove(i)` -/
def Slice.remove (cmp : Int → Int → Bool) (s : List Int) (i : Int) : Option (List Int × Int × Bool) :=
  if i < 0 ∨ i ≥ s.length then some (s, 0, false) else
  let n : Int := (s.length : Int) - 1
  let s1? : Option (List Int) :=
    if n ≠ i then
      match swapL s i n with
      | none => none
      | some s1 => fix (sliceOps cmp) s1 i n
    else some s
  match s1? with
  | none => none
  | some s1 =>
    match nth s1 n with
    | none => none
    | some x => some (s1.take n.toNat, x, true)

/-- `Fix(i)` -/
def Slice.fix (cmp : Int → Int → Bool) (s : List Int) (i : Int) : Option (List Int) :=
  if i < 0 ∨ i ≥ s.length then some s else
  Golib.C04.fix (sliceOps cmp) s i s.length

/-- `PopAll()` consumed to the end: `for { e, ok := s.Pop(); if !ok { break }; yield(e) }` -/
def Slice.popAll (cmp : Int → Int → Bool) : Nat → List Int → Option (List Int × List Int)
  | 0, _ => none
  | f + 1, s =>
    match Slice.pop cmp s with
    | none => none
    | some (s1, _, false) => some (s1, [])
    | some (s1, x, true) =>
      match Slice.popAll cmp f s1 with
      | none => none
      | some (s2, xs) => some (s2, x :: xs)

/-- `PopAll()` left by the consumer when it has received `k` elements:
`for x := range s.PopAll() { …; if received == k { break } }` — `yield` returns false at its
`k`-th call, i.e. the loop `for { e, ok := s.Pop(); if !ok { break }; if !yield(e) { break } }`
makes `k` `Pop` calls (fewer when the heap runs empty). -/
def Slice.popAllK (cmp : Int → Int → Bool) : Nat → List Int → Option (List Int × List Int)
  | 0, s => some (s, [])
  | k + 1, s =>
    match Slice.pop cmp s with
    | none => none
    | some (s1, _, false) => some (s1, [])
    | some (s1, x, true) =>
      match Slice.popAllK cmp k s1 with
      | none => none
      | some (s2, xs) => some (s2, x :: xs)

/-! ### the client-visible operations of `Slice[T]` as one step function

`setFix i v` is the client's `s.Values[i] = v; s.Fix(i)` (the assignment itself panics when `i`
is out of range). The driver runs exactly this function; `c04_slice_sequences` is about it. -/

inductive SOp where
  | push (x : Int)
  | pop
  | peek
  | len
  | remove (i : Int)
  | fix (i : Int)
  | setFix (i : Nat) (v : Int)
  | popAll
  | popAllN (k : Nat)

inductive SRet where
  | unit
  | val (x : Int) (ok : Bool)
  | len (n : Nat)
  | vals (xs : List Int)

def stepS (cmp : Int → Int → Bool) (s : List Int) : SOp → Option (List Int × SRet)
  | .push x => (Slice.push cmp s x).map fun s1 => (s1, .unit)
  | .pop => (Slice.pop cmp s).map fun (s1, x, ok) => (s1, .val x ok)
  | .peek => (Slice.peek s).map fun (x, ok) => (s, .val x ok)
  | .len => some (s, .len s.length)
  | .remove i => (Slice.remove cmp s i).map fun (s1, x, ok) => (s1, .val x ok)
  | .fix i => (Slice.fix cmp s i).map fun s1 => (s1, .unit)
  | .setFix i v =>
    if i < s.length then (Slice.fix cmp (s.set i v) (i : Int)).map fun s1 => (s1, .unit) else none
  | .popAll => (Slice.popAll cmp (s.length + 1) s).map fun (s1, xs) => (s1, .vals xs)
  | .popAllN k => (Slice.popAllK cmp k s).map fun (s1, xs) => (s1, .vals xs)

/-- run a list of `Slice` calls, collecting the results -/
def runSR (cmp : Int → Int → Bool) : List Int → List SOp → Option (List Int × List SRet)
  | s, [] => some (s, [])
  | s, o :: os =>
    match stepS cmp s o with
    | none => none
    | some (s1, r) =>
      match runSR cmp s1 os with
      | none => none
      | some (s2, rs) => some (s2, r :: rs)

/-- `for v := range s.PopAll() { body(i, v); if i+1 == k { break } }` as coded in iter.go
(`e, ok := s.Pop()` first, then `yield(e)`): result = `Values`, the yielded values, the results of
the body's calls, loop ended? -/
def Slice.popAllBody (cmp : Int → Int → Bool) (body : Nat → List SOp) (k : Nat) :
    Nat → Nat → List Int → Option (List Int × List Int × List SRet × Bool)
  | 0, _, s => some (s, [], [], false)
  | f + 1, i, s =>
    match Slice.pop cmp s with
    | none => none
    | some (s1, _, false) => some (s1, [], [], true)
    | some (s1, x, true) =>
      match runSR cmp s1 (body i) with
      | none => none
      | some (s2, rs) =>
        if i + 1 = k then some (s2, [x], rs, true)
        else
          match Slice.popAllBody cmp body k f (i + 1) s2 with
          | none => none
          | some (s3, xs, rs', d) => some (s3, x :: xs, rs ++ rs', d)

def scriptBodyS (script : List (List SOp)) (i : Nat) : List SOp :=
  match script[i]? with
  | some l => l
  | none => []

def SRet.toInts : SRet → List Int
  | .unit => []
  | .val x ok => [x, if ok then 1 else 0]
  | .len n => [(n : Int)]
  | .vals xs => xs

/-! ### `Heap[T]` with `*Element[T]` handles

One memory holds two heaps (`0`, `1`) and every element ever allocated: `idx` = `e.index`,
`own` = `e.heap` (`none` = nil), `val` = `e.Value`. -/

structure HMem where
  a0    : List Nat      -- `h.values` of heap 0 (element ids)
  a1    : List Nat      -- `h.values` of heap 1
  idx   : IM
  own   : PM
  val   : IM
  fresh : Nat

def HMem.zero : HMem := { a0 := [], a1 := [], idx := .empty, own := .empty, val := .empty, fresh := 0 }

def HMem.arr (m : HMem) (h : Nat) : List Nat := if h = 0 then m.a0 else m.a1

def HMem.setArr (m : HMem) (h : Nat) (a : List Nat) : HMem :=
  if h = 0 then { m with a0 := a } else { m with a1 := a }

/-- `rcmp` on `h.values` and `swapEle`:
```
s[i], s[j] = s[j], s[i]
s[i].index = i
s[j].index = j
``` -/
def heapOps (cmp : Int → Int → Bool) (h : Nat) : Ops HMem where
  less m j i :=
    match nth (m.arr h) j, nth (m.arr h) i with
    | some a, some b => some (m, cmp (m.val.get a) (m.val.get b))
    | _, _ => none
  swap m i j :=
    match swapL (m.arr h) i j with
    | none => none
    | some a =>
      match nth a i, nth a j with
      | some ei, some ej =>
        let m1 := m.setArr h a
        let m2 := { m1 with idx := m1.idx.set ei i }
        some { m2 with idx := m2.idx.set ej j }
      | _, _ => none

/-- Allocation loop of `Init`: `values[i] = &Element[T]{Value: v, heap: h, index: i}` -/
def HMem.allocInit (h : Nat) : List Int → Nat → HMem → List Nat → HMem × List Nat
  | [], _, m, acc => (m, acc)
  | v :: vs, i, m, acc =>
    let e := m.fresh
    let m1 := { m with fresh := e + 1, val := m.val.set e v, own := m.own.set e (some h),
                       idx := m.idx.set e (i : Int) }
    HMem.allocInit h vs (i + 1) m1 (acc ++ [e])

/-- First loop of the repaired `Init` (finding F13): every element the heap held is detached,
`for _, e := range h.values { e.heap = nil; e.index = -1 }`. -/
def HMem.detachAll (m : HMem) : List Nat → HMem
  | [] => m
  | e :: es => HMem.detachAll { m with own := m.own.set e none, idx := m.idx.set e (-1) } es

/-- `h.Init(s, cmp)` (repaired: without `detachAll` the discarded elements keep `heap == h` and
their old index, see `Golib/Findings/C04Init.lean`). -/
def HMem.init (cmp : Int → Int → Bool) (m : HMem) (h : Nat) (vs : List Int) : Option HMem :=
  let m0 := m.detachAll (m.arr h)
  let (m1, values) := HMem.allocInit h vs 0 m0 []
  -- `build(values, rcmp, swapEle)` runs on the local slice, then `h.values = values`
  let m2 := m1.setArr h values
  build (heapOps cmp h) m2 values.length

/-- `h.pop()` -/
def HMem.popLast (m : HMem) (h : Nat) : Option (HMem × Nat) :=
  let n : Int := ((m.arr h).length : Int) - 1
  match nth (m.arr h) n with
  | none => none
  | some e =>
    let m1 := m.setArr h ((m.arr h).take n.toNat)
    some ({ m1 with own := m1.own.set e none, idx := m1.idx.set e (-1) }, e)

/-- `h.PushElement(e)` -/
def HMem.pushElement (cmp : Int → Int → Bool) (m : HMem) (h e : Nat) : Option HMem :=
  let index : Int := (m.arr h).length
  let m1 := { m with own := m.own.set e (some h) }
  let m2 := { m1 with idx := m1.idx.set e index }
  let m3 := m2.setArr h (m2.arr h ++ [e])
  upF (heapOps cmp h) m3 index

/-- `h.Push(x)`; returns the new element. -/
def HMem.push (cmp : Int → Int → Bool) (m : HMem) (h : Nat) (x : Int) : Option (HMem × Nat) :=
  let e := m.fresh
  let m1 := { m with fresh := e + 1, val := m.val.set e x }
  (m1.pushElement cmp h e).map fun m2 => (m2, e)

/-- `h.Pop()`; `none` in the second component = returned nil. -/
def HMem.pop (cmp : Int → Int → Bool) (m : HMem) (h : Nat) : Option (HMem × Option Nat) :=
  let n : Int := (m.arr h).length
  if n = 0 then some (m, none)
  else if n = 1 then (m.popLast h).map fun (m1, e) => (m1, some e)
  else
    let n := n - 1
    match (heapOps cmp h).swap m 0 n with
    | none => none
    | some m1 =>
      match downB (heapOps cmp h) m1 0 n with
      | none => none
      | some (m2, _) => (m2.popLast h).map fun (m3, e) => (m3, some e)

/-- `h.Peek()` -/
def HMem.peek (m : HMem) (h : Nat) : Option (Option Nat) :=
  if ((m.arr h).length : Int) = 0 then some none
  else match nth (m.arr h) 0 with
    | none => none
    | some e => some (some e)

/-- `h.Remove(e)` -/
def HMem.remove (cmp : Int → Int → Bool) (m : HMem) (h e : Nat) : Option HMem :=
  if m.own.get e = none ∨ m.own.get e ≠ some h then some m else
  if m.idx.get e < 0 ∨ m.idx.get e ≥ (m.arr h).length then none else
  let n : Int := ((m.arr h).length : Int) - 1
  let m1? : Option HMem :=
    if n ≠ m.idx.get e then
      let index := m.idx.get e
      match (heapOps cmp h).swap m (m.idx.get e) n with
      | none => none
      | some m1 => fix (heapOps cmp h) m1 index n
    else some m
  match m1? with
  | none => none
  | some m1 => (m1.popLast h).map (·.1)

/-- `h.Fix(e)` -/
def HMem.fixElem (cmp : Int → Int → Bool) (m : HMem) (h e : Nat) : Option HMem :=
  if m.own.get e = none ∨ m.own.get e ≠ some h then some m else
  if m.idx.get e < 0 ∨ m.idx.get e ≥ (m.arr h).length then none else
  fix (heapOps cmp h) m (m.idx.get e) (m.arr h).length

/-- `h.PopAll()` consumed to the end; yields the values. -/
def HMem.popAll (cmp : Int → Int → Bool) (h : Nat) : Nat → HMem → Option (HMem × List Int)
  | 0, _ => none
  | f + 1, m =>
    match m.pop cmp h with
    | none => none
    | some (m1, none) => some (m1, [])
    | some (m1, some e) =>
      match HMem.popAll cmp h f m1 with
      | none => none
      | some (m2, xs) => some (m2, m1.val.get e :: xs)

/-- `h.PopAll()` left by the consumer when it has received `k` elements: `k` `Pop` calls (fewer
when the heap runs empty); returns the popped elements in order. -/
def HMem.popAllK (cmp : Int → Int → Bool) (h : Nat) : Nat → HMem → Option (HMem × List Nat)
  | 0, m => some (m, [])
  | k + 1, m =>
    match m.pop cmp h with
    | none => none
    | some (m1, none) => some (m1, [])
    | some (m1, some e) =>
      match HMem.popAllK cmp h k m1 with
      | none => none
      | some (m2, es) => some (m2, e :: es)

/-! ### the client-visible operations of `Heap[T]` as one step function

`HState` = the element memory plus `h.cmp` of each heap (the comparator it was created with by
`New` or last given to `Init`). `HOp` = one call a client can make on one of the two heaps
(`h.val`), `HRet` = what it gets back. `init h c vs` is `h.Init(vs, c)`: it installs `c` as the
heap's comparator; `setFix h e v` is `e.Value = v; h.Fix(e)`, `setRemove h e v` is `e.Value = v; h.Remove(e)` (the use
the package doc blesses: Fix = Remove + Push of the new value). The driver (`Model/C04.lean`) runs
exactly this function; `c04_heap_handles` is stated about it. -/

structure HState where
  m  : HMem
  c0 : Int → Int → Bool
  c1 : Int → Int → Bool

/-- `h.cmp` -/
def HState.cmp (st : HState) (h : Nat) : Int → Int → Bool := if h = 0 then st.c0 else st.c1

/-- `h.cmp = c` -/
def HState.setCmp (st : HState) (h : Nat) (c : Int → Int → Bool) : HState :=
  if h = 0 then { st with c0 := c } else { st with c1 := c }

/-- two heaps from `New(0, cmp)` -/
def HState.zero (cmp : Int → Int → Bool) : HState := { m := HMem.zero, c0 := cmp, c1 := cmp }

inductive HOp where
  | init (h : Fin 2) (c : Int → Int → Bool) (vs : List Int)
  | push (h : Fin 2) (x : Int)
  | pushElem (h : Fin 2) (e : Nat)
  | pop (h : Fin 2)
  | peek (h : Fin 2)
  | len (h : Fin 2)
  | remove (h : Fin 2) (e : Nat)
  | fix (h : Fin 2) (e : Nat)
  | setFix (h : Fin 2) (e : Nat) (v : Int)
  | setRemove (h : Fin 2) (e : Nat) (v : Int)
  | popAll (h : Fin 2)
  | popAllN (h : Fin 2) (k : Nat)

inductive HRet where
  | unit
  | handle (e : Option Nat)
  | len (n : Nat)
  | vals (xs : List Int)
  | popped (es : List Nat)
  | bodyRes (es : List Nat) (xs : List Int) (done : Bool)

def stepH (st : HState) : HOp → Option (HState × HRet)
  | .init h c vs => (st.m.init c h.val vs).map fun m1 => ({ st.setCmp h.val c with m := m1 }, .unit)
  | .push h x => (st.m.push (st.cmp h.val) h.val x).map fun (m1, e) => ({ st with m := m1 }, .handle (some e))
  | .pushElem h e => (st.m.pushElement (st.cmp h.val) h.val e).map fun m1 => ({ st with m := m1 }, .unit)
  | .pop h => (st.m.pop (st.cmp h.val) h.val).map fun (m1, e) => ({ st with m := m1 }, .handle e)
  | .peek h => (st.m.peek h.val).map fun e => (st, .handle e)
  | .len h => some (st, .len (st.m.arr h.val).length)
  | .remove h e => (st.m.remove (st.cmp h.val) h.val e).map fun m1 => ({ st with m := m1 }, .unit)
  | .fix h e => (st.m.fixElem (st.cmp h.val) h.val e).map fun m1 => ({ st with m := m1 }, .unit)
  | .setFix h e v =>
    (({ st.m with val := st.m.val.set e v } : HMem).fixElem (st.cmp h.val) h.val e).map
      fun m1 => ({ st with m := m1 }, .unit)
  | .setRemove h e v =>
    (({ st.m with val := st.m.val.set e v } : HMem).remove (st.cmp h.val) h.val e).map
      fun m1 => ({ st with m := m1 }, .unit)
  | .popAll h =>
    (HMem.popAll (st.cmp h.val) h.val ((st.m.arr h.val).length + 1) st.m).map
      fun (m1, xs) => ({ st with m := m1 }, .vals xs)
  | .popAllN h k =>
    (HMem.popAllK (st.cmp h.val) h.val k st.m).map fun (m1, es) => ({ st with m := m1 }, .popped es)

/-! ### the client holding `iter.Seq` values and struct copies

`q := h.PopAll()` returns a closure that captures nothing but the receiver pointer, so a held Seq
value IS the heap's identity (`seqs` = the client's slots, in creation order): ranging it — at any
later time, any number of times — is `popAllN`/`popAll` on that heap in its CURRENT state.
`c := *h` makes another heap object (another address, modelled as identity `h + 2`): every element
of `h` is foreign to it, so `c.Remove(e)` / `c.Fix(e)` are the calls `copyRemove` / `copyFix`. -/

/-- run a list of calls, collecting the results (`none` = one of them panicked) -/
def runH : HState → List HOp → Option (HState × List HRet)
  | st, [] => some (st, [])
  | st, o :: os =>
    match stepH st o with
    | none => none
    | some (st1, r) =>
      match runH st1 os with
      | none => none
      | some (st2, rs) => some (st2, r :: rs)

/-- `for v := range h.PopAll() { body(i, v); if i+1 == k { break } }` with the loop of iter.go
as coded — `for { e := h.Pop(); if e == nil { break }; if !yield(e.Value) { break } }`: the element
has LEFT the heap when the body of iteration `i` (`body i`, any calls on either heap) runs.
Result: final state, the popped elements, the results of the body's calls, and whether the loop
ended (`false` = the fuel `f` ran out: a body that keeps pushing never lets the real loop end). -/
def popAllBody (h : Fin 2) (body : Nat → List HOp) (k : Nat) :
    Nat → Nat → HState → Option (HState × List Nat × List HRet × Bool)
  | 0, _, st => some (st, [], [], false)
  | f + 1, i, st =>
    match st.m.pop (st.cmp h.val) h.val with
    | none => none
    | some (m1, none) => some ({ st with m := m1 }, [], [], true)
    | some (m1, some e) =>
      match runH { st with m := m1 } (body i) with
      | none => none
      | some (st2, rs) =>
        if i + 1 = k then some (st2, [e], rs, true)
        else
          match popAllBody h body k f (i + 1) st2 with
          | none => none
          | some (st3, es, rs', d) => some (st3, e :: es, rs ++ rs', d)

/-- the body given as a script: the calls of iteration `i` (none beyond the script) -/
def scriptBody (script : List (List HOp)) (i : Nat) : List HOp :=
  match script[i]? with
  | some l => l
  | none => []

/-- results of body calls as integers for the line protocol -/
def HRet.toInts : HRet → List Int
  | .unit => []
  | .handle none => [-1]
  | .handle (some e) => [(e : Int)]
  | .len n => [(n : Int)]
  | .vals xs => xs
  | .popped es => es.map fun (e : Nat) => (e : Int)
  | .bodyRes es xs _ => es.map (fun (e : Nat) => (e : Int)) ++ xs

def HRet.isNil : HRet → Bool
  | .handle none => true
  | _ => false

/-- The client: the heaps, the held Seq values (`seqs`, a Seq = the identity of its heap) and the
`iter.Pull` cursors made from them (`curs`: heap, still active?). `next, stop := iter.Pull(q)`:
each `next()` on an active cursor resumes the loop of `PopAll` for one round — ONE `Pop` on the
shared heap; when that `Pop` finds the heap empty the loop ends and the cursor is finished for
good; `stop()` finishes it; a finished cursor answers `(zero, false)` and touches nothing. -/
structure HClient where
  st   : HState
  seqs : List (Fin 2)
  curs : List (Fin 2 × Bool)

inductive COp where
  | op (o : HOp)
  | seq (h : Fin 2)
  | range (slot k : Nat)
  | rangeAll (slot : Nat)
  | copyRemove (h : Fin 2) (e : Nat)
  | copyFix (h : Fin 2) (e : Nat)
  | popAllBody (h : Fin 2) (k : Nat) (script : List (List HOp))
  | pull (slot : Nat)
  | next (cur : Nat)
  | stop (cur : Nat)

/-- enough rounds for a scripted body: every scripted call adds at most one element (the driver
admits no `Init` in a body) -/
def bodyFuel (c : HClient) (h : Fin 2) (script : List (List HOp)) : Nat :=
  (c.st.m.arr h.val).length + (script.map List.length).sum + 1

def stepC (c : HClient) : COp → Option (HClient × HRet)
  | .op o => (stepH c.st o).map fun (st1, r) => ({ c with st := st1 }, r)
  | .seq h => some ({ c with seqs := c.seqs ++ [h] }, .unit)
  | .range i k =>
    match c.seqs[i]? with
    | none => none
    | some h => (stepH c.st (.popAllN h k)).map fun (st1, r) => ({ c with st := st1 }, r)
  | .rangeAll i =>
    match c.seqs[i]? with
    | none => none
    | some h => (stepH c.st (.popAll h)).map fun (st1, r) => ({ c with st := st1 }, r)
  | .copyRemove h e =>
    (c.st.m.remove (c.st.cmp h.val) (h.val + 2) e).map fun m1 => ({ c with st := { c.st with m := m1 } }, .unit)
  | .copyFix h e =>
    (c.st.m.fixElem (c.st.cmp h.val) (h.val + 2) e).map fun m1 => ({ c with st := { c.st with m := m1 } }, .unit)
  | .popAllBody h k script =>
    (popAllBody h (scriptBody script) k (bodyFuel c h script) 0 c.st).map fun (st1, es, rs, d) =>
      ({ c with st := st1 }, .bodyRes es (rs.flatMap HRet.toInts) d)
  | .pull i =>
    match c.seqs[i]? with
    | none => none
    | some h => some ({ c with curs := c.curs ++ [(h, true)] }, .unit)
  | .next j =>
    match c.curs[j]? with
    | none => none
    | some (_, false) => some (c, .handle none)
    | some (h, true) =>
      (stepH c.st (.pop h)).map fun (st1, r) =>
        ({ c with st := st1, curs := if r.isNil then c.curs.set j (h, false) else c.curs }, r)
  | .stop j =>
    match c.curs[j]? with
    | none => none
    | some (h, _) => some ({ c with curs := c.curs.set j (h, false) }, .unit)

/-! ### generic `Interface[T]` functions on a recording container

The container is a slice with `Less(i, j) = cmp(data[i], data[j])`, `Swap`, `Push` (append),
`Pop` (remove last); it logs every `Less`/`Swap` call. -/

structure Rec where
  data : List Int
  log  : List String

def recOps (cmp : Int → Int → Bool) : Ops Rec where
  less s j i :=
    let s1 := { s with log := s.log ++ [s!"L{j},{i}"] }
    match nth s.data j, nth s.data i with
    | some a, some b => some (s1, cmp a b)
    | _, _ => none
  swap s i j :=
    let s1 := { s with log := s.log ++ [s!"S{i},{j}"] }
    match swapL s.data i j with
    | none => none
    | some d => some { s1 with data := d }

/-- `h.Pop()` of the container -/
def Rec.popLast (s : Rec) : Option (Rec × Int) :=
  let n : Int := (s.data.length : Int) - 1
  match nth s.data n with
  | none => none
  | some x => some ({ s with data := s.data.take n.toNat }, x)

/-! ### the generic functions over ANY `Interface[T]` implementation

`Iface σ` = the five methods the generic functions call on a container with state `σ`
(`Less`/`Swap` = `ops`, `Len`, `Push`, `Pop`; `none` = the method panics).  `GenI.*` mirror
`std_heap.go` statement by statement without fixing the container; `Gen.*` below are their
instances for the recording container of the harness. -/

structure Iface (σ : Type) where
  ops  : Ops σ
  len  : σ → Int
  push : σ → Int → σ
  pop  : σ → Option (σ × Int)

/-- `Init(h)` -/
def GenI.init {σ : Type} (I : Iface σ) (s : σ) : Option σ :=
  build I.ops s (I.len s)

/-- `Push(h, x)` -/
def GenI.push {σ : Type} (I : Iface σ) (s : σ) (x : Int) : Option σ :=
  let s1 := I.push s x
  upF I.ops s1 (I.len s1 - 1)

/-- `Pop(h)` -/
def GenI.pop {σ : Type} (I : Iface σ) (s : σ) : Option (σ × Int) :=
  let n : Int := I.len s - 1
  match I.ops.swap s 0 n with
  | none => none
  | some s1 =>
    match downB I.ops s1 0 n with
    | none => none
    | some (s2, _) => I.pop s2

/-- `Remove(h, i)` -/
def GenI.remove {σ : Type} (I : Iface σ) (s : σ) (i : Int) : Option (σ × Int) :=
  let n : Int := I.len s - 1
  let s1? : Option σ :=
    if n ≠ i then
      match I.ops.swap s i n with
      | none => none
      | some s1 =>
        match downB I.ops s1 i n with
        | none => none
        | some (s2, true) => some s2
        | some (s2, false) => upF I.ops s2 i
    else some s
  match s1? with
  | none => none
  | some s1 => I.pop s1

/-- `Fix(h, i)` -/
def GenI.fix {σ : Type} (I : Iface σ) (s : σ) (i : Int) : Option σ :=
  Golib.C04.fix I.ops s i (I.len s)

/-- the recording container as an `Interface` -/
def recIface (cmp : Int → Int → Bool) : Iface Rec where
  ops := recOps cmp
  len s := s.data.length
  push s x := { s with data := s.data ++ [x] }
  pop s := s.popLast

/-- `Init(h)` on the recording container -/
def Gen.init (cmp : Int → Int → Bool) (s : Rec) : Option Rec := GenI.init (recIface cmp) s

/-- `Push(h, x)` : `h.Push(x); std_up(h, h.Len()-1)` -/
def Gen.push (cmp : Int → Int → Bool) (s : Rec) (x : Int) : Option Rec := GenI.push (recIface cmp) s x

/-- `Pop(h)` : `n := h.Len() - 1; h.Swap(0, n); std_down(h, 0, n); return h.Pop()` -/
def Gen.pop (cmp : Int → Int → Bool) (s : Rec) : Option (Rec × Int) := GenI.pop (recIface cmp) s

/-- `Remove(h, i)` -/
def Gen.remove (cmp : Int → Int → Bool) (s : Rec) (i : Int) : Option (Rec × Int) :=
  GenI.remove (recIface cmp) s i

/-- `Fix(h, i)` -/
def Gen.fix (cmp : Int → Int → Bool) (s : Rec) (i : Int) : Option Rec := GenI.fix (recIface cmp) s i

end Golib.C04
