/-
C07: the parsers with ONE memory — `dst` and `src` are windows of the same array, `dst`
starting `k` bytes before `src` (`k = 0`: `XxxParse(b, b)`, decoding in place, as the
library's own `TestOctalParse` does).  Memory index `j` is `dst[j]`; `src[j]` is memory
index `k + j`; `src` runs to the end of the memory.

The machine keeps the three Go cursors (`e` write position in `dst`, `f` start of the pending
literal run and `i` read position in `src`) and performs, per loop iteration, exactly the
memory operations of the Go loop bodies in their order:
  * decide on the CURRENT memory contents from `src[i:]` (`dec`, the decision function of the
    functional layer: stop / skip / emit),
  * on emit: `e += copy(dst[e:], src[f:i])` with Go's `copy` = memmove semantics (`moveIP`),
    THEN the decoded bytes at `dst[e:]` (`writeIP`), then `i += k; f = i`,
  * after the loop the trailing `copy(dst[e:], src[f:])`.
(`Utf16Parse` also moves the literal run down before it knows whether a high surrogate is
followed by a low one; that intermediate move changes no byte that is read later and is not
reproduced.)  `Props/C07.lean` `c07_inplace_eq`: the returned bytes `dst[:n]` are those of
parsing into a fresh buffer.  Core-only.
-/
import Golib.Model.C07Enc

namespace Golib.C07

structure IP where
  mem : Bytes
  e : Nat
  f : Nat
  i : Nat
deriving Repr, DecidableEq

/-- `if f < i { e += copy(dst[e:], src[f:i]) }` on one memory (memmove: the source bytes are
read before any byte is written). -/
def moveIP (k : Nat) (s : IP) : IP :=
  if s.f < s.i then
    let seg := (s.mem.drop (k + s.f)).take (s.i - s.f)
    { s with mem := s.mem.take s.e ++ seg ++ s.mem.drop (s.e + seg.length), e := s.e + seg.length }
  else s

/-- the decoded bytes at `dst[e:]`; `e += len`. -/
def writeIP (s : IP) (bs : Bytes) : IP :=
  { s with mem := s.mem.take s.e ++ bs ++ s.mem.drop (s.e + bs.length), e := s.e + bs.length }

def loopIP (dec : Bytes → Dec) (k : Nat) : Nat → IP → IP
  | 0, s => s
  | fuel + 1, s =>
    let t := s.mem.drop (k + s.i)
    if t = [] then s else
    match dec t with
    | .stop => s
    | .skip n => if 0 < n then loopIP dec k fuel { s with i := s.i + n } else s
    | .emit bs n =>
      if 0 < n then
        let s2 := writeIP (moveIP k s) bs
        loopIP dec k fuel { s2 with i := s.i + n, f := s.i + n }
      else s

/-- `XxxParse(dst, src)` with `dst = mem[0:]`, `src = mem[k:]`: `(n, dst[:n])`. -/
def runIP (dec : Bytes → Dec) (k : Nat) (mem : Bytes) : Nat × Bytes :=
  let s := loopIP dec k (mem.length + 1) ⟨mem, 0, 0, 0⟩
  let s' := moveIP k { s with i := mem.length - k }
  (s'.e, s'.mem.take s'.e)

/-- The machine with EARLY MOVES: at the start of any iteration chosen by `early` (an arbitrary
oracle) the pending literal run is moved down and `f = i` is set before anything is decided —
what `Utf16Parse` does once the first `\\uXXXX` has parsed, before it knows whether a high
surrogate is followed by a low one (`enc.go:335-338`).  `c07_inplace_eq` holds for every
`early`: such a move changes no byte that is read later. -/
def loopIPe (early : IP → Bool) (dec : Bytes → Dec) (k : Nat) : Nat → IP → IP
  | 0, s => s
  | fuel + 1, s =>
    if early s = true ∧ s.f < s.i then loopIPe early dec k fuel { moveIP k s with f := s.i }
    else
    let t := s.mem.drop (k + s.i)
    if t = [] then s else
    match dec t with
    | .stop => s
    | .skip n => if 0 < n then loopIPe early dec k fuel { s with i := s.i + n } else s
    | .emit bs n =>
      if 0 < n then
        let s2 := writeIP (moveIP k s) bs
        loopIPe early dec k fuel { s2 with i := s.i + n, f := s.i + n }
      else s

def runIPe (early : IP → Bool) (dec : Bytes → Dec) (k : Nat) (mem : Bytes) : Nat × Bytes :=
  let s := loopIPe early dec k (2 * mem.length + 2) ⟨mem, 0, 0, 0⟩
  let s' := moveIP k { s with i := mem.length - k }
  (s'.e, s'.mem.take s'.e)

end Golib.C07
