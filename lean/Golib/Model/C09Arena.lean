/-
C09, buffer level: which memory of the CALLER the entry points of `cryptz/crypt.go` write.

The value-level model (`C09Crypt.lean`) maps argument VALUES to a value; "the caller's secret,
additional data, plaintext are left as they were" cannot be said there.  Here:

* `Footprint`: for every entry point, the list of its memory-writing statements with the buffer
  each one targets — `Target.fresh` (a `make`, a local array, a buffer the standard library
  allocates: never caller memory) or `Target.input` (a range of the ciphertext argument).
  Read off `crypt.go` statement by statement; it is what the harness's arena/canary check
  (`@ C09 arena`) tests on the real code after every call.
* the two entry points that DO write caller memory — `SaltBySecretCBCDecrypt` /
  `SaltBySecretGCMDecrypt` with `reuseCipherText = true` — are run over the caller's arena with
  the C08 arena model (`aesCBCDecryptA` / `aesGCMDecryptA`): `dst = cipherText[16:]`, key and iv /
  nonce in the local `cred` array (cells appended behind the caller's arena).
-/
import Golib.Model.C09Crypt
import Golib.Model.C08Arena

namespace Golib.C09.Arena
open Golib.C08 Golib.C08.Arena Golib.C09

inductive Target where
  /-- memory the call itself allocated (`make`, `var x [N]byte`, stdlib-internal buffers) -/
  | fresh (name : String)
  /-- cells `[off, off+len)` of the ciphertext argument -/
  | input (off len : Nat)
deriving Repr, DecidableEq

inductive Entry where
  | encrypt | decrypt | gcmEncrypt | gcmDecrypt
  | saltCBCEncrypt | saltCBCDecrypt (reuse : Bool) | saltGCMEncrypt | saltGCMDecrypt (reuse : Bool)
  | encryptStreamTo | decryptStreamTo
deriving Repr, DecidableEq

/-- `fillCred`: `buf := make(...)`, three times `copy(buf, prevSum[:])`, `copy(buf[n:], secret)`,
`copy(buf[n+len(secret):], salt)`, `copy(cred[i*16:], prevSum[:])` with `cred` a local array -/
def fillCredWrites : List Target :=
  [.fresh "buf", .fresh "buf", .fresh "buf", .fresh "cred",
   .fresh "buf", .fresh "buf", .fresh "buf", .fresh "cred",
   .fresh "buf", .fresh "buf", .fresh "buf", .fresh "cred"]

/-- the memory-writing statements of each entry point, in order (`n` = `len(cipherText)`).
`AESCBCEncrypt(dst[16:], …)`, `AESCBCDecrypt(dst, …)`, `AESGCMEncrypt/Decrypt(dst, …)` count as one
write to their `dst` argument: `c08_writes_within_dst`. -/
def footprint (n : Nat) : Entry → List Target
  | .saltCBCEncrypt => .fresh "salt" :: fillCredWrites ++ [.fresh "dst", .fresh "dst", .fresh "dst"]
  | .encrypt => .fresh "salt" :: fillCredWrites ++ [.fresh "dst", .fresh "dst", .fresh "dst", .fresh "ret"]
  | .saltCBCDecrypt reuse => fillCredWrites ++ [if reuse then .input 16 (n - 16) else .fresh "dst"]
  -- Decrypt: Base64Decode writes its own `dst`; the reuse is of THAT buffer, not of the argument
  | .decrypt => .fresh "b64dst" :: fillCredWrites ++ [.fresh "b64dst"]
  | .saltGCMEncrypt => .fresh "salt" :: fillCredWrites ++ [.fresh "dst", .fresh "dst", .fresh "dst"]
  | .gcmEncrypt => .fresh "salt" :: fillCredWrites ++ [.fresh "dst", .fresh "dst", .fresh "dst", .fresh "ret"]
  | .saltGCMDecrypt reuse => fillCredWrites ++ [if reuse then .input 16 (n - 16 - 16) else .fresh "dst"]
  | .gcmDecrypt => .fresh "hexdst" :: fillCredWrites ++ [.fresh "hexdst"]
  -- the stream forms write to `out` (an io.Writer, not memory of the caller) and into io.Copy's
  -- own buffer / the StreamWriter's scratch slice
  | .encryptStreamTo => .fresh "salt" :: fillCredWrites ++ [.fresh "io.Copy buf", .fresh "StreamWriter c"]
  | .decryptStreamTo => .fresh "saltHeader" :: fillCredWrites ++ [.fresh "io.Copy buf"]

/-! ### the two entry points that write caller memory, over the caller's arena -/

/-- the caller's arena with the local `cred` array behind it -/
def withCred (m : Mem) (cred : Bytes) : Mem := { cells := m.cells ++ cred, log := m.log }
/-- back to the caller's cells -/
def callerPart (m : Mem) (m1 : Mem) : Mem := { cells := m1.cells.take m.cells.length, log := m1.log }

/-- `SaltBySecretCBCDecrypt(cipherText, secret, true)` with `cipherText` the window `ct` -/
def saltBySecretCBCDecryptA (P : Prims) (m : Mem) (ct : Win) (secret : Bytes) : Mem × R Bytes :=
  if ct.len < 2 * aesBlockSize ∨ ct.len &&& blockSizeMask ≠ 0 then (m, .err "len")
  else if (m.rd ct).take 8 ≠ fixedSaltHeader then (m, .err "magic")
  else
    match deriveCred P.md5 (((m.rd ct).take aesBlockSize).drop 8) secret with
    | none => (m, .panic)
    | some cred =>
      let m0 := withCred m cred
      let key : Win := { off := m.cells.length, len := keyLen, cap := credLen }
      let iv : Win := { off := m.cells.length + keyLen, len := credLen - keyLen, cap := credLen - keyLen }
      -- cipherText = cipherText[aes.BlockSize:]; dst := cipherText
      let body : Win := { off := ct.off + aesBlockSize, len := ct.len - aesBlockSize, cap := ct.cap - aesBlockSize }
      match aesCBCDecryptA P.C m0 body body key iv with
      | (m1, .ok n) =>
        let c := callerPart m m1
        (c, match sliceTo (c.rd body) n with | some p => .ok p | none => .panic)
      | (m1, .err e) => (callerPart m m1, .err e)
      | (m1, .panic) => (callerPart m m1, .panic)

/-- `SaltBySecretGCMDecrypt(cipherText, secret, additionalData, true)` -/
def saltBySecretGCMDecryptA (P : Prims) (m : Mem) (ct : Win) (secret : Bytes) (ad : Win) : Mem × R Bytes :=
  if ct.len < aesBlockSize then (m, .err "len")
  else if (m.rd ct).take 8 ≠ fixedSaltHeader then (m, .err "magic")
  else
    match deriveCred P.md5 (((m.rd ct).take aesBlockSize).drop 8) secret with
    | none => (m, .panic)
    | some cred =>
      let m0 := withCred m cred
      let key : Win := { off := m.cells.length, len := keyLen, cap := credLen }
      let nonce : Win := { off := m.cells.length + keyLen, len := nonceSize, cap := credLen - keyLen }
      let body : Win := { off := ct.off + aesBlockSize, len := ct.len - aesBlockSize, cap := ct.cap - aesBlockSize }
      match aesGCMDecryptA P.A m0 body body key nonce ad with
      | (m1, .ok ()) =>
        let c := callerPart m m1
        -- dst[:AESGCMDecryptLen(dst)]
        (c, match sliceTo (c.rd body) (gcmDecryptLen body.len) with | some p => .ok p | none => .panic)
      | (m1, .err e) => (callerPart m m1, .err e)
      | (m1, .panic) => (callerPart m m1, .panic)

end Golib.C09.Arena
