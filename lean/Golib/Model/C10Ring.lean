/-
Model of `ringz/ring.go` (`Ring[T]`), mirroring the Go code statement by statement.

* `head`, `tail`, `cap` are `Int` exactly as in Go (`-1` = empty sentinel); Go `%` is
  truncated division = `Int.tmod`.
* `values` is the backing array (`make([]T, cap)`); element type is `Int`, zero value `0`.
* A Go panic (index out of range, slice bounds) is `none`.
* `New/Init` with `cap ≤ 0` panics in Go: `init? = none`.
* Go `%` panics on a zero divisor ("integer divide by zero") whereas `Int.tmod x 0 = x`:
  every evaluation of `IsFull` (`(r.tail+1)%r.cap`) is guarded by `r.cap = 0 → none`.  This
  is only reachable on the zero value `var r Ring[T]` (never `Init`ialised; `Ring.zero`),
  whose `head = tail = 0` makes it look non-empty: the case header `ring zero` ties the
  model to that behaviour, `c10_ring_zero_value` states it.  The `%` in `Pop` is guarded likewise.
-/
import Golib.Proto

namespace Golib.C10

structure Ring where
  values : List Int
  head   : Int
  tail   : Int
  cap    : Int
deriving Repr, DecidableEq

/-- `values[i]` as Go evaluates it: panics (`none`) out of range. -/
def idx (vs : List Int) (i : Int) : Option Int :=
  if 0 ≤ i then vs[i.toNat]? else none

/-- `values[i] = v`; `none` = index-out-of-range panic. -/
def setIdx (vs : List Int) (i : Int) (v : Int) : Option (List Int) :=
  if 0 ≤ i ∧ i.toNat < vs.length then some (vs.set i.toNat v) else none

/-- Go slice expression `s[lo:hi]` on a slice with `len = cap = s.length`. -/
def slice (vs : List Int) (lo hi : Int) : Option (List Int) :=
  if 0 ≤ lo ∧ lo ≤ hi ∧ hi.toNat ≤ vs.length then
    some ((vs.drop lo.toNat).take (hi.toNat - lo.toNat))
  else none

/-- `copy(dst, src)`: overwrite the first `min` cells, return the new dst and `n`. -/
def copyInto (dst src : List Int) : List Int × Nat :=
  let n := min dst.length src.length
  (src.take n ++ dst.drop n, n)

def Ring.init? (cap : Int) : Option Ring :=
  if cap ≤ 0 then none
  else some { values := List.replicate cap.toNat 0, head := -1, tail := -1, cap := cap }

/-- `var r Ring[T]` without `Init`: nil slice, all fields zero. -/
def Ring.zero : Ring := { values := [], head := 0, tail := 0, cap := 0 }

def Ring.isEmpty (r : Ring) : Bool := r.head == -1

def Ring.isFull (r : Ring) : Bool := Int.tmod (r.tail + 1) r.cap == r.head

/-- `IsFull()` as Go evaluates it: `x % 0` is a run-time panic. -/
def Ring.isFull? (r : Ring) : Option Bool := if r.cap = 0 then none else some r.isFull

def Ring.push (r : Ring) (v : Int) : Option (Ring × Bool) :=
  if r.cap = 0 then none else                       -- `r.IsFull()` divides by `r.cap`
  if r.isFull then some (r, false) else
  let r1 := if r.isEmpty then { r with head := 0 } else r
  let t := Int.tmod (r1.tail + 1) r1.cap
  match setIdx r1.values t v with
  | none => none
  | some vs => some ({ r1 with tail := t, values := vs }, true)

def Ring.pop (r : Ring) : Option (Ring × Int × Bool) :=
  if r.isEmpty then some (r, 0, false) else
  match idx r.values r.head with
  | none => none
  | some value =>
    match setIdx r.values r.head 0 with
    | none => none
    | some vs =>
      if r.head == r.tail then
        some ({ r with values := vs, head := -1, tail := -1 }, value, true)
      else if r.cap = 0 then none                   -- `% r.cap`
      else
        some ({ r with values := vs, head := Int.tmod (r.head + 1) r.cap }, value, true)

def Ring.peek (r : Ring) : Option (Int × Bool) :=
  if r.isEmpty then some (0, false) else
  match idx r.values r.head with
  | none => none
  | some v => some (v, true)

def Ring.len (r : Ring) : Int :=
  if r.isEmpty then 0
  else if r.head ≤ r.tail then r.tail - r.head + 1
  else r.cap - r.head + r.tail + 1

def Ring.recap (r : Ring) (cap : Int) : Option (Ring × Bool) :=
  if cap ≤ 0 ∨ cap = r.cap then some (r, false) else
  let l := r.len
  if cap < l then some (r, false) else
  let newValues := List.replicate cap.toNat (0 : Int)
  if r.isEmpty then
    some ({ values := newValues, cap := cap, head := -1, tail := -1 }, true)
  else
    let copied : Option (List Int) :=
      if r.head ≤ r.tail then
        match slice r.values r.head (r.tail + 1) with
        | none => none
        | some s => some (copyInto newValues s).1
      else
        match slice r.values r.head r.values.length, slice r.values 0 (r.tail + 1) with
        | some s1, some s2 =>
          let (nv, n) := copyInto newValues s1
          -- copy(newValues[n:], s2)
          some (nv.take n ++ (copyInto (nv.drop n) s2).1)
        | _, _ => none
    match copied with
    | none => none
    | some nv => some ({ values := nv, cap := cap, head := 0, tail := l - 1 }, true)

def Ring.pushWithExpand (r : Ring) (v : Int) : Option Ring :=
  if r.cap = 0 then none else                       -- `r.IsFull()` divides by `r.cap`
  let r1? : Option Ring :=
    if r.isFull then (r.recap (r.cap * 2)).map (·.1) else some r
  match r1? with
  | none => none
  | some r1 => (r1.push v).map (·.1)

/-! ### driver -/

open Golib.Proto

inductive Op where
  | push (v : Int) | pop | peek | len | cap | isEmpty | isFull
  | recap (c : Int) | pushx (v : Int)
deriving Repr, DecidableEq

def parseOp (ts : List String) : Option Op :=
  match ts with
  | ["push", v] => v.toInt?.map Op.push
  | ["pushx", v] => v.toInt?.map Op.pushx
  | ["recap", c] => c.toInt?.map Op.recap
  | ["pop"] => some .pop
  | ["peek"] => some .peek
  | ["len"] => some .len
  | ["cap"] => some .cap
  | ["isempty"] => some .isEmpty
  | ["isfull"] => some .isFull
  | _ => none

/-- One operation: new state and the printed result; `none` = panic. -/
def Ring.step (r : Ring) : Op → Option (Ring × String)
  | .push v => (r.push v).map fun (r', ok) => (r', showBool ok)
  | .pushx v => (r.pushWithExpand v).map fun r' => (r', "ok")
  | .recap c => (r.recap c).map fun (r', ok) => (r', showBool ok)
  | .pop => (r.pop).map fun (r', v, ok) => (r', s!"{v} {showBool ok}")
  | .peek => (r.peek).map fun (v, ok) => (r, s!"{v} {showBool ok}")
  | .len => some (r, toString r.len)
  | .cap => some (r, toString r.cap)
  | .isEmpty => some (r, showBool r.isEmpty)
  | .isFull => r.isFull?.map fun b => (r, showBool b)

/-- After a panic the Go harness stops the case; the driver answers `dead`. -/
def runOps : Option Ring → List String → List String
  | _, [] => []
  | none, _ :: ls => "dead" :: runOps none ls
  | some r, l :: ls =>
    match toks l with
    | ["init", c] =>                              -- `r.Init(c)` on the existing ring: clears it
      match c.toInt? with
      | none => "bad-op" :: runOps (some r) ls
      | some c =>
        match Ring.init? c with
        | none => "panic" :: runOps none ls
        | some r' => "ok" :: runOps (some r') ls
    | _ =>
    match parseOp (toks l) with
    | none => "bad-op" :: runOps (some r) ls
    | some op =>
      match r.step op with
      | none => "panic" :: runOps none ls
      | some (r', out) => out :: runOps (some r') ls

def runRingCase (hdr : List String) (ops : List String) : List String :=
  match hdr with
  | ["zero"] => "ok" :: runOps (some Ring.zero) ops    -- `var r Ring[int]`, no `Init`
  | [c] =>
    match c.toInt? with
    | none => "bad-op" :: ops.map fun _ => "bad-op"
    | some c =>
      match Ring.init? c with
      | none => "panic" :: runOps none ops
      | some r => "ok" :: runOps (some r) ops
  | _ => "bad-op" :: ops.map fun _ => "bad-op"

end Golib.C10
