import Golib.Model.C10Ring
import Golib.Model.C10Sync
import Golib.Model.C10Large
import Golib.Model.C10Copy
import Golib.Model.C10SyncSpec

namespace Golib.C10
open Golib.Proto

/-- Entry point of the C10 section of the oracle: header tokens after `@ C10`. -/
def runCase (hdr : List String) (ops : List String) : List String :=
  match hdr with
  | "ring" :: rest => runRingCase rest ops
  | "ringL" :: rest => runLargeCase rest ops
  | "ringZ" :: rest => runLargeCase rest ops     -- Ring[struct{}]: capacities up to MaxInt cost no memory
  | "ringA" :: rest => runLargeCase rest ops     -- Ring[[0]int]
  | "ringM" :: rest => runMultiCase rest ops
  | "ringC" :: rest => runRingCopyCase rest ops
  | "syncC" :: rest => runSyncCopyCase rest ops
  | "syncS" :: rest => runSyncSpecCase rest ops
  | "sync" :: rest => runSyncCase rest ops
  | "synccap" :: rest => runCapCase rest ops
  | _ => "bad-op" :: ops.map fun _ => "bad-op"

end Golib.C10
