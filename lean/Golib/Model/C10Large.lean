/-
C10 large stream: bulk operations on `Ring` (`fill n v` = n calls of `Push` with the
values v, v+1, …; `drain n` = n calls of `Pop`; `xfill n v` = n calls of
`PushWithExpand`) defined on the statement-by-statement model as plain iterations, and
their closed forms on the bounded-FIFO spec (`BQ`), which run in linear time.  The oracle
answers `ringL` cases with the spec-level run; `c10_ring_large_refines` (Props/C10.lean)
proves that this is exactly what the iterated model prints, for every capacity, rotation
and history.
-/
import Golib.Model.C10Spec

namespace Golib.C10
open Golib.Proto

/-- `n` × `Push(v), Push(v+1), …`: number of successful pushes. -/
def Ring.fillN : Nat → Ring → Int → Option (Ring × Nat)
  | 0, r, _ => some (r, 0)
  | n + 1, r, v =>
    match r.push v with
    | none => none
    | some (r1, ok) =>
      match Ring.fillN n r1 (v + 1) with
      | none => none
      | some (r2, k) => some (r2, if ok then k + 1 else k)

/-- `n` × `Pop()`: the values popped successfully, in order. -/
def Ring.drainN : Nat → Ring → Option (Ring × List Int)
  | 0, r => some (r, [])
  | n + 1, r =>
    match r.pop with
    | none => none
    | some (r1, v, ok) =>
      match Ring.drainN n r1 with
      | none => none
      | some (r2, vs) => some (r2, if ok then v :: vs else vs)

/-- `n` × `PushWithExpand(v), PushWithExpand(v+1), …` -/
def Ring.xfillN : Nat → Ring → Int → Option Ring
  | 0, r, _ => some r
  | n + 1, r, v =>
    match r.pushWithExpand v with
    | none => none
    | some r1 => Ring.xfillN n r1 (v + 1)

/-- the values `v, v+1, …, v+k-1` -/
def seqFrom (v : Int) (k : Nat) : List Int := (List.range k).map fun (i : Nat) => v + (i : Int)

/-- capacity after `n` PushWithExpand calls on a queue of `l` elements and capacity `c` -/
def growCap : Nat → Int → Int → Int
  | 0, _, c => c
  | n + 1, l, c => growCap n (l + 1) (if l = c then c * 2 else c)

def BQ.fill (s : BQ) (n : Nat) (v : Int) : BQ × Nat :=
  let k := min n (s.cap - (s.q.length : Int)).toNat
  (⟨s.q ++ seqFrom v k, s.cap⟩, k)

def BQ.drain (s : BQ) (n : Nat) : BQ × List Int := (⟨s.q.drop n, s.cap⟩, s.q.take n)

def BQ.xfill (s : BQ) (n : Nat) (v : Int) : BQ :=
  ⟨s.q ++ seqFrom v n, growCap n (s.q.length : Int) s.cap⟩

/-- printed summary of a drained list: count, sum, order-sensitive hash -/
def showDrained (vs : List Int) : String :=
  let h := vs.foldl (fun h v => (h * 31 + v.toNat % 1000003 + 7) % 1000000007) 0
  s!"{vs.length} {vs.foldl (· + ·) 0} {h}"

inductive LOp where
  | fill (n : Nat) (v : Int) | drain (n : Nat) | xfill (n : Nat) (v : Int) | one (op : Op)
deriving Repr, DecidableEq

def parseLOp (ts : List String) : Option LOp :=
  match ts with
  | ["fill", n, v] =>
    match n.toNat?, v.toInt? with
    | some n, some v => some (.fill n v)
    | _, _ => none
  | ["xfill", n, v] =>
    match n.toNat?, v.toInt? with
    | some n, some v => some (.xfill n v)
    | _, _ => none
  | ["drain", n] => n.toNat?.map LOp.drain
  | ts => (parseOp ts).map LOp.one

/-- one (bulk) operation on the statement-by-statement model -/
def Ring.lstep (r : Ring) : LOp → Option (Ring × String)
  | .fill n v => (Ring.fillN n r v).map fun (r', k) => (r', toString k)
  | .drain n => (Ring.drainN n r).map fun (r', vs) => (r', showDrained vs)
  | .xfill n v => (Ring.xfillN n r v).map fun r' => (r', "ok")
  | .one op => r.step op

/-- the same on the spec, in linear time -/
def BQ.lstep (s : BQ) : LOp → BQ × String
  | .fill n v => let (s', k) := s.fill n v; (s', toString k)
  | .drain n => let (s', vs) := s.drain n; (s', showDrained vs)
  | .xfill n v => (s.xfill n v, "ok")
  | .one op => s.step op

def Ring.lrun (r : Ring) : List LOp → Option (Ring × List String)
  | [] => some (r, [])
  | op :: ops =>
    match r.lstep op with
    | none => none
    | some (r1, o) =>
      match Ring.lrun r1 ops with
      | none => none
      | some (r2, os) => some (r2, o :: os)

def BQ.lrun (s : BQ) : List LOp → BQ × List String
  | [] => (s, [])
  | op :: ops =>
    let (s1, o) := s.lstep op
    let (s2, os) := BQ.lrun s1 ops
    (s2, o :: os)

/-! ### driver (`@ C10 ringL <cap>`): spec-level run, justified by `c10_ring_large_refines` -/

def runLargeOps : BQ → List String → List String
  | _, [] => []
  | s, l :: ls =>
    match toks l with
    | ["init", c] =>                              -- `r.Init(c)`, `c > 0`: an empty ring again
      match c.toInt? with
      | some c => if c ≤ 0 then "bad-op" :: runLargeOps s ls else "ok" :: runLargeOps ⟨[], c⟩ ls
      | none => "bad-op" :: runLargeOps s ls
    | _ =>
    match parseLOp (toks l) with
    | none => "bad-op" :: runLargeOps s ls
    | some op => let (s', o) := s.lstep op; o :: runLargeOps s' ls

def runLargeCase (hdr : List String) (ops : List String) : List String :=
  match hdr with
  | [c] =>
    match c.toInt? with
    | none => "bad-op" :: ops.map fun _ => "bad-op"
    | some c =>
      if c ≤ 0 then "bad-op" :: ops.map fun _ => "bad-op"   -- `New(cap<=0)` is the `ring` kind's business
      else "ok" :: runLargeOps ⟨[], c⟩ ops
  | _ => "bad-op" :: ops.map fun _ => "bad-op"

/-! ### `ringM`: 2–4 INDEPENDENT rings (separate `New` calls, never copied), large size
classes; lines `<i> <bulk or single op>` / `<i> init c`.  Each object is answered by its own
spec-level state: `c10_objects_independent` (objects created by separate `New` calls never
come to share a buffer, so an operation on one changes nothing another reads) and
`c10_ring_large_refines`. -/

def runMultiOps : List BQ → List String → List String
  | _, [] => []
  | ss, l :: ls =>
    match toks l with
    | i :: rest =>
      match i.toNat? with
      | none => "bad-op" :: runMultiOps ss ls
      | some i =>
        match ss[i]? with
        | none => "bad-op" :: runMultiOps ss ls
        | some s =>
          match rest with
          | ["init", c] =>
            match c.toInt? with
            | some c =>
              if c ≤ 0 then "bad-op" :: runMultiOps ss ls
              else "ok" :: runMultiOps (ss.set i ⟨[], c⟩) ls
            | none => "bad-op" :: runMultiOps ss ls
          | _ =>
            match parseLOp rest with
            | none => "bad-op" :: runMultiOps ss ls
            | some op => let (s', o) := s.lstep op; o :: runMultiOps (ss.set i s') ls
    | _ => "bad-op" :: runMultiOps ss ls

def runMultiCase (hdr : List String) (ops : List String) : List String :=
  match hdr.mapM String.toInt? with
  | none => "bad-op" :: ops.map fun _ => "bad-op"
  | some cs =>
    if cs.isEmpty ∨ cs.any (· ≤ 0) then "bad-op" :: ops.map fun _ => "bad-op"
    else "ok" :: runMultiOps (cs.map fun c => ⟨[], c⟩) ops

end Golib.C10
