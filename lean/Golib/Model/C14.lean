/-
C14 driver.

`@ C14 calls` : every line is one independent call of a `slicez` function; token groups are
separated by `;`, a list group is `nil`, `e` (empty, non-nil) or integers.
   diff D ; s1 ; s2        intersect D ; s1 ; s2      unique D ; s      uniquekey K D ; s
   filter D ; s ; accepted                 (predicate = membership in `accepted`)
   diffip ; s1 ; s2   intersectip ; s1 ; s2   uniqueip ; s   uniquekeyip K ; s   filterip ; s ; accepted
   equal ; s1 ; s2   index V ; s   indexfunc ; s ; acc   contains V ; s   containsfunc ; s ; acc
   subslice A B ; s   copy A B ; s   values K ; s1 ; s2 …   remove I ; s   chunk N ; s   chunkproc N F ; s
 D = nil | fresh:len:cap | s1:k | s2:k.   The answer shows the result and every argument's memory afterwards.

   Integer arguments (A B I N) are Go `int`s: any decimal in −2^63 … 2^63−1; the index arithmetic of
   copy / remove / chunk / chunkproc (and of the flex ops remove / pop / shift / sub / subset / prepend) is
   executed on the 64-bit wrapping twin `IntOps.wrap64` (`Model/C14Wrap.lean`).

`@ C14 arena v0 v1 …` : ONE arena with the given initial cells that persists over the lines; every slice
 argument is a window `off:len:cap` of it (or `nil`), see `C14Arena.lean`:
   diff D S1 S2 | intersect D S1 S2 | unique D S1 | uniquekey K D S1 | filter D S1 ; acc…
   diffip S1 S2 | intersectip S1 S2 | uniqueip S1 | uniquekeyip K S1 | filterip S1 ; acc…
   copy A B S | subslice A B S | remove I S | appendsrc S ; v… | values K S1 S2 … | equal S1 S2 | index V S | contains V S
 `@ C14 arenaF v…` : the same with element type float64 / struct{F float64; Tag int}: cells are coded
   (1000000 = NaN, 1000001 = -0), `==` is `floatEq` (NaN ≠ NaN, -0 == +0)
 answer: the result (`win off len [..]`, `fresh [..]`, `e`, `nil`) `|` the whole arena afterwards.

`@ C14 flex C0` : a FlexSlice with `Values = make([]int, 0, C0)`; ops
   append v… | prepend v… | get I | remove I | pop | shift | sub A B | subset A B | len
   prependw A N   (`f.Prepend(f.Values[A:A+N]...)`: the argument is a window of the receiver's own array)
   prependc A N   (the same, window anywhere inside the capacity)
   prependk A N K (`f.Prepend(f.Values[a:a+n:k]...)`: window anywhere inside the capacity with its own
                   CAPACITY: a = A mod (cap+1), n = min N (cap-a), k = a+n + K mod (cap-a-n+1))
   appendk A N K  (`f.Append(f.Values[a:a+n:k]...)`, same reduction)
   hold A N K     (the harness keeps the handle f.Values[a:a+n:k]; no effect on the receiver)
   prependh A N K / appendh A N K  (the kept handle when the receiver still has the same array — then it
                   IS the window (a, n, k) of the current array — else a fresh window (a, n, k))
   appendn K V0 | prependn K V0   (the K values V0, V0+1, …)     popn K | shiftn K   (K times Pop / Shift:
   answer = sum of the returned values and number of successes)
 every answer ends with `| len cap [backing array]`.
`@ C14 flexL C0` : the same machine for the large stream (capacities in the thousands); the state
 is printed as `| len cap hash(Values) hash(backing array)`.  The bulk ops are instances of the
 list operations `c14_flex_refines` speaks about (`appendn` = one `Append` of K values, `popn` = K `Pop`s).
-/
import Golib.Model.C14Arena
import Golib.Model.C14FlexFast
import Golib.Model.C14FlexAlias
import Golib.Model.C14Wrap

namespace Golib.C14
open Golib.Proto

/-- an integer ARGUMENT of the API: a decimal that fits Go's `int` (the harness parses it with
`strconv.Atoi`, which fails outside the range: `bad-op` on both sides) -/
def int64? (t : String) : Option Int :=
  match t.toInt? with
  | some v => if IsInt v then some v else none
  | none => none

/-- the machine the code runs on: every `int` operation of the index arithmetic is executed on the
64-bit two's-complement twin (`Model/C14Wrap.lean`; equal to the unbounded model by `c14_*_nowrap`) -/
abbrev M : IntOps := IntOps.wrap64

def showSl (s : Sl) : String := if s.isNil then "nil" else showInts s.xs

def parseList (g : List String) : Option Sl :=
  match g with
  | ["nil"] => some ⟨true, []⟩
  | ["e"] => some ⟨false, []⟩
  | [] => none
  | ts => (ints? ts).map fun xs => ⟨false, xs⟩

def parseDst (t : String) : Option Dst :=
  if t = "nil" then some .nil
  else match t.splitOn ":" with
    | ["fresh", a, b] => if a.toNat?.isSome ∧ b.toNat?.isSome then some .fresh else none
    | ["s1", k] => if k.toNat?.isSome then some .alias1 else none
    | ["s2", k] => if k.toNat?.isSome then some .alias2 else none
    | _ => none

def showDstRes (two : Bool) : Option DstRes → String
  | none => "panic"
  | some r =>
    if two then s!"{showSl r.res} s1={showInts r.mem.m1} s2={showInts r.mem.m2}"
    else s!"{showSl r.res} s1={showInts r.mem.m1}"

def showIpRes (s2 : Option (List Int)) : Option IpRes → String
  | none => "panic"
  | some r =>
    match s2 with
    | some m2 => s!"{showSl r.res} s1={showInts r.mem} s2={showInts m2}"
    | none => s!"{showSl r.res} s1={showInts r.mem}"


def showView (s : List Int) : Option View → String
  | none => "panic"
  | some .nil => "nil none"
  | some (.view st len) =>
    let c := View.content s (.view st len)
    if len = 0 then s!"{showSl c} none" else s!"{showSl c} shared@{st}"
  | some (.fresh xs) => if xs.isEmpty then s!"{showInts xs} none" else s!"{showInts xs} fresh"

def showChunks (s : List Int) (cs : List (Nat × Nat)) : String :=
  "[" ++ " ".intercalate (cs.map fun (st, l) => showInts ((s.drop st).take l)) ++ "]"

def call (ts : List String) : String :=
  match groups ts with
  | [["diff", d], g1, g2] =>
    match parseDst d, parseList g1, parseList g2 with
    | some d, some s1, some s2 => showDstRes true (diff d s1.isNil s2.isNil ⟨s1.xs, s2.xs⟩)
    | _, _, _ => "bad-op"
  | [["intersect", d], g1, g2] =>
    match parseDst d, parseList g1, parseList g2 with
    | some d, some s1, some s2 => showDstRes true (intersect d s1.isNil s2.isNil ⟨s1.xs, s2.xs⟩)
    | _, _, _ => "bad-op"
  | [["unique", d], g1] =>
    match parseDst d, parseList g1 with
    | some .alias2, _ => "bad-op"
    | some d, some s1 => showDstRes false (unique d s1.isNil ⟨s1.xs, []⟩)
    | _, _ => "bad-op"
  | [["uniquekey", k, d], g1] =>
    match k.toInt?, parseDst d, parseList g1 with
    | _, some .alias2, _ => "bad-op"
    | some k, some d, some s1 =>
      if k = 0 then "bad-op" else showDstRes false (uniqueByKey (keyFn k) d s1.isNil ⟨s1.xs, []⟩)
    | _, _, _ => "bad-op"
  | [["filter", d], g1, ga] =>
    match parseDst d, parseList g1, parseList ga with
    | some .alias2, _, _ => "bad-op"
    | some d, some s1, some acc => showDstRes false (filter (fun v => acc.xs.contains v) d s1.isNil ⟨s1.xs, []⟩)
    | _, _, _ => "bad-op"
  | [["diffip"], g1, g2] =>
    match parseList g1, parseList g2 with
    | some s1, some s2 => showIpRes (some s2.xs) (diffInPlaceFirst s1.isNil s1.xs s2.xs)
    | _, _ => "bad-op"
  | [["intersectip"], g1, g2] =>
    match parseList g1, parseList g2 with
    | some s1, some s2 => showIpRes (some s2.xs) (intersectInPlaceFirst s1.isNil s1.xs s2.xs)
    | _, _ => "bad-op"
  | [["uniqueip"], g1] =>
    match parseList g1 with
    | some s1 => showIpRes none (uniqueInPlace s1.isNil s1.xs)
    | _ => "bad-op"
  | [["uniquekeyip", k], g1] =>
    match k.toInt?, parseList g1 with
    | some k, some s1 => if k = 0 then "bad-op" else showIpRes none (uniqueByKeyInPlace (keyFn k) s1.isNil s1.xs)
    | _, _ => "bad-op"
  | [["filterip"], g1, ga] =>
    match parseList g1, parseList ga with
    | some s1, some acc => showIpRes none (filterInPlace (fun v => acc.xs.contains v) s1.isNil s1.xs)
    | _, _ => "bad-op"
  | [["equal"], g1, g2] =>
    match parseList g1, parseList g2 with
    | some s1, some s2 =>
      match equal s1.xs s2.xs with
      | none => "panic"
      | some b => showBool b
    | _, _ => "bad-op"
  | [["index", v], g1] =>
    match v.toInt?, parseList g1 with
    | some v, some s1 => toString (index s1.xs v)
    | _, _ => "bad-op"
  | [["contains", v], g1] =>
    match v.toInt?, parseList g1 with
    | some v, some s1 => showBool (contains s1.xs v)
    | _, _ => "bad-op"
  | [["indexfunc"], g1, ga] =>
    match parseList g1, parseList ga with
    | some s1, some acc => toString (indexFunc s1.xs fun v => acc.xs.contains v)
    | _, _ => "bad-op"
  | [["containsfunc"], g1, ga] =>
    match parseList g1, parseList ga with
    | some s1, some acc => showBool (containsFunc s1.xs fun v => acc.xs.contains v)
    | _, _ => "bad-op"
  | [["subslice", a, b], g1] =>
    match int64? a, int64? b, parseList g1 with
    | some a, some b, some s1 => showView s1.xs (subSlice s1.xs.length a b)
    | _, _, _ => "bad-op"
  | [["copy", a, b], g1] =>
    match int64? a, int64? b, parseList g1 with
    | some a, some b, some s1 => showView s1.xs (copyG M s1.xs a b)
    | _, _, _ => "bad-op"
  | [["remove", i], g1] =>
    match int64? i, parseList g1 with
    | some i, some s1 =>
      match removeG M s1.isNil s1.xs i with
      | none => "panic"
      | some (m, res, v, ok) => s!"{showSl res} {v} {showBool ok} s={showInts m}"
    | _, _ => "bad-op"
  | [["chunk", n], g1] =>
    match int64? n, parseList g1 with
    | some n, some s1 =>
      match chunkG M s1.xs.length n with
      | none => "panic"
      | some none => "nil"
      | some (some cs) => s!"{showChunks s1.xs cs} @{showNats (cs.map (·.1))}"
    | _, _ => "bad-op"
  | [["chunkproc", n, f], g1] =>
    match int64? n, f.toNat?, parseList g1 with
    | some n, some f, some s1 =>
      match chunkProcessG M s1.xs.length n f with
      | none => "panic"
      | some (cs, err) => s!"{showChunks s1.xs cs} {if err then "err" else "ok"}"
    | _, _, _ => "bad-op"
  | ["values", k] :: gs =>
    match k.toInt?, gs.mapM parseList with
    | some k, some ss =>
      match values (fun v => v * k) (ss.map (·.xs)) with
      | none => "panic"
      | some r => if r.isEmpty then s!"{showInts r} none" else s!"{showInts r} fresh"
    | _, _ => "bad-op"
  | _ => "bad-op"

/-! ### FlexSlice op sequences -/

/-- state display: full (`len cap [backing array]`) or, for the large stream, compact
(`len cap hash(Values) hash(backing array)`) -/
def hashInts (xs : List Int) : Int :=
  xs.foldl (fun h v => (h * 1000003 + v + 7) % 1000000007) 0

def showFlex (compact : Bool) (f : Flex) : String :=
  if compact then s!"{f.len} {f.cap} {hashInts f.values} {hashInts f.mem}"
  else s!"{f.len} {f.cap} {showInts f.mem}"

/-- `v0, v0+1, …` (`k` values) -/
def seqFrom (v0 : Int) (k : Nat) : List Int := (List.range k).map fun (i : Nat) => v0 + (i : Int)

/-- `k` times `Pop()` / `Shift()`: final state, sum of the returned values, number of successes -/
def repeatRemove (op : Flex → Option (Flex × Int × Bool)) : (k : Nat) → Flex → Int → Nat → Option (Flex × Int × Nat)
  | 0, f, s, n => some (f, s, n)
  | k + 1, f, s, n =>
    match op f with
    | none => none
    | some (f', v, ok) => repeatRemove op k f' (s + v) (if ok then n + 1 else n)

def flexStep (c : Bool) (f : Flex) (ts : List String) : Option (Option (Flex × String)) :=
  -- outer none = bad-op, inner none = panic
  match ts with
  | "append" :: vs =>
    match ints? vs with
    | some v => let f' := f.append goGrow v; some (some (f', s!"ok | {showFlex c f'}"))
    | none => none
  | "prepend" :: vs =>
    match ints? vs with
    | some v => some ((f.prependG M v).map fun f' => (f', s!"ok | {showFlex c f'}"))
    | none => none
  | ["appendn", k, v0] =>
    match k.toNat?, v0.toInt? with
    | some k, some v0 => let f' := f.append goGrow (seqFrom v0 k); some (some (f', s!"ok | {showFlex c f'}"))
    | _, _ => none
  | ["prependn", k, v0] =>
    match k.toNat?, v0.toInt? with
    | some k, some v0 => some ((f.prependG M (seqFrom v0 k)).map fun f' => (f', s!"ok | {showFlex c f'}"))
    | _, _ => none
  | ["prependw", a, n] =>
    -- `f.Prepend(f.Values[a:a+n]...)`: the argument aliases the receiver (`none` = slice-bounds panic)
    match a.toNat?, n.toNat? with
    | some a, some n =>
      -- the harness reduces the window into the current content: a' = a mod (len+1), n' = min n (len - a')
      let a' := a % (f.len + 1)
      let n' := min n (f.len - a')
      some ((f.prependWin a' n').map fun f' => (f', s!"ok | {showFlex c f'}"))
    | _, _ => none
  | ["prependc", a, n] =>
    -- the same with the window reduced into the CAPACITY (it may reach into the spare cells)
    match a.toNat?, n.toNat? with
    | some a, some n =>
      let a' := a % (f.cap + 1)
      let n' := min n (f.cap - a')
      some ((f.prependWin a' n').map fun f' => (f', s!"ok | {showFlex c f'}"))
    | _, _ => none
  | [op, a, n, k] =>
    -- window `(a, n, k)` of the receiver's own array reduced into the capacity
    match a.toNat?, n.toNat?, k.toNat? with
    | some a, some n, some k =>
      let a' := a % (f.cap + 1)
      let n' := min n (f.cap - a')
      let k' := a' + n' + k % (f.cap - a' - n' + 1)
      if op == "prependk" || op == "prependh" then
        some ((f.prependWin3 a' n' k').map fun f' => (f', s!"ok | {showFlex c f'}"))
      else if op == "appendk" || op == "appendh" then
        some ((f.appendWin3 goGrow a' n' k').map fun f' => (f', s!"ok | {showFlex c f'}"))
      else if op == "hold" then some (some (f, "ok"))
      else none
    | _, _, _ => none
  | ["popn", k] =>
    match k.toNat? with
    | some k => some ((repeatRemove (Flex.popG M) k f 0 0).map fun (f', sum, n) => (f', s!"{sum} {n} | {showFlex c f'}"))
    | none => none
  | ["shiftn", k] =>
    match k.toNat? with
    | some k => some ((repeatRemove (Flex.shiftG M) k f 0 0).map fun (f', sum, n) => (f', s!"{sum} {n} | {showFlex c f'}"))
    | none => none
  | ["get", i] =>
    match int64? i with
    | some i => some ((f.get i).map fun (v, ok) => (f, s!"{v} {showBool ok} | {showFlex c f}"))
    | none => none
  | ["remove", i] =>
    match int64? i with
    | some i => some ((f.removeG M i).map fun (f', v, ok) => (f', s!"{v} {showBool ok} | {showFlex c f'}"))
    | none => none
  | ["pop"] => some ((f.popG M).map fun (f', v, ok) => (f', s!"{v} {showBool ok} | {showFlex c f'}"))
  | ["shift"] => some ((f.shiftG M).map fun (f', v, ok) => (f', s!"{v} {showBool ok} | {showFlex c f'}"))
  | ["sub", a, b] =>
    match int64? a, int64? b with
    | some a, some b => some ((f.subSliceG M a b).map fun nf => (f, s!"{showFlex c nf}"))
    | _, _ => none
  | ["subset", a, b] =>
    match int64? a, int64? b with
    | some a, some b => some ((f.subSliceG M a b).map fun nf => (nf, s!"ok | {showFlex c nf}"))
    | _, _ => none
  | ["len"] => some (some (f, toString f.len))
  | _ => none

/-- `k` times `Pop()` on the array representation (O(1) each unless `shrink` reallocates) -/
def repeatPopA : (k : Nat) → FlexA → Int → Nat → Option (FlexA × Int × Nat)
  | 0, f, s, n => some (f, s, n)
  | k + 1, f, s, n =>
    match f.pop with
    | none => none
    | some (f', v, ok) => repeatPopA k f' (s + v) (if ok then n + 1 else n)

/-- the oracle's step: `pop`, `popn`, `get` on the array representation (`c14_flex_fast_eq`: the same
answers and states as the list model), every other op through the list model -/
def flexStepA (c : Bool) (f : FlexA) (ts : List String) : Option (Option (FlexA × String)) :=
  match ts with
  | ["pop"] => some (f.pop.map fun (f', v, ok) => (f', s!"{v} {showBool ok} | {showFlex c f'.toFlex}"))
  | ["popn", k] =>
    match k.toNat? with
    | some k => some ((repeatPopA k f 0 0).map fun (f', sum, n) => (f', s!"{sum} {n} | {showFlex c f'.toFlex}"))
    | none => none
  | ["get", i] =>
    match int64? i with
    | some i => some ((f.get i).map fun (v, ok) => (f, s!"{v} {showBool ok} | {showFlex c f.toFlex}"))
    | none => none
  | _ => (flexStep c f.toFlex ts).map fun r => r.map fun (f', out) => (FlexA.ofFlex f', out)

def runFlex (c : Bool) : Option FlexA → List String → List String
  | _, [] => []
  | none, _ :: ls => "dead" :: runFlex c none ls
  | some f, l :: ls =>
    match flexStepA c f (toks l) with
    | none => "bad-op" :: runFlex c (some f) ls
    | some none => "panic" :: runFlex c none ls
    | some (some (f', out)) => out :: runFlex c (some f') ls

def runCase (hdr : List String) (ops : List String) : List String :=
  match hdr with
  | ["calls"] => "ok" :: ops.map fun l => call (toks l)
  | "arena" :: vs =>
    match ints? vs with
    | some A => "ok" :: runArena intEq (some A) ops
    | none => "bad-op" :: ops.map fun _ => "bad-op"
  | "arenaF" :: vs =>   -- element type float64 (or a struct holding one): `==` is `floatEq`
    match ints? vs with
    | some A => "ok" :: runArena floatEq (some A) ops
    | none => "bad-op" :: ops.map fun _ => "bad-op"
  | ["flex", c] =>
    match c.toNat? with
    | some c => "ok" :: runFlex false (some (FlexA.ofFlex (mkFlex [] c))) ops
    | none => "bad-op" :: ops.map fun _ => "bad-op"
  | ["flexL", c] =>
    match c.toNat? with
    | some c => "ok" :: runFlex true (some (FlexA.ofFlex (mkFlex [] c))) ops
    | none => "bad-op" :: ops.map fun _ => "bad-op"
  | _ => "bad-op" :: ops.map fun _ => "bad-op"

end Golib.C14
