/-
C11 — a DESIGN VARIANT of `Len()`: two monotonic counters instead of one.

The code under verification keeps ONE counter (`len int64`) and `Len()` is ONE atomic load
(`Pc.lenLoad` in `Golib/Model/C11List.lean`).  The variant modelled here (seeded change
C11-K) keeps two counters, `pushed` and `popped`:

    Push:  … CAS(&tail.next, nil, node); AddUint64(&l.pushed, 1); StorePointer(&l.tail, node)
    Pop:   … CAS(&l.head, head, next); …; AddUint64(&l.popped, 1)
    Len:   a := Load(first counter); b := Load(second counter); return int(pushed - popped)

`Push`, `Pop`, `PopWait` are the code as it is, with the counter update in the SAME place, so
the variant machine is the real machine (`step .addThenStore`) plus bookkeeping: an
`addLen 1` access increments `pushed`, an `addLen (-1)` access increments `popped` (the real
machine's `len` field is then the ghost value `pushed - popped`).  Only `Len()` differs: it is
TWO steps with a preemption point between them, and the ORDER of its two loads is the
parameter `LenOrder`.  `Golib/Proof/C11Len2.lean` proves that `poppedFirst` satisfies the
Len clause on every schedule; `Golib/Findings/C11TwoCounter.lean` refutes `pushedFirst` with
an explicit schedule.  Core-only imports.
-/
import Golib.Model.C11List

namespace Golib.C11

/-- which counter a two-counter `Len()` loads first -/
inductive LenOrder where
  | pushedFirst   -- seed C11-K: `pushed` first, `popped` second
  | poppedFirst   -- the safe order
deriving DecidableEq, Repr

structure State2 where
  /-- the real machine (its `len` field is the ghost value `pushed - popped`) -/
  s : State
  pushed : Nat
  popped : Nat
  /-- per thread: the value its `Len()` call in flight loaded with its FIRST access
  (`none`: no `Len()` in flight, or still in front of the first access) -/
  loc : List (Option Nat)
deriving DecidableEq, Repr

inductive Acc2 where
  | base (a : Acc)             -- an access of Push/Pop/PopWait other than the counter update
  | addPushed (new : Nat)
  | addPopped (new : Nat)
  | ldPushed (v : Nat)
  | ldPopped (v : Nat)
deriving DecidableEq, Repr

structure Event2 where
  tid : Nat
  acc : Acc2
  ret : Option Ret
deriving DecidableEq, Repr

/-- thread `i` is inside (or in front of the first access of) a `Len()` call -/
def atLen (s : State) (i : Nat) : Bool :=
  match s.threads[i]? with
  | some th => th.pc == .lenLoad
  | none => false

/-- One shared-memory access of thread `i` of the two-counter variant. -/
def step2 (lo : LenOrder) (L : State2) (i : Nat) : State2 × Event2 :=
  if atLen L.s i then
    match L.loc[i]? with
    | some (some a) =>
      -- second load; the call returns `int(pushed - popped)` of the two loaded values
      let s1 := (step .addThenStore L.s i).1
      match lo with
      | .pushedFirst =>
        ({ L with s := s1, loc := L.loc.set i none },
          ⟨i, .ldPopped L.popped, some (.len ((a : Int) - L.popped))⟩)
      | .poppedFirst =>
        ({ L with s := s1, loc := L.loc.set i none },
          ⟨i, .ldPushed L.pushed, some (.len ((L.pushed : Int) - a))⟩)
    | _ =>
      -- first load
      match lo with
      | .pushedFirst => ({ L with loc := L.loc.set i (some L.pushed) }, ⟨i, .ldPushed L.pushed, none⟩)
      | .poppedFirst => ({ L with loc := L.loc.set i (some L.popped) }, ⟨i, .ldPopped L.popped, none⟩)
  else
    let se := step .addThenStore L.s i
    match se.2.acc with
    | .addLen d _ =>
      if 0 ≤ d then
        ({ L with s := se.1, pushed := L.pushed + 1 }, ⟨i, .addPushed (L.pushed + 1), se.2.ret⟩)
      else
        ({ L with s := se.1, popped := L.popped + 1 }, ⟨i, .addPopped (L.popped + 1), se.2.ret⟩)
    | a => ({ L with s := se.1 }, ⟨i, .base a, se.2.ret⟩)

def run2 (lo : LenOrder) : State2 → List Nat → State2 × List Event2
  | L, [] => (L, [])
  | L, i :: σ =>
    let (L1, e) := step2 lo L i
    let (L2, es) := run2 lo L1 σ
    (L2, e :: es)

/-- `vals` already stored: `pushed = |vals|`, `popped = 0`. -/
def init2 (vals : List Int) (progs : List (List Call)) : State2 :=
  { s := init vals progs, pushed := vals.length, popped := 0, loc := progs.map fun _ => none }

/-- number of values that can be popped now (`tail - head` of the published pointers) -/
def poppable (s : State) : Nat := s.tail - s.head

/-- The poppable counts at the instants of a window of a run of the REAL machine: in the state
the window starts in and after every step of it. -/
def poppableAlong : State → List Nat → List Nat
  | s, [] => [poppable s]
  | s, i :: σ => poppable s :: poppableAlong (step .addThenStore s i).1 σ

/-- … and of the two-counter variant. -/
def poppableAlong2 (lo : LenOrder) : State2 → List Nat → List Nat
  | L, [] => [poppable L.s]
  | L, i :: σ => poppable L.s :: poppableAlong2 lo (step2 lo L i).1 σ

/-- What the property allows a `Len()` CALL to return, given the poppable counts `pops` at the
instants of the call (from just before its first access to just after the access it returns
on): never negative, and not less than the number of values that can be popped at SOME instant
of the call — i.e. not below the minimum over the call.  (A result below the minimum is below
the poppable count at EVERY instant of the call, whichever instant "currently" refers to.)
This is the rule the Go oracle applies to every `Len()` call of a recorded history
(`checkLenCalls` in go/props/c11/c11.go). -/
def LenCallOK (pops : List Nat) (r : Int) : Prop :=
  0 ≤ r ∧ ∃ p, p ∈ pops ∧ (p : Int) ≤ r

instance (pops : List Nat) (r : Int) : Decidable (LenCallOK pops r) := by
  unfold LenCallOK; exact inferInstance

/-- The Len clause for CALLS of the two-counter variant, over every schedule: whenever thread
`i` stands in front of the first access of a `Len()` call (state `L₁`, reached by `σ₁`), stays
inside that call during `σ₂` (it does not return) and returns `n` on its next step, then `n`
is allowed by `LenCallOK` for the poppable counts at the instants of the call. -/
def LenCallSpec2 (lo : LenOrder) : Prop :=
  ∀ (vals : List Int) (progs : List (List Call)) (σ₁ σ₂ : List Nat) (i : Nat) (n : Int),
    atLen (run2 lo (init2 vals progs) σ₁).1.s i = true →
    (run2 lo (init2 vals progs) σ₁).1.loc[i]? = some none →
    ((run2 lo (run2 lo (init2 vals progs) σ₁).1 σ₂).2.filter
      fun e => e.tid == i && e.ret.isSome) = [] →
    (step2 lo (run2 lo (run2 lo (init2 vals progs) σ₁).1 σ₂).1 i).2.ret = some (.len n) →
    LenCallOK (poppableAlong2 lo (run2 lo (init2 vals progs) σ₁).1 (σ₂ ++ [i])) n

end Golib.C11
