/-
C19 — the library's OWN panic handler `goz.LogPanic(l, deep)` and its helper
`stack(buf, skip, deep)` (goz/goz.go), as far as they can PANIC.  The handler runs inside the
outer deferred function of `Recover` BEFORE the cleanups: a handler that panics kills the
process (the panic is not recovered by anybody) — the machine's step `recovering → cleanup`
assumes that the handler call returns.  For a user-supplied handler that is the caller's
obligation (outside the property); for the library's own `LogPanic` it is claimed here.

  func stack(buf, skip, deep int) {
      callers := make([]uintptr, deep)              -- run-time panic iff deep < 0
      n := runtime.Callers(skip, callers)           -- fills at most len(callers) entries
      frames := runtime.CallersFrames(callers[:n])  -- slice bounds: panic iff n > len(callers)
      for { frame, more := frames.Next(); buf.WriteString(…) …; if !more { break } }   -- no indexing
  }
  func LogPanic(l Logger, deep int) func(any) {
      return func(a any) { …; stack(&buf, 5, deep); l.Error(buf.String()) }
  }

(Statement order re-checked against the regenerated facts `stackHead`, `logPanicBody`.)
How many frames the runtime has at `skip` (`avail`) is an input.  Core-only.
-/
namespace Golib.C19

/-- The buffer handling at the head of `stack`: the number of pcs handed to
`runtime.CallersFrames`, or `none` = a run-time panic (makeslice / slice bounds). -/
def stackBuf (deep : Int) (avail : Nat) : Option Nat :=
  if deep < 0 then none                       -- make([]uintptr, deep): len out of range
  else
    let len := deep.toNat                     -- len(callers)
    let n := min avail len                    -- runtime.Callers(skip, callers)
    if n ≤ len then some n else none          -- callers[:n]

/-- One call of the handler `LogPanic(l, deep)`: `some n` = it returned after logging a
traceback of `n` frames; `none` = the handler itself panicked.  Whether the user's
`l.Error` panics is an input (a logger that panics is the caller's fault). -/
def logPanicCall (deep : Int) (avail : Nat) (loggerPanics : Bool) : Option Nat :=
  match stackBuf deep avail with
  | none => none
  | some n => if loggerPanics then none else some n

end Golib.C19
