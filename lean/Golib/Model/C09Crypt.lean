/-
Model of `cryptz/crypt.go`, mirroring the Go code statement by statement.

* Everything the code takes from the standard library is a PARAMETER (`Prims`): `md5.Sum`,
  the AES block cipher and GCM (via the C08 models of `cryptz/aes.go`), the CTR keystream of
  `cipher.NewCTR`, base64 StdEncoding and the hex codec.  Executable instances:
  `C09Md5.lean`, `C09Enc.lean`, `C08Aes.lean`, `C08Gcm.lean`.
* The random salt (`io.ReadFull(rand.Reader, salt)`) is an INPUT of the model.
* A Go panic is `R.panic`; all slicing goes through `sliceFrom/sliceTo` (C08 model).
* Stream mode runs over an explicit `io.Reader` model (`Reader`: remaining data + a plan of
  per-call size limits + how the end is reported) and an `io.Writer` model (`Writer`:
  the chunks received, optionally failing at the k-th call).  `io.ReadFull`, `io.Copy`,
  `cipher.StreamReader/StreamWriter` are modelled call by call.
* `DecryptStreamTo` reads the 16-byte header the way `HeaderRead` says: `.single` = one
  `stream.Read` (the code before the fix of defect F5), `.readFull` = `io.ReadFull` (the
  repaired code, which the property theorems are about).
-/
import Golib.Model.C08Pad
import Golib.Model.C09Dec

namespace Golib.C09
open Golib.C08

/-- the standard-library functions `crypt.go` calls -/
structure Prims where
  md5 : Bytes → Bytes
  C : Cipher
  A : AEAD
  /-- byte `p` of the keystream of `cipher.NewCTR(aes.NewCipher(key), iv)` -/
  KS : (key iv : Bytes) → Nat → Nat
  b64enc : Bytes → Bytes
  /-- `base64.StdEncoding.Decode(dst, src)`: the bytes it writes to `dst[0..]` and whether it
  succeeded; `strz.Base64Decode` around it (buffer sizing, `dst[:n]`) is modelled: `base64DecodeW` -/
  b64raw : B64Decode
  hexenc : Bytes → Bytes

def saltLen : Nat := 8
def keyLen : Nat := 32
def credLen : Nat := 48

/-- `[]byte("Salted__")` -/
def fixedSaltHeader : Bytes := [83, 97, 108, 116, 101, 100, 95, 95]

/-! ### `fillCred` (`crypt.go:279-293`) -/

structure CredSt where
  backing : Bytes   -- the array behind `buf` (`make([]byte, 0, 16+len(secret)+len(salt))`)
  prevSum : Bytes   -- `var prevSum [16]byte`
  cred : Bytes

/-- one iteration of `for i := 0; i < 3; i++`; `none` = a slice expression panicked. -/
def fillCredRound (md5 : Bytes → Bytes) (secret salt : Bytes) (i : Nat) (st : CredSt) : Option CredSt :=
  let n : Nat := if i > 0 then 16 else 0
  -- buf = buf[:n+len(secret)+len(salt)]
  match sliceTo st.backing ((n + secret.length + salt.length : Nat) : Int) with
  | none => none
  | some buf0 =>
    -- copy(buf, prevSum[:])
    let buf1 := copyInto buf0 st.prevSum
    -- copy(buf[n:], secret)
    match sliceFrom buf1 (n : Int) with
    | none => none
    | some t1 =>
      let buf2 := buf1.take n ++ copyInto t1 secret
      -- copy(buf[n+len(secret):], salt)
      match sliceFrom buf2 ((n + secret.length : Nat) : Int) with
      | none => none
      | some t2 =>
        let buf3 := buf2.take (n + secret.length) ++ copyInto t2 salt
        -- prevSum = md5.Sum(buf)
        let sum := md5 buf3
        -- copy(cred[i*16:], prevSum[:])
        match sliceFrom st.cred ((i * 16 : Nat) : Int) with
        | none => none
        | some t3 =>
          some { backing := buf3 ++ st.backing.drop buf3.length,
                 prevSum := sum,
                 cred := st.cred.take (i * 16) ++ copyInto t3 sum }

/-- `fillCred(cred, salt, secret)`: the final `cred`. -/
def fillCred (md5 : Bytes → Bytes) (cred salt secret : Bytes) : Option Bytes :=
  let st0 : CredSt :=
    { backing := List.replicate (16 + secret.length + salt.length) 0,
      prevSum := List.replicate 16 0, cred := cred }
  match fillCredRound md5 secret salt 0 st0 with
  | none => none
  | some st1 =>
    match fillCredRound md5 secret salt 1 st1 with
    | none => none
    | some st2 =>
      match fillCredRound md5 secret salt 2 st2 with
      | none => none
      | some st3 => some st3.cred

/-- `var cred [_CRED_LEN]byte; fillCred(cred[:], salt, secret)` -/
def deriveCred (md5 : Bytes → Bytes) (salt secret : Bytes) : Option Bytes :=
  fillCred md5 (List.replicate credLen 0) salt secret

/-! ### CBC envelope -/

/-- `SaltBySecretCBCEncrypt(plainText, secret)` with the random salt as an input. -/
def saltBySecretCBCEncrypt (P : Prims) (salt plainText secret : Bytes) : R Bytes :=
  match deriveCred P.md5 salt secret with
  | none => .panic
  | some cred =>
    match sliceTo cred keyLen, sliceFrom cred keyLen with
    | some key, some iv =>
      let dst0 := List.replicate (aesBlockSize + cbcEncryptLen plainText.length) 0
      let dst1 := copyInto dst0 fixedSaltHeader
      match sliceFrom dst1 8 with
      | none => .panic
      | some t8 =>
        let dst2 := dst1.take 8 ++ copyInto t8 salt
        match sliceFrom dst2 aesBlockSize with
        | none => .panic
        | some body =>
          -- `_ = AESCBCEncrypt(dst[aes.BlockSize:], …)`: an error is dropped
          match aesCBCEncrypt P.C body plainText key iv with
          | .ok body' => .ok (dst2.take aesBlockSize ++ body')
          | .err _ => .ok dst2
          | .panic => .panic
    | _, _ => .panic

/-- `SaltBySecretCBCDecrypt(cipherText, secret, reuseCipherText)` -/
def saltBySecretCBCDecrypt (P : Prims) (cipherText secret : Bytes) (reuse : Bool) : R Bytes :=
  if cipherText.length < 2 * aesBlockSize ∨ cipherText.length &&& blockSizeMask ≠ 0 then .err "len"
  else
    match sliceTo cipherText 8, sliceTo cipherText aesBlockSize with
    | some magic, some hdr =>
      if magic ≠ fixedSaltHeader then .err "magic"
      else
        match sliceFrom hdr 8 with
        | none => .panic
        | some salt =>
          match deriveCred P.md5 salt secret with
          | none => .panic
          | some cred =>
            match sliceTo cred keyLen, sliceFrom cred keyLen, sliceFrom cipherText aesBlockSize with
            | some key, some iv, some body =>
              let lay : DecLayout := if reuse then .inplace else .fresh (List.replicate body.length 0)
              match aesCBCDecrypt P.C lay body key iv with
              | .panic => .panic
              | .err e => .err e
              | .ok (n, dst) =>
                match sliceTo dst n with
                | some p => .ok p
                | none => .panic
            | _, _, _ => .panic
    | _, _ => .panic

/-- `Encrypt(plainText, secret)` -/
def encrypt (P : Prims) (salt plainText secret : Bytes) : R Bytes :=
  match saltBySecretCBCEncrypt P salt plainText secret with
  | .ok c => .ok (P.b64enc c)
  | .err e => .err e
  | .panic => .panic

/-- `Decrypt(cipherText, secret)` -/
def decrypt (P : Prims) (cipherText secret : Bytes) : R Bytes :=
  -- src, err := strz.Base64Decode(cipherText, base64.StdEncoding): make(DecodedLen), Decode, dst[:n]
  match base64DecodeW P.b64raw cipherText with
  | .panic => .panic
  | .err e => .err e
  | .ok src => saltBySecretCBCDecrypt P src secret true

/-! ### GCM envelope -/

def saltBySecretGCMEncrypt (P : Prims) (salt plainText secret ad : Bytes) : R Bytes :=
  match deriveCred P.md5 salt secret with
  | none => .panic
  | some cred =>
    match sliceTo cred keyLen, sliceFrom cred keyLen with
    | some key, some rest =>
      match sliceTo rest nonceSize with
      | none => .panic
      | some nonce =>
        let dst0 := List.replicate (aesBlockSize + gcmEncryptLen plainText.length) 0
        let dst1 := copyInto dst0 fixedSaltHeader
        match sliceFrom dst1 8 with
        | none => .panic
        | some t8 =>
          let dst2 := dst1.take 8 ++ copyInto t8 salt
          match sliceFrom dst2 aesBlockSize with
          | none => .panic
          | some body =>
            match aesGCMEncrypt P.A body plainText key nonce ad with
            | .ok body' => .ok (dst2.take aesBlockSize ++ body')
            | .err _ => .ok dst2
            | .panic => .panic
    | _, _ => .panic

def saltBySecretGCMDecrypt (P : Prims) (cipherText secret ad : Bytes) (reuse : Bool) : R Bytes :=
  if cipherText.length < aesBlockSize then .err "len"
  else
    match sliceTo cipherText 8, sliceTo cipherText aesBlockSize with
    | some magic, some hdr =>
      if magic ≠ fixedSaltHeader then .err "magic"
      else
        match sliceFrom hdr 8 with
        | none => .panic
        | some salt =>
          match deriveCred P.md5 salt secret with
          | none => .panic
          | some cred =>
            match sliceTo cred keyLen, sliceFrom cred keyLen, sliceFrom cipherText aesBlockSize with
            | some key, some rest, some body =>
              match sliceTo rest nonceSize with
              | none => .panic
              | some nonce =>
                let dst := if reuse then body else List.replicate body.length 0
                match aesGCMDecrypt P.A dst body key nonce ad with
                | .panic => .panic
                | .err e => .err e
                | .ok dst' =>
                  -- dst[:AESGCMDecryptLen(dst)]
                  match sliceTo dst' (gcmDecryptLen dst'.length) with
                  | some p => .ok p
                  | none => .panic
            | _, _, _ => .panic
    | _, _ => .panic

def gcmEncrypt (P : Prims) (salt plainText secret ad : Bytes) : R Bytes :=
  match saltBySecretGCMEncrypt P salt plainText secret ad with
  | .ok c => .ok (P.hexenc c)
  | .err e => .err e
  | .panic => .panic

def gcmDecrypt (P : Prims) (cipherText secret ad : Bytes) : R Bytes :=
  -- src, err := strz.HexDecode(cipherText): make(len/2), the repo's hexDecode loop (dst[i] = …), dst[:n]
  -- — the buffer-level model of property C15 (`Model/C15Hex.lean`)
  match hexDecodeW cipherText with
  | .panic => .panic
  | .err e => .err e
  | .ok src => saltBySecretGCMDecrypt P src secret ad true

/-! ### `io.Reader` / `io.Writer` models -/

inductive RdErr where
  | eof     -- io.EOF
  | other   -- any other error
deriving Repr, DecidableEq

/-- An `io.Reader` over a fixed byte string.  Each `Read(p)` returns at most `len(p)` bytes
and at most the next limit of `plan` (when the plan is exhausted: as many as fit); a limit
of 0 is the legal `(0, nil)` answer.  The end is reported either together with the last
bytes (`eofWithData`) or by a separate `(0, err)` call; the error is `io.EOF`, or another
error if `failAtEnd`. -/
structure Reader where
  data : Bytes
  plan : List Nat
  eofWithData : Bool
  failAtEnd : Bool
deriving Repr

/-- one `Read(p)` with `len(p) = want` -/
def Reader.read (r : Reader) (want : Nat) : Bytes × Option RdErr × Reader :=
  let lim := match r.plan with
    | [] => want
    | l :: _ => min l want
  let n := min lim r.data.length
  let rest := r.data.drop n
  let err : Option RdErr :=
    if rest = [] ∧ (n = 0 ∨ r.eofWithData = true) then
      some (if r.failAtEnd then .other else .eof)
    else none
  (r.data.take n, err, { r with data := rest, plan := r.plan.tail })

/-- an upper bound on the number of further `Read` calls that return `(n, nil)` -/
def Reader.measure (r : Reader) : Nat := r.plan.length + r.data.length

/-- An `io.Writer` that records what it receives; the `failAt`-th call from now (0-based)
returns an error and accepts nothing. -/
structure Writer where
  chunks : List Bytes
  failAt : Option Nat
deriving Repr, DecidableEq

def Writer.write (w : Writer) (p : Bytes) : Option Writer :=
  match w.failAt with
  | some 0 => none
  | some (k + 1) => some { chunks := w.chunks ++ [p], failAt := some k }
  | none => some { chunks := w.chunks ++ [p], failAt := none }

def Writer.content (w : Writer) : Bytes := w.chunks.flatten

/-- `io.ReadFull(r, buf)` with `len(buf) = need + |acc|`: loop `for n < min && err == nil`.
Result: bytes read, the error ReadFull returns (`none` = nil), the reader afterwards.
`fuel` bounds the number of calls (`Reader.measure r + 2` always suffices). -/
def readFullLoop : Nat → Reader → Nat → Bytes → Option (Bytes × Option RdErr × Reader)
  | 0, _, _, _ => none
  | fuel + 1, r, need, acc =>
    if need = 0 then some (acc, none, r)
    else
      match r.read need with
      | (chunk, err, r') =>
        let acc' := acc ++ chunk
        match err with
        | none => readFullLoop fuel r' (need - chunk.length) acc'
        | some e =>
          -- `if n >= min { err = nil }` (a non-EOF error or ErrUnexpectedEOF otherwise)
          if need ≤ chunk.length then some (acc', none, r') else some (acc', some e, r')

/-- XOR with the keystream starting at stream position `pos` (`XORKeyStream`) -/
def ctrXor (ks : Nat → Nat) : Nat → Bytes → Bytes
  | _, [] => []
  | pos, b :: bs => (b ^^^ ks pos) :: ctrXor ks (pos + 1) bs

inductive CopyRes where
  | ok (w : Writer)
  | readErr
  | writeErr
  | diverged   -- fuel exhausted (never happens with `Reader.measure r + 2`)
deriving Repr

/-- `io.Copy` through the generic 32 KiB-buffer loop, with the keystream applied to every
chunk at its stream position: on the encrypting side by `cipher.StreamWriter.Write` just
before the underlying `Write`, on the decrypting side by `cipher.StreamReader.Read` just
after the underlying `Read` — the same sequence of (read chunk, XOR at position, write). -/
def copyLoop (ks : Nat → Nat) : Nat → Reader → Writer → Nat → CopyRes
  | 0, _, _, _ => .diverged
  | fuel + 1, r, w, pos =>
    match r.read 32768 with
    | (chunk, err, r') =>
      -- `if nr > 0 { nw, ew := dst.Write(buf[0:nr]) … }`
      let w' : Option Writer := if chunk.length > 0 then w.write (ctrXor ks pos chunk) else some w
      match w' with
      | none => .writeErr
      | some w1 =>
        match err with
        | some .eof => .ok w1
        | some .other => .readErr
        | none => copyLoop ks fuel r' w1 (pos + chunk.length)

/-- `bytes.Reader.WriteTo` (the `io.WriterTo` fast path of `io.Copy`): one `Write` of
everything that is left, none at all when nothing is left. -/
def copyWriterTo (ks : Nat → Nat) (data : Bytes) (w : Writer) : CopyRes :=
  if data.length = 0 then .ok w
  else match w.write (ctrXor ks 0 data) with
    | none => .writeErr
    | some w1 => .ok w1

/-! ### stream mode (`crypt.go:74-156`) -/

/-- how the source is handed to `EncryptStreamTo` -/
inductive Src where
  | generic (r : Reader)        -- any io.Reader: `io.Copy` uses its buffer loop
  | writerTo (data : Bytes)     -- `*bytes.Reader`: `io.Copy` calls `WriteTo`
deriving Repr

def Src.fuel : Src → Nat
  | .generic r => r.measure + 2
  | .writerTo _ => 0

/-- `EncryptStreamTo(out, stream, secret)` with the random salt as an input: the writer
afterwards, or the error class. -/
def encryptStreamTo (P : Prims) (salt secret : Bytes) (src : Src) (out : Writer) : R Writer :=
  match deriveCred P.md5 salt secret with
  | none => .panic
  | some cred =>
    match sliceTo cred keyLen, sliceFrom cred keyLen with
    | some key, some iv =>
      if ¬ keyOK key then .err "key"
      else
        match out.write fixedSaltHeader with
        | none => .err "whdr"
        | some out1 =>
          match out1.write salt with
          | none => .err "wsalt"
          | some out2 =>
            let ks := P.KS key iv
            let res := match src with
              | .generic r => copyLoop ks (r.measure + 2) r out2 0
              | .writerTo data => copyWriterTo ks data out2
            match res with
            | .ok w => .ok w
            | .diverged => .panic
            | _ => .err "copy"
    | _, _ => .panic

inductive HeaderRead where
  | single     -- `n, err := stream.Read(saltHeader)`          (before the fix of F5)
  | readFull   -- `n, err := io.ReadFull(stream, saltHeader)`  (repaired)
deriving Repr, DecidableEq

/-- reading the 16-byte header: the header bytes and the reader afterwards, or the error -/
def readHeader (mode : HeaderRead) (r : Reader) : R (Bytes × Reader) :=
  match mode with
  | .single =>
    match r.read aesBlockSize with
    | (chunk, err, r') =>
      if err.isSome then .err "rhdr"
      else if chunk.length ≠ aesBlockSize then .err "rshort"
      else .ok (chunk, r')
  | .readFull =>
    match readFullLoop (r.measure + 2) r aesBlockSize [] with
    | none => .panic
    | some (got, err, r') =>
      if err.isSome then .err "rhdr"
      else if got.length ≠ aesBlockSize then .err "rshort"
      else .ok (got, r')

/-- `DecryptStreamTo(out, stream, secret)` -/
def decryptStreamTo (P : Prims) (mode : HeaderRead) (secret : Bytes) (r : Reader) (out : Writer) : R Writer :=
  match readHeader mode r with
  | .panic => .panic
  | .err e => .err e
  | .ok (saltHeader, r1) =>
    match sliceTo saltHeader 8, sliceFrom saltHeader 8 with
    | some magic, some salt =>
      if magic ≠ fixedSaltHeader then .err "magic"
      else
        match deriveCred P.md5 salt secret with
        | none => .panic
        | some cred =>
          match sliceTo cred keyLen, sliceFrom cred keyLen with
          | some key, some iv =>
            if ¬ keyOK key then .err "key"
            else
              match copyLoop (P.KS key iv) (r1.measure + 2) r1 out 0 with
              | .ok w => .ok w
              | .diverged => .panic
              | _ => .err "copy"
          | _, _ => .panic
    | _, _ => .panic

end Golib.C09
