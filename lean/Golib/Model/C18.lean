/-
C18 driver: line protocol for Knapsack / FindDpSolvers / Best / BestAllowMinOverflow /
BronKerbosch.

Headers
  `@ C18 dp w0 v0 w1 v1 …`     items (id = position), weight / value as Go ints
      `knap W brk`                 → `[ids]` | `panic`
      `solv max over brk seed`     → `le k:[ids] … | ov k:[ids]|none | best [ids]|nil | besto [ids]|nil`
  `@ C18 map k0 k1 …`          a DpSolvers map `{k: [k]}` (distinct keys)
      `best m seed` / `besto m seed`  → `[k]` | `nil`
  `@ C18 graph n a-b a>b …`    nodes 0..n-1, undirected edges `a-b`, single arcs `a>b` (a ≠ b:
                               with a self-loop the Go code recurses forever)
      `cliques`                    → canonical (sorted) result for the identity order
      `bk p0 p1 …`                 → exact result of BronKerbosch([], P, P[:0]) + final array
      `bkx r… | p… | x…`           → exact result of BronKerbosch(R, P, X) on separate slices
Tie-breakers `brk`: `nil` (none passed), `t`, `f`, `lt`, `le` (prefer fewer), `gt`, `ge` (prefer
more), `lex`, `xel` (lexicographically smaller / larger ids), `h<k>` (hash parity).
Iteration orders of the Go maps are derived from `seed` (the observables printed are
order-independent; that is what the theorems say and what the Go side relies on).
-/
import Golib.Proto
import Golib.Model.C18Knap
import Golib.Model.C18Solv
import Golib.Model.C18Graph
import Golib.Model.C18GraphApi
import Golib.Model.C18GraphR
import Golib.Model.C18KnapH
import Golib.Model.C18Knap64

namespace Golib.C18
open Golib.Proto

structure Item where
  id : Nat
  w : Int
  v : Int
deriving Repr, DecidableEq

def ids (l : List Item) : List Nat := l.map (·.id)

/-! ### tie-breakers -/

def hashIds (h : Nat) (l : List Nat) : Nat :=
  l.foldl (fun h x => (h * 31 + x + 1) % 1000003) h

def lexLt : List Nat → List Nat → Bool
  | [], [] => false
  | [], _ :: _ => true
  | _ :: _, [] => false
  | a :: as, b :: bs => if a < b then true else if b < a then false else lexLt as bs

def parseBrk (s : String) : Option (Option (List Item → List Item → Bool)) :=
  if s = "nil" then some none
  else if s = "t" then some (some fun _ _ => true)
  else if s = "f" then some (some fun _ _ => false)
  else if s = "lt" then some (some fun o n => decide (n.length < o.length))
  else if s = "le" then some (some fun o n => decide (n.length ≤ o.length))
  else if s = "gt" then some (some fun o n => decide (n.length > o.length))
  else if s = "ge" then some (some fun o n => decide (n.length ≥ o.length))
  else if s = "xel" then some (some fun o n => lexLt (ids o) (ids n))
  else if s = "lex" then some (some fun o n => lexLt (ids n) (ids o))
  else if s.startsWith "h" then
    match (s.drop 1).toString.toNat? with
    | some k => some (some fun o n =>
        (hashIds ((hashIds k (ids o) * 31 + 977) % 1000003) (ids n)) % 2 == 0)
    | none => none
  else none

/-! ### iteration orders from a seed -/

def lcg (s : Nat) : Nat := (s * 1103515245 + 12345) % 2147483648

def permuteAux {α : Type} : Nat → Nat → List α → List α
  | 0, _, l => l
  | n + 1, s, l =>
    let i := (s / 65536) % l.length
    match l[i]? with
    | some x => x :: permuteAux n (lcg s) (l.eraseIdx i)
    | none => l

def permute {α : Type} (seed : Nat) (l : List α) : List α := permuteAux l.length (lcg (seed + 1)) l

/-! ### dp cases -/

def parseItems : Nat → List Int → Option (List Item)
  | _, [] => some []
  | _, [_] => none
  | i, w :: v :: r => (parseItems (i + 1) r).map fun l => { id := i, w := w, v := v } :: l

def showSel (l : List Item) : String := showNats (ids l)
def showSel? : Option (List Item) → String
  | none => "nil"
  | some l => showSel l

def showEntry (e : Int × List Item) : String := s!"{e.1}:{showSel e.2}"

def minKeyAbove (m : Int) : List (Int × List Item) → Option (Int × List Item)
  | [] => none
  | e :: r =>
    match minKeyAbove m r with
    | none => if e.1 > m then some e else none
    | some b => if e.1 > m ∧ e.1 < b.1 then some e else some b

/-- When the driver also runs the 64-bit twins: few items, or an argument of magnitude `≥ 2^31`
(everything within the 64-bit range, limit below `math.MaxInt`: the domain of the twin theorems). -/
def edgeCase (items : List Item) (W : Int) : Bool :=
  let in64 : Int → Bool := fun x => decide (-9223372036854775808 ≤ x ∧ x < 9223372036854775808)
  let big : Int → Bool := fun x => decide (x.natAbs ≥ 2147483648)
  in64 W && decide (W < 9223372036854775807) && items.all (fun x => in64 x.w && in64 x.v) &&
    (decide (items.length ≤ 10) || big W || items.any (fun x => big x.w || big x.v))

def solvLine (items : List Item) (maxV : Int) (over : Bool)
    (br : Option (List Item → List Item → Bool)) (seed : Nat) : String :=
  let ord1 : Nat → List Int → List Int := fun i l => permute (seed + 2 * i) l
  let ord2 : Nat → List Int → List Int := fun i l => permute (seed + 2 * i + 1) l
  let grow : Nat → Nat := fun n => n + seed % 3
  match solversH br maxV over grow (fun x => x.v) ord1 ord2 items with
  | none => "model-stuck"
  | some st =>
    match readMap st.heap st.dp with
    | none => "model-stuck"
    | some m =>
      let mv := solversV br maxV over (fun x => x.v) ord1 ord2 items
      if mv.map (fun e => (e.1, ids e.2)) ≠ m.map (fun e => (e.1, ids e.2)) then "model-mismatch" else
      -- the 64-bit twin (`currentValue + value` wraps): `c18_solvers_int64_exact`
      let m64 := if edgeCase items 0 ∧ items.all (fun x => decide (0 < x.v)) then
          solversVA add64 br maxV over (fun x => x.v) ord1 ord2 items
        else mv
      if m64.map (fun e => (e.1, ids e.2)) ≠ mv.map (fun e => (e.1, ids e.2)) then "model-mismatch-int64" else
      let le := (m.filter fun e => e.1 ≤ maxV).mergeSort (fun a b => a.1 ≤ b.1)
      let ov := match minKeyAbove maxV m with
        | none => "none"
        | some e => showEntry e
      let b1 := best (permute (seed + 7)) m maxV
      let b2 := bestO (permute (seed + 8)) m maxV
      "le " ++ " ".intercalate (le.map showEntry) ++ " | ov " ++ ov ++ " | best " ++ showSel? b1
        ++ " | besto " ++ showSel? b2

def dpOp (items : List Item) (ts : List String) : Option (Option String) :=
  match ts with
  | ["knap", W, b] =>
    match W.toInt?, parseBrk b with
    | some W, some br =>
      -- on small instances also run Knapsack with its real buffers (`tmp`, per-cell slices on a
      -- heap, doubling / exact growth); `c18_knapsack_buffers` says the result is the same
      let viaValues := knapsackGo br (fun x => x.w) (fun x => x.v) W items
      let small := items.length ≤ 40 ∧ 0 ≤ W ∧ W ≤ 60 ∧ items.all (fun x => decide (0 ≤ x.w))
      let viaHeap := if small then
          knapsackH br (fun n => if items.length % 2 = 0 then n else 2 * n)
            (fun x : Item => x.w.toNat) (fun x => x.v) W.toNat items
        else viaValues
      if viaHeap.map ids ≠ viaValues.map ids then some (some "model-mismatch") else
      -- on small instances and whenever an argument is at the edge of `int` also run the 64-bit twin
      -- (wrapping `maxWeight+1`, `i-w`, `i--`, `score + value`; Go panics): `c18_knapsack_int64_exact`
      -- says it returns the same selection / panics at the same place
      let via64ok := if edgeCase items W then
          match knapsack64 add64 br (fun x : Item => x.w) (fun x => x.v) W items, viaValues with
          | .ok a, some b => ids a == ids b
          | .panic, none => true
          | _, _ => false
        else true
      if !via64ok then some (some "model-mismatch-int64") else
      some (viaValues.map showSel)
    | _, _ => none
  | ["knapv", W, b] =>
    -- value only (limits far beyond what the table model can execute): the optimum by the
    -- specification `bruteOpt`; `c18_knapsack_value` proves it is the value `knapsackGo` returns
    match W.toInt?, parseBrk b with
    | some W, some _ =>
      if W < 0 ∨ items.any (fun x => decide (x.w < 0)) then some none
      else some (some s!"value={bruteOpt (fun x : Item => x.w) (fun x => x.v) items W} valid=true")
    | _, _ => none
  | ["solv", m, o, b, seed] =>
    match m.toInt?, o.toNat?, parseBrk b, seed.toNat? with
    | some m, some o, some br, some seed =>
      if o > 1 then none else some (some (solvLine items m (o == 1) br seed))
    | _, _, _, _ => none
  | _ => none

/-! ### map cases -/

def showKey? : Option Int → String
  | none => "nil"
  | some k => s!"[{k}]"

def mapOp (keys : List Int) (ts : List String) : Option (Option String) :=
  let m : List (Int × Int) := keys.map fun k => (k, k)
  match ts with
  | ["best", x, seed] =>
    match x.toInt?, seed.toNat? with
    | some x, some seed => some (some (showKey? (best (permute seed) m x)))
    | _, _ => none
  | ["besto", x, seed] =>
    match x.toInt?, seed.toNat? with
    | some x, some seed => some (some (showKey? (bestO (permute seed) m x)))
    | _, _ => none
  | _ => none

/-! ### graph cases -/

/-- An edge token is a construction call: `a-b` = `AddUndirectedEdge(a, b)`, `a>b` = `AddEdge(a, b)`. -/
def parseEdgeOp (n : Nat) (s : String) : Option GOp :=
  match s.splitOn "-" with
  | [a, b] =>
    match a.toNat?, b.toNat? with
    | some a, some b => if a < n ∧ b < n ∧ a ≠ b then some (.addUndirected a b) else none
    | _, _ => none
  | _ =>
    match s.splitOn ">" with
    | [a, b] =>
      match a.toNat?, b.toNat? with
      | some a, some b => if a < n ∧ b < n ∧ a ≠ b then some (.addEdge a b) else none
      | _, _ => none
    | _ => none

/-- The arcs a construction call contributes (`Golib.C18.GOp.arc` as a list). -/
def arcsOf : GOp → List (Nat × Nat)
  | .addNode _ => []
  | .addEdge a b => [(a, b)]
  | .addUndirected a b => [(a, b), (b, a)]

def parseEdge (n : Nat) (s : String) : Option (List (Nat × Nat)) := (parseEdgeOp n s).map arcsOf

def parseEdges (n : Nat) : List String → Option (List (Nat × Nat))
  | [] => some []
  | s :: r =>
    match parseEdge n s, parseEdges n r with
    | some a, some b => some (a ++ b)
    | _, _ => none

def insertSorted (x : Nat) : List Nat → List Nat
  | [] => [x]
  | y :: r => if x ≤ y then x :: y :: r else y :: insertSorted x r

def sortNats (l : List Nat) : List Nat := l.foldr insertSorted []

def canonCliques (cs : List (List Nat)) : List (List Nat) :=
  (cs.map sortNats).mergeSort (fun a b => !lexLt b a)

def showCliques (cs : List (List Nat)) : String :=
  "[" ++ " ".intercalate (cs.map showNats) ++ "]"

/-- split tokens at `|` -/
def splitBar : List String → List (List String)
  | [] => [[]]
  | t :: r =>
    match splitBar r with
    | [] => [[t]]
    | g :: gs => if t = "|" then [] :: g :: gs else (t :: g) :: gs

/-- Adjacency lists of the parsed arcs (driver only: makes `nb` cost `O(deg)` instead of
`O(|E|)` so that graphs on a hundred vertices run in milliseconds; the model `bk` takes `nb` as
a parameter). A vertex `≥ n` has no neighbours (the parser rejects such arcs). -/
def adjLists (n : Nat) (edges : List (Nat × Nat)) : Array (List Nat) :=
  edges.foldl (fun a e => a.modify e.1 (fun l => e.2 :: l)) (Array.replicate n [])

def graphOp (n : Nat) (edges : List (Nat × Nat)) (ts : List String) : Option (Option String) :=
  let adj := adjLists n edges
  let nb : Nat → Nat → Bool := fun v u => (adj.getD v []).contains u
  match ts with
  | ["cliques"] =>
    some ((maximalCliques nb (List.range n)).map fun cs => showCliques (canonCliques cs))
  | "bk" :: ps =>
    match nats? ps with
    | some P =>
      if P.all (· < n) then
        -- also run the recursion with `R` on its backing array (capacity n, as allocated by
        -- GetMaximalCliques); `c18_R_alias_safe_top` says the cliques are the same
        let viaHeap := (bkH nb (fun c => c) (P.length + 2) [List.replicate n 0] ⟨0, 0⟩ P []).map (·.2)
        if viaHeap ≠ (bkTop nb P).map (·.1) then some (some "model-mismatch") else
        some ((bkTop nb P).map fun (cs, arr) => showCliques cs ++ " arr=" ++ showNats arr)
      else none
    | none => none
  | "bkx" :: rest =>
    match splitBar rest with
    | [r, p, x] =>
      match nats? r, nats? p, nats? x with
      | some R, some P, some X =>
        if (R ++ P ++ X).all (· < n) then
          -- `R` with spare capacity n + 1 behind it, as the harness passes it (`c18_R_alias_safe`)
          let viaHeap := (bkH nb (fun c => c + 1) (P.length + 1) [R ++ List.replicate (n + 1) 0]
            ⟨0, R.length⟩ P X).map (·.2)
          if viaHeap ≠ bk nb (P.length + 1) R P X then some (some "model-mismatch") else
          some ((bk nb (P.length + 1) R P X).map showCliques)
        else none
      | _, _, _ => none
    | _ => none
  | _ => none

/-! ### graph histories on ONE `Graph` value (`@ C18 graphh`)

Operations `init c` (`g.Init(c)`), `node v`, `und a b` (`AddUndirectedEdge`), `arc a b` (`AddEdge`),
`cnode v` / `cund a b` / `carc a b` (the same calls on a by-value COPY of the Graph struct, which shares
the exported `Nodes` map), `mnode v` / `marc a b` / `mdel v` (direct writes to / deletes from the exported
map), `len`, `paths` (a `GetPaths` call whose policy accepts nothing: it only walks the node list),
`cliques` (canonical `GetMaximalCliques`).  The state is the model of the construction API
(`GMap`); a query is answered from the CURRENT state only. -/

def histOp (g : GMap) (ts : List String) : Option (GMap × Option String) :=
  match ts with
  | ["init", c] => match c.toNat? with | some _ => some (gInit g, some "ok") | none => none
  | ["node", v] => match v.toNat? with | some v => some (gAddNode g v, some "ok") | none => none
  | ["und", a, b] =>
    match a.toNat?, b.toNat? with
    | some a, some b => if a = b then none else some (gAddUndirectedEdge g a b, some "ok")
    | _, _ => none
  | ["arc", a, b] =>
    match a.toNat?, b.toNat? with
    | some a, some b => if a = b then none else some (gAddEdge g a b, some "ok")
    | _, _ => none
  -- the same graph changed WITHOUT the methods of that value: through a by-value copy of the struct
  -- (`h := *g; h.AddNode(v)`: the copy shares the exported `Nodes` map) or by writing the exported
  -- map directly — the same abstract updates
  | ["cnode", v] => match v.toNat? with | some v => some (gAddNode g v, some "ok") | none => none
  | ["mnode", v] => match v.toNat? with | some v => some (gAddNode g v, some "ok") | none => none
  | ["cund", a, b] =>
    match a.toNat?, b.toNat? with
    | some a, some b => if a = b then none else some (gAddUndirectedEdge g a b, some "ok")
    | _, _ => none
  | ["carc", a, b] =>
    match a.toNat?, b.toNat? with
    | some a, some b => if a = b then none else some (gAddEdge g a b, some "ok")
    | _, _ => none
  | ["marc", a, b] =>
    match a.toNat?, b.toNat? with
    | some a, some b => if a = b then none else some (gAddEdge g a b, some "ok")
    | _, _ => none
  | ["mdel", v] => match v.toNat? with | some v => some (gDelNode g v, some "ok") | none => none
  | ["len"] => some (g, some (toString (gKeys g).length))
  | ["paths"] => some (g, some "ok")
  | ["cliques"] =>
    some (g, (maximalCliques (gNb g) (gKeys g)).map fun cs => showCliques (canonCliques cs))
  | _ => none

def runHist : GMap → Bool → List String → List String
  | _, _, [] => []
  | g, true, _ :: ls => "dead" :: runHist g true ls
  | g, false, l :: ls =>
    match histOp g (toks l) with
    | none => "bad-op" :: runHist g false ls
    | some (g', none) => "panic" :: runHist g' true ls
    | some (g', some o) => o :: runHist g' false ls

/-! ### case runner -/

def runOps (f : List String → Option (Option String)) : Bool → List String → List String
  | _, [] => []
  | true, _ :: ls => "dead" :: runOps f true ls
  | false, l :: ls =>
    match f (toks l) with
    | none => "bad-op" :: runOps f false ls
    | some none => "panic" :: runOps f true ls
    | some (some o) => o :: runOps f false ls

def badCase (ops : List String) : List String := "bad-op" :: ops.map fun _ => "bad-op"

def runCase (hdr : List String) (ops : List String) : List String :=
  match hdr with
  | "dp" :: rest =>
    match ints? rest with
    | some xs =>
      match parseItems 0 xs with
      | some items => "ok" :: runOps (dpOp items) false ops
      | none => badCase ops
    | none => badCase ops
  | "map" :: rest =>
    match ints? rest with
    | some ks => if ks.Nodup then "ok" :: runOps (mapOp ks) false ops else badCase ops
    | none => badCase ops
  | ["graphh"] => "ok" :: runHist [] false ops
  | "graph" :: n :: rest =>
    match n.toNat?, n.toNat?.bind (fun n => parseEdges n rest) with
    | some n, some es => "ok" :: runOps (graphOp n es) false ops
    | _, _ => badCase ops
  | _ => badCase ops

end Golib.C18
