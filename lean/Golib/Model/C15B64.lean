/-
Model of the `encoding/base64` codecs the `strz.Base64*` helpers are called with
(`StdEncoding`, `URLEncoding`, `RawStdEncoding`, `RawURLEncoding`: alphabet std/URL × padded/raw,
all non-strict), as `Encoding.Encode` / `Encoding.Decode` of Go 1.23 behave.

The helpers themselves (`/repo/strz/enc.go`) are
```go
func Base64Encode(s, enc) []byte { dst := make([]byte, enc.EncodedLen(len(s))); enc.Encode(dst, bytes(s)); return dst }
func Base64Decode(s, enc) ([]byte, error) { dst := make([]byte, enc.DecodedLen(len(s))); n, err := enc.Decode(dst, bytes(s)); return dst[:n], err }
```
(the calls are an extracted fact), so the result is `(dst[:n], err)`: the decoded PREFIX and the
error.  This is a model of standard-library code (trusted as reference, but no longer taken
as an input: the driver computes with this model and the result is compared with the real
helpers and with encoding/base64 on every run).

`Decode` = repeated `decodeQuantum`; the 8- and 4-character fast paths fall back to
`decodeQuantum` at the same position whenever they do not apply, so they do not change the
result.  The two nested loops are flattened into one pass over the input with the state
`(si, j, dbuf, out)`: `si` = index of the current character, `j` = sextets gathered in the
current quantum, `out` = bytes of the completed quanta.  Errors are `CorruptInputError(offset)`.
`dst` is not modelled (the output is a list); that `DecodedLen` suffices is stdlib behaviour.
-/
namespace Golib.C15

structure B64Enc where
  url : Bool
  pad : Bool
deriving Repr, DecidableEq

/-- `encodeStd` / `encodeURL` by position. -/
def b64Char (url : Bool) (v : Nat) : Nat :=
  let v := v % 64
  if v < 26 then 65 + v
  else if v < 52 then 97 + (v - 26)
  else if v < 62 then 48 + (v - 52)
  else if v = 62 then (if url then 45 else 43)
  else (if url then 95 else 47)

/-- `enc.decodeMap[c]` (`none` = 0xff). -/
def b64Val (url : Bool) (c : Nat) : Option Nat :=
  if 65 ≤ c ∧ c ≤ 90 then some (c - 65)
  else if 97 ≤ c ∧ c ≤ 122 then some (c - 97 + 26)
  else if 48 ≤ c ∧ c ≤ 57 then some (c - 48 + 52)
  else if c = (if url then 45 else 43) then some 62
  else if c = (if url then 95 else 47) then some 63
  else none

/-- `Encoding.Encode`. -/
def b64Encode (e : B64Enc) : List Nat → List Nat
  | a :: b :: c :: rest =>
    let v := a * 65536 + b * 256 + c
    b64Char e.url (v / 262144) :: b64Char e.url (v / 4096) :: b64Char e.url (v / 64) ::
      b64Char e.url v :: b64Encode e rest
  | [a, b] =>
    let v := a * 65536 + b * 256
    [b64Char e.url (v / 262144), b64Char e.url (v / 4096), b64Char e.url (v / 64)] ++
      (if e.pad then [61] else [])
  | [a] =>
    let v := a * 65536
    [b64Char e.url (v / 262144), b64Char e.url (v / 4096)] ++ (if e.pad then [61, 61] else [])
  | [] => []

/-- The bytes a quantum of `dlen` sextets yields (`dlen - 1` of them; non-strict: the unused low
bits are dropped). -/
def quantumBytes (dlen : Nat) (dbuf : List Nat) : List Nat :=
  let d := fun i => match dbuf[i]? with | some x => x | none => 0   -- `var dbuf [4]byte` is zeroed
  let v := d 0 * 262144 + d 1 * 4096 + d 2 * 64 + d 3
  ([v / 65536 % 256, v / 256 % 256, v % 256]).take (dlen - 1)

def isNL (c : Nat) : Bool := c = 10 || c = 13

/-- `for si < len(src) && (src[si] == '\n' || src[si] == '\r') { si++ }` -/
def skipNL : List Nat → Nat → List Nat × Nat
  | c :: rest, si => if isNL c then skipNL rest (si + 1) else (c :: rest, si)
  | [], si => ([], si)

/-- After the padding of a quantum: skip newlines; anything left is trailing garbage — the
quantum's bytes are still delivered, together with `CorruptInputError(si)`. -/
def padTail (j : Nat) (dbuf out : List Nat) (r : List Nat) (s : Nat) : List Nat × Option Nat :=
  match skipNL r s with
  | ([], _) => (out ++ quantumBytes j dbuf, none)
  | (_ :: _, s') => (out ++ quantumBytes j dbuf, some s')

/-- `Encoding.Decode`: `(dst[:n], error offset)`. `total = len(src)`. -/
def b64Dec (e : B64Enc) (total : Nat) : List Nat → Nat → Nat → List Nat → List Nat → List Nat × Option Nat
  | [], si, j, dbuf, out =>
    -- `len(src) == si` inside decodeQuantum
    if j = 0 then (out, none)
    else if j = 1 ∨ e.pad = true then (out, some (si - j))
    else (out ++ quantumBytes j dbuf, none)
  | c :: rest, si, j, dbuf, out =>
    match b64Val e.url c with
    | some v =>
      if j = 3 then b64Dec e total rest (si + 1) 0 [] (out ++ quantumBytes 4 (dbuf ++ [v]))
      else b64Dec e total rest (si + 1) (j + 1) (dbuf ++ [v]) out
    | none =>
      if isNL c then b64Dec e total rest (si + 1) j dbuf out
      else if ¬ (e.pad = true ∧ c = 61) then (out, some si)       -- not the padding character
      else if j < 2 then (out, some si)                            -- incorrect padding
      else if j = 2 then
        -- "==" expected: skip newlines, then the second '='
        match skipNL rest (si + 1) with
        | ([], _) => (out, some total)                             -- not enough padding
        | (d :: r3, si2) => if d ≠ 61 then (out, some (si2 - 1)) else padTail j dbuf out r3 (si2 + 1)
      else padTail j dbuf out rest (si + 1)

def b64Decode (e : B64Enc) (src : List Nat) : List Nat × Option Nat :=
  b64Dec e src.length src 0 0 [] []

/-- `CorruptInputError(n).Error()` -/
def b64ErrText (off : Nat) : List Nat :=
  ("illegal base64 data at input byte ".toList.map Char.toNat) ++ ((toString off).toList.map Char.toNat)

def b64EncOf (name : String) : Option B64Enc :=
  if name = "std" then some ⟨false, true⟩
  else if name = "url" then some ⟨true, true⟩
  else if name = "rawstd" then some ⟨false, false⟩
  else if name = "rawurl" then some ⟨true, false⟩
  else none

end Golib.C15
