/-
C15 driver: one stateless operation per line (see `go/props/c15/c15.go` for the format).

The digest / HMAC helpers are `HexEncode ∘ stdlib` and the Base64 helpers are the stdlib
codec itself (facts extracted from the source): the line carries the stdlib result and the
model applies `hexEncode?` (resp. the identity) to it. The same model answers for the
`string` and the `[]byte` instantiation (`s=`/`b=`; `ts=`/`tss=` are the `…ToString` variants on
`[]byte`/`string`; `st=`/`st1=`/`stw=` the stream form read in chunks, byte by byte and through
`io.WriterTo`), and never modifies its input (`mod=false`).
-/
import Golib.Model.C15Parse
import Golib.Model.C15Hex
import Golib.Model.C15IP

namespace Golib.C15
open Golib.Proto

def showErr (e : HErr) : String :=
  match e.text with
  | none => "ok"
  | some t => hex t

def digestAlgos : List (String × Bool) :=   -- name, has a stream form
  [("md5", true), ("sha1", true), ("sha224", true), ("sha256", true), ("sha384", true),
   ("sha512", true), ("sha512_224", false), ("sha512_256", false)]

def hmacAlgos : List String :=
  ["md5", "sha1", "sha224", "sha256", "sha384", "sha512", "sha512_224", "sha512_256"]

def b64Encs : List String := ["std", "url", "rawstd", "rawurl"]

def rep (labels : List String) (v : String) : String :=
  " ".intercalate (labels.map fun l => l ++ "=" ++ v)

def runOp (ts : List String) : String :=
  match ts with
  | ["pu", s, base, bits] =>
    match unhex s, base.toInt?, bits.toInt? with
    | some s, some base, some bits =>
      let (v, e) := parseUint s base bits
      rep ["s", "b"] s!"{v},{e.show}" ++ " mod=false"
    | _, _, _ => "bad-op"
  | ["he", s] =>
    match unhex s with
    | some s =>
      match hexEncode? s with
      | none => "panic"
      | some o => rep ["s", "b", "ts", "tss"] (hex o) ++ " mod=false"
    | none => "bad-op"
  | ["hd", s] =>
    match unhex s with
    | some s =>
      match hexDecode? s with
      | none => "panic"
      | some (o, e) => rep ["s", "b", "ts", "tss"] (hex o ++ "," ++ showErr e) ++ " mod=false"
    | none => "bad-op"
  | ["hdip", s] =>
    match unhex s with
    | some s =>
      match hexDecodeInPlace? s with
      | none => "panic"
      | some (buf, n, e) => s!"n={n} err={showErr e} buf={hex buf}"
    | none => "bad-op"
  | ["l2ip", x] =>
    match x.toNat? with
    | some x => if x < two32 then hex (longToIPv4 x) else "bad-op"
    | none => "bad-op"
  | ["ip2l", s] =>
    match unhex s with
    | some s => toString (ipv4ToLong s)
    | none => "bad-op"
  | ["iprt", x] =>
    match x.toNat? with
    | some x => if x < two32 then toString (ipv4ToLong (longToIPv4 x)) else "bad-op"
    | none => "bad-op"
  | ["dg", algo, inp, dig] =>
    match digestAlgos.lookup algo, unhex inp, unhex dig with
    | some stream, some _, some dig =>
      match hexEncode? dig with
      | none => "panic"
      | some o =>
        rep ["s", "b", "ts", "tss"] (hex o) ++ " " ++
          rep ["st", "st1", "stw"] (if stream then hex o else "none") ++ " mod=false"
    | _, _, _ => "bad-op"
  | ["hm", algo, key, data, mac] =>
    match hmacAlgos.contains algo, unhex key, unhex data, unhex mac with
    | true, some _, some _, some mac =>
      match hexEncode? mac with
      | none => "panic"
      | some o => rep ["ss", "sb", "bs", "bb", "ts", "tss"] (hex o) ++ " mod=false"
    | _, _, _, _ => "bad-op"
  | ["b64e", enc, inp, out] =>
    match b64Encs.contains enc, unhex inp, unhex out with
    | true, some _, some out => rep ["s", "b", "ts", "tss"] (hex out) ++ " mod=false"
    | _, _, _ => "bad-op"
  | ["b64d", enc, inp, out, err] =>
    match b64Encs.contains enc, unhex inp, unhex out with
    | true, some _, some out =>
      if err = "ok" ∨ (unhex err).isSome then
        rep ["s", "b", "ts", "tss"] (hex out ++ "," ++ err) ++ " mod=false"
      else "bad-op"
    | _, _, _ => "bad-op"
  | _ => "bad-op"

def runCase (hdr : List String) (ops : List String) : List String :=
  match hdr with
  | ["mix"] => "ok" :: ops.map fun l => runOp (toks l)
  | _ => "bad-op" :: ops.map fun _ => "bad-op"

end Golib.C15
