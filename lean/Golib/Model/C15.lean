/-
C15 driver: one stateless operation per line (see `go/props/c15/c15.go` for the format).

The digest / HMAC helpers are `HexEncode ∘ stdlib` (facts extracted from the source): the line
carries the stdlib digest and the model applies `hexEncode?` to it.  The Base64 helpers are the
stdlib codec called on a buffer of `EncodedLen` / `DecodedLen` bytes (extracted fact); the codec
itself is modelled (`Golib/Model/C15B64.lean`) and the model's result is printed. The same model answers for the
`string` and the `[]byte` instantiation (`s=`/`b=`; `ts=`/`tss=` are the `…ToString` variants on
`[]byte`/`string`; `st=`…`stz=` the stream form fed by the reader shapes `streamNames`), and never modifies its input (`mod=false`).
-/
import Golib.Model.C15Parse
import Golib.Model.C15Hex
import Golib.Model.C15IP
import Golib.Model.C15B64
import Golib.Model.C15Stream

namespace Golib.C15
open Golib.Proto

def showErr (e : HErr) : String :=
  match e.text with
  | none => "ok"
  | some t => hex t

def digestAlgos : List (String × Bool) :=   -- name, has a stream form
  [("md5", true), ("sha1", true), ("sha224", true), ("sha256", true), ("sha384", true),
   ("sha512", true), ("sha512_224", false), ("sha512_256", false)]

def hmacAlgos : List String :=
  ["md5", "sha1", "sha224", "sha256", "sha384", "sha512", "sha512_224", "sha512_256"]

/-- The reader shapes the `…Stream` helpers are fed with (see `go/props/c15/c15.go`). -/
def streamNames : List String :=
  ["st", "st1", "stw", "ste", "ste4", "sto", "sth", "sts", "stz", "stb", "stbe"]

def b64Encs : List String := ["std", "url", "rawstd", "rawurl"]

/-- One `st…=` field: the reader shape as a script through the copy-loop model
(`Golib.C15.streamHelper`); the digest function is "the stdlib digest of the whole input carried
by the line", so the field is the hex digest only if the loop wrote exactly the input. -/
def streamField (stream : Bool) (shape : String) (inp dig : List Nat) : String :=
  if !stream then "none" else
  match shapeScript shape inp with
  | none => "bad-shape"
  | some sc =>
    match streamHelper (fun w => if w = inp then dig else []) sc with
    | .value (some o) => if o.isEmpty then "model-wrote-other-bytes" else hex o
    | .value none => "panic"
    | .error => "err"
    | .panic => "panic"
    | .pending => "model-pending"

def rep (labels : List String) (v : String) : String :=
  " ".intercalate (labels.map fun l => l ++ "=" ++ v)

def runOp (ts : List String) : String :=
  match ts with
  | ["pu", s, base, bits] =>
    match unhex s, base.toInt?, bits.toInt? with
    | some s, some base, some bits =>
      let (v, e) := parseUint s base bits
      rep ["s", "b"] s!"{v},{e.show}" ++ " mod=false"
    | _, _, _ => "bad-op"
  | ["he", s] =>
    match unhex s with
    | some s =>
      match hexEncode? s with
      | none => "panic"
      | some o => rep ["s", "b", "ts", "tss"] (hex o) ++ " mod=false"
    | none => "bad-op"
  | ["hd", s] =>
    match unhex s with
    | some s =>
      match hexDecode? s with
      | none => "panic"
      | some (o, e) => rep ["s", "b", "ts", "tss"] (hex o ++ "," ++ showErr e) ++ " mod=false"
    | none => "bad-op"
  | ["hdip", s] =>
    match unhex s with
    | some s =>
      match hexDecodeInPlace? s with
      | none => "panic"
      | some (buf, n, e) => s!"n={n} err={showErr e} buf={hex buf}"
    | none => "bad-op"
  | ["l2ip", x] =>
    match x.toNat? with
    | some x => if x < two32 then hex (longToIPv4 x) else "bad-op"
    | none => "bad-op"
  | ["ip2l", s] =>
    match unhex s with
    | some s => toString (ipv4ToLong s)
    | none => "bad-op"
  | ["iprt", x] =>
    match x.toNat? with
    | some x => if x < two32 then toString (ipv4ToLong (longToIPv4 x)) else "bad-op"
    | none => "bad-op"
  | ["dg", algo, inp, dig] =>
    match digestAlgos.lookup algo, unhex inp, unhex dig with
    | some stream, some inp, some dig =>
      match hexEncode? dig with
      | none => "panic"
      | some o =>
        rep ["s", "b", "ts", "tss"] (hex o) ++ " " ++
          " ".intercalate (streamNames.map fun nm => nm ++ "=" ++ streamField stream nm inp dig) ++
          " mod=false"
    | _, _, _ => "bad-op"
  | ["dgh", algo, mode, k, inp, dig] =>
    -- history: a failed stream call (reader error / panic after `k` bytes) leaves nothing behind:
    -- the helpers are stateless (`h := md5.New()` per call), so the following valid call of the
    -- same helper returns HexEncode of the digest of its own input, in every round, and the
    -- other helpers are unaffected.
    match digestAlgos.lookup algo, ["errafter", "witherr", "timeout", "panic"].contains mode,
        k.toNat?, unhex inp, unhex dig with
    | some true, true, some k, some inp, some dig =>
      if k > 65536 then "bad-op" else
      -- the failing call through the copy-loop model (the leftover bytes are irrelevant to the
      -- outcome: a script of k placeholder bytes), then the valid call in two chunks
      let failed := match failScript mode (List.replicate k 0) with
        | some sc => (match streamHelper (fun _ => dig) sc with
            | .error => "err" | .panic => "panic" | .value _ => "nil" | .pending => "pending")
        | none => "bad-mode"
      "fail=" ++ failed ++ " st=" ++ streamField true "stz" inp dig ++ " rounds=same others=ok"
    | _, _, _, _, _ => "bad-op"
  | ["dgs", algo, inp, d0, d1, d2, d3, d4] =>
    -- hidden input: a seekable reader that was already advanced by k bytes is, for an `io.Reader`
    -- consumer, the stream of the REMAINING bytes; the helpers only `Read` (`io.Copy(h, s)`, an
    -- extracted fact), so the result is HexEncode of the digest of the remaining bytes (carried by
    -- the line for the five advances 0, 1, len/2, len-1, len), for every kind of reader.
    match digestAlgos.lookup algo, unhex inp,
        [d0, d1, d2, d3, d4].mapM (fun d => (unhex d).bind hexEncode?) with
    | some true, some _, some outs =>
      " ".intercalate ((List.range 5).zip outs |>.map fun (i, o) => s!"a{i}=" ++ hex o)
    | _, _, _ => "bad-op"
  | ["dgz", algo, n, seed, dig] =>
    -- the input is generated by the harness from (n, seed); the model only needs the digest
    match digestAlgos.lookup algo, n.toNat?, seed.toNat?, unhex dig with
    | some stream, some n, some _, some dig =>
      if n > 1048576 then "bad-op" else
      match hexEncode? dig with
      | none => "panic"
      | some o =>
        "b=" ++ hex o ++ " " ++ rep streamNames (if stream then hex o else "none") ++ " mod=false"
    | _, _, _, _ => "bad-op"
  | ["hm", algo, key, data, mac] =>
    match hmacAlgos.contains algo, unhex key, unhex data, unhex mac with
    | true, some _, some _, some mac =>
      match hexEncode? mac with
      | none => "panic"
      | some o => rep ["ss", "sb", "bs", "bb", "ts", "tss"] (hex o) ++ " mod=false"
    | _, _, _, _ => "bad-op"
  | ["b64e", enc, inp, out] =>
    -- computed with the codec model (`Golib.C15.b64Encode`); the stdlib result carried by the
    -- line is only checked by the Go oracle (three-way: model / strz / encoding/base64)
    match b64EncOf enc, unhex inp, unhex out with
    | some e, some inp, some _ => rep ["s", "b", "ts", "tss"] (hex (b64Encode e inp)) ++ " mod=false"
    | _, _, _ => "bad-op"
  | ["b64d", enc, inp, out, err] =>
    match b64EncOf enc, unhex inp, unhex out with
    | some e, some inp, some _ =>
      if err = "ok" ∨ (unhex err).isSome then
        let (o, eo) := b64Decode e inp
        let et := match eo with
          | none => "ok"
          | some off => hex (b64ErrText off)
        rep ["s", "b", "ts", "tss"] (hex o ++ "," ++ et) ++ " mod=false"
      else "bad-op"
    | _, _, _ => "bad-op"
  | _ => "bad-op"

def runCase (hdr : List String) (ops : List String) : List String :=
  match hdr with
  | ["mix"] => "ok" :: ops.map fun l => runOp (toks l)
  | _ => "bad-op" :: ops.map fun _ => "bad-op"

end Golib.C15
