/-
C01 — race search on the access order EXTRACTED from the source (WAVE6).
`Golib.Gen.C01.*Ops` (regenerated on every run from ringz/sync.go) list, per method, the
shared-memory accesses in source order: atomic ones and the plain accesses to
`holder.value` (and plain reads of `r.head`/`r.tail`, should the source contain any).  This
file interprets exactly those lists — one access per step, with the control flow of the
ticket protocol (return after a failed sequence check / a failed CAS) — and searches ALL
interleavings of a small configuration for a state in which two threads are about to make
conflicting accesses to the same location, at least one of them plain and at least one a
write: the data-race criterion of the Go memory model.  For the blessed source the search
finds nothing (that is `c01_race_free` on the fixed machine of Model/C01Ring.lean, whose
program counters `c01_source_order` ties to the same lists); when the extracted order
changes (a plain read of a counter, `holder.value` touched before the CAS) the search
prints the schedule and the two accesses.
Core + Std only.
-/
import Golib.Model.C01Ring
import Golib.Gen.FactsC01
import Std.Data.HashSet

namespace Golib.C01.Races
open Golib.C01

deriving instance Hashable for Slot
deriving instance Hashable for Call
deriving instance Hashable for SrcOp

inductive Loc where
  | head | tail
  | seq (i : Nat)
  | val (i : Nat)
deriving DecidableEq, Hashable, Repr

structure Access where
  loc : Loc
  write : Bool
  plain : Bool
deriving DecidableEq, Repr

structure FThread where
  kind : Option Call
  /-- remaining accesses of the call in flight, as extracted -/
  ops : List SrcOp
  pos : Nat
  seq : Nat
  val : Int
  rest : List Call
deriving DecidableEq, Hashable

structure FState where
  head : Nat
  tail : Nat
  slots : List Slot
  threads : List FThread
deriving DecidableEq, Hashable

def opsOf : Call → List SrcOp
  | .push _ => Gen.C01.pushOps
  | .pop => Gen.C01.popOps
  | .len => Gen.C01.lenOps
  | .isEmpty => Gen.C01.isEmptyOps
  | .isFull => Gen.C01.isFullOps

def FThread.next (th : FThread) : FThread :=
  match th.rest with
  | [] => { th with kind := none, ops := [] }
  | c :: r => { kind := some c, ops := opsOf c, pos := 0, seq := 0, val := 0, rest := r }

def mkF (prog : List Call) : FThread :=
  FThread.next { kind := none, ops := [], pos := 0, seq := 0, val := 0, rest := prog }

/-- the access the thread is about to make -/
def nextAccess (c : Cfg) (th : FThread) : Option Access :=
  match th.ops with
  | [] => none
  | op :: _ =>
    match op with
    | .loadTail => some ⟨.tail, false, false⟩
    | .loadHead => some ⟨.head, false, false⟩
    | .loadSeq => some ⟨.seq (c.idx th.pos), false, false⟩
    | .casTail => some ⟨.tail, true, false⟩
    | .casHead => some ⟨.head, true, false⟩
    | .storeSeqPlus1 => some ⟨.seq (c.idx th.pos), true, false⟩
    | .storeSeqPlusMask => some ⟨.seq (c.idx th.pos), true, false⟩
    | .writeVal => some ⟨.val (c.idx th.pos), true, true⟩
    | .readVal => some ⟨.val (c.idx th.pos), false, true⟩
    | .clearVal => some ⟨.val (c.idx th.pos), true, true⟩
    | .plainHead => some ⟨.head, false, true⟩
    | .plainTail => some ⟨.tail, false, true⟩
    | .other _ => none

def conflict (a b : Access) : Bool :=
  a.loc == b.loc && (a.plain || b.plain) && (a.write || b.write)

def setTh (s : FState) (i : Nat) (th : FThread) : FState :=
  { s with threads := s.threads.set i (if th.ops.isEmpty then th.next else th) }

def retTh (s : FState) (i : Nat) (th : FThread) : FState :=
  { s with threads := s.threads.set i th.next }

/-- one extracted access of thread `i` -/
def fstep (c : Cfg) (s : FState) (i : Nat) : FState :=
  match s.threads[i]? with
  | none => s
  | some th =>
    match th.ops with
    | [] => s
    | op :: rest =>
      let th1 := { th with ops := rest }
      let isPush := match th.kind with | some (.push _) => true | _ => false
      let isPop := th.kind == some .pop
      match op with
      | .loadTail => setTh s i (if isPush then { th1 with pos := s.tail } else th1)
      | .loadHead => setTh s i (if isPop then { th1 with pos := s.head } else th1)
      | .loadSeq =>
        match s.slots[c.idx th.pos]? with
        | none => retTh s i th
        | some sl =>
          if isPush then (if th.pos ≠ sl.seq then retTh s i th else setTh s i { th1 with seq := sl.seq })
          else if isPop then (if c.norm (th.pos + 1) ≠ sl.seq then retTh s i th else setTh s i { th1 with seq := sl.seq })
          else setTh s i th1
      | .casTail =>
        if s.tail = th.pos then setTh { s with tail := c.norm (th.pos + 1) } i th1 else retTh s i th
      | .casHead =>
        if s.head = th.pos then setTh { s with head := c.norm (th.pos + 1) } i th1 else retTh s i th
      | .writeVal =>
        match s.slots[c.idx th.pos]?, th.kind with
        | some sl, some (.push v) =>
          setTh { s with slots := s.slots.set (c.idx th.pos) { sl with val := v } } i th1
        | _, _ => setTh s i th1
      | .readVal =>
        match s.slots[c.idx th.pos]? with
        | some sl => setTh s i { th1 with val := sl.val }
        | none => setTh s i th1
      | .clearVal =>
        match s.slots[c.idx th.pos]? with
        | some sl => setTh { s with slots := s.slots.set (c.idx th.pos) { sl with val := 0 } } i th1
        | none => setTh s i th1
      | .storeSeqPlus1 =>
        match s.slots[c.idx th.pos]? with
        | some sl => setTh { s with slots := s.slots.set (c.idx th.pos) { sl with seq := c.norm (th.seq + 1) } } i th1
        | none => setTh s i th1
      | .storeSeqPlusMask =>
        match s.slots[c.idx th.pos]? with
        | some sl => setTh { s with slots := s.slots.set (c.idx th.pos) { sl with seq := c.norm (th.seq + c.mask) } } i th1
        | none => setTh s i th1
      | _ => setTh s i th1

def Loc.show : Loc → String
  | .head => "r.head"
  | .tail => "r.tail"
  | .seq i => s!"values[{i}].pos"
  | .val i => s!"values[{i}].value"

def Access.show (a : Access) : String :=
  (if a.plain then "plain " else "atomic ") ++ (if a.write then "write " else "read ") ++ a.loc.show

def showCall : Option Call → String
  | some (.push v) => s!"Push({v})"
  | some .pop => "Pop"
  | some .len => "Len"
  | some .isEmpty => "IsEmpty"
  | some .isFull => "IsFull"
  | none => "-"

/-- two threads about to make conflicting accesses, if any -/
def raceAt (c : Cfg) (s : FState) : Option String :=
  let accs := (List.range s.threads.length).filterMap fun i =>
    match s.threads[i]? with
    | some th => (nextAccess c th).map fun a => (i, th.kind, a)
    | none => none
  let rec go : List (Nat × Option Call × Access) → Option String
    | [] => none
    | (i, k, a) :: rest =>
      match rest.find? fun (_, _, b) => conflict a b with
      | some (j, k2, b) => some s!"t{i} {showCall k}: {a.show} || t{j} {showCall k2}: {b.show}"
      | none => go rest
  go accs

/-- memoised depth-first search over all interleavings -/
def dfs (c : Cfg) : Nat → FState → List Nat → Std.HashSet FState →
    Option (List Nat × String) × Std.HashSet FState
  | 0, _, _, vis => (none, vis)
  | fuel + 1, s, path, vis =>
    if vis.contains s then (none, vis)
    else
      let vis := vis.insert s
      match raceAt c s with
      | some d => (some (path.reverse, d), vis)
      | none =>
        (List.range s.threads.length).foldl
          (fun (acc : Option (List Nat × String) × Std.HashSet FState) i =>
            match acc.1 with
            | some _ => acc
            | none =>
              match s.threads[i]? with
              | some th => if th.ops.isEmpty then acc else dfs c fuel (fstep c s i) (i :: path) acc.2
              | none => acc)
          (none, vis)

def initF (cap fill : Nat) (progs : List (List Call)) : FState :=
  { head := 0, tail := fill,
    slots := (List.range cap).map fun i =>
      if i < fill then { seq := i + 1, val := Int.ofNat (i + 1) } else { seq := i, val := 0 },
    threads := progs.map mkF }

def search (cap fill : Nat) (progs : List (List Call)) : String :=
  let c : Cfg := { M := 2 ^ 32, cap := cap }
  let (r, vis) := dfs c 200 (initF cap fill progs) [] {}
  match r with
  | some (path, d) => s!"race after schedule {path} :: {d}"
  | none => s!"race-free states={vis.size}"

end Golib.C01.Races
