/-
C02 — POINTER-LEVEL model of `listz/skip.go` / `listz/skip_cmp.go` / the skip-list part of
`listz/iter.go`: the heap as the code builds it.  Core-only, executable.

* `nodes` is the heap: a node's id is its index; nodes are never freed (a node unlinked by
  `Remove` stays as garbage with `next = #[]`, as `cur.next = nil` leaves it).
* A node's tower `next []*SkipNode` is `Array (Option Nat)` (`none` = nil pointer).
* `head : Option (Array (Option Nat))` is `s.head.next`: `none` = nil slice (zero value).
* A pointer `*SkipNode` that may be `&s.head` is `Ptr = Option Nat` (`none` = `&s.head`).
* Every method reads and writes pointers in the coded order; a Go panic (nil dereference,
  index out of range on `next[i]` / `update[i]`) is `none`.
* The inner `for cur.next[i] != nil` loops take fuel `nodes.size + 1` (proved sufficient:
  the level chains are acyclic, `Golib/Proof/C02Ptr*.lean`); exhausted fuel is `none`.
* `update := make([]*SkipNode, maxLevel)` is `Array (Option Ptr)`, `none` = nil entry.

The levels-as-lists model of `Golib/Model/C02Skip.lean` is the ABSTRACTION of this model
(level-`i` chain of ids ↦ the keys along it): `c02_pointer_refines_levels`.
-/
import Golib.Model.C02Skip

namespace Golib.C02

structure PNode (K V : Type) where
  key : K
  val : V
  /-- the tower `next []*SkipNode`; `#[]` after `Remove` (`cur.next = nil`) -/
  next : Array (Option Nat)

structure PSL (K V : Type) where
  /-- the heap; id = index -/
  nodes : Array (PNode K V)
  /-- `s.head.next`: `none` = nil slice (zero value), `some` = the 32-slot head tower -/
  head : Option (Array (Option Nat))
  level : Nat
  len : Int
  hasRand : Bool

/-- `*SkipNode` that may be `&s.head` (`none`). -/
abbrev Ptr := Option Nat

variable {K V : Type}

/-- The zero value `var s SkipList[K,V]`. -/
def PSL.zero : PSL K V := ⟨#[], none, 0, 0, false⟩

/-- `Init()` on the list object (the heap keeps its garbage). -/
def PSL.doInit (p : PSL K V) : PSL K V :=
  { p with head := some (Array.replicate maxLevel none), len := 0, level := 1, hasRand := true }

/-- `NewSkipList()` / `NewSkipListWithCmp(cmp)`. -/
def PSL.init : PSL K V := ⟨#[], some (Array.replicate maxLevel none), 1, 0, true⟩

/-- `c.next[i]` (`none`: index out of range — also on the nil slice of the zero value). -/
def PSL.nextOf (p : PSL K V) (c : Ptr) (i : Nat) : Option (Option Nat) :=
  match c with
  | none => match p.head with
    | none => none
    | some h => h[i]?
  | some id => match p.nodes[id]? with
    | none => none
    | some nd => nd.next[i]?

/-- `c.next[i] = x` (`none`: index out of range). -/
def PSL.setNext (p : PSL K V) (c : Ptr) (i : Nat) (x : Option Nat) : Option (PSL K V) :=
  match c with
  | none => match p.head with
    | none => none
    | some h => if i < h.size then some { p with head := some (h.setIfInBounds i x) } else none
  | some id => match p.nodes[id]? with
    | none => none
    | some nd =>
      if i < nd.next.size then
        some { p with nodes := p.nodes.setIfInBounds id { nd with next := nd.next.setIfInBounds i x } }
      else none

/-- The inner search loop at level `i`:
`for cur.next[i] != nil { next := cur.next[i]; if next.key > key {break}; if next.key == key {HIT}; cur = next }`.
Returns the final `cur` and the node hit, if any (on a hit `cur` has not been advanced). -/
def PSL.walkLevel (cmp : K → K → Int) (p : PSL K V) (key : K) (i : Nat) : Nat → Ptr → Option (Ptr × Option Nat)
  | 0, _ => none
  | fuel + 1, cur =>
    match p.nextOf cur i with
    | none => none
    | some none => some (cur, none)
    | some (some nx) =>
      match p.nodes[nx]? with
      | none => none
      | some nd =>
        let c := cmp nd.key key
        if c > 0 then some (cur, none)
        else if c == 0 then some (cur, some nx)
        else PSL.walkLevel cmp p key i fuel (some nx)

/-- Fuel for the loops that follow `next` pointers. -/
def PSL.fuel (p : PSL K V) : Nat := p.nodes.size + 1

/-! ### GetNode / Get / Head / node.Next -/

/-- The level loop of `GetNode`: `n` = number of levels still to visit (`i = n - 1`). -/
def PSL.findLoop (cmp : K → K → Int) (p : PSL K V) (key : K) : Nat → Ptr → Option (Option Nat)
  | 0, _ => some none
  | n + 1, cur =>
    match p.walkLevel cmp key n p.fuel cur with
    | none => none
    | some (_, some nx) => some (some nx)
    | some (cur', none) => PSL.findLoop cmp p key n cur'

/-- `GetNode(key)`: the node (its id) or nil. -/
def PSL.getNode (cfg : Cfg K V) (p : PSL K V) (key : K) : Option (Option Nat) :=
  p.findLoop cfg.cmp key p.level none

/-- `Get(key)`. -/
def PSL.get (cfg : Cfg K V) (p : PSL K V) (key : K) : Option (V × Bool) :=
  match p.getNode cfg key with
  | none => none
  | some none => some (cfg.zeroV, false)
  | some (some id) => match p.nodes[id]? with
    | none => none
    | some nd => some (nd.val, true)

/-- `Head()`: `if s.len == 0 { return nil }; return s.head.next[0]`. -/
def PSL.headNode (p : PSL K V) : Option (Option Nat) :=
  if p.len == 0 then some none else p.nextOf none 0

/-- `node.Next()`: `n.next[0]`. -/
def PSL.nodeNext (p : PSL K V) (id : Nat) : Option (Option Nat) := p.nextOf (some id) 0

/-- `node.Key()`. -/
def PSL.keyOf (p : PSL K V) (id : Nat) : Option K := (p.nodes[id]?).map (·.key)

/-! ### set -/

/-- The level loop of `set`: `inl id` = key found at node `id`; `inr update`. -/
def PSL.setLoop (cmp : K → K → Int) (p : PSL K V) (key : K) :
    Nat → Ptr → Array (Option Ptr) → Option (Nat ⊕ Array (Option Ptr))
  | 0, _, upd => some (.inr upd)
  | n + 1, cur, upd =>
    match p.walkLevel cmp key n p.fuel cur with
    | none => none
    | some (_, some nx) => some (.inl nx)
    | some (cur', none) =>
      -- update[i] = cur
      if n < upd.size then PSL.setLoop cmp p key n cur' (upd.setIfInBounds n (some cur')) else none

/-- `for i := 0; i < level; i++ { node.next[i] = update[i].next[i]; update[i].next[i] = node }`:
`n` = iterations left, `i` = the loop variable. -/
def PSL.linkLoop (id : Nat) (upd : Array (Option Ptr)) : Nat → Nat → PSL K V → Option (PSL K V)
  | 0, _, p => some p
  | n + 1, i, p =>
    match upd[i]? with
    | none => none                        -- update[i]: index out of range
    | some none => none                   -- update[i] == nil
    | some (some u) =>
      match p.nextOf u i with
      | none => none
      | some x =>
        match p.setNext (some id) i x with
        | none => none
        | some p1 =>
          match p1.setNext u i (some id) with
          | none => none
          | some p2 => PSL.linkLoop id upd n (i + 1) p2

/-- `set(key, val, mode)` with the random level given (`h`): mode 0 = Set, 1 = SetX, 2 = SetNx. -/
def PSL.setH (cfg : Cfg K V) (p : PSL K V) (key : K) (val : V) (mode : Nat) (h : Nat) :
    Option (PSL K V × Bool) :=
  -- s.lazyInit()
  let p := if cfg.lazy && p.head.isNone then p.doInit else p
  -- update := make([]*SkipNode, maxLevel)
  match p.setLoop cfg.cmp key p.level none (Array.replicate maxLevel none) with
  | none => none
  | some (.inl id) =>
    if mode == 2 then some (p, false)
    else match p.nodes[id]? with
      | none => none
      | some nd => some ({ p with nodes := p.nodes.setIfInBounds id { nd with val := val } }, true)
  | some (.inr upd) =>
    if mode == 1 then some (p, false)
    else if !p.hasRand then none               -- randomLevel(nil)
    else
      -- if level > s.level { level = s.level + 1; update[s.level] = &s.head; s.level = level }
      let grow := h > p.level
      if grow && p.level ≥ upd.size then none    -- update[s.level]: index out of range
      else
        let level := if grow then p.level + 1 else h
        let upd := if grow then upd.setIfInBounds p.level (some none) else upd
        let p := if grow then { p with level := level } else p
        -- node := &SkipNode{key, val, make([]*SkipNode, level)}
        let id := p.nodes.size
        let p := { p with nodes := p.nodes.push ⟨key, val, Array.replicate level none⟩ }
        match PSL.linkLoop id upd level 0 p with
        | none => none
        | some p' => some ({ p' with len := p'.len + 1 }, true)

/-- `set` with the word drawn from the random source. -/
def PSL.set (cfg : Cfg K V) (p : PSL K V) (key : K) (val : V) (mode : Nat) (r : Nat) :
    Option (PSL K V × Bool) :=
  p.setH cfg key val mode (randomLevel r)

/-- `node.SetValue(val)` on node `id`. -/
def PSL.setNodeValue (p : PSL K V) (id : Nat) (val : V) : PSL K V :=
  match p.nodes[id]? with
  | none => p
  | some nd => { p with nodes := p.nodes.setIfInBounds id { nd with val := val } }

/-! ### Remove -/

/-- The level loop of `Remove`; `n` = number of levels still to visit.
Result `(cur, curLevel, update)`. -/
def PSL.removeLoop (cmp : K → K → Int) (p : PSL K V) (key : K) :
    Nat → Ptr → Nat → Array (Option Ptr) → Option (Ptr × Nat × Array (Option Ptr))
  | 0, cur, curLevel, upd => some (cur, curLevel, upd)
  | n + 1, cur, curLevel, upd =>
    match p.walkLevel cmp key n p.fuel cur with
    | none => none
    | some (cur', hit) =>
      let curLevel := if hit.isSome && curLevel == 0 then n + 1 else curLevel
      if n < upd.size then PSL.removeLoop cmp p key n cur' curLevel (upd.setIfInBounds n (some cur')) else none

/-- `for i := 0; i < curLevel; i++ { update[i].next[i] = cur.next[i] }`, `id` = `cur`. -/
def PSL.unlinkLoop (id : Nat) (upd : Array (Option Ptr)) : Nat → Nat → PSL K V → Option (PSL K V)
  | 0, _, p => some p
  | n + 1, i, p =>
    match upd[i]? with
    | none => none
    | some none => none
    | some (some u) =>
      match p.nextOf (some id) i with
      | none => none
      | some x =>
        match p.setNext u i x with
        | none => none
        | some p1 => PSL.unlinkLoop id upd n (i + 1) p1

/-- `for s.level > 1 && s.head.next[s.level-1] == nil { s.level-- }`. -/
def PSL.shrink (p : PSL K V) : Nat → Option Nat
  | 0 => some 0
  | 1 => some 1
  | n + 2 =>
    match p.nextOf none (n + 1) with
    | none => none
    | some none => PSL.shrink p (n + 1)
    | some (some _) => some (n + 2)

/-- `Remove(key)`. -/
def PSL.remove (cfg : Cfg K V) (p : PSL K V) (key : K) : Option (PSL K V × V × Bool) :=
  match p.removeLoop cfg.cmp key p.level none 0 (Array.replicate maxLevel none) with
  | none => none
  | some (cur, curLevel, upd) =>
    if curLevel == 0 then some (p, cfg.zeroV, false)
    else
      -- cur = cur.next[0]; val = cur.val
      match p.nextOf cur 0 with
      | none | some none => none
      | some (some n) =>
        match p.nodes[n]? with
        | none => none
        | some nd =>
          match PSL.unlinkLoop n upd curLevel 0 p with
          | none => none
          | some p1 =>
            -- cur.next = nil
            match p1.nodes[n]? with
            | none => none
            | some nd1 =>
              let p2 := { p1 with nodes := p1.nodes.setIfInBounds n { nd1 with next := #[] } }
              let lvl := if curLevel ≥ p2.level then p2.shrink p2.level else some p2.level
              match lvl with
              | none => none
              | some lvl => some ({ p2 with level := lvl, len := p2.len - 1 }, nd.val, true)

/-! ### Clear -/

/-- `Clear()`; the repaired `SkipList.Clear` leaves an uninitialised list alone. -/
def PSL.clear (cfg : Cfg K V) (p : PSL K V) : PSL K V :=
  if cfg.fixed && cfg.lazy && p.head.isNone then p
  else { p with head := some (Array.replicate maxLevel none), level := 1, len := 0 }

/-! ### enumerations -/

/-- `for cur.next[0] != nil { next := cur.next[0]; if !f(next.key, next.val) {break}; cur = next }`
(the loop of `SkipList.Range` and the second loop of `RangeWithStart`). -/
def PSL.rangeLoopCur (cmp : K → K → Int) (end_ : Option K) (p : PSL K V) :
    Nat → Ptr → Sink K V → Option (Sink K V)
  | 0, _, _ => none
  | fuel + 1, cur, sk =>
    match p.nextOf cur 0 with
    | none => none
    | some none => some sk
    | some (some nx) =>
      match p.nodes[nx]? with
      | none => none
      | some nd =>
        match callBounded cmp end_ sk nd.key nd.val with
        | (sk', true) => PSL.rangeLoopCur cmp end_ p fuel (some nx) sk'
        | (sk', false) => some sk'

/-- `SkipList.Range(f)`: `if s.len == 0 { return }; cur := &s.head; for cur.next[0] != nil { … }`. -/
def PSL.rangeCur (cfg : Cfg K V) (p : PSL K V) (stop : Nat) : Option (List (K × V)) :=
  if p.len == 0 then some []
  else (p.rangeLoopCur cfg.cmp none p.fuel none (Sink.new stop)).map Sink.out

/-- `for e := …; e != nil; e = e.next[0] { if !f(e.key, e.val) {break} }`. -/
def PSL.rangeLoopE (p : PSL K V) : Nat → Option Nat → Sink K V → Option (Sink K V)
  | _, none, sk => some sk
  | 0, some _, _ => none
  | fuel + 1, some e, sk =>
    match p.nodes[e]? with
    | none => none
    | some nd =>
      match sk.call nd.key nd.val with
      | (sk', false) => some sk'
      | (sk', true) =>
        match nd.next[0]? with
        | none => none
        | some nx => PSL.rangeLoopE p fuel nx sk'

/-- `SkipListWithCmp.Range(f)` and both `All()`:
`if s.len == 0 { return }; for e := s.head.next[0]; e != nil; e = e.next[0] { … }`. -/
def PSL.rangeE (_cfg : Cfg K V) (p : PSL K V) (stop : Nat) : Option (List (K × V)) :=
  if p.len == 0 then some []
  else match p.nextOf none 0 with
    | none => none
    | some e => (p.rangeLoopE p.fuel e (Sink.new stop)).map Sink.out

/-- The level loop of `RangeWithStart` (label `top`): `inl id`: start found at node `id`
(`cur = next`, then `f` is called on it); `inr cur`: not found. -/
def PSL.startLoop (cmp : K → K → Int) (p : PSL K V) (start : K) : Nat → Ptr → Option (Nat ⊕ Ptr)
  | 0, cur => some (.inr cur)
  | n + 1, cur =>
    match p.walkLevel cmp start n p.fuel cur with
    | none => none
    | some (_, some nx) => some (.inl nx)
    | some (cur', none) => PSL.startLoop cmp p start n cur'

/-- `RangeWithStart(start, f)` (`end_ = none`) and `RangeWithRange(start, end, f)`. -/
def PSL.rangeFrom (cfg : Cfg K V) (p : PSL K V) (start : K) (end_ : Option K) (stop : Nat) :
    Option (List (K × V)) :=
  if cfg.fixed && cfg.lazy && p.len == 0 then some []      -- the guard exists in `SkipList` only
  else
    match p.startLoop cfg.cmp start p.level none with
    | none => none
    | some (.inl n) =>
      match p.nodes[n]? with
      | none => none
      | some nd =>
        match callBounded cfg.cmp end_ (Sink.new stop) nd.key nd.val with
        | (sk, false) => some sk.out
        | (sk, true) => (p.rangeLoopCur cfg.cmp end_ p.fuel (some n) sk).map Sink.out
    | some (.inr cur) => (p.rangeLoopCur cfg.cmp end_ p.fuel cur (Sink.new stop)).map Sink.out

/-- `for n := start; n != nil; n = n.Next() { f(n.Key(), n.Value()) }` through the exported
node methods; also the loop `for e := s.head.next[0]; e != nil; e = e.next[0]` of `Keys`/`Values`. -/
def PSL.walkNodes (p : PSL K V) : Nat → Option Nat → Option (List (K × V))
  | _, none => some []
  | 0, some _ => none
  | fuel + 1, some n =>
    match p.nodes[n]? with
    | none => none
    | some nd =>
      match nd.next[0]? with
      | none => none
      | some nx => (PSL.walkNodes p fuel nx).map ((nd.key, nd.val) :: ·)

/-- `for n := s.Head(); n != nil; n = n.Next() { … }`. -/
def PSL.walk (p : PSL K V) : Option (List (K × V)) :=
  match p.headNode with
  | none => none
  | some h => p.walkNodes p.fuel h

/-- `for n := s.GetNode(key); n != nil; n = n.Next() { … }`. -/
def PSL.walkFrom (cfg : Cfg K V) (p : PSL K V) (key : K) : Option (List (K × V)) :=
  match p.getNode cfg key with
  | none => none
  | some h => p.walkNodes p.fuel h

/-- `Keys()`: `keys := make([]K, s.len); for e := …; e = e.next[0] { keys[i] = e.key; i++ }`. -/
def PSL.keys (cfg : Cfg K V) (p : PSL K V) : Option (List K) :=
  if p.len == 0 then some []
  else match p.nextOf none 0 with
    | none => none
    | some e => match p.walkNodes p.fuel e with
      | none => none
      | some xs => fillSlice cfg.zeroK p.len (xs.map Prod.fst)

/-- `Values()`. -/
def PSL.values (cfg : Cfg K V) (p : PSL K V) : Option (List V) :=
  if p.len == 0 then some []
  else match p.nextOf none 0 with
    | none => none
    | some e => match p.walkNodes p.fuel e with
      | none => none
      | some xs => fillSlice cfg.zeroV p.len (xs.map Prod.snd)

/-! ### dump helpers (for the driver and the abstraction) -/

/-- The ids along a level-`i` chain starting at `start` (stops at a dangling pointer or when
the fuel runs out). -/
def PSL.chainFrom (p : PSL K V) (i : Nat) : Nat → Option Nat → List Nat
  | _, none => []
  | 0, some _ => []
  | fuel + 1, some id =>
    id :: match p.nodes[id]? with
      | none => []
      | some nd => PSL.chainFrom p i fuel ((nd.next[i]?).join)

/-- The ids of the level-`i` chain from the head. -/
def PSL.chain (p : PSL K V) (i : Nat) : List Nat := p.chainFrom i p.fuel ((p.nextOf none i).join)

/-- The levels-as-lists view: for every head slot the keys along its chain (`[]` for the nil
slice of the zero value). -/
def PSL.absLv (p : PSL K V) : List (List K) :=
  match p.head with
  | none => []
  | some h => (List.range h.size).map fun i => (p.chain i).filterMap p.keyOf

/-- The `(key, val)` of the nodes along the level-0 chain. -/
def PSL.absVals (p : PSL K V) : List (K × V) :=
  (p.chain 0).filterMap fun id => (p.nodes[id]?).map fun nd => (nd.key, nd.val)

end Golib.C02
