/-
Array-backed copy of the pointer-level model of `algz/trie.go` (`Golib/Model/C05Ptr.lean`)
for the compiled oracle: the node store is an `Array PNode` and the `trieNodeQueue` ring is an
`Array Nat`, so every `nodes[id]` / `nodes[id] = …` is O(1) and a trie of 100 000 nodes can be
run.  The functions follow the List model statement by statement; a Go panic / exhausted fuel
is `none` exactly where the List model has it.  `Golib/Proof/C05Arr.lean` proves that this
model computes what the List model computes (`ATrie.toP`, `AQueue.toQ`).

Queue slots: `0` = a slot never written (the nil pointer of `make([]*trieNode, cap)`),
`id + 1` = the pointer to node `id`.
-/
import Golib.Model.C05Ptr

namespace Golib.C05
open Golib

structure ATrie where
  /-- the node store: id = index; id 0 is `t.root` -/
  nodes : Array PNode

def ATrie.toP (a : ATrie) : PTrie := ⟨a.nodes.toList⟩

/-- The zero value `Trie{}`. -/
def ATrie.empty : ATrie := ⟨#[⟨[], none, 0, false⟩]⟩

/-! ### Insert -/

/-- `pInsertLoop` on the array store.  The "existing child" test is evaluated first
(`some none` = create a node, `some (some c)` = descend to `c`, `none` = index panic) so that
the compiled code does not evaluate the create branch eagerly. -/
def aInsertLoop (a : ATrie) : List Step → Nat → Nat → Option (ATrie × Nat)
  | [], node, _ => some (a, node)
  | (r, size) :: rest, node, i =>
    let i := i + size
    match a.nodes[node]? with
    | none => none
    | some nd =>
      match findChildIndex nd.vals r with
      | none => none
      | some idx =>
        let hit : Option (Option Nat) :=
          if idx ≥ nd.children.length then some none
          else
            match nd.children[idx]? with
            | none => none
            | some (v, c) => if v ≠ r then some none else some (some c)
        match hit with
        | none => none
        | some (some c) => aInsertLoop a rest c i
        | some none =>
          let newId := a.nodes.size
          let nd' : PNode := { nd with children := nd.children.take idx ++ (r, newId) :: nd.children.drop idx }
          aInsertLoop ⟨(a.nodes.setIfInBounds node nd').push ⟨[], none, i, false⟩⟩ rest newId i

/-- `Insert(pattern)` on the decoded pattern. -/
def ATrie.insert (a : ATrie) (p : List Step) : Option ATrie :=
  if p.isEmpty then some a
  else
    match aInsertLoop a p 0 0 with
    | none => none
    | some (a', node) =>
      match a'.nodes[node]? with
      | none => none
      | some nd => some ⟨a'.nodes.setIfInBounds node { nd with isEnd := true }⟩

/-! ### trieNodeQueue -/

structure AQueue where
  /-- `0` = unwritten slot, `id + 1` = pointer to node `id` -/
  nodes : Array Nat
  head : Nat
  tail : Nat
  cap : Nat

/-- A queue slot as the label the List queue stores. -/
def slotLabel : Nat → Label
  | 0 => []
  | id + 1 => ptrLabel id

def AQueue.toQ (q : AQueue) : Queue := ⟨q.nodes.toList.map slotLabel, q.head, q.tail, q.cap⟩

def AQueue.init (cap : Nat) : AQueue := ⟨Array.replicate cap 0, 0, 0, cap⟩
def AQueue.isFull (q : AQueue) : Bool := q.tail - q.head == q.cap
def AQueue.isEmpty (q : AQueue) : Bool := q.head == q.tail

/-- Go slice expression `s[lo:hi]`. -/
def aslice? (l : Array Nat) (lo hi : Nat) : Option (Array Nat) :=
  if lo ≤ hi ∧ hi ≤ l.size then some (l.extract lo hi) else none

/-- `copy(dst, src)`: new dst and the count. -/
def acopyInto (dst src : Array Nat) : Array Nat × Nat :=
  let n := min dst.size src.size
  (src.extract 0 n ++ dst.extract n dst.size, n)

/-- The growth step of `Push` (`if q.IsFull() { … }`): the two `copy` statements with the
branch on `tailPos > headPos`. -/
def AQueue.grow (q : AQueue) : Option AQueue :=
  if q.cap = 0 then none   -- integer divide by zero
  else
    let tailPos := (q.tail - 1) % q.cap
    let headPos := q.head % q.cap
    let cap' := q.cap * 2
    let newNodes : Array Nat := Array.replicate cap' 0
    let copied : Option (Array Nat) :=
      if tailPos > headPos then
        (aslice? q.nodes headPos (tailPos + 1)).map fun s => (acopyInto newNodes s).1
      else
        match aslice? q.nodes headPos q.nodes.size, aslice? q.nodes 0 (tailPos + 1) with
        | some s1, some s2 =>
          let (nv, n) := acopyInto newNodes s1
          some (nv.extract 0 n ++ (acopyInto (nv.extract n nv.size) s2).1)
        | _, _ => none
    copied.map fun nv => { nodes := nv, head := 0, tail := q.tail - q.head, cap := cap' }

def AQueue.push (q : AQueue) (id : Nat) : Option AQueue :=
  match (if q.isFull then q.grow else some q) with
  | none => none
  | some ⟨nodes, head, tail, cap⟩ =>
    if cap = 0 then none
    else if tail % cap < nodes.size then
      some ⟨nodes.setIfInBounds (tail % cap) (id + 1), head, tail + 1, cap⟩
    else none

/-- `Pop()`; returns the raw slot (`0` = nil). -/
def AQueue.pop (q : AQueue) : Option (Nat × AQueue) :=
  if q.isEmpty then none
  else if q.cap = 0 then none
  else
    match q.nodes[q.head % q.cap]? with
    | none => none
    | some n => some (n, { q with head := q.head + 1 })

/-! ### BuildFailureLinks -/

def aFailWalk (a : ATrie) (val : Int) : Nat → Option Nat → Option (Option (Nat × Nat))
  | 0, _ => none
  | _ + 1, none => some none
  | fuel + 1, some m =>
    match a.nodes[m]? with
    | none => none
    | some nd =>
      match index nd.vals val with
      | none => none
      | some (some idx) => some (some (m, idx))
      | some none => aFailWalk a val fuel nd.fail

structure ABState where
  q : AQueue
  a : ATrie

def ABState.toP (s : ABState) : PBState := ⟨s.q.toQ, s.a.toP⟩

def aProcessChildren (curr : Nat) : List (Int × Nat) → ABState → Option ABState
  | [], s => some s
  | (r, c) :: rest, ⟨q, a⟩ =>
    match a.nodes[curr]? with
    | none => none
    | some cn =>
      match aFailWalk a r (a.nodes.size + 2) cn.fail with
      | none => none
      | some w =>
        let target? : Option Nat :=
          match w with
          | none => some 0                      -- child.node.fail = &t.root
          | some (m, idx) =>
            match a.nodes[m]? with
            | none => none
            | some mn => (mn.children[idx]?).map (·.2)
        match target?, a.nodes[c]? with
        | some target, some cd =>
          match q.push c with
          | none => none
          | some q' =>
            aProcessChildren curr rest
              { q := q', a := ⟨a.nodes.setIfInBounds c { cd with fail := some target }⟩ }
        | _, _ => none

def aBfsLoop : Nat → ABState → Option ABState
  | 0, _ => none
  | fuel + 1, ⟨q, a⟩ =>
    if q.isEmpty then some ⟨q, a⟩
    else
      match q.pop with
      | none => none
      | some (0, _) => none                      -- nil pointer dereference
      | some (curr + 1, q') =>
        match a.nodes[curr]? with
        | none => none
        | some cn =>
          match aProcessChildren curr cn.children ⟨q', a⟩ with
          | none => none
          | some s' => aBfsLoop fuel s'

def aSeedRoot : List (Int × Nat) → ABState → Option ABState
  | [], s => some s
  | (_, c) :: rest, ⟨q, a⟩ =>
    match a.nodes[c]? with
    | none => none
    | some cd =>
      match q.push c with
      | none => none
      | some q' => aSeedRoot rest { q := q', a := ⟨a.nodes.setIfInBounds c { cd with fail := some 0 }⟩ }

/-- `BuildFailureLinks()`. -/
def ATrie.build (a : ATrie) : Option ATrie :=
  match a.nodes[0]? with
  | none => none
  | some root =>
    let fuel := a.nodes.size + 1
    match aSeedRoot root.children { q := AQueue.init 10, a := a } with
    | none => none
    | some s0 => (aBfsLoop fuel s0).map (·.a)

def ATrie.insertAll (a : ATrie) : List (List Nat) → Option ATrie
  | [] => some a
  | p :: ps => (a.insert (decodeAll p)).bind fun a' => a'.insertAll ps

def ATrie.ofPatterns (pats : List (List Nat)) : Option ATrie :=
  (ATrie.empty.insertAll pats).bind ATrie.build

/-! ### the scan loops of Match / find -/

def aFallLoop (a : ATrie) (v : Int) : Nat → Nat → Option Nat → Option (Nat × Option Nat)
  | 0, _, _ => none
  | fuel + 1, node, idx =>
    if node ≠ 0 ∧ idx = none then
      match a.nodes[node]? with
      | none => none
      | some nd =>
        match nd.fail with
        | none => none                      -- nil pointer dereference
        | some m =>
          match a.nodes[m]? with
          | none => none
          | some mn =>
            match index mn.vals v with
            | none => none
            | some idx' => aFallLoop a v fuel m idx'
    else some (node, idx)

def aFallback (a : ATrie) (node : Nat) (v : Int) : Option (Nat × Option Nat) :=
  match a.nodes[node]? with
  | none => none
  | some nd =>
    match index nd.vals v with
    | none => none
    | some idx => aFallLoop a v (a.nodes.size + 1) node idx

def aChildAt (a : ATrie) (node idx : Nat) : Option Nat :=
  match a.nodes[node]? with
  | none => none
  | some nd => (nd.children[idx]?).map (·.2)

def aOutWalk (a : ATrie) (i : Nat) : Nat → Nat → Option (List Scope)
  | 0, _ => none
  | fuel + 1, temp =>
    if temp ≠ 0 then
      match a.nodes[temp]? with
      | none => none
      | some nd =>
        match nd.fail with
        | none => none
        | some m =>
          (aOutWalk a i fuel m).map fun rest =>
            if nd.isEnd then ⟨(i : Int) - nd.size, i⟩ :: rest else rest
    else some []

def aAnyEndWalk (a : ATrie) : Nat → Nat → Option Bool
  | 0, _ => none
  | fuel + 1, temp =>
    if temp ≠ 0 then
      match a.nodes[temp]? with
      | none => none
      | some nd =>
        if nd.isEnd then some true
        else
          match nd.fail with
          | none => none
          | some m => aAnyEndWalk a fuel m
    else some false

def aFindLoop (a : ATrie) : List Step → Nat → Nat → List Scope → Option (List Scope)
  | [], _, _, acc => some acc
  | (r, size) :: rest, node, i, acc =>
    let i := i + size
    match aFallback a node r with
    | none => none
    | some (node, none) => aFindLoop a rest node i acc
    | some (node, some idx) =>
      match aChildAt a node idx with
      | none => none
      | some node' =>
        match aOutWalk a i (a.nodes.size + 1) node' with
        | none => none
        | some out => aFindLoop a rest node' i (acc ++ out)

def aMatchLoop (a : ATrie) : List Step → Nat → Option Bool
  | [], _ => some false
  | (r, _) :: rest, node =>
    match aFallback a node r with
    | none => none
    | some (node, none) => aMatchLoop a rest node
    | some (node, some idx) =>
      match aChildAt a node idx with
      | none => none
      | some node' =>
        match aAnyEndWalk a (a.nodes.size + 1) node' with
        | none => none
        | some true => some true
        | some false => aMatchLoop a rest node'

def ATrie.find (a : ATrie) (text : List Nat) : Option (List Scope) := aFindLoop a (decodeAll text) 0 0 []
def ATrie.match (a : ATrie) (text : List Nat) : Option Bool := aMatchLoop a (decodeAll text) 0
def ATrie.findAll (a : ATrie) (text : List Nat) : Option (List (List Nat)) :=
  match a.find text with
  | none => none
  | some scopes => cutAll text scopes

end Golib.C05
