/-
The snake_case identifier grammar `[a-z][a-z0-9]*(_[a-z][a-z0-9]*)*` of the C17 round-trip
theorem, as a two-state automaton on bytes.  Executable (core-only) so that the oracle can
answer `isident` and the harness can compare it with its regular expression on every run.
-/
namespace Golib.C17

def isLow (b : Nat) : Bool := 97 ≤ b && b ≤ 122
def isLowDig (b : Nat) : Bool := isLow b || (48 ≤ b && b ≤ 57)

/-- State `true`: a lower-case letter must come next (start of a word, i.e. at byte 0 or
right after `_`); state `false`: inside a word, where `[a-z0-9]` continues it, `_` ends it
(and a new word must follow) and the end of the input is accepted. -/
def gram : Bool → List Nat → Bool
  | st, [] => !st
  | true, b :: t => isLow b && gram false t
  | false, b :: t => if isLowDig b then gram false t else (b == 95 && gram true t)

/-- `[a-z][a-z0-9]*(_[a-z][a-z0-9]*)*` on bytes. -/
def isSnakeIdent (x : List Nat) : Bool := gram true x

end Golib.C17
