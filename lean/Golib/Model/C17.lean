import Golib.Model.C17Strs
import Golib.Model.C17Gram
import Golib.Model.C17Utf8Tie
import Golib.Model.C17Large

/-
Driver of the C17 section of the oracle.

Header: `@ C17 s <hex>` — the subject string (bytes); answer `ok`.
Every op line is one call on the subject string and is independent of the others
(the functions are pure): a panic answers `panic` and does not end the case.

  sub <start> <length>        Sub(s, start, length)
  mask <hexmask> <start> <end> Mask(s, mask, start, end)
  subd <limit>                SubByDisplay(s, limit)
  rev | len | ucfirst | lcfirst | c2s
  remove <hexset>             RemoveRunes(s, r ∈ []rune(set))
  s2c <bool>                  SnakeToCamelCase(s, firstUp)
  round <bool>                CamelCaseToSnake(SnakeToCamelCase(s, firstUp))
  isident                     s ∈ [a-z][a-z0-9]*(_[a-z][a-z0-9]*)*  (the grammar of the round-trip
                              theorem; compared with the harness's regexp, not with /repo)

Header `@ C17 L <hex>`: LARGE subject (1 000 – 100 000 runes), same op grammar, every op answered
by a linear-time evaluator of `Golib/Model/C17Large.lean` that is proved equal to the cursor
model for every subject (valid UTF-8 or not) and every argument (`c17_large_eq_model`,
`c17_snake_spec`, `c17_camel_spec`).

Header `@ C17 H`: HISTORY — every op line names its own subject: `on <hex> <op …>` with the
ops above, plus `on <hex> removepanic <hexset> <nth>`: `RemoveRunes` with a predicate that
panics at its `nth` invocation (recovered by the caller) — answer `panic-recovered` when
`1 ≤ nth ≤ RuneCount(s)` (the predicate is invoked exactly once per rune of the range loop),
otherwise the ordinary result.  The functions are pure: the model answers every line from its
own arguments only, whatever came before (earlier long results, a recovered panic); the
harness additionally keeps every earlier result with an independent copy (results ledger).
Subjects above 512 bytes are evaluated as in the large stream.
`onbuf <id> <hex> <op …>`: the subject is a string VIEW (unsafe.String) of caller buffer `id`, which
the harness overwrites in place between calls (same address and length, different text): for the
model the same as `on <hex> <op …>` — the result depends on the bytes only.  `gc`: the harness
runs `runtime.GC()` (freed strings may be re-allocated at the same address); answer `ok`.

Header `@ C17 utf8`: the exhaustive tie of the shared UTF-8 prelude to Go's `unicode/utf8`
(no call into /repo; see `Golib/Model/C17Utf8Tie.lean` for its operations).
-/
namespace Golib.C17
open Golib.Proto Golib.Utf8

def showRes : Option (List Nat) → String
  | none => "panic"
  | some bs => hex bs

def runOp (s : List Nat) (ts : List String) : String :=
  match ts with
  | ["sub", a, b] =>
    match a.toInt?, b.toInt? with
    | some a, some b => showRes (sub s a b)
    | _, _ => "bad-op"
  | ["mask", m, a, b] =>
    match unhex m, a.toInt?, b.toInt? with
    | some m, some a, some b => showRes (mask s m a b)
    | _, _, _ => "bad-op"
  | ["subd", n] =>
    match n.toInt? with
    | some n => showRes (subByDisplay s n)
    | none => "bad-op"
  | ["rev"] => showRes (rev s)
  | ["len"] => toString (len s)
  | ["ucfirst"] => showRes (ucFirst s)
  | ["lcfirst"] => showRes (lcFirst s)
  | ["c2s"] => showRes (camelToSnake s)
  | ["isident"] => showBool (isSnakeIdent s)
  | ["remove", set] =>
    match unhex set with
    | some set => let rs := runes set; showRes (removeRunes s fun r => rs.contains r)
    | none => "bad-op"
  | ["s2c", b] =>
    match parseBool? b with
    | some b => showRes (snakeToCamel s b)
    | none => "bad-op"
  | ["round", b] =>
    match parseBool? b with
    | some b => showRes ((snakeToCamel s b).bind camelToSnake)
    | none => "bad-op"
  | _ => "bad-op"

/-- Large subjects: every op by a linear-time evaluator that is proved equal to the cursor model
for EVERY subject and argument (`c17_large_eq_model`, `c17_snake_spec`, `c17_camel_spec`);
`len`, `subd`, `ucfirst`, `lcfirst` are linear in the cursor model itself. -/
def runOpL (s : List Nat) (ts : List String) : String :=
  match ts with
  | ["len"] => toString (len s)
  | ["subd", n] =>
    match n.toInt? with
    | some n => showRes (subByDisplay s n)
    | none => "bad-op"
  | ["ucfirst"] => showRes (ucFirst s)
  | ["lcfirst"] => showRes (lcFirst s)
  | ["sub", a, b] =>
    match a.toInt?, b.toInt? with
    | some a, some b => showRes (subF s a b)
    | _, _ => "bad-op"
  | ["mask", m, a, b] =>
    match unhex m, a.toInt?, b.toInt? with
    | some m, some a, some b => showRes (maskF s m a b)
    | _, _, _ => "bad-op"
  | ["rev"] => hex (revF s)
  | ["remove", set] =>
    match unhex set with
    | some set => let q := runes set; hex (removeF s fun r => q.contains r)
    | none => "bad-op"
  | ["s2c", b] =>
    match parseBool? b with
    | some b => hex (snakeB s.length s b false)
    | none => "bad-op"
  | ["c2s"] => hex (camelB s.length s false)
  | ["round", b] =>
    match parseBool? b with
    | some b => let c := snakeB s.length s b false; hex (camelB c.length c false)
    | none => "bad-op"
  | _ => "bad-op"

/-- One line of a history case. -/
def runOpH (ts : List String) : String :=
  match ts with
  | ["gc"] => "ok"                      -- the harness runs the garbage collector; no model state
  | "onbuf" :: _ :: h :: rest | "on" :: h :: rest =>   -- onbuf: subject = a view of a reused caller buffer
    match unhex h with
    | none => "bad-op"
    | some s =>
      match rest with
      | ["removepanic", set, nth] =>
        match unhex set, nth.toNat? with
        | some set, some nth =>
          if 1 ≤ nth ∧ nth ≤ runeCount s then "panic-recovered"
          else if s.length ≤ 512 then
            (let q := runes set; showRes (removeRunes s fun r => q.contains r))
          else runOpL s ["remove", hex set]
        | _, _ => "bad-op"
      | _ =>
        if s.length ≤ 512 then runOp s rest
        else runOpL s rest
  | _ => "bad-op"

/-- Entry point of the C17 section of the oracle: header tokens after `@ C17`. -/
def runCase (hdr : List String) (ops : List String) : List String :=
  match hdr with
  | ["s", h] =>
    match unhex h with
    | some s => "ok" :: ops.map fun l => runOp s (toks l)
    | none => "bad-op" :: ops.map fun _ => "bad-op"
  | ["L", h] =>
    match unhex h with
    | some s => "ok" :: ops.map fun l => runOpL s (toks l)
    | none => "bad-op" :: ops.map fun _ => "bad-op"
  | ["H"] => "ok" :: ops.map fun l => runOpH (toks l)
  | ["utf8"] => Tie.runCase ops
  | _ => "bad-op" :: ops.map fun _ => "bad-op"

end Golib.C17
