/-
C19 — oracle entry: the harness scripts played on the Limiter machine (`C19Lim`).

Header `@ C19 lim <limit>`; ops (one harness action each; the harness has ONE
submitting goroutine that performs the queued `Go` calls in order):
  go <id> <ending>                 submit task <id> (= number of tasks submitted so far); <ending> = how the
                                   function will end (`parseOutcome?`): ok | selfrec | panic <v> | repanic <v> |
                                   defpanic <v> | pnil | goexit | pgoexit <v>
  release <id>                     let running task <id> leave its function
  wait                             call Wait() in a new goroutine
  k                                number of tokens in the channel at quiescence
  waitt <ms>                       call Wait(<ms> milliseconds), ms > 0, and let it return
  sethandler <h>                   SetPanicHandler(handler number h) — later submissions use it
The answer to an op is the sequence of observable events it causes, in order
(`start i`, `finish i`, `handler v`, `waitret`), or `blocked` / `queued` / `waiting`
when nothing observable happens.  Internal steps (Add, Done, channel receive) are
performed eagerly — the scripts only observe at quiescence, where the real code has
performed them too.  Every step goes through `St.step`, i.e. only enabled steps of
the verified machine are taken; an event the machine cannot perform is answered
`not-enabled`.
-/
import Golib.Proto
import Golib.Model.C19Lim
import Golib.Model.C19Rec

namespace Golib.C19
open Golib.Proto

structure Player where
  s : St
  pending : List Nat := []     -- queued submissions (task indices), head = the one the submitter is blocked on

def advN (s : St) (i : Nat) : Nat → Option St
  | 0 => some s
  | n + 1 => match s.step (.adv i) with
    | some s' => advN s' i n
    | none => none

/-- Start pending submissions while a token is available. -/
def pump : Nat → Player → List String → Player × List String
  | 0, p, ev => (p, ev)
  | fuel + 1, p, ev =>
    match p.pending with
    | [] => (p, ev)
    | j :: rest =>
      match advN p.s j 4 with
      | some s' => pump fuel { s := s', pending := rest } (ev ++ ["start " ++ toString j])
      | none => (p, ev)

/-- Return every `Wait()` that can return. -/
def wake (p : Player) (ev : List String) : Player × List String :=
  (List.range p.s.waiters.length).foldl (fun (acc : Player × List String) j =>
    match acc.1.s.step (.waitRet j) with
    | some s' => ({ acc.1 with s := s' }, acc.2 ++ ["waitret"])
    | none => acc) (p, ev)

def showEvents (ev : List String) (dflt : String) : String :=
  if ev.isEmpty then dflt else " | ".intercalate ev

/-! Panic values travel as tokens: an integer `n`, `nil` (Go: `panic(nil)`, which the
handler sees as `*runtime.PanicNilError`), `err:n` (an `error`), `cus:n` (a value of a
harness-defined struct type), and the names in `specialVals` (typed nil pointer / map /
slice / func / chan, run-time errors from a nil-map write, an index out of range, a nil
dereference, a struct wrapping a nil error).  The machine carries them as integers through
the injective coding `n ↦ 4n`, `err:n ↦ 4n+1`, `cus:n ↦ 4n+2`, `specialVals[k] ↦ 4k+3`
(the machine never looks into a panic value). -/
def specialVals : List String :=
  ["nil", "tnp", "nmap", "nslice", "nfunc", "nchan", "rtmap", "rtidx", "rtnil", "wrapnil"]

def encVal? (s : String) : Option Int :=
  match specialVals.idxOf? s with
  | some k => some (4 * (k : Int) + 3)
  | none => match s.splitOn ":" with
    | ["err", n] => (fun (k : Nat) => 4 * (k : Int) + 1) <$> n.toNat?
    | ["cus", n] => (fun (k : Nat) => 4 * (k : Int) + 2) <$> n.toNat?
    | [n] => (fun (k : Int) => 4 * k) <$> n.toInt?
    | _ => none

def decVal (v : Int) : String :=
  if v % 4 = 3 then specialVals.getD (v / 4).toNat ("?" ++ toString v)
  else if v % 4 = 0 then toString (v / 4)
  else if v % 4 = 1 then "err:" ++ toString (v / 4)
  else if v % 4 = 2 then "cus:" ++ toString (v / 4)
  else "?" ++ toString v

/-- The scripted ways a submitted function ends, mapped to what `recover()` will see:
`ok` returns; `selfrec` panics and recovers by itself in a deferred function of its own, then
returns normally (nothing reaches `Recover`); `panic v`; `repanic v` panics, a deferred function
of its own recovers that and panics anew with `v`; `defpanic v` panics, and while that panic is
in flight a deferred function of its own panics with `v` (`recover()` reports the LAST panic);
`pnil` executes `panic(nil)` while the process runs with `GODEBUG=panicnil=1` (`recover()`
returns nil; under the Go ≥ 1.21 default the same statement is `panic nil`, whose value is a
`*runtime.PanicNilError`); `goexit` calls `runtime.Goexit()`; `pgoexit v` panics with `v` and a
deferred function of its own calls `runtime.Goexit()`, which aborts the panic. -/
def parseOutcome? : List String → Option Outcome
  | ["ok"] => some .ok
  | ["selfrec"] => some .ok
  | ["panic", v] => Outcome.panic <$> encVal? v
  | ["repanic", v] => Outcome.panic <$> encVal? v
  | ["defpanic", v] => Outcome.panic <$> encVal? v
  | ["pnil"] => some .panicNil
  | ["goexit"] => some .goexit
  | ["pgoexit", v] => (fun _ => Outcome.goexit) <$> encVal? v
  | _ => none

/-- Handler events name the handler that received the value when it is not handler 0
(the one the harness installs first): `handler <value>@<id>`. -/
def hidSuffix (hid : Nat) : String := if hid = 0 then "" else "@" ++ toString hid

def hvalStr (hid : Nat) : HVal → String
  | .val v => "handler " ++ decVal v ++ hidSuffix hid
  | .cleanupPanic => "handler cleanup-panic" ++ hidSuffix hid

/-- `<value>` or `<value>@<handler id>` -/
def parseHandled? (s : String) : Option (Int × Nat) :=
  match s.splitOn "@" with
  | [v] => (fun x => (x, 0)) <$> encVal? v
  | [v, h] => do
      let x ← encVal? v
      let h ← h.toNat?
      if h = 0 then none else pure (x, h)
  | _ => none

def playOp (p : Player) (ts : List String) : Player × String :=
  match ts with
  | "go" :: id :: o =>
    match id.toNat?, parseOutcome? o with
    | some id, some o =>
      if id ≠ p.s.tasks.length ∨ p.s.waiters.any (fun w => !w.returned) then (p, "bad-op") else
      match p.s.step (.submit o) with
      | none => (p, "not-enabled")
      | some s1 =>
        if !p.pending.isEmpty then ({ s := s1, pending := p.pending ++ [id] }, "queued") else
        let (p', ev) := pump 1 { s := s1, pending := [id] } []
        (p', showEvents ev "blocked")
    | _, _ => (p, "bad-op")
  | ["release", id] =>
    match id.toNat? with
    | none => (p, "bad-op")
    | some id =>
      match p.s.tasks[id]? with
      | none => (p, "bad-op")
      | some t =>
        if t.pc ≠ .running then (p, "bad-op") else
        -- fn leaves; outer deferred function: recover/handler; cleanup: Done, receive
        match advN p.s id 4 with
        | none => (p, "not-enabled")
        | some s' =>
          let hv := match s'.tasks[id]? with
            | some t' => (t'.handled.drop t.handled.length).map (hvalStr t'.hid)
            | none => []
          let ev := ["finish " ++ toString id] ++ hv
          let (p1, ev1) := pump (p.pending.length) { p with s := s' } ev
          let (p2, ev2) := wake p1 ev1
          (p2, showEvents ev2 "")
  | ["wait"] =>
    if !p.pending.isEmpty then (p, "bad-op") else
    match p.s.step .waitCall with
    | none => (p, "not-enabled")
    | some s' =>
      let (p', ev) := wake { p with s := s' } []
      (p', showEvents ev "waiting")
  | ["k"] => (p, toString p.s.k)
  | ["sethandler", h] =>
    -- SetPanicHandler(handler h) while the submitter is idle (a plain field store)
    match h.toNat? with
    | some h =>
      if !p.pending.isEmpty then (p, "bad-op") else
      match p.s.step (.setHandler h) with
      | some s' => ({ p with s := s' }, "ok")
      | none => (p, "not-enabled")
    | none => (p, "bad-op")
  | ["waitt", d] =>
    -- `Wait(d)`, d > 0 milliseconds, called and returned (idle or expired): no effect
    match d.toNat? with
    | some d => if d = 0 then (p, "bad-op") else
      match p.s.step .waitTimed with
      | some s' => ({ p with s := s' }, "timedwait")
      | none => (p, "not-enabled")
    | none => (p, "bad-op")
  | _ => (p, "bad-op")

def playOps : Player → List String → List String
  | _, [] => []
  | p, l :: rest =>
    let (p', o) := playOp p (toks l)
    o :: playOps p' rest

/-! ### Trace acceptance
Header `@ C19 trace <limit>`; one logged event per line, in the order the real run
logged them: `submit ok|panic v` (a `Go` call is issued), `start i`, `finish i`,
`handler v`, `waitcall`, `waitret`.  The acceptor answers `ok` if the machine can
perform the event after some internal steps, else `not-enabled` (state unchanged).
Internal steps are chosen angelically by `settle`: finished tasks run their
cleanup (Done, receive) as early as possible — that only enlarges the set of
enabled observable events, so a trace is rejected only if NO schedule of the
machine produces it. -/

/-- Let every task that has left its function and needs no further observable event
run to its exit (`recovering` with outcome `ok`, `cleanup`, `wgDone`). -/
def settle (s : St) : St :=
  (List.range s.tasks.length).foldl (fun s i =>
    match s.tasks[i]? with
    | some t =>
      match t.pc, t.outcome.recovered with
      | .recovering, none => (advN s i 3).getD s
      | .cleanup, _ => (advN s i 2).getD s
      | .wgDone, _ => (advN s i 1).getD s
      | _, _ => s
    | none => s) s

def findIdx? (ts : List Task) (p : Task → Bool) : Option Nat :=
  (List.range ts.length).find? fun i => match ts[i]? with | some t => p t | none => false

def acceptEv (s : St) (ts : List String) : Option St :=
  match ts with
  | "submit" :: o => do
      let o ← parseOutcome? o
      s.step (.submit o)
  | ["start", i] => do
      let i ← i.toNat?
      let t ← s.tasks[i]?
      if t.pc ≠ .new then none else advN (settle s) i 4
  | ["finish", i] => do
      let i ← i.toNat?
      let t ← s.tasks[i]?
      if t.pc ≠ .running then none else s.step (.adv i)
  | ["handler", v] => do
      let (v, h) ← parseHandled? v
      let i ← findIdx? s.tasks fun t => t.pc == .recovering && t.outcome == .panic v && t.hid == h
      s.step (.adv i)
  | ["sethandler", h] => do
      let h ← h.toNat?
      s.step (.setHandler h)
  | ["waitcall"] => s.step .waitCall
  | ["timedwait"] => s.step .waitTimed
  | ["waitret"] =>
      let s' := settle s
      (List.range s'.waiters.length).findSome? fun j => s'.step (.waitRet j)
  | _ => none

def acceptAll : St → List String → List String
  | _, [] => []
  | s, l :: rest =>
    match acceptEv s (toks l) with
    | some s' => "ok" :: acceptAll s' rest
    | none => "not-enabled" :: acceptAll s rest

/-! ### `Recover` used directly
Header `@ C19 rec`; op `rec <fn> <cleanup>…` with `<fn>`, `<cleanup>` ∈ `ok` | `p:<value token>` |
`pnil1` (`panic(nil)` under `GODEBUG=panicnil=1`) | `goexit`;
answer: `handled=[…] ran=[…]` (handler calls in order: `v:<token>` or `c:<token>@<index>`;
indices of the cleanups that were called), followed by ` goexit` when `Recover` did not return
to its caller because the goroutine was ended by `runtime.Goexit()`. -/

def parseRecTok? (s : String) : Option Outcome :=
  if s = "ok" then some .ok
  else if s = "pnil1" then some .panicNil
  else if s = "goexit" then some .goexit
  else match s.splitOn ":" with
    | "p" :: rest => Outcome.panic <$> encVal? (":".intercalate rest)
    | _ => none

def rvalStr : RVal → String
  | .val v => "v:" ++ decVal v
  | .cleanupPanic v i => "c:" ++ decVal v ++ "@" ++ toString i

def recOp (ts : List String) : String :=
  match ts with
  | "rec" :: fn :: cl =>
    match parseRecTok? fn, cl.mapM parseRecTok? with
    | some fn, some cl =>
      let r := recoverRun fn cl
      "handled=[" ++ " ".intercalate (r.handled.map rvalStr) ++ "] ran=" ++ showNats r.ran ++
        (if r.returns then "" else " goexit")
    | _, _ => "bad-op"
  | _ => "bad-op"

/-! ### Several Limiters in one script (wave 6, class 10)
Header `@ C19 multi <limit0> <limit1> …`; op `<index> <op of the single-limiter protocol>`.
Every Limiter is its own machine: an op of Limiter `i` is played on machine `i` and leaves
every other machine untouched (`playMulti_frame`) — there is no state shared between
`Limiter` values. -/

def playMultiOp (ps : List Player) (ts : List String) : List Player × String :=
  match ts with
  | idx :: rest =>
    match idx.toNat? with
    | some i =>
      match ps[i]? with
      | some p =>
        let r := playOp p rest
        (ps.set i r.1, r.2)
      | none => (ps, "bad-op")
    | none => (ps, "bad-op")
  | [] => (ps, "bad-op")

def playMulti : List Player → List String → List String
  | _, [] => []
  | ps, l :: rest =>
    let r := playMultiOp ps (toks l)
    r.2 :: playMulti r.1 rest

def runCase (hdr : List String) (ops : List String) : List String :=
  match hdr with
  | "multi" :: limits =>
    match limits.mapM String.toInt? with
    | some ls =>
      if ls.isEmpty then "bad-op" :: ops.map fun _ => "bad-op" else
      ("caps " ++ " ".intercalate (ls.map fun l => toString (limitOf l))) ::
        playMulti (ls.map fun l => { s := newLimiter l }) ops
    | none => "bad-op" :: ops.map fun _ => "bad-op"
  | ["rec"] => "ok" :: ops.map fun l => recOp (toks l)
  | ["trace", limit] =>
    match limit.toInt? with
    | some limit => ("cap " ++ toString (limitOf limit)) :: acceptAll (newLimiter limit) ops
    | none => "bad-op" :: ops.map fun _ => "bad-op"
  | ["lim", limit] =>
    match limit.toInt? with
    | some limit => ("cap " ++ toString (limitOf limit)) :: playOps { s := newLimiter limit } ops
    | none => "bad-op" :: ops.map fun _ => "bad-op"
  | _ => "bad-op" :: ops.map fun _ => "bad-op"

end Golib.C19
