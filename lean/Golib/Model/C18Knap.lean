/-
Model of `algz.Knapsack` (`/repo/algz/dp.go`), mirroring the Go code:

```go
dp := make([]knapsack[T], maxWeight+1)
var tmp []T
for _, item := range items {
    w := weightFunc(item); value := valueFunc(item)
    for i := maxWeight; i >= w; i-- {
        newScore := dp[i-w].score + value
        if newScore > dp[i].score {
            tmp = append(tmp[:0], dp[i-w].items...); tmp = append(tmp, item)
            dp[i].items = append(dp[i].items[:0], tmp...); dp[i].score = newScore
        } else if newScore == dp[i].score && breaker != nil {
            tmp = append(tmp[:0], dp[i-w].items...); tmp = append(tmp, item)
            if breaker(dp[i].items, tmp) { dp[i].items = append(dp[i].items[:0], tmp...); dp[i].score = newScore }
        }
    }
}
return dp[maxWeight].items
```

* a table cell is `(score, items)`; the table is a `List` indexed like the Go slice;
  an index out of range is `none` (= Go panic);
* the inner loop runs `i = maxWeight, …, w`; it is written with the counter
  `n = i - w` (so the cell read is `dp[n]`, the cell written `dp[w+n]`), counting down
  from `maxWeight + 1 - w` (truncated subtraction: no iteration when `w > maxWeight`);
* the tie-breaker is an arbitrary function of the two item lists (`none` = no breaker);
* `tmp` and the per-cell buffers are values here: every cell's slice is written only by
  `append(dp[i].items[:0], tmp...)`, i.e. into the cell's own (or a fresh) array, and
  `tmp` is read completely before the cell is written.
-/
namespace Golib.C18

abbrev Cell (α : Type) := Int × List α

section
variable {α : Type} (br : Option (List α → List α → Bool))

/-- One iteration of the inner loop for `i = w + n` (reads `dp[i-w] = dp[n]` and `dp[i]`). -/
def kStep (item : α) (w : Nat) (value : Int) (n : Nat) (dp : List (Cell α)) :
    Option (List (Cell α)) :=
  match dp[n]?, dp[w + n]? with
  | some src, some cur =>
    let newScore := src.1 + value
    if newScore > cur.1 then
      let tmp := src.2 ++ [item]
      some (dp.set (w + n) (newScore, tmp))
    else if newScore = cur.1 then
      match br with
      | none => some dp
      | some b =>
        let tmp := src.2 ++ [item]
        if b cur.2 tmp then some (dp.set (w + n) (newScore, tmp)) else some dp
    else some dp
  | _, _ => none

/-- `for i := w+n-1; i >= w; i--`. -/
def kInner (item : α) (w : Nat) (value : Int) : Nat → List (Cell α) → Option (List (Cell α))
  | 0, dp => some dp
  | n + 1, dp =>
    match kStep br item w value n dp with
    | none => none
    | some dp' => kInner item w value n dp'

variable (wf : α → Nat) (vf : α → Int) (W : Nat)

/-- The outer loop over the items. -/
def kItems : List α → List (Cell α) → Option (List (Cell α))
  | [], dp => some dp
  | x :: xs, dp =>
    match kInner br x (wf x) (vf x) (W + 1 - wf x) dp with
    | none => none
    | some dp' => kItems xs dp'

/-- `Knapsack(W, items, wf, vf, br…)` for `W ≥ 0` and non-negative weights. -/
def knapsack (items : List α) : Option (List α) :=
  match kItems br wf vf W items (List.replicate (W + 1) (0, [])) with
  | none => none
  | some dp => (dp[W]?).map (·.2)

end

/-- The Go entry point with `int` arguments.  A negative limit panics (`make` with a
negative length, or `dp[maxWeight]` on the empty table) and a negative weight panics at the
first inner iteration (`i - w > maxWeight`); since nothing else is observable before the
panic the whole call is `none`.  (This wrapper is exercised by the malformed stream of the
correspondence check.) -/
def knapsackGo {α : Type} (br : Option (List α → List α → Bool)) (wf vf : α → Int)
    (W : Int) (items : List α) : Option (List α) :=
  if W < 0 ∨ items.any (fun x => decide (wf x < 0)) then none
  else knapsack br (fun x => (wf x).toNat) vf W.toNat items

/-- Specification side (not a model of code): the best total value of a sub-selection of
`items` of total weight `≤ cap`, by "take it or leave it" recursion.  The driver answers
value-only `knapv` lines with it when the limit is too large to execute the table
(`Golib.C18.knapsack_value_eq_brute`: it IS the value of what `knapsackGo` returns). -/
def bruteOpt {α : Type} (wf vf : α → Int) : List α → Int → Int
  | [], _ => 0
  | x :: xs, cap =>
    let skip := bruteOpt wf vf xs cap
    if wf x ≤ cap then
      let take := vf x + bruteOpt wf vf xs (cap - wf x)
      if take > skip then take else skip
    else skip

end Golib.C18
