/-
Line-protocol helpers shared by every model driver (core-only: no Mathlib import,
so that `oracle` links as a `lean_exe`).

A *case* is a list of lines.  The first line is the header `@ Cxx <kind> args…`;
every following line is one operation.  A driver answers exactly one output line
per input line.  A driver never defaults: what it cannot parse is `bad-op`.
-/
namespace Golib.Proto

def toks (line : String) : List String :=
  (line.trimAscii.toString.splitOn " ").filter (· ≠ "")

def hexDigit? (c : Char) : Option Nat :=
  if '0' ≤ c ∧ c ≤ '9' then some (c.toNat - '0'.toNat)
  else if 'a' ≤ c ∧ c ≤ 'f' then some (c.toNat - 'a'.toNat + 10)
  else if 'A' ≤ c ∧ c ≤ 'F' then some (c.toNat - 'A'.toNat + 10)
  else none

/-- `"-"` is the empty byte string; otherwise an even number of hex digits. -/
def unhexAux : List Char → Option (List Nat)
  | [] => some []
  | [_] => none
  | a :: b :: rest => do
    let x ← hexDigit? a
    let y ← hexDigit? b
    let r ← unhexAux rest
    pure ((x * 16 + y) :: r)

def unhex (s : String) : Option (List Nat) :=
  if s = "-" then some [] else unhexAux s.toList

def hexChar (n : Nat) : Char :=
  if n < 10 then Char.ofNat ('0'.toNat + n) else Char.ofNat ('a'.toNat + (n - 10))

def hex (bs : List Nat) : String :=
  if bs.isEmpty then "-" else
  String.ofList (bs.flatMap fun b => [hexChar (b / 16 % 16), hexChar (b % 16)])

def showBool (b : Bool) : String := if b then "true" else "false"

def parseBool? (s : String) : Option Bool :=
  if s = "true" then some true else if s = "false" then some false else none

def showInts (xs : List Int) : String :=
  "[" ++ " ".intercalate (xs.map toString) ++ "]"

def showNats (xs : List Nat) : String :=
  "[" ++ " ".intercalate (xs.map toString) ++ "]"

/-- Parse a list of tokens as integers; `none` if any fails. -/
def ints? (ts : List String) : Option (List Int) := ts.mapM String.toInt?
def nats? (ts : List String) : Option (List Nat) := ts.mapM String.toNat?

end Golib.Proto
