/-
C13 helper lemmas, part 12: what the code does OUTSIDE the contract (as `container/list`, whose
node forms do not exist and whose `Init` on a non-empty list orphans its elements):

* a node-inserting form (`PushFrontNode`, `PushBackNode`, `InsertNodeBefore`, `InsertNodeAfter`)
  given a node that is STILL LINKED — in the receiver or in another list of the family — relinks
  it without unlinking it first: `e.list`/`len` are updated, the old neighbours keep pointing at
  `e`.  The result satisfies the representation invariant for NO assignment of sequences;
* `Init()` on a non-empty list leaves the nodes owned by a list of length 0: same;
* `SList.PushFrontNode` / `PushBackNode` given a node that is still linked (same or other list of
  the family): the node is reachable twice — a cycle or two lists sharing a suffix: same.

Guarded calls (`Remove`, `Move*`, `Insert*` with a foreign / stale mark) are NOT here: they are
proved no-ops in `c13_dlist_refines`.  Re-inserting a node after `Remove` is inside the contract
(`Detached`) and covered by the refinement theorems.
-/
import Golib.Proof.C13SFamily

set_option linter.unusedSimpArgs false
set_option linter.unusedVariables false

namespace Golib.C13

/-! ### DList -/

theorem length_eq_of_mem_iff {L L' : List Nat} (nd : L.Nodup) (nd' : L'.Nodup)
    (h : ∀ n, n ∈ L' ↔ n ∈ L) : L'.length = L.length :=
  ((List.perm_ext_iff_of_nodup nd' nd).2 h).length_eq

/-- `insert` never touches `list`/`len` except for `e.list = l; l.len++`. -/
theorem insert_fields {s s' : DSt} {l e : Nat} {at_ : Ptr} (h : s.insert l e at_ = some s') :
    s'.list = s.list.set e (some l) ∧ s'.len = s.len.set l (s.len.get l + 1) ∧ s'.nl = s.nl := by
  simp only [DSt.insert, DSt.linkAfter, Option.bind_eq_bind, Option.bind_eq_some_iff,
    Option.pure_def, Option.some.injEq] at h
  obtain ⟨s1, ⟨a, _, p, _, n, _, rfl⟩, rfl⟩ := h
  exact ⟨rfl, rfl, rfl⟩

/-- The primitive `insert(e, at)` of list `l` applied to a node that is still a member of some
list `k` of the family (`k = l` or not): no assignment of sequences satisfies the invariant
afterwards (`e` is owned by `l` now, but `k` still counts it / `l` counts it twice). -/
theorem insert_linked_breaks {s s' : DSt} {A : Nat → List Nat} {l k e : Nat} {at_ : Ptr}
    (h : GInv s A) (hl : l < s.nl) (hk : k < s.nl) (he : e ∈ A k)
    (hi : s.insert l e at_ = some s') : ¬ ∃ A', GInv s' A' := by
  rintro ⟨A', h'⟩
  obtain ⟨f1, f2, f3⟩ := insert_fields hi
  have hK := h.lists k hk
  have hL := h.lists l hl
  by_cases hkl : k = l
  · -- same list: membership of `l` is unchanged, `len` grew
    subst hkl
    have hL' := h'.lists k (by rw [f3]; exact hk)
    have hmem : ∀ n, n ∈ A' k ↔ n ∈ A k := by
      intro n
      rw [← hL'.owner n, ← hK.owner n, f1, PM.get_set]
      by_cases hne : n = e
      · subst hne; simp [(hK.owner n).2 he]
      · simp [hne]
    have := length_eq_of_mem_iff hK.nodup.of_cons hL'.nodup.of_cons hmem
    have h1 := hL'.len
    have h2 := hK.len
    rw [f2, IM.get_set] at h1
    simp only [if_true] at h1
    rw [h2, this] at h1
    omega
  · -- another list: `k` lost `e` (its owner pointer now says `l`) but still has the old `len`
    have hK' := h'.lists k (by rw [f3]; exact hk)
    have hmem : ∀ n, n ∈ A' k ↔ n ∈ (A k).erase e := by
      intro n
      rw [← hK'.owner n, List.Nodup.mem_erase_iff hK.nodup.of_cons, ← hK.owner n, f1, PM.get_set]
      by_cases hne : n = e
      · subst hne
        simp
        exact fun hh => hkl hh.symm
      · simp [hne]
    have := length_eq_of_mem_iff (hK.nodup.of_cons.erase e) hK'.nodup.of_cons hmem
    rw [List.length_erase_of_mem he] at this
    have h1 := hK'.len
    have h2 := hK.len
    rw [f2, IM.get_set] at h1
    simp only [hkl, if_false] at h1
    rw [h2, this] at h1
    have : 0 < (A k).length := List.length_pos_of_mem he
    omega

/-- All four node-inserting forms given a node that is still linked somewhere in the family. -/
theorem node_forms_linked_break {s : DSt} {A : Nat → List Nat} {l k e : Nat}
    (h : GInv s A) (hl : l < s.nl) (hk : k < s.nl) (he : e ∈ A k) :
    (∀ s', s.pushFrontNode l e = some s' → ¬ ∃ A', GInv s' A') ∧
    (∀ s', s.pushBackNode l e = some s' → ¬ ∃ A', GInv s' A') ∧
    (∀ mark s', mark ∈ A l → s.insertNodeBefore l e mark = some s' → ¬ ∃ A', GInv s' A') ∧
    (∀ mark s', mark ∈ A l → s.insertNodeAfter l e mark = some s' → ¬ ∃ A', GInv s' A') := by
  obtain ⟨g1, _, _, _, g5, _⟩ := lazyInit_spec h hl
  refine ⟨fun s' hs => ?_, fun s' hs => ?_, fun mark s' hm hs => ?_, fun mark s' hm hs => ?_⟩
  · exact insert_linked_breaks g1 (g5 ▸ hl) (g5 ▸ hk) he hs
  · exact insert_linked_breaks g1 (g5 ▸ hl) (g5 ▸ hk) he hs
  · have hg : ¬ (s.list.get mark ≠ some l) := by simp [((h.lists l hl).owner mark).2 hm]
    simp only [DSt.insertNodeBefore, hg, if_false] at hs
    exact insert_linked_breaks h hl hk he hs
  · have hg : ¬ (s.list.get mark ≠ some l) := by simp [((h.lists l hl).owner mark).2 hm]
    simp only [DSt.insertNodeAfter, hg, if_false] at hs
    exact insert_linked_breaks h hl hk he hs

/-- `Init()` on a non-empty list: its nodes stay owned by a list whose `len` is 0. -/
theorem init_nonempty_breaks {s : DSt} {A : Nat → List Nat} {l : Nat} (h : GInv s A) (hl : l < s.nl)
    (hne : A l ≠ []) : ¬ ∃ A', GInv (s.init l) A' := by
  rintro ⟨A', h'⟩
  obtain ⟨x, xs, hL⟩ := List.exists_cons_of_ne_nil hne
  have hL' := h'.lists l (show l < (s.init l).nl from hl)
  have hx : x ∈ A' l := by
    rw [← hL'.owner x]
    show s.list.get x = some l
    exact ((h.lists l hl).owner x).2 (by rw [hL]; simp)
  have h1 := hL'.len
  simp only [DSt.init, IM.get_set, if_true] at h1
  have : 0 < (A' l).length := List.length_pos_of_mem hx
  omega

/-! ### SList -/

/-- A chain that reaches `e` after the prefix `P` and a chain from the same start to nil: the
second one passes through `e`. -/
theorem chain_passes {nx : PM} {e : Nat} : ∀ (P : List Nat) (p : Ptr) (L : List Nat),
    ChainTo nx p P (some e) → ChainTo nx p L none → e ∈ L := by
  intro P
  induction P with
  | nil =>
    intro p L h1 h2
    simp only [ChainTo] at h1
    subst h1
    cases L with
    | nil => simp [ChainTo] at h2
    | cons x xs => simp only [ChainTo, Option.some.injEq] at h2; simp [h2.1]
  | cons y P' ih =>
    intro p L h1 h2
    simp only [ChainTo] at h1
    cases L with
    | nil => simp only [ChainTo] at h2; rw [h1.1] at h2; cases h2
    | cons x xs =>
      simp only [ChainTo] at h2
      have : x = y := by rw [h1.1] at h2; exact (Option.some.inj h2.1).symm
      subst this
      exact List.mem_cons_of_mem _ (ih _ xs h1.2 h2.2)

/-- `PushFrontNode(e)` on list `l` of a family, for a node that is still linked in some list `k`
(`k = l` or not): `e` is reachable twice afterwards — a cycle through `e` (same list) or two lists
sharing `e` — so no assignment of sequences satisfies the family invariant. -/
theorem spushFrontNode_linked_breaks {F : SFam} {a : FA} {l k e : Nat} (h : FAbs F a) (hl : l < a.nl)
    (hk : k < a.nl) (he : e ∈ a.seq k) :
    ¬ ∃ a' : FA, a'.nl = a.nl ∧ FAbs (F.put l ((F.view l).pushFrontNode e)) a' := by
  rintro ⟨a', hnl, h'⟩
  have hl' : l < a'.nl := hnl ▸ hl
  have hk' : k < a'.nl := hnl ▸ hk
  let s1 := (F.view l).pushFrontNode e
  have fr := pushFrontNode_frame (F.view l) e
  have hnext : ∀ n, n ≠ e → s1.next.get n = F.next.get n := fun n hn => fr.2.2 n hn
  have hhead : s1.head = some e := by
    simp only [s1, SSt.pushFrontNode]; split <;> rfl
  have hnexte : s1.next.get e = (F.view l).head := by
    simp only [s1, SSt.pushFrontNode]; split <;> simp [PM.get_set]
  -- the chain of `k` up to `e`, in the old memory
  obtain ⟨P, Q, e1, hP⟩ := split_of_mem he
  have hck := (h.lists k hk).chain
  rw [e1] at hck
  have hpre : ChainTo F.next (F.hd.get k) P (some e) := (chainTo_mid hck).1
  have hpre' : ChainTo s1.next (F.hd.get k) P (some e) :=
    chainTo_frame (fun y hy => hnext y (fun hh => hP (hh ▸ hy))) hpre
  have hvl : (F.put l s1).view l = s1 := view_put_same F l s1
  have hLl := (h'.lists l hl').chain
  rw [hvl, hhead] at hLl
  by_cases hkl : k = l
  · -- same list: after `e` the chain runs through the old list and reaches `e` again
    subst hkl
    cases hS : a'.seq k with
    | nil => rw [hS] at hLl; simp [ChainTo] at hLl
    | cons x xs =>
      rw [hS] at hLl
      simp only [ChainTo, Option.some.injEq] at hLl
      have hxe : x = e := hLl.1.symm
      subst hxe
      have hrest := hLl.2
      rw [hnexte] at hrest
      have : x ∈ xs := chain_passes P _ xs (by simpa [SFam.view] using hpre') hrest
      have nd := (h'.lists k hl').nodup
      rw [hS] at nd
      exact (List.nodup_cons.1 nd).1 this
  · -- another list: `e` is the head of `l` and still in the chain of `k`
    have m1 : e ∈ a'.seq l := by
      cases hS : a'.seq l with
      | nil => rw [hS] at hLl; simp [ChainTo] at hLl
      | cons x xs =>
        rw [hS] at hLl; simp only [ChainTo, Option.some.injEq] at hLl; simp [hLl.1]
    have hKc := (h'.lists k hk').chain
    have hvk : ((F.put l s1).view k).head = F.hd.get k := by
      simp [SFam.view, SFam.put, PM.get_set, hkl]
    have hvkn : ((F.put l s1).view k).next = s1.next := rfl
    rw [hvk, hvkn] at hKc
    have m2 : e ∈ a'.seq k := chain_passes P _ _ hpre' hKc
    exact h'.disj k l hk' hl' hkl e m2 m1

/-- Determinism of chains: the chain to nil decomposes at the node the prefix chain reaches. -/
theorem chain_prefix {nx : PM} {e : Nat} : ∀ (P : List Nat) (p : Ptr) (L : List Nat),
    ChainTo nx p P (some e) → ChainTo nx p L none →
    ∃ R, L = P ++ e :: R ∧ ChainTo nx (nx.get e) R none := by
  intro P
  induction P with
  | nil =>
    intro p L h1 h2
    simp only [ChainTo] at h1
    subst h1
    cases L with
    | nil => simp [ChainTo] at h2
    | cons x xs =>
      simp only [ChainTo, Option.some.injEq] at h2
      obtain ⟨rfl, h3⟩ := h2
      exact ⟨xs, rfl, h3⟩
  | cons y P' ih =>
    intro p L h1 h2
    simp only [ChainTo] at h1
    cases L with
    | nil => simp only [ChainTo] at h2; rw [h1.1] at h2; cases h2
    | cons x xs =>
      simp only [ChainTo] at h2
      have : x = y := by rw [h1.1] at h2; exact (Option.some.inj h2.1).symm
      subst this
      obtain ⟨R, e1, h3⟩ := ih _ xs h1.2 h2.2
      exact ⟨R, by rw [e1]; rfl, h3⟩

/-- `PushBackNode(e)` on list `l` of a family, for a node that is still linked in some list `k`
(`k = l` or not): `tail.next = e` without unlinking `e` — a cycle through `e` (same list) or `l`
running into the rest of `k` — so no assignment of sequences satisfies the family invariant. -/
theorem spushBackNode_linked_breaks {F : SFam} {a : FA} {l k e : Nat} {s1 : SSt} (h : FAbs F a)
    (hl : l < a.nl) (hk : k < a.nl) (he : e ∈ a.seq k) (hp : (F.view l).pushBackNode e = some s1) :
    ¬ ∃ a' : FA, a'.nl = a.nl ∧ FAbs (F.put l s1) a' := by
  rintro ⟨a', hnl, h'⟩
  have hl' : l < a'.nl := hnl ▸ hl
  have hk' : k < a'.nl := hnl ▸ hk
  have hIl := h.lists l hl
  obtain ⟨P, Q, e1, hP⟩ := split_of_mem he
  have hck := (h.lists k hk).chain
  rw [e1] at hck
  obtain ⟨hpre, hsuf⟩ := chainTo_mid hck
  have hvl : (F.put l s1).view l = s1 := view_put_same F l s1
  have hLl := (h'.lists l hl').chain
  rw [hvl] at hLl
  have ndl' := (h'.lists l hl').nodup
  rcases eq_nil_or_snoc' (a.seq l) with h0 | ⟨L0, t, h0⟩
  · -- empty receiver: `head = e`; `e` is still in the chain of `k ≠ l`
    have hlen : (F.view l).len = 0 := by rw [hIl.len, h0]; rfl
    simp [SSt.pushBackNode, hlen] at hp
    have hhd1 : s1.head = some e := by rw [← hp]
    have hnx1 : s1.next = F.next := by rw [← hp]; rfl
    have hkl : k ≠ l := by intro hh; subst hh; rw [h0] at he; simp at he
    have m1 : e ∈ a'.seq l := by
      rw [hhd1] at hLl
      cases hS : a'.seq l with
      | nil => rw [hS] at hLl; simp [ChainTo] at hLl
      | cons x xs => rw [hS] at hLl; simp only [ChainTo, Option.some.injEq] at hLl; simp [hLl.1]
    have hKc := (h'.lists k hk').chain
    have hvk : ((F.put l s1).view k).head = F.hd.get k := by simp [SFam.view, SFam.put, PM.get_set, hkl]
    have hvkn : ((F.put l s1).view k).next = F.next := hnx1
    rw [hvk, hvkn] at hKc
    exact h'.disj k l hk' hl' hkl e (chain_passes P _ _ hpre hKc) m1
  · -- `tail.next = e`
    have htl : (F.view l).tail = some t := by rw [hIl.tail, h0]; simp
    have hlen : ¬ ((F.view l).len = 0) := by rw [hIl.len, h0]; simp; omega
    simp [SSt.pushBackNode, hlen, htl] at hp
    have hnx1 : s1.next = F.next.set t (some e) := by rw [← hp]; rfl
    have hnext : ∀ n, n ≠ t → s1.next.get n = F.next.get n := by
      intro n hn; rw [hnx1]; simp [PM.get_set, hn]
    have hnt : s1.next.get t = some e := by rw [hnx1]; simp [PM.get_set]
    have hhd : s1.head = F.hd.get l := by rw [← hp]; rfl
    have hcl := hIl.chain
    rw [h0] at hcl
    obtain ⟨hcl0, hcl1⟩ := chainTo_snoc hcl
    have ndl := hIl.nodup
    rw [h0] at ndl
    have htL0 : t ∉ L0 := by
      rw [List.nodup_append] at ndl; exact fun hh => ndl.2.2 t hh t (by simp) rfl
    -- the receiver's new chain reaches `e` after its old nodes
    have hreach : ChainTo s1.next (F.hd.get l) (L0 ++ [t]) (some e) := by
      rw [chainTo_append]
      refine ⟨some t, chainTo_frame (fun y hy => hnext y (fun hh => htL0 (hh ▸ hy))) hcl0, ?_⟩
      simp [ChainTo, hnt]
    rw [hhd] at hLl
    by_cases hkl : k = l
    · -- same list: the chain passes `e`, runs on to the old tail and reaches `e` again
      subst hkl
      have e1' : L0 ++ [t] = P ++ e :: Q := by rw [← h0, e1]
      have hpre' : ChainTo s1.next (F.hd.get k) P (some e) := by
        refine chainTo_frame (fun y hy => hnext y (fun hh => ?_)) hpre
        -- `t` is the last node, so it is not in the proper prefix `P` unless `e` comes after it
        subst hh
        have : (P ++ e :: Q).getLast? = some y := by rw [← e1']; simp
        rw [List.getLast?_append] at this
        have hnd : (P ++ e :: Q).Nodup := by rw [← e1']; exact ndl
        cases hq : (e :: Q).getLast? with
        | none => simp at hq
        | some z =>
          rw [hq] at this; simp at this; subst this
          have hz : z ∈ e :: Q := List.mem_of_getLast? hq
          rw [List.nodup_append] at hnd
          exact hnd.2.2 z hy z hz rfl
      obtain ⟨R, eR, hR⟩ := chain_prefix P _ _ hpre' hLl
      -- from `e` onwards: the old suffix, whose last node now points at `e`
      have hagain : e ∈ R := by
        by_cases het : e = t
        · subst het
          rw [hnt] at hR
          exact chain_passes [] _ _ (by simp [ChainTo]) hR
        · have hQne : Q ≠ [] := by
            intro hq; rw [hq] at e1'
            have := congrArg List.getLast? e1'
            simp at this; exact het this.symm
          obtain ⟨Q0, w, hQ⟩ : ∃ Q0 w, Q = Q0 ++ [w] := by
            rcases eq_nil_or_snoc' Q with hq | hq
            · exact absurd hq hQne
            · exact hq
          have hw : w = t := by
            rw [hQ] at e1'
            have hre : P ++ e :: (Q0 ++ [w]) = (P ++ e :: Q0) ++ [w] := by simp
            rw [hre] at e1'
            have := congrArg List.getLast? e1'
            simp only [List.getLast?_append, List.getLast?_singleton, Option.some_or] at this
            exact (Option.some.inj this).symm
          subst hw
          rw [hQ] at hsuf hck
          have hnd : (P ++ e :: (Q0 ++ [w])).Nodup := by rw [← hQ, ← e1']; exact ndl
          have hwQ0 : w ∉ Q0 := by
            simp [List.nodup_append, List.nodup_cons] at hnd; grind
          obtain ⟨hs0, _⟩ := chainTo_snoc hsuf
          have : ChainTo s1.next (s1.next.get e) (Q0 ++ [w]) (some e) := by
            rw [hnext e het, chainTo_append]
            refine ⟨some w, chainTo_frame (fun y hy => hnext y (fun hh => hwQ0 (hh ▸ hy))) hs0, ?_⟩
            simp [ChainTo, hnt]
          exact chain_passes _ _ _ this hR
      rw [eR] at ndl'
      simp [List.nodup_append, List.nodup_cons] at ndl'
      exact ndl'.2.1.1 hagain
    · -- another list: `e` is reached from `l` and still in the chain of `k`
      have m1 : e ∈ a'.seq l := chain_passes _ _ _ hreach hLl
      have hKc := (h'.lists k hk').chain
      have hvk : ((F.put l s1).view k).head = F.hd.get k := by
        simp [SFam.view, SFam.put, PM.get_set, hkl]
      have hvkn : ((F.put l s1).view k).next = s1.next := rfl
      rw [hvk, hvkn] at hKc
      have htk : t ∉ a.seq k := by
        have : t ∈ a.seq l := by rw [h0]; simp
        exact h.disj l k hl hk (Ne.symm hkl) t this
      have hpre' : ChainTo s1.next (F.hd.get k) P (some e) :=
        chainTo_frame (fun y hy => hnext y (fun hh => htk (by rw [e1, ← hh]; simp [hy]))) hpre
      exact h'.disj k l hk' hl' hkl e (chain_passes P _ _ hpre' hKc) m1

end Golib.C13
