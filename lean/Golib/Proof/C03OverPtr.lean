/-
C03 over the POINTER-level skip list: the RoaringBitmap code run on the heap model of
`Model/C02Ptr.lean` (`GetNode(high)` answers a node id, `node.Value()` reads `nodes[id].val`,
`node.SetValue(nc)` writes it, `Set/Get/Remove` splice real `next` pointers, `Head()/Next()`
follow `next[0]`) behaves exactly like the same code on the list-level skip-list model
(`RBS`, `Proof/C03OverSkip.lean`) and hence like the association-list model `RB`.

Composition only: the C02 pointer refinement (`Abs`, `AbsF.getNode_sim`, `AbsF.get_sim`,
`AbsF.head_sim`, `AbsF.nodeNext_sim`, `set_ptr`, `remove_ptr`, `setNodeValue_ptr`) under the
simulation `Rel` of `C03OverSkip.lean`.
-/
import Golib.Proof.C03OverSkip
import Golib.Proof.C02PtrRefine

set_option linter.unusedSimpArgs false
set_option linter.unusedVariables false

namespace Golib.C03
open Golib.C02 (SL PSL Cfg Good Inv toMap chain0 getVal Abs AbsF WeakCmp)

/-- `RoaringBitmap{containers, len}` over the pointer-level skip list. -/
structure RBP where
  sl : PSL Nat Container
  len : Int

/-- The zero value `var r RoaringBitmap`. -/
def RBP.zero : RBP := ⟨PSL.zero, 0⟩

/-- `Add(num)`; `w` = the word the skip list's random source returns if `Set` inserts a node. -/
def RBP.add (r : RBP) (num w : Nat) : Option (RBP × Bool) :=
  let high := num >>> 16
  let low := num % 65536
  match r.sl.getNode cfgRB high with                 -- node := r.containers.GetNode(high)
  | none => none
  | some none =>
    match arrAdd #[] low with                        -- ac := &arrayContainer{}; ac.Add(low, buf)
    | none => none
    | some (ac, _, _) =>
      match r.sl.set cfgRB high (.arr ac) 0 w with   -- r.containers.Set(high, ac)
      | none => none
      | some (sl', _) => some (⟨sl', r.len + 1⟩, true)
  | some (some id) =>
    match r.sl.nodes[id]? with                       -- node.Value()
    | none => none
    | some nd =>
      match nd.val.add low with
      | none => none
      | some (_, nc, ok) =>                          -- node.SetValue(nc)
        some (⟨r.sl.setNodeValue id nc, if ok then r.len + 1 else r.len⟩, ok)

/-- `Remove(num)`. -/
def RBP.remove (r : RBP) (num : Nat) : Option (RBP × Bool) :=
  let high := num >>> 16
  let low := num % 65536
  match r.sl.get cfgRB high with                     -- c, ok := r.containers.Get(high)
  | none => none
  | some (_, false) => some (r, false)
  | some (c, true) =>
    match c.remove low with
    | none => none
    | some (c', ok) =>
      match r.sl.getNode cfgRB high with             -- the node whose value `c` points to
      | none => none
      | some none => none
      | some (some id) =>
        let sl1 := r.sl.setNodeValue id c'
        if ok then
          if c'.len == 0 then
            match sl1.remove cfgRB high with         -- r.containers.Remove(high)
            | none => none
            | some (sl2, _, _) => some (⟨sl2, r.len - 1⟩, true)
          else some (⟨sl1, r.len - 1⟩, true)
        else some (⟨sl1, r.len⟩, false)

/-- `Contains(num)`. -/
def RBP.contains (r : RBP) (num : Nat) : Option Bool :=
  let high := num >>> 16
  let low := num % 65536
  match r.sl.get cfgRB high with
  | none => none
  | some (_, false) => some false
  | some (c, true) => c.contains low

/-- `for node != nil { (node.Key(), node.Value()); node = node.Next() }` through node pointers. -/
def nodesLoopP (p : PSL Nat Container) : Nat → Option Nat → Option OMap
  | _, none => some []
  | 0, some _ => none
  | fuel + 1, some id =>
    match p.nodes[id]? with
    | none => none
    | some nd =>
      match p.nodeNext id with
      | none => none
      | some nx => (nodesLoopP p fuel nx).map ((nd.key, nd.val) :: ·)

/-- The bucket chain that `Range`, `All` and `Iter` walk: `node := Head()`, then `node.Next()`
until nil, at most `Len()+1` rounds. -/
def RBP.nodes (r : RBP) : Option OMap :=
  match r.sl.headNode with
  | none => none
  | some h => nodesLoopP r.sl (r.sl.len.toNat + 1) h

/-- The bitmap over the list-level skip list and the one over the heap are in the same state. -/
def RelP (rs : RBS) (rp : RBP) : Prop := Abs rp.sl rs.sl ∧ rp.len = rs.len

theorem relP_zero : RelP RBS.zero RBP.zero := ⟨Golib.C02.abs_zero, rfl⟩

theorem cfgRB_weak : WeakCmp cfgRB.cmp := cfgRB_total.toWeak

/-! ### the simulation, call by call -/

theorem add_simP {rs : RBS} {rp : RBP} (h : RelP rs rp) (hg : Good cfgRB rs.sl) (x w : Nat) {rs' : RBS}
    {ok : Bool} (ha : rs.add x w = some (rs', ok)) : ∃ rp', rp.add x w = some (rp', ok) ∧ RelP rs' rp' := by
  obtain ⟨hab, hlen⟩ := h
  obtain ⟨f, haf⟩ := hab
  have hok := hg.rdOk cfgRB_weak
  unfold RBS.add at ha
  unfold RBP.add
  dsimp only at ha ⊢
  cases hn : rs.sl.getNode cfgRB (x >>> 16) with
  | none => rw [hn] at ha; cases ha
  | some r =>
    rw [hn] at ha
    rw [haf.getNode_sim hok cfgRB _ hn]
    cases r with
    | none =>
      simp only [Option.map_none] at ha ⊢
      cases harr : arrAdd #[] (x % 65536) with
      | none => rw [harr] at ha; cases ha
      | some t =>
        obtain ⟨ac, t2, t3⟩ := t
        rw [harr] at ha
        simp only [] at ha ⊢
        cases hs : rs.sl.set cfgRB (x >>> 16) (.arr ac) 0 w with
        | none => rw [hs] at ha; cases ha
        | some sb =>
          obtain ⟨sl', b⟩ := sb
          rw [hs] at ha
          simp only [Option.some.injEq, Prod.mk.injEq] at ha
          obtain ⟨rfl, rfl⟩ := ha
          obtain ⟨p', h1, h2⟩ := Golib.C02.set_ptr cfgRB cfgRB_weak ⟨f, haf⟩ hg _ _ 0 w hs
          rw [h1]
          exact ⟨⟨p', rp.len + 1⟩, rfl, h2, by simp only [hlen]⟩
    | some n =>
      simp only [Option.map_some] at ha ⊢
      have hnm := Golib.C02.getNode_mem_chain0 cfgRB cfgRB_weak rfl hg hn
      obtain ⟨nd, nx, n1, _, _, n4⟩ := haf.node0 hnm
      rw [n4] at ha
      rw [n1]
      simp only [] at ha ⊢
      cases hadd : nd.val.add (x % 65536) with
      | none => rw [hadd] at ha; cases ha
      | some t =>
        obtain ⟨t1, nc, ok'⟩ := t
        rw [hadd] at ha
        simp only [Option.some.injEq, Prod.mk.injEq] at ha ⊢
        obtain ⟨rfl, rfl⟩ := ha
        have hi := hg.chain0_zero hnm
        refine ⟨_, ⟨rfl, rfl⟩, ⟨f, Golib.C02.setNodeValue_ptr haf hi hnm nc⟩, ?_⟩
        simp only [hlen]

theorem remove_simP {rs : RBS} {rp : RBP} (h : RelP rs rp) (hg : Good cfgRB rs.sl) (x : Nat) {rs' : RBS}
    {ok : Bool} (ha : rs.remove x = some (rs', ok)) : ∃ rp', rp.remove x = some (rp', ok) ∧ RelP rs' rp' := by
  obtain ⟨hab, hlen⟩ := h
  obtain ⟨f, haf⟩ := hab
  have hok := hg.rdOk cfgRB_weak
  unfold RBS.remove at ha
  unfold RBP.remove
  dsimp only at ha ⊢
  cases hget : rs.sl.get cfgRB (x >>> 16) with
  | none => rw [hget] at ha; cases ha
  | some cb =>
    obtain ⟨c, b⟩ := cb
    rw [hget] at ha
    rw [haf.get_sim hok cfgRB _ hget]
    cases b with
    | false =>
      simp only [Option.some.injEq, Prod.mk.injEq] at ha ⊢
      obtain ⟨rfl, rfl⟩ := ha
      exact ⟨_, ⟨rfl, rfl⟩, ⟨f, haf⟩, hlen⟩
    | true =>
      simp only [] at ha ⊢
      cases hrem : c.remove (x % 65536) with
      | none => rw [hrem] at ha; cases ha
      | some t =>
        obtain ⟨c', ok'⟩ := t
        rw [hrem] at ha
        simp only [] at ha ⊢
        cases hn : rs.sl.getNode cfgRB (x >>> 16) with
        | none => rw [hn] at ha; cases ha
        | some r =>
          rw [hn] at ha
          rw [haf.getNode_sim hok cfgRB _ hn]
          cases r with
          | none => cases ha
          | some n =>
            simp only [Option.map_some] at ha ⊢
            have hnm := Golib.C02.getNode_mem_chain0 cfgRB cfgRB_weak rfl hg hn
            have hi := hg.chain0_zero hnm
            have hsv := Golib.C02.setNodeValue_ptr haf hi hnm c'
            -- the list-level state after `SetValue` is reachable
            have hg1 : Good cfgRB (rs.sl.setNodeValue n c') := by
              have h1 := sl_getNode hg (x >>> 16)
              rw [hn] at h1
              simp only [Option.some.injEq] at h1
              by_cases hs : (omGet (toMap rs.sl) (x >>> 16)).isSome = true
              · rw [if_pos hs] at h1
                simp only [Option.some.injEq] at h1
                subst h1
                exact (sl_setNodeValue hg hs c').1
              · rw [if_neg hs] at h1; cases h1
            cases ok' with
            | false =>
              simp only [Bool.false_eq_true, if_false, Option.some.injEq, Prod.mk.injEq] at ha ⊢
              obtain ⟨rfl, rfl⟩ := ha
              exact ⟨_, ⟨rfl, rfl⟩, ⟨f, hsv⟩, hlen⟩
            | true =>
              simp only [if_true] at ha ⊢
              by_cases hz : (c'.len == 0) = true
              · simp only [hz, if_true] at ha ⊢
                cases hr : (rs.sl.setNodeValue n c').remove cfgRB (x >>> 16) with
                | none => rw [hr] at ha; cases ha
                | some t =>
                  obtain ⟨sl2, v, b2⟩ := t
                  rw [hr] at ha
                  simp only [Option.some.injEq, Prod.mk.injEq] at ha
                  obtain ⟨rfl, rfl⟩ := ha
                  obtain ⟨p', q1, q2⟩ := Golib.C02.remove_ptr cfgRB cfgRB_weak ⟨f, hsv⟩ hg1 _ hr
                  rw [q1]
                  exact ⟨⟨p', rp.len - 1⟩, rfl, q2, by simp only [hlen]⟩
              · simp only [hz, Bool.false_eq_true, if_false, Option.some.injEq, Prod.mk.injEq] at ha ⊢
                obtain ⟨rfl, rfl⟩ := ha
                exact ⟨_, ⟨rfl, rfl⟩, ⟨f, hsv⟩, by simp only [hlen]⟩

theorem contains_simP {rs : RBS} {rp : RBP} (h : RelP rs rp) (hg : Good cfgRB rs.sl) (x : Nat) :
    rp.contains x = rs.contains x := by
  obtain ⟨⟨f, haf⟩, _⟩ := h
  have hok := hg.rdOk cfgRB_weak
  unfold RBS.contains RBP.contains
  dsimp only
  have hget := sl_get hg (x >>> 16)
  rw [haf.get_sim hok cfgRB _ hget, hget]
  cases omGet (toMap rs.sl) (x >>> 16) <;> rfl

theorem nodesLoop_simP {f : Nat → Nat} {p : PSL Nat Container} {s : SL Nat Container} (haf : AbsF f p s) :
    ∀ (fuel : Nat) (st : Option Nat) (r : OMap), nodesLoop s fuel st = some r →
      nodesLoopP p fuel (st.map f) = some r := by
  intro fuel
  induction fuel with
  | zero =>
    intro st r h
    cases st with
    | none => simpa [nodesLoop, nodesLoopP] using h
    | some n => simp [nodesLoop] at h
  | succ fuel ih =>
    intro st r h
    cases st with
    | none => simpa [nodesLoop, nodesLoopP] using h
    | some n =>
      unfold nodesLoop at h
      cases hv : getVal s.vals n with
      | none => rw [hv] at h; cases h
      | some c =>
        rw [hv] at h
        simp only [] at h
        cases hnx : s.nodeNext n with
        | none => rw [hnx] at h; cases h
        | some nx =>
          rw [hnx] at h
          simp only [] at h
          obtain ⟨q1, hnm⟩ := haf.nodeNext_sim hnx
          obtain ⟨nd, _, n1, n2, _, n4⟩ := haf.node0 hnm
          rw [hv] at n4
          simp only [Option.some.injEq] at n4
          cases hl : nodesLoop s fuel nx with
          | none => rw [hl] at h; cases h
          | some r' =>
            rw [hl] at h
            simp only [Option.map_some, Option.some.injEq] at h
            subst h
            simp only [Option.map_some]
            unfold nodesLoopP
            simp only [n1, q1, ih nx r' hl, Option.map_some, n2, ← n4]

theorem nodes_simP {rs : RBS} {rp : RBP} (h : RelP rs rp) {r : OMap} (hn : rs.nodes = some r) :
    rp.nodes = some r := by
  obtain ⟨⟨f, haf⟩, _⟩ := h
  unfold RBS.nodes at hn
  unfold RBP.nodes
  cases hh : rs.sl.head with
  | none => rw [hh] at hn; cases hn
  | some hd =>
    rw [hh] at hn
    simp only [] at hn
    rw [haf.head_sim hh, haf.len]
    exact nodesLoop_simP haf _ _ _ hn

/-! ### whole call sequences -/

/-- One call on the bitmap over the pointer-level skip list. -/
def RBP.step (rp : RBP) : SOp → Option (RBP × Bool)
  | .add x w => rp.add x w
  | .remove x => rp.remove x
  | .contains x => (rp.contains x).map fun b => (rp, b)

def RBP.run : RBP → List SOp → Option (RBP × List Bool)
  | rp, [] => some (rp, [])
  | rp, op :: ops =>
    match rp.step op with
    | none => none
    | some (rp', b) => (RBP.run rp' ops).map fun (rp'', bs) => (rp'', b :: bs)

theorem step_over_ptr {rs : RBS} {rp : RBP} (h : RelP rs rp) (hg : Good cfgRB rs.sl) (op : SOp)
    {rs' : RBS} {b : Bool} (hs : rs.step op = some (rs', b)) :
    ∃ rp', rp.step op = some (rp', b) ∧ RelP rs' rp' := by
  cases op with
  | add x w => exact add_simP h hg x w hs
  | remove x => exact remove_simP h hg x hs
  | contains x =>
    simp only [RBS.step] at hs
    cases hc : rs.contains x with
    | none => rw [hc] at hs; cases hs
    | some b' =>
      rw [hc] at hs
      simp only [Option.map_some, Option.some.injEq, Prod.mk.injEq] at hs
      obtain ⟨rfl, rfl⟩ := hs
      exact ⟨rp, by simp only [RBP.step, contains_simP h hg x, hc, Option.map_some], h⟩

/-- The three levels run in lockstep. -/
theorem run_over_ptr : ∀ (ops : List SOp) {r : RB} {rs : RBS} {rp : RBP}, Rel r rs → RelP rs rp → r.Inv →
    (∀ op ∈ ops, op.arg < 4294967296) →
    ∃ r' rs' rp' outs, RB.runS r ops = some (r', outs) ∧ RBS.run rs ops = some (rs', outs) ∧
      RBP.run rp ops = some (rp', outs) ∧ Rel r' rs' ∧ RelP rs' rp' ∧ r'.Inv := by
  intro ops
  induction ops with
  | nil => intro r rs rp h hp hi _; exact ⟨r, rs, rp, [], rfl, rfl, rfl, h, hp, hi⟩
  | cons op ops ih =>
    intro r rs rp h hp hi hx
    obtain ⟨r1, rs1, b, h1, h2, h3, h4⟩ := step_over_skip h hi op (hx op (by simp))
    obtain ⟨rp1, g1, g2⟩ := step_over_ptr hp h.2.2 op h2
    obtain ⟨r2, rs2, rp2, outs, h5, h6, h7, h8, h9, h10⟩ := ih h3 g2 h4 (fun o ho => hx o (by simp [ho]))
    refine ⟨r2, rs2, rp2, b :: outs, ?_, ?_, ?_, h8, h9, h10⟩
    · simp only [RB.runS, h1, h5, Option.map_some]
    · simp only [RBS.run, h2, h6, Option.map_some]
    · simp only [RBP.run, g1, h7, Option.map_some]

end Golib.C03
