/-
C07: `UnicodeParse ∘ UnicodeFormat` and `Utf16Parse ∘ Utf16Format` at the functional level,
for valid UTF-8.
-/
import Golib.Proof.C07Escape
import Golib.Proof.Utf8

namespace Golib.C07
open Golib

theorem escU_parse {m : Nat} (h : m ≤ 0x10FFFF) :
    ∃ X, escU m = some (92 :: 85 :: X) ∧ X.length = 8 ∧ parseUint X 16 32 = (m, 8, true) := by
  obtain ⟨d, hd, hdl, -, hpd⟩ := appendUint_parse (base := 16) (bits := 32) (width := 8) (v := m)
    (by omega) (by omega) (by omega) (by omega) (by omega) (by omega) (by omega)
  exact ⟨toUpper d, by simp [escU, hd], by simp [toUpper, hdl], hpd⟩

theorem escu_parse {m : Nat} (h : m < 0x10000) :
    ∃ X, escu m = some (92 :: 117 :: X) ∧ X.length = 4 ∧ parseUint X 16 16 = (m, 4, true) := by
  obtain ⟨d, hd, hdl, -, hpd⟩ := appendUint_parse (base := 16) (bits := 16) (width := 4) (v := m)
    (by omega) (by omega) (by omega) (by omega) (by omega) (by omega) (by omega)
  exact ⟨toUpper d, by simp [escu, hd], by simp [toUpper, hdl], hpd⟩

theorem parse_lit0000FFFD : parseUint lit0000FFFD 16 32 = (0xFFFD, 8, true) := by decide
theorem parse_litFFFD : parseUint litFFFD 16 16 = (0xFFFD, 4, true) := by decide

theorem go_cons (fuel off b : Nat) (rest : List Nat) :
    Utf8.rangeDecode.go (fuel + 1) off (b :: rest) =
      (off, (Utf8.decodeRune (b :: rest)).1,
          if (Utf8.decodeRune (b :: rest)).2 = 0 then 1 else (Utf8.decodeRune (b :: rest)).2) ::
        Utf8.rangeDecode.go fuel
          (off + if (Utf8.decodeRune (b :: rest)).2 = 0 then 1 else (Utf8.decodeRune (b :: rest)).2)
          ((b :: rest).drop (if (Utf8.decodeRune (b :: rest)).2 = 0 then 1 else (Utf8.decodeRune (b :: rest)).2)) := by
  rw [Utf8.rangeDecode.go]

/-- For every input: `UnicodeParse ∘ UnicodeFormat` re-encodes the runes of the range loop
(each invalid byte becomes U+FFFD). -/
theorem unicode_fun_reencode_aux : ∀ (fuel : Nat) (s : Bytes) (off : Nat), s.length ≤ fuel →
    ∃ out, unicodeFormatAux fuel s = some out ∧
      parseFun unicodeDec out = Utf8L.reencode (Utf8.rangeDecode.go fuel off s)
  | 0, [], _, _ => ⟨[], rfl, by simp [parseFun_nil, Utf8.rangeDecode.go, Utf8L.reencode]⟩
  | 0, _ :: _, _, h => by simp at h
  | fuel + 1, [], _, _ => ⟨[], rfl, by simp [parseFun_nil, Utf8.rangeDecode.go, Utf8L.reencode]⟩
  | fuel + 1, b :: rest, off, hlen => by
    rw [go_cons]
    rcases hdr : Utf8.decodeRune (b :: rest) with ⟨c, size⟩
    have hcases := Utf8L.decodeRune_cases b rest
    rw [hdr] at hcases
    simp only [] at hcases ⊢
    have hs1 : 1 ≤ size := by
      rcases hcases with h | h
      · simp only [Prod.mk.injEq] at h; omega
      · exact h.sz1
    have hsz : (if size = 0 then 1 else size) = size := by
      have : size ≠ 0 := by omega
      simp [this]
    rw [hsz]
    obtain ⟨r, hr, hpr⟩ := unicode_fun_reencode_aux fuel ((b :: rest).drop size) (off + size)
      (by simp only [List.length_drop, List.length_cons] at hlen ⊢; omega)
    simp only [Utf8L.reencode, List.flatMap_cons]
    simp only [Utf8L.reencode] at hpr
    rw [← hpr]
    by_cases hb : b < 0x80
    · have hda := Utf8L.decodeRune_ascii rest hb
      rw [hdr] at hda
      simp only [Prod.mk.injEq] at hda
      obtain ⟨rfl, rfl⟩ := hda
      obtain ⟨X, hX, hXl, hXp⟩ := escU_parse (m := b) (by omega)
      refine ⟨92 :: 85 :: X ++ r, ?_, ?_⟩
      · simp only [List.drop_succ_cons, List.drop_zero] at hr
        simp [unicodeFormatAux, hb, hX, hr]
      · rw [unicode_step hXl hXp (by omega)]
    · by_cases hce : c = Utf8.runeError
      · refine ⟨92 :: 85 :: lit0000FFFD ++ r, ?_, ?_⟩
        · simp [unicodeFormatAux, hb, hdr, hce, hr]
        · rw [unicode_step (by decide) parse_lit0000FFFD (by omega)]
          have : ((0xFFFD : Nat) : Int) = c := by rw [hce]; rfl
          rw [this]
      · rcases hcases with herr | hdec
        · simp only [Prod.mk.injEq] at herr; exact absurd herr.1 hce
        · obtain ⟨⟨m, hm, hmax, hns⟩, -, -, -, -, -⟩ := hdec
          obtain ⟨X, hX, hXl, hXp⟩ := escU_parse (m := m) hmax
          refine ⟨92 :: 85 :: X ++ r, ?_, ?_⟩
          · have : c.toNat = m := by rw [hm]; simp
            simp [unicodeFormatAux, hb, hdr, hce, this, hX, hr]
          · rw [unicode_step hXl hXp hmax, ← hm]

theorem unicode_fun_reencode (s : Bytes) :
    ∃ out, unicodeFormat s = some out ∧ parseFun unicodeDec out = Utf8.encode (Utf8.runes s) := by
  rw [Utf8L.encode_runes]
  exact unicode_fun_reencode_aux s.length s 0 (Nat.le_refl _)

theorem unicode_fun_roundtrip (s : Bytes) (hv : Utf8.valid s = true) :
    ∃ out, unicodeFormat s = some out ∧ parseFun unicodeDec out = s := by
  obtain ⟨out, h1, h2⟩ := unicode_fun_reencode s
  exact ⟨out, h1, by rw [h2, Utf8L.encode_runes_valid s hv]⟩

end Golib.C07
