/-
C07: `UnicodeParse ∘ UnicodeFormat` and `Utf16Parse ∘ Utf16Format` at the functional level,
for valid UTF-8.
-/
import Golib.Proof.C07Escape
import Golib.Proof.Utf8

namespace Golib.C07
open Golib

theorem escU_parse {m : Nat} (h : m ≤ 0x10FFFF) :
    ∃ X, escU m = some (92 :: 85 :: X) ∧ X.length = 8 ∧ parseUint X 16 32 = (m, 8, true) := by
  obtain ⟨d, hd, hdl, -, hpd⟩ := appendUint_parse (base := 16) (bits := 32) (width := 8) (v := m)
    (by omega) (by omega) (by omega) (by omega) (by omega) (by omega) (by omega)
  exact ⟨toUpper d, by simp [escU, hd], by simp [toUpper, hdl], hpd⟩

theorem escu_parse {m : Nat} (h : m < 0x10000) :
    ∃ X, escu m = some (92 :: 117 :: X) ∧ X.length = 4 ∧ parseUint X 16 16 = (m, 4, true) := by
  obtain ⟨d, hd, hdl, -, hpd⟩ := appendUint_parse (base := 16) (bits := 16) (width := 4) (v := m)
    (by omega) (by omega) (by omega) (by omega) (by omega) (by omega) (by omega)
  exact ⟨toUpper d, by simp [escu, hd], by simp [toUpper, hdl], hpd⟩

theorem parse_lit0000FFFD : parseUint lit0000FFFD 16 32 = (0xFFFD, 8, true) := by decide
theorem parse_litFFFD : parseUint litFFFD 16 16 = (0xFFFD, 4, true) := by decide

theorem go_cons (fuel off b : Nat) (rest : List Nat) :
    Utf8.rangeDecode.go (fuel + 1) off (b :: rest) =
      (off, (Utf8.decodeRune (b :: rest)).1,
          if (Utf8.decodeRune (b :: rest)).2 = 0 then 1 else (Utf8.decodeRune (b :: rest)).2) ::
        Utf8.rangeDecode.go fuel
          (off + if (Utf8.decodeRune (b :: rest)).2 = 0 then 1 else (Utf8.decodeRune (b :: rest)).2)
          ((b :: rest).drop (if (Utf8.decodeRune (b :: rest)).2 = 0 then 1 else (Utf8.decodeRune (b :: rest)).2)) := by
  rw [Utf8.rangeDecode.go]

theorem unicode_fun_roundtrip_aux : ∀ (fuel : Nat) (s : Bytes) (off : Nat), s.length ≤ fuel →
    (Utf8.rangeDecode.go fuel off s).all Utf8.okStep = true →
    ∃ out, unicodeFormatAux fuel s = some out ∧ parseFun unicodeDec out = s
  | 0, [], _, _, _ => ⟨[], rfl, parseFun_nil _⟩
  | 0, _ :: _, _, h, _ => by simp at h
  | fuel + 1, [], _, _, _ => ⟨[], rfl, parseFun_nil _⟩
  | fuel + 1, b :: rest, off, hlen, hall => by
    rw [go_cons, List.all_cons, Bool.and_eq_true] at hall
    obtain ⟨hok, hall⟩ := hall
    rcases Utf8.decodeRune_cases b rest with herr | hdec
    · rw [herr] at hok; simp [Utf8.okStep] at hok
    · rcases hdr : Utf8.decodeRune (b :: rest) with ⟨c, size⟩
      rw [hdr] at hdec hall
      simp only [] at hdec hall
      obtain ⟨⟨m, hm, hmax, hns⟩, hs1, hsl, hs4, henc, hhi⟩ := hdec
      have hsz : (if size = 0 then 1 else size) = size := by
        have : size ≠ 0 := by omega
        simp [this]
      rw [hsz] at hall
      obtain ⟨r, hr, hpr⟩ := unicode_fun_roundtrip_aux fuel ((b :: rest).drop size) (off + size)
        (by simp only [List.length_drop, List.length_cons] at hlen ⊢; omega) hall
      have hsplit : (b :: rest).take size ++ (b :: rest).drop size = b :: rest := List.take_append_drop _ _
      by_cases hb : b < 0x80
      · -- ASCII fast path
        have hda := Utf8.decodeRune_ascii rest hb
        rw [hdr] at hda
        have hsize : size = 1 := by simp only [Prod.mk.injEq] at hda; exact hda.2
        subst hsize
        obtain ⟨X, hX, hXl, hXp⟩ := escU_parse (m := b) (by omega)
        refine ⟨92 :: 85 :: X ++ r, ?_, ?_⟩
        · simp only [List.drop_succ_cons, List.drop_zero] at hr
          simp [unicodeFormatAux, hb, hX, hr]
        · rw [unicode_step hXl hXp (by omega), hpr, Utf8.encodeRune_nat1 hb]
          simp
      · have hm80 : 0x80 ≤ m := by
          have := hhi b (by simp) (by omega)
          omega
        by_cases hce : c = Utf8.runeError
        · refine ⟨92 :: 85 :: lit0000FFFD ++ r, ?_, ?_⟩
          · simp [unicodeFormatAux, hb, hdr, hce, hr]
          · rw [unicode_step (by decide) parse_lit0000FFFD (by omega), hpr]
            have : ((0xFFFD : Nat) : Int) = c := by rw [hce]; rfl
            rw [this, henc, hsplit]
        · obtain ⟨X, hX, hXl, hXp⟩ := escU_parse (m := m) hmax
          refine ⟨92 :: 85 :: X ++ r, ?_, ?_⟩
          · have : c.toNat = m := by rw [hm]; simp
            simp [unicodeFormatAux, hb, hdr, hce, this, hX, hr]
          · rw [unicode_step hXl hXp hmax, hpr, ← hm, henc, hsplit]

theorem unicode_fun_roundtrip (s : Bytes) (hv : Utf8.valid s = true) :
    ∃ out, unicodeFormat s = some out ∧ parseFun unicodeDec out = s := by
  rw [Utf8.valid_eq] at hv
  exact unicode_fun_roundtrip_aux s.length s 0 (Nat.le_refl _) hv

end Golib.C07
