/-
C05: the streaming scan loops (decode one rune at position `i`, step, advance) equal the model
loops that run over the pre-decoded text.
-/
import Golib.Model.C05Stream
import Golib.Proof.C05Decode

set_option linter.unusedSimpArgs false
set_option linter.unusedVariables false

namespace Golib.C05
open Golib

theorem findStream_eq (t : Trie) : ∀ (fuel : Nat) (bs : List Nat) (node : Label) (i : Nat) (acc : List Scope),
    Bytes bs → bs.length ≤ fuel →
    findStream t fuel bs node i acc = findLoop t (decodeAll bs) node i acc := by
  intro fuel
  induction fuel with
  | zero =>
    intro bs node i acc _ hl
    have : bs = [] := List.eq_nil_of_length_eq_zero (by omega)
    subst this; simp [findStream, decodeAll_nil, findLoop]
  | succ fuel ih =>
    intro bs node i acc hb hl
    cases bs with
    | nil => simp [findStream, decodeAll_nil, findLoop]
    | cons b rest =>
      have hpos := decodeStep_width_pos b rest hb
      rw [decodeAll_cons b rest hb]
      have hdrop : ((b :: rest).drop (decodeStep (b :: rest)).2).length ≤ fuel := by
        simp only [List.length_drop, List.length_cons] at hl ⊢; omega
      have hbd : Bytes ((b :: rest).drop (decodeStep (b :: rest)).2) := hb.drop _
      generalize hst : decodeStep (b :: rest) = st at hpos hdrop hbd
      obtain ⟨r, sz⟩ := st
      simp only [findStream, hst, findLoop]
      cases hfb : fallback t node r with
      | none => rfl
      | some p =>
        obtain ⟨nd, idx⟩ := p
        cases idx with
        | none => simp only []; exact ih _ nd _ acc hbd hdrop
        | some idx =>
          simp only []
          cases hca : childAt t nd idx with
          | none => rfl
          | some node' =>
            simp only []
            cases how : outWalk t (i + sz) (node'.length + 1) node' with
            | none => rfl
            | some out => simp only []; exact ih _ node' _ _ hbd hdrop

theorem matchStream_eq (t : Trie) : ∀ (fuel : Nat) (bs : List Nat) (node : Label),
    Bytes bs → bs.length ≤ fuel →
    matchStream t fuel bs node = matchLoop t (decodeAll bs) node := by
  intro fuel
  induction fuel with
  | zero =>
    intro bs node _ hl
    have : bs = [] := List.eq_nil_of_length_eq_zero (by omega)
    subst this; simp [matchStream, decodeAll_nil, matchLoop]
  | succ fuel ih =>
    intro bs node hb hl
    cases bs with
    | nil => simp [matchStream, decodeAll_nil, matchLoop]
    | cons b rest =>
      have hpos := decodeStep_width_pos b rest hb
      rw [decodeAll_cons b rest hb]
      have hdrop : ((b :: rest).drop (decodeStep (b :: rest)).2).length ≤ fuel := by
        simp only [List.length_drop, List.length_cons] at hl ⊢; omega
      have hbd : Bytes ((b :: rest).drop (decodeStep (b :: rest)).2) := hb.drop _
      generalize hst : decodeStep (b :: rest) = st at hpos hdrop hbd
      obtain ⟨r, sz⟩ := st
      simp only [matchStream, hst, matchLoop]
      cases hfb : fallback t node r with
      | none => rfl
      | some p =>
        obtain ⟨nd, idx⟩ := p
        cases idx with
        | none => simp only []; exact ih _ nd hbd hdrop
        | some idx =>
          simp only []
          cases hca : childAt t nd idx with
          | none => rfl
          | some node' =>
            simp only []
            cases how : anyEndWalk t (node'.length + 1) node' with
            | none => rfl
            | some bq => cases bq <;> simp only [] <;> first | rfl | exact ih _ node' hbd hdrop

/-- The loops as coded (decode at `i`, step, advance) equal the loops over the decoded text. -/
theorem stream_eq_decoded (t : Trie) (text : List Nat) (ht : Bytes text) :
    t.findStreaming text = t.find text ∧ t.matchStreaming text = t.match text := by
  constructor
  · simp only [Trie.findStreaming, Trie.find, findSteps]
    exact findStream_eq t _ text [] 0 [] ht (Nat.le_refl _)
  · simp only [Trie.matchStreaming, Trie.match, matchWith, matchSteps]
    exact matchStream_eq t _ text [] ht (Nat.le_refl _)

end Golib.C05
