/-
C01 — the waiting forms return the outcome of the LAST attempt they made, and every
earlier attempt failed.
-/
import Golib.Model.C01Wait

namespace Golib.C01

/-- `r` is the outcome of the last of the `n` attempts consumed from `outs` and all earlier
ones failed; `r = none` means all `n` attempts failed. -/
def LastOnly {α : Type} (outs : List (Option α)) (r : Option α) (n : Nat) : Prop :=
  n ≤ outs.length ∧
  (∀ k, k + 1 < n → outs[k]? = some none) ∧
  (match r with
   | some v => 0 < n ∧ outs[n - 1]? = some (some v)
   | none => ∀ k, k < n → outs[k]? = some none)

theorem timedLoop_last {α : Type} (ticks : List (Option α × Bool)) :
    LastOnly (ticks.map (·.1)) (timedLoop ticks).1 (timedLoop ticks).2 := by
  induction ticks with
  | nil => exact ⟨Nat.le_refl _, fun k h => by simp [timedLoop, spinLoop] at h, fun k h => by simp [timedLoop, spinLoop] at h⟩
  | cons t rest ih =>
    obtain ⟨o, b⟩ := t
    cases o with
    | some v =>
      simp only [timedLoop, List.map_cons]
      exact ⟨by simp, fun k h => by omega, by simp, by simp⟩
    | none =>
      cases b with
      | true =>
        simp only [timedLoop, List.map_cons]
        refine ⟨by simp, fun k h => by omega, ?_⟩
        intro k hk
        have : k = 0 := by omega
        subst this; rfl
      | false =>
        simp only [timedLoop, List.map_cons]
        obtain ⟨h1, h2, h3⟩ := ih
        refine ⟨by simp only [List.length_cons]; omega, ?_, ?_⟩
        · intro k hk
          cases k with
          | zero => rfl
          | succ k => simp only [List.getElem?_cons_succ]; exact h2 k (by omega)
        · cases hr : (timedLoop rest).1 with
          | some v =>
            rw [hr] at h3
            simp only at h3 ⊢
            refine ⟨by omega, ?_⟩
            have : (timedLoop rest).2 + 1 - 1 = ((timedLoop rest).2 - 1) + 1 := by omega
            rw [this, List.getElem?_cons_succ]
            exact h3.2
          | none =>
            rw [hr] at h3
            simp only at h3 ⊢
            intro k hk
            cases k with
            | zero => rfl
            | succ k => simp only [List.getElem?_cons_succ]; exact h3 k (by omega)

theorem spinLoop_last {α : Type} (outs : List (Option α)) :
    LastOnly outs (spinLoop outs).1 (spinLoop outs).2 := by
  induction outs with
  | nil => exact ⟨Nat.le_refl _, fun k h => by simp [timedLoop, spinLoop] at h, fun k h => by simp [timedLoop, spinLoop] at h⟩
  | cons o rest ih =>
    cases o with
    | some v =>
      simp only [spinLoop]
      exact ⟨by simp, fun k h => by omega, by simp, by simp⟩
    | none =>
      simp only [spinLoop]
      obtain ⟨h1, h2, h3⟩ := ih
      refine ⟨by simp only [List.length_cons]; omega, ?_, ?_⟩
      · intro k hk
        cases k with
        | zero => rfl
        | succ k => simp only [List.getElem?_cons_succ]; exact h2 k (by omega)
      · cases hr : (spinLoop rest).1 with
        | some v =>
          rw [hr] at h3
          simp only at h3 ⊢
          refine ⟨by omega, ?_⟩
          have : (spinLoop rest).2 + 1 - 1 = ((spinLoop rest).2 - 1) + 1 := by omega
          rw [this, List.getElem?_cons_succ]
          exact h3.2
        | none =>
          rw [hr] at h3
          simp only at h3 ⊢
          intro k hk
          cases k with
          | zero => rfl
          | succ k => simp only [List.getElem?_cons_succ]; exact h3 k (by omega)

theorem waitCall_last {α : Type} (maxWait : Int) (env : List (Option α × Bool)) :
    LastOnly (env.map (·.1)) (waitCall maxWait env).1 (waitCall maxWait env).2 := by
  unfold waitCall
  split
  · exact spinLoop_last _
  · cases env with
    | nil => exact ⟨Nat.le_refl _, fun k h => by simp [timedLoop, spinLoop] at h, fun k h => by simp [timedLoop, spinLoop] at h⟩
    | cons t ticks =>
      obtain ⟨o, b⟩ := t
      cases o with
      | some v =>
        simp only [List.map_cons]
        exact ⟨by simp, fun k h => by omega, by simp, by simp⟩
      | none =>
        simp only [List.map_cons]
        split
        · refine ⟨by simp, fun k h => by omega, ?_⟩
          intro k hk
          have : k = 0 := by omega
          subst this; rfl
        · obtain ⟨h1, h2, h3⟩ := timedLoop_last ticks
          refine ⟨by simp only [List.length_cons]; omega, ?_, ?_⟩
          · intro k hk
            cases k with
            | zero => rfl
            | succ k => simp only [List.getElem?_cons_succ]; exact h2 k (by omega)
          · cases hr : (timedLoop ticks).1 with
            | some v =>
              rw [hr] at h3
              simp only at h3 ⊢
              refine ⟨by omega, ?_⟩
              have : (timedLoop ticks).2 + 1 - 1 = ((timedLoop ticks).2 - 1) + 1 := by omega
              rw [this, List.getElem?_cons_succ]
              exact h3.2
            | none =>
              rw [hr] at h3
              simp only at h3 ⊢
              intro k hk
              cases k with
              | zero => rfl
              | succ k => simp only [List.getElem?_cons_succ]; exact h3 k (by omega)

/-! ### the small-step form the driver executes is the big-step `waitCall` -/

theorem timedLoop_eq_iter {α : Type} (maxWait : Int) (h0 : ¬ maxWait < 0) (k : Nat)
    (ticks : List (Option α × Bool)) : timedLoop ticks = waitIter maxWait (k + 1) ticks := by
  induction ticks generalizing k with
  | nil => rfl
  | cons t rest ih =>
    obtain ⟨o, b⟩ := t
    cases o with
    | some v => simp [timedLoop, waitIter, waitDecide]
    | none =>
      cases b with
      | true => simp [timedLoop, waitIter, waitDecide, h0]
      | false => simp [timedLoop, waitIter, waitDecide, h0, ih (k + 1)]

theorem spinLoop_eq_iter {α : Type} (maxWait : Int) (h0 : maxWait < 0) (k : Nat)
    (env : List (Option α × Bool)) : spinLoop (env.map (·.1)) = waitIter maxWait k env := by
  induction env generalizing k with
  | nil => rfl
  | cons t rest ih =>
    obtain ⟨o, b⟩ := t
    cases o with
    | some v => simp [spinLoop, waitIter, waitDecide]
    | none => simp [spinLoop, waitIter, waitDecide, h0, ih (k + 1)]

theorem waitCall_eq_iter {α : Type} (maxWait : Int) (env : List (Option α × Bool)) :
    waitCall maxWait env = waitIter maxWait 0 env := by
  unfold waitCall
  split
  · rename_i h0; exact spinLoop_eq_iter maxWait h0 0 env
  · rename_i h0
    cases env with
    | nil => rfl
    | cons t ticks =>
      obtain ⟨o, b⟩ := t
      cases o with
      | some v => simp [waitIter, waitDecide]
      | none =>
        by_cases hz : maxWait = 0
        · simp [waitIter, waitDecide, h0, hz]
        · simp [waitIter, waitDecide, h0, hz, timedLoop_eq_iter maxWait h0 0 ticks]

end Golib.C01
