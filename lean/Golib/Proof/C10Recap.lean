/-
Helper lemmas for C10 (Ring): `Recap` and `PushWithExpand`.

`recap_spec`: Recap succeeds exactly for positive capacities different from the current
one and not below `Len`, never panics under the invariant, and the content (and its
order) is preserved whatever the head/tail offsets are (wrapped or not).
-/
import Golib.Proof.C10Ring

set_option linter.unusedSimpArgs false
set_option linter.unusedVariables false

namespace Golib.C10

theorem copyInto_replicate (n : Nat) (s : List Int) (h : s.length ≤ n) :
    copyInto (List.replicate n 0) s = (s ++ List.replicate (n - s.length) 0, s.length) := by
  simp only [copyInto, List.length_replicate, Nat.min_eq_right h, List.take_length,
    List.drop_replicate]

theorem slice_nat (vs : List Int) (a b : Nat) (h1 : a ≤ b) (h2 : b ≤ vs.length) :
    slice vs (a : Int) (b : Int) = some ((vs.drop a).take (b - a)) := by
  have : (0 : Int) ≤ a ∧ (a : Int) ≤ b ∧ (b : Int).toNat ≤ vs.length := by
    refine ⟨by omega, by omega, by simpa using h2⟩
  simp only [slice, this, and_self, if_true, Int.toNat_natCast, h2]

/-- The content of the ring that `Recap` builds: the old content followed by zeroes,
    `head = 0`, `tail = l - 1`. -/
theorem content_linear (s : List Int) (k : Nat) (c : Int) (hs : s ≠ []) :
    Ring.content ⟨s ++ List.replicate k 0, 0, (s.length : Int) - 1, c⟩ = s := by
  have hpos : 0 < s.length := List.length_pos_iff.mpr hs
  have h1 : ¬ ((0 : Int) = -1) := by omega
  have h2 : (0 : Int) ≤ (s.length : Int) - 1 := by omega
  simp only [Ring.content, h1, h2, if_false, if_true, Int.toNat_zero, List.drop_zero]
  have : ((s.length : Int) - 1 - 0 + 1).toNat = s.length := by omega
  rw [this]; simp

/-- What `Recap` computes on a non-empty ring when it goes ahead. -/
theorem recap_nonempty (vs : List Int) (hn tn cn : Nat) (cap : Nat)
    (hl : vs.length = cn) (h1 : hn < cn) (t1 : tn < cn)
    (hcap : 0 < cap) (hne : (cap : Int) ≠ cn)
    (hfit : (Ring.content ⟨vs, hn, tn, cn⟩).length ≤ cap) :
    Ring.recap ⟨vs, hn, tn, cn⟩ cap =
      some (⟨Ring.content ⟨vs, hn, tn, cn⟩ ++
              List.replicate (cap - (Ring.content ⟨vs, hn, tn, cn⟩).length) 0,
             0, ((Ring.content ⟨vs, hn, tn, cn⟩).length : Int) - 1, cap⟩, true) := by
  have hi : Ring.Inv ⟨vs, hn, tn, cn⟩ :=
    ⟨by simp only []; omega, by simp only []; omega, Or.inr (by simp only []; omega)⟩
  have hlen := content_length _ hi
  have hg : ¬ ((cap : Int) ≤ 0 ∨ (cap : Int) = cn) := by omega
  have hl2 : ¬ ((cap : Int) < Ring.len ⟨vs, hn, tn, cn⟩) := by rw [← hlen]; omega
  have hnem : ¬ ((hn : Int) = -1) := by omega
  simp only [Ring.recap, hg, hl2, if_false, Ring.isEmpty, beq_iff_eq, hnem, Int.toNat_natCast]
  rw [← hlen]
  generalize hcont : Ring.content ⟨vs, hn, tn, cn⟩ = cont at hfit hlen ⊢
  simp only [Ring.content, hnem, if_false, Int.toNat_natCast] at hcont
  by_cases hle : (hn : Int) ≤ tn
  · simp only [hle, if_true] at hcont ⊢
    have e1 : ((tn : Int) - hn + 1).toNat = tn + 1 - hn := by omega
    rw [e1] at hcont
    have hs : slice vs (hn : Int) ((tn : Int) + 1) = some cont := by
      have := slice_nat vs hn (tn + 1) (by omega) (by omega)
      rw [hcont] at this
      simpa using this
    simp only [hs, copyInto_replicate cap cont hfit]
  · simp only [hle, if_false] at hcont ⊢
    have e1 : ((tn : Int) + 1).toNat = tn + 1 := by omega
    rw [e1] at hcont
    have hs1 : slice vs (hn : Int) (vs.length : Int) = some (vs.drop hn) := by
      rw [slice_nat vs hn vs.length (by omega) (Nat.le_refl _)]
      rw [List.take_of_length_le (by simp)]
    have hs2 : slice vs 0 ((tn : Int) + 1) = some (vs.take (tn + 1)) := by
      have := slice_nat vs 0 (tn + 1) (by omega) (by omega)
      simpa using this
    have hlen1 : (vs.drop hn).length ≤ cap := by
      rw [← hcont] at hfit; simp only [List.length_append] at hfit; omega
    simp only [hs1, hs2, copyInto_replicate cap _ hlen1]
    have hlen2 : (vs.take (tn + 1)).length ≤ cap - (vs.drop hn).length := by
      rw [← hcont] at hfit; simp only [List.length_append] at hfit; omega
    simp only [List.take_left', List.drop_left', copyInto_replicate _ _ hlen2]
    rw [← hcont]
    simp only [List.append_assoc, List.length_append, Nat.sub_sub]

theorem recap_spec (r : Ring) (cap : Int) (hi : r.Inv) :
    ∃ r' ok, r.recap cap = some (r', ok) ∧ r'.Inv ∧ r'.content = r.content ∧
      (ok = true ↔ (0 < cap ∧ cap ≠ r.cap ∧ (r.content.length : Int) ≤ cap)) ∧
      r'.cap = (if ok then cap else r.cap) := by
  have hlen := content_length r hi
  by_cases hg : cap ≤ 0 ∨ cap = r.cap
  · refine ⟨r, false, by simp only [Ring.recap, hg, if_true], hi, rfl, ?_, by simp⟩
    simp only [Bool.false_eq_true, false_iff]; omega
  by_cases hl2 : cap < r.len
  · refine ⟨r, false, by simp only [Ring.recap, hg, hl2, if_false, if_true], hi, rfl, ?_, by simp⟩
    simp only [Bool.false_eq_true, false_iff]; omega
  have hcap : 0 < cap := by omega
  obtain ⟨capn, rfl⟩ := Int.eq_ofNat_of_zero_le (Int.le_of_lt hcap)
  have hok : (0 < (capn : Int) ∧ (capn : Int) ≠ r.cap ∧ (r.content.length : Int) ≤ capn) := by
    omega
  obtain ⟨vs, h, t, c⟩ := r
  obtain ⟨hc, hl, hr⟩ := hi
  simp only at hc hl hr hg hok
  rcases hr with ⟨rfl, rfl⟩ | ⟨h0, h1, t0, t1⟩
  · -- empty ring
    refine ⟨⟨List.replicate capn 0, -1, -1, capn⟩, true, ?_,
      ⟨hcap, by simp, Or.inl ⟨rfl, rfl⟩⟩, by simp [Ring.content], by simp only [true_iff]; exact hok,
      by simp⟩
    simp only [Ring.recap, hg, hl2, if_false, Ring.isEmpty, beq_self_eq_true, if_true,
      Int.toNat_natCast]
  · obtain ⟨hn, rfl⟩ := Int.eq_ofNat_of_zero_le h0
    obtain ⟨tn, rfl⟩ := Int.eq_ofNat_of_zero_le t0
    obtain ⟨cn, rfl⟩ := Int.eq_ofNat_of_zero_le (Int.le_of_lt hc)
    have hne : Ring.content ⟨vs, hn, tn, cn⟩ ≠ [] := by
      intro he
      have hemp := (isEmpty_spec ⟨vs, hn, tn, cn⟩ ⟨hc, hl, Or.inr ⟨h0, h1, t0, t1⟩⟩).mpr he
      simp only [Ring.isEmpty, beq_iff_eq] at hemp
      omega
    have hrec := recap_nonempty vs hn tn cn capn (by omega) (by omega) (by omega) (by omega)
      hok.2.1 (by omega)
    refine ⟨_, true, hrec, ⟨hcap, ?_, Or.inr ?_⟩, content_linear _ _ _ hne,
      by simp only [true_iff]; exact hok, by simp⟩
    · simp only [List.length_append, List.length_replicate]; omega
    · have : 0 < (Ring.content ⟨vs, hn, tn, cn⟩).length := List.length_pos_iff.mpr hne
      simp only []; omega

/-- `PushWithExpand` never panics under the invariant, appends `v`, and doubles the
    capacity exactly when the ring was full. -/
theorem pushWithExpand_spec (r : Ring) (v : Int) (hi : r.Inv) :
    ∃ r', r.pushWithExpand v = some r' ∧ r'.Inv ∧ r'.content = r.content ++ [v] ∧
      r'.cap = (if (r.content.length : Int) = r.cap then r.cap * 2 else r.cap) := by
  have hfull := isFull_spec r hi
  have hcpos := hi.capPos
  by_cases hf : r.isFull = true
  · have hlenc := hfull.mp hf
    obtain ⟨r1, ok1, hr1, hi1, hc1, hok1, hcap1⟩ := recap_spec r (r.cap * 2) hi
    have hok : ok1 = true := hok1.mpr (by omega)
    subst hok
    simp only [if_true] at hcap1
    obtain ⟨r2, ok2, hr2, hi2, hcap2, hok2, hc2⟩ := push_spec r1 v hi1
    have hok : ok2 = true := hok2.mpr (by rw [hc1, hcap1]; omega)
    subst hok
    simp only [if_true] at hc2
    refine ⟨r2, ?_, hi2, by rw [hc2, hc1], by simp only [hlenc, if_true]; rw [hcap2, hcap1]⟩
    have hc0 : ¬ (r.cap = 0) := by omega
    simp only [Ring.pushWithExpand, hf, if_true, hr1, Option.map_some, hr2, if_neg hc0]
  · have hlenc : ¬ ((r.content.length : Int) = r.cap) := fun h => hf (hfull.mpr h)
    obtain ⟨r2, ok2, hr2, hi2, hcap2, hok2, hc2⟩ := push_spec r v hi
    have hlt : (r.content.length : Int) < r.cap := by
      have := content_length r hi
      have hle : r.len ≤ r.cap := by
        obtain ⟨vs, h, t, c⟩ := r
        obtain ⟨hc, hl, hr⟩ := hi
        simp only [Ring.len, Ring.isEmpty, beq_iff_eq] at *
        rcases hr with ⟨rfl, rfl⟩ | ⟨h0, h1, t0, t1⟩
        · simp; omega
        · have : h ≠ -1 := by omega
          simp only [this, if_false]; split <;> omega
      omega
    have hok : ok2 = true := hok2.mpr hlt
    subst hok
    simp only [if_true] at hc2
    refine ⟨r2, ?_, hi2, hc2, by simp only [hlenc, if_false]; exact hcap2⟩
    have hc0 : ¬ (r.cap = 0) := by omega
    simp only [Ring.pushWithExpand, hf, Bool.false_eq_true, if_false, hr2, Option.map_some, if_neg hc0]

end Golib.C10
