/-
C05: the `uint32` counters of `trieNodeQueue` (`head`, `tail`, `cap`) are modelled as `Nat`.
This file states the guard under which that is exact: `push32` / `pop32` / `isFull32` are the
queue operations with every `uint32` operation wrapped modulo 2^32 as Go computes it; under
`tail + 1 < 2^32` and `2 * cap < 2^32` they are the `Nat` operations, and along any run with at
most `N` pushes, `tail ≤ N` and `cap ≤ max 10 (2 * N)` — so for a trie with fewer than 2^31
nodes (each non-root node is pushed once per `BuildFailureLinks`) nothing wraps.
-/
import Golib.Proof.C05Queue

set_option linter.unusedSimpArgs false
set_option linter.unusedVariables false

namespace Golib.C05
open Golib

/-- `a - b` on unsigned integers modulo `W` (`W = 2^32` for `uint32`). -/
def sub32 (W a b : Nat) : Nat := (a + W - b % W) % W

def Queue.isFull32 (W : Nat) (q : Queue) : Bool := sub32 W q.tail q.head == q.cap

/-- The growth copy with the two quantities that involve `uint32` arithmetic as parameters. -/
def Queue.growCopiedWith (q : Queue) (tailm1 cap' : Nat) : Option (List Label) :=
  let tailPos := tailm1 % q.cap
  let headPos := q.head % q.cap
  let newNodes : List Label := List.replicate cap' []
  if tailPos > headPos then
    (slice? q.nodes headPos (tailPos + 1)).map fun s => (copyInto newNodes s).1
  else
    match slice? q.nodes headPos q.nodes.length, slice? q.nodes 0 (tailPos + 1) with
    | some s1, some s2 =>
      let (nv, n) := copyInto newNodes s1
      some (nv.take n ++ (copyInto (nv.drop n) s2).1)
    | _, _ => none

theorem Queue.growCopied_eq (q : Queue) : q.growCopied = q.growCopiedWith (q.tail - 1) (q.cap * 2) := rfl

/-- `Push` with `uint32` arithmetic (`tail-1`, `tail-head`, `cap*2`, `tail++` wrap). -/
def Queue.push32 (W32 : Nat) (q : Queue) (x : Label) : Option Queue :=
  match (if q.isFull32 W32 then
      if q.cap = 0 then none
      else (q.growCopiedWith (sub32 W32 q.tail 1) ((q.cap * 2) % W32)).map fun nv =>
        ({ nodes := nv, head := 0, tail := sub32 W32 q.tail q.head, cap := (q.cap * 2) % W32 } : Queue)
    else some q) with
  | none => none
  | some q1 =>
    if q1.cap = 0 then none
    else (set? q1.nodes (q1.tail % q1.cap) x).map fun nv =>
      { q1 with nodes := nv, tail := (q1.tail + 1) % W32 }

/-- `Pop` with `uint32` arithmetic (`head++` wraps). -/
def Queue.pop32 (W32 : Nat) (q : Queue) : Option (Label × Queue) :=
  if q.isEmpty then none
  else if q.cap = 0 then none
  else (q.nodes[q.head % q.cap]?).map fun n => (n, { q with head := (q.head + 1) % W32 })

variable {W32 : Nat}

theorem sub32_eq {a b : Nat} (h1 : b ≤ a) (h2 : a < W32) : sub32 W32 a b = a - b := by
  unfold sub32
  have hb : b % W32 = b := Nat.mod_eq_of_lt (Nat.lt_of_le_of_lt h1 h2)
  rw [hb]
  have e : a + W32 - b = (a - b) + W32 := by omega
  rw [e, Nat.add_mod_right]
  exact Nat.mod_eq_of_lt (by omega)

theorem isFull32_eq (q : Queue) (hh : q.head ≤ q.tail) (htl : q.tail < W32) : q.isFull32 W32 = q.isFull := by
  have e1 : sub32 W32 q.tail q.head = q.tail - q.head := sub32_eq hh htl
  simp only [Queue.isFull32, Queue.isFull, e1]

theorem pop32_eq (q : Queue) (hh : q.head ≤ q.tail) (ht : q.tail + 1 < W32) : q.pop32 W32 = q.pop := by
  have e7 : (q.head + 1) % W32 = q.head + 1 :=
    Nat.mod_eq_of_lt (Nat.lt_of_le_of_lt (Nat.succ_le_succ hh) ht)
  simp only [Queue.pop32, Queue.pop, e7]

theorem push32_eq_notfull (q : Queue) (x : Label) (hh : q.head ≤ q.tail) (ht : q.tail + 1 < W32)
    (hf : q.isFull = false) : q.push32 W32 x = q.push x := by
  have hfull := isFull32_eq q hh (Nat.lt_of_succ_lt ht)
  have e6 : (q.tail + 1) % W32 = q.tail + 1 := Nat.mod_eq_of_lt ht
  rw [Queue.push_eq]
  simp only [Queue.push32, hfull, hf, Bool.false_eq_true, if_false, e6]

theorem push32_eq_full (q : Queue) (x : Label) (hh : q.head ≤ q.tail) (ht : q.tail + 1 < W32)
    (hf : q.isFull = true) (hc : q.cap * 2 < W32) : q.push32 W32 x = q.push x := by
  have htl : q.tail < W32 := Nat.lt_of_succ_lt ht
  have hfull := isFull32_eq q hh htl
  have e1 : sub32 W32 q.tail q.head = q.tail - q.head := sub32_eq hh htl
  rw [Queue.push_eq]
  by_cases hc0 : q.cap = 0
  · simp only [Queue.push32, hfull, hf, hc0, if_true]
  · have hpos : 1 ≤ q.tail := by
      simp only [Queue.isFull, beq_iff_eq] at hf; omega
    have e2 : sub32 W32 q.tail 1 = q.tail - 1 := sub32_eq hpos htl
    have e3 : (q.cap * 2) % W32 = q.cap * 2 := Nat.mod_eq_of_lt hc
    have e5 : (q.tail - q.head + 1) % W32 = q.tail - q.head + 1 :=
      Nat.mod_eq_of_lt (Nat.lt_of_le_of_lt (Nat.succ_le_succ (Nat.sub_le _ _)) ht)
    simp only [Queue.push32, hfull, hf, hc0, if_true, if_false, e1, e2, e3, Queue.growCopied_eq]
    cases hg : q.growCopiedWith (q.tail - 1) (q.cap * 2) with
    | none => simp only [Option.map_none]
    | some nv => simp only [Option.map_some, e5]

/-- No counter wraps: the `uint32` operations are the `Nat` operations. -/
theorem queue_u32_exact (q : Queue) (x : Label) (hh : q.head ≤ q.tail) (ht : q.tail + 1 < W32)
    (hc : q.isFull = true → q.cap * 2 < W32) :
    q.isFull32 W32 = q.isFull ∧ q.push32 W32 x = q.push x ∧ q.pop32 W32 = q.pop := by
  refine ⟨isFull32_eq q hh (Nat.lt_of_succ_lt ht), ?_, pop32_eq q hh ht⟩
  cases hf : q.isFull with
  | true => exact push32_eq_full q x hh ht hf (hc hf)
  | false => exact push32_eq_notfull q x hh ht hf

/-- Bound carried along a run: after at most `n` pushes since `Init(10)`. -/
structure Queue.Bound (q : Queue) (n : Nat) : Prop where
  tail_le : q.tail ≤ n
  cap_le : q.cap ≤ max 10 (2 * n)

theorem Queue.bound_init : (Queue.init 10).Bound 0 := ⟨by simp [Queue.init], by simp [Queue.init]⟩

theorem Queue.bound_push (q q' : Queue) (x : Label) (n : Nat) (hi : q.Inv) (hb : q.Bound n)
    (hp : q.push x = some q') : q'.Bound (n + 1) := by
  obtain ⟨h1, h2⟩ := hb
  have hhl := hi.head_le
  rw [Queue.push_eq] at hp
  by_cases hf : q.isFull = true
  · have hcap : q.tail - q.head = q.cap := by simpa [Queue.isFull] using hf
    by_cases hc0 : q.cap = 0
    · simp only [hf, hc0, if_true] at hp; cases hp
    · simp only [hf, hc0, if_true, if_false] at hp
      cases hg : q.growCopied with
      | none => simp only [hg, Option.map_none] at hp; cases hp
      | some nv =>
        simp only [hg, Option.map_some] at hp
        split at hp
        · cases hp
        · cases hs : set? nv ((q.tail - q.head) % (q.cap * 2)) x with
          | none => simp only [hs, Option.map_none] at hp; cases hp
          | some nv' =>
            simp only [hs, Option.map_some, Option.some.injEq] at hp
            subst hp
            exact ⟨by simp only []; omega, by simp only []; omega⟩
  · have hf' : q.isFull = false := by cases h : q.isFull <;> simp_all
    simp only [hf', Bool.false_eq_true, if_false] at hp
    split at hp
    · cases hp
    · cases hs : set? q.nodes (q.tail % q.cap) x with
      | none => simp only [hs, Option.map_none] at hp; cases hp
      | some nv' =>
        simp only [hs, Option.map_some, Option.some.injEq] at hp
        subst hp
        exact ⟨by simp only []; omega, by simp only []; omega⟩

theorem Queue.bound_pop (q q' : Queue) (x : Label) (n : Nat) (hb : q.Bound n)
    (hp : q.pop = some (x, q')) : q'.Bound n := by
  obtain ⟨h1, h2⟩ := hb
  simp only [Queue.pop] at hp
  split at hp
  · cases hp
  · split at hp
    · cases hp
    · cases hg : q.nodes[q.head % q.cap]? with
      | none => simp only [hg, Option.map_none] at hp; cases hp
      | some y =>
        simp only [hg, Option.map_some, Option.some.injEq, Prod.mk.injEq] at hp
        obtain ⟨_, rfl⟩ := hp
        exact ⟨h1, h2⟩

/-- With at most `n < 2^31 - 1` pushes so far, the next push / pop on `uint32` counters
(`W = 2^32`; stated with `W` as a variable equal to 4294967296 so that no term contains
`x + 4294967296`) does not wrap: it is the `Nat` operation of the model. -/
theorem queue_no_wrap (W : Nat) (hW : W = 4294967296) (q : Queue) (x : Label) (n : Nat) (hi : q.Inv)
    (hb : q.Bound n) (hn : n + 1 < 2147483648) :
    q.isFull32 W = q.isFull ∧ q.push32 W x = q.push x ∧ q.pop32 W = q.pop := by
  obtain ⟨h1, h2⟩ := hb
  have hsz := hi.size_le
  apply queue_u32_exact q x hi.head_le
  · omega
  · intro hf
    have hcap : q.tail - q.head = q.cap := by simpa [Queue.isFull] using hf
    omega

end Golib.C05
