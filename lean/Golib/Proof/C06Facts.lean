/-
C06 — what the hand-written model `Golib/Model/C06Replace.lean` (and, below it, the model of
`find` / `decodeRune` in `Golib/Model/C05Trie.lean`) takes from the source text of
`algz/trie.go`, re-extracted by go/ast on every run into `Golib/Gen/FactsC06.lean`
(`go/props/c06/facts.go`: targeted statements, rendered by go/printer and
whitespace-normalised, so reformatting, comments and the order of the functions are not
noticed).  A revert of F11 or a single-token change of the slices of the re-assembly loops makes
this file fail to build, independently of the random search.  `mergeScopes` itself (F4, overlap
test, hull updates, deletion) is since wave 9 tied by the regenerated translation
(`Golib/Proof/C06Trans.lean`, `c06_trans_mergeScopes`), not by its text.
-/
import Golib.Gen.FactsC06
import Golib.Model.C06Replace

namespace Golib.C06
open Golib.C05

/-- Every extracted source fact equals the literal the model was written against; the last
conjuncts say (by unfolding) that the model's `mergeScopes` / `replaceWithMask` / `replace`
are the `…With` versions at `stepBack = true`. -/
def SourceFacts : Prop :=
    Golib.Gen.C06.extractorOK = true ∧
    -- mergeScopes: since wave 9 its statements are no longer compared as TEXT: the function is translated from the
    -- tree on every run (Golib/Gen/TransC06.lean) and tied to the model by `c06_trans_mergeScopes` (a revert of F4 or a
    -- changed comparison breaks that theorem; a renamed local or `i += 1` does not)
    -- *Trie.Replace: statements up to the merge (declare, find, THEN mergeScopes)
    Golib.Gen.C06.head_repl = ["var scopes []scope", "t.find(text, &scopes)", "t.mergeScopes(&scopes)"] ∧
    -- *Trie.Replace: the declaration right before the loop
    Golib.Gen.C06.begin_repl = "var begin int" ∧
    -- *Trie.Replace: the loop header `key, value := range X`
    Golib.Gen.C06.range_repl = "_, v := range scopes" ∧
    -- *Trie.Replace: the loop body (copy text[begin:start], write the replacement, begin = stop)
    Golib.Gen.C06.body_repl = ["buf.WriteString(text[begin:v.start])", "buf.WriteString(repl)", "begin = v.stop"] ∧
    -- *Trie.Replace: the statements after the loop
    Golib.Gen.C06.tail_repl = ["buf.WriteString(text[begin:])", "return buf.String()"] ∧
    -- *Trie.ReplaceWithMask: statements up to the merge (declare, find, THEN mergeScopes)
    Golib.Gen.C06.head_mask = ["var scopes []scope", "t.find(text, &scopes)", "t.mergeScopes(&scopes)"] ∧
    -- *Trie.ReplaceWithMask: the declaration right before the loop
    Golib.Gen.C06.begin_mask = "var begin int" ∧
    -- *Trie.ReplaceWithMask: the loop header `key, value := range X`
    Golib.Gen.C06.range_mask = "_, v := range scopes" ∧
    -- *Trie.ReplaceWithMask: the loop body (copy text[begin:start], write the replacement, begin = stop)
    Golib.Gen.C06.body_mask = ["buf.WriteString(text[begin:v.start])", "num := utf8.RuneCountInString(text[v.start:v.stop])", "for i := 0; i < num; i++ { buf.WriteRune(mask) }", "begin = v.stop"] ∧
    -- *Trie.ReplaceWithMask: the statements after the loop
    Golib.Gen.C06.tail_mask = ["buf.WriteString(text[begin:])", "return buf.String()"] ∧
    -- functions calling `decodeRune` (sorted)
    Golib.Gen.C06.decodeRuneCallers = ["*Trie.FuzzySearch", "*Trie.Insert", "*Trie.Match", "*Trie.PrefixSearch", "*Trie.find"] ∧
    -- functions calling the helper `writeRune` (sorted)
    Golib.Gen.C06.writeRuneCallers = ["*Trie.FuzzySearch", "*Trie.PrefixSearch"] ∧
    -- functions calling the helper `runeLen` (sorted)
    Golib.Gen.C06.runeLenCallers = ["*Trie.FuzzySearch", "*Trie.PrefixSearch"] ∧
    -- functions calling a method `.WriteRune` (sorted)
    Golib.Gen.C06.bufWriteRuneCallers = ["*Trie.ReplaceWithMask", "writeRune"] ∧
    -- functions calling utf8.DecodeRune / DecodeRuneInString / DecodeLastRune… (sorted)
    Golib.Gen.C06.stdDecodeCallers = ["decodeRune"] ∧
    -- functions that `range` over (or `[]rune`-convert) a string parameter (sorted)
    Golib.Gen.C06.rangeOverString = [] ∧
    -- signature of decodeRune
    Golib.Gen.C06.decodeSig = "func(s string, i int) (rune, int)" ∧
    -- decodeRune: condition of the ASCII fast path
    Golib.Gen.C06.decodeAsciiCond = "b := s[i]; b < utf8.RuneSelf" ∧
    -- decodeRune: the ASCII fast path
    Golib.Gen.C06.decodeAsciiThen = ["return rune(b), 1"] ∧
    -- decodeRune: the standard decoding step
    Golib.Gen.C06.decodeStd = "r, size := utf8.DecodeRuneInString(s[i:])" ∧
    -- decodeRune: condition of the invalid-byte branch (F11)
    Golib.Gen.C06.decodeInvalidCond = "r == utf8.RuneError && size == 1" ∧
    -- decodeRune: what the invalid-byte branch returns (F11)
    Golib.Gen.C06.decodeInvalidThen = ["return -1 - rune(s[i]), 1"] ∧
    -- decodeRune: final return
    Golib.Gen.C06.decodeRet = "return r, size" ∧
    -- writeRune: condition
    Golib.Gen.C06.writeRuneCond = "r < 0" ∧
    -- writeRune: then-branch
    Golib.Gen.C06.writeRuneThen = ["buf.WriteByte(byte(-1 - r))", "return"] ∧
    -- writeRune: final statement
    Golib.Gen.C06.writeRuneElse = "buf.WriteRune(r)" ∧
    -- find: header of the text loop
    Golib.Gen.C06.findLoop = "i := 0; i < len(text); " ∧
    -- find: first statements of the loop body (decode, advance i, index)
    Golib.Gen.C06.findHead = ["r, size = decodeRune(text, i)", "i += size", "idx := t.index(node.children, r)"] ∧
    -- find: condition of the fallback loop
    Golib.Gen.C06.findFallbackCond = "node != &t.root && idx < 0" ∧
    -- find: body of the fallback loop
    Golib.Gen.C06.findFallbackBody = ["node = node.fail", "idx = t.index(node.children, r)"] ∧
    -- find: condition of the output walk
    Golib.Gen.C06.findOutCond = "tempNode != &t.root" ∧
    -- find: body of the output walk
    Golib.Gen.C06.findOutBody = ["if tempNode.isEnd { *scopes = append(*scopes, scope{i - tempNode.size, i}) }", "tempNode = tempNode.fail"] ∧
    -- find: the scope emitted for a node with isEnd
    Golib.Gen.C06.findScope = "scope{i - tempNode.size, i}" ∧
    -- find: condition for taking the child
    Golib.Gen.C06.findStepCond = "idx >= 0" ∧
    -- find: first two statements of that branch
    Golib.Gen.C06.findStepHead = ["node = node.children[idx].node", "tempNode := node"] ∧
    -- model: the repaired functions are the `stepBack`-parametrised ones at `true` (the flag of `mergeScopes` itself is
    -- no longer a text fact: `c06_trans_mergeScopes` ties the regenerated function to `mergeScopesWith true`)
    (∀ scopes : List Scope, mergeScopes scopes = mergeScopesWith true scopes) ∧
    (∀ (t : Trie) (text : List Nat) (mask : Int),
      replaceWithMask t text mask = replaceWithMaskWith true t text mask) ∧
    (∀ (t : Trie) (text repl : List Nat), replace t text repl = replaceWith true t text repl)

theorem c06_facts_holds : SourceFacts := by
  unfold SourceFacts
  repeat' apply And.intro
  all_goals first | exact fun _ => rfl | exact fun _ _ _ => rfl | rfl

end Golib.C06
