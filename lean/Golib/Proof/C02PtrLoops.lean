/-
C02 pointer model, part 3: the link loop of `set` is `splice`, the unlink loop of `Remove` is
`delTop` (what `unsplice` computes at the predecessors), the shrink loop is `shrink`.
-/
import Golib.Proof.C02PtrFrame

set_option linter.unusedSectionVars false
set_option linter.unusedSimpArgs false
set_option linter.unusedVariables false

namespace Golib.C02

variable {K V : Type} [DecidableEq K]

theorem spliceAt_some {u : Option K} {key : K} {l l' : List K} (h : spliceAt u key l = some l') :
    ∃ pre post, upto u l = some pre ∧ after u l = some post ∧ l' = pre ++ key :: post := by
  unfold spliceAt at h
  cases h1 : upto u l with
  | none => rw [h1] at h; cases h
  | some pre =>
    cases h2 : after u l with
    | none => rw [h1, h2] at h; cases h
    | some post =>
      rw [h1, h2] at h; cases h
      exact ⟨pre, post, rfl, rfl, rfl⟩

/-- `for i := 0; i < level; i++ { node.next[i] = update[i].next[i]; update[i].next[i] = node }`
against `splice`. -/
theorem linkLoop_sim {f : K → Nat} {key : K} {upd : List (Option K)} {updP : Array (Option Ptr)}
    (hu : UpdRel f 0 upd updP) :
    ∀ (n i : Nat) (p : PSL K V) (lvs lvs' : List (List K)),
      splice key n lvs (upd.drop i) = some lvs' →
      (∀ j l, lvs[j]? = some l → l.Nodup ∧ (∀ k ∈ l, f k ≠ f key) ∧
        ∃ st, p.nextOf none (i + j) = some st ∧ ChainK p f (i + j) st l) →
      (∃ nd, p.nodes[f key]? = some nd ∧ nd.key = key ∧ i + n ≤ nd.next.size) →
      ∃ p', PSL.linkLoop (f key) updP n i p = some p' ∧ Frame (fun j => i ≤ j ∧ j < i + n) p p' ∧
        ∀ j l, lvs'[j]? = some l → ∃ st, p'.nextOf none (i + j) = some st ∧ ChainK p' f (i + j) st l := by
  intro n
  induction n with
  | zero =>
    intro i p lvs lvs' hs hch _
    simp only [splice, Option.some.injEq] at hs; subst hs
    refine ⟨p, rfl, (Frame.refl _ p), ?_⟩
    intro j l hl
    exact (hch j l hl).2.2
  | succ n ih =>
    intro i p lvs lvs' hs hch hkey
    cases lvs with
    | nil => simp [splice] at hs
    | cons l lv =>
      cases hd : upd.drop i with
      | nil => rw [hd] at hs; simp [splice] at hs
      | cons u us =>
        rw [hd] at hs
        unfold splice at hs
        cases h1 : spliceAt u key l with
        | none => rw [h1] at hs; cases hs
        | some l' =>
          cases h2 : splice key n lv us with
          | none => rw [h1, h2] at hs; cases hs
          | some lv' =>
            rw [h1, h2] at hs
            simp only [Option.some.injEq] at hs; subst hs
            obtain ⟨pre, post, hup, haf, rfl⟩ := spliceAt_some h1
            have hui : upd[i]? = some u := by
              have : (upd.drop i)[0]? = some u := by rw [hd]; rfl
              rw [List.getElem?_drop] at this; simpa using this
            have hus : upd.drop (i + 1) = us := by
              have : (upd.drop i).tail = us := by rw [hd]; rfl
              rw [List.tail_drop] at this; exact this
            have hup' : updP[i]? = some (some (u.map f)) := by
              have := hu.2.2 i u hui; simpa using this
            obtain ⟨hnd, hid, st, hst, hc⟩ := hch 0 l rfl
            obtain ⟨ndk, k1, k2, k3⟩ := hkey
            simp only [Nat.add_zero] at hst hc
            obtain ⟨x, p1, p2, g1, g2, g3, st2, g4, g5⟩ :=
              link_level hst hc hnd hup haf rfl hid ⟨ndk, k1, k2, by omega⟩
            have hf2 : Frame (· = i) p p2 := (setNext_frame g2).trans (setNext_frame g3)
            -- the levels above, in the new state
            have hch' : ∀ j l0, lv[j]? = some l0 → l0.Nodup ∧ (∀ k ∈ l0, f k ≠ f key) ∧
                ∃ st, p2.nextOf none (i + 1 + j) = some st ∧ ChainK p2 f (i + 1 + j) st l0 := by
              intro j l0 hl0
              obtain ⟨a1, a2, st0, a3, a4⟩ := hch (j + 1) l0 (by simpa using hl0)
              have hne : ¬ (i + (j + 1) = i) := by omega
              refine ⟨a1, a2, st0, ?_, ?_⟩
              · rw [show i + 1 + j = i + (j + 1) by omega]; exact hf2.nextOf hne a3
              · rw [show i + 1 + j = i + (j + 1) by omega]; exact hf2.chain hne a4
            obtain ⟨ndk2, m1, m2, _, m4, _⟩ := hf2.node (f key) ndk k1
            rw [← hus] at h2
            obtain ⟨p', q1, q2, q3⟩ := ih (i + 1) p2 lv lv' h2 hch' ⟨ndk2, m1, by rw [m2, k2], by rw [m4]; omega⟩
            refine ⟨p', ?_, ?_, ?_⟩
            · unfold PSL.linkLoop
              simp only [hup', g1, g2, g3]
              exact q1
            · exact (hf2.weaken (fun j hj => by omega)).trans (q2.weaken (fun j hj => by omega))
            · intro j l0 hl0
              cases j with
              | zero =>
                simp only [List.getElem?_cons_zero, Option.some.injEq] at hl0; subst hl0
                have hne : ¬ (i + 1 ≤ i ∧ i < i + 1 + n) := by omega
                exact ⟨st2, q2.nextOf hne g4, q2.chain hne g5⟩
              | succ j =>
                simp only [List.getElem?_cons_succ] at hl0
                obtain ⟨st0, b1, b2⟩ := q3 j l0 hl0
                rw [show i + (j + 1) = i + 1 + j by omega]
                exact ⟨st0, b1, b2⟩

/-- `for i := 0; i < curLevel; i++ { update[i].next[i] = cur.next[i] }` against `delTop`, when
`update[i]` is the node right before `cur` (key `nk`) on every level below `curLevel`. -/
theorem unlinkLoop_sim (cmp : K → K → Int) {f : K → Nat} {nk : K} {upd : List (Option K)}
    {updP : Array (Option Ptr)} (hu : UpdRel f 0 upd updP) :
    ∀ (n i : Nat) (p : PSL K V) (lvs : List (List K)), n ≤ lvs.length →
      (∀ j l, lvs[j]? = some l → l.Nodup ∧ ∃ st, p.nextOf none (i + j) = some st ∧ ChainK p f (i + j) st l) →
      (∀ j l, j < n → lvs[j]? = some l → ∃ u, upd[i + j]? = some u ∧ upto u l = some (lo cmp nk l) ∧
        after u l = some (nk :: gt cmp nk l)) →
      ∃ p', PSL.unlinkLoop (f nk) updP n i p = some p' ∧ Frame (fun j => i ≤ j ∧ j < i + n) p p' ∧
        ∀ j l', (delTop cmp nk n lvs)[j]? = some l' →
          ∃ st, p'.nextOf none (i + j) = some st ∧ ChainK p' f (i + j) st l' := by
  intro n
  induction n with
  | zero =>
    intro i p lvs _ hch _
    refine ⟨p, rfl, Frame.refl _ p, ?_⟩
    intro j l' hl'
    simp only [delTop] at hl'
    exact (hch j l' hl').2
  | succ n ih =>
    intro i p lvs hlen hch hup
    cases lvs with
    | nil => simp at hlen
    | cons l lv =>
      obtain ⟨hnd, st, hst, hc⟩ := hch 0 l rfl
      obtain ⟨u, hui, hu1, hu2⟩ := hup 0 l (by omega) rfl
      simp only [Nat.add_zero] at hst hc hui
      have hup' : updP[i]? = some (some (u.map f)) := by
        have := hu.2.2 i u hui; simpa using this
      obtain ⟨x, p1, g1, g2, st1, g3, g4⟩ := unlink_level hst hc hnd hu1 hu2
      have hf1 : Frame (· = i) p p1 := setNext_frame g2
      have hch' : ∀ j l0, lv[j]? = some l0 → l0.Nodup ∧
          ∃ st, p1.nextOf none (i + 1 + j) = some st ∧ ChainK p1 f (i + 1 + j) st l0 := by
        intro j l0 hl0
        obtain ⟨a1, st0, a3, a4⟩ := hch (j + 1) l0 (by simpa using hl0)
        have hne : ¬ (i + (j + 1) = i) := by omega
        refine ⟨a1, st0, ?_, ?_⟩
        · rw [show i + 1 + j = i + (j + 1) by omega]; exact hf1.nextOf hne a3
        · rw [show i + 1 + j = i + (j + 1) by omega]; exact hf1.chain hne a4
      have hupn : ∀ j l0, j < n → lv[j]? = some l0 → ∃ u, upd[i + 1 + j]? = some u ∧
          upto u l0 = some (lo cmp nk l0) ∧ after u l0 = some (nk :: gt cmp nk l0) := by
        intro j l0 hj hl0
        have := hup (j + 1) l0 (by omega) (by simpa using hl0)
        rw [show i + 1 + j = i + (j + 1) by omega]; exact this
      obtain ⟨p', q1, q2, q3⟩ := ih (i + 1) p1 lv (by simpa using hlen) hch' hupn
      refine ⟨p', ?_, ?_, ?_⟩
      · unfold PSL.unlinkLoop
        simp only [hup', g1, g2]
        exact q1
      · exact (hf1.weaken (fun j hj => by omega)).trans (q2.weaken (fun j hj => by omega))
      · intro j l0 hl0
        cases j with
        | zero =>
          simp only [delTop, List.getElem?_cons_zero, Option.some.injEq] at hl0; subst hl0
          have hne : ¬ (i + 1 ≤ i ∧ i < i + 1 + n) := by omega
          exact ⟨st1, q2.nextOf hne g3, q2.chain hne g4⟩
        | succ j =>
          simp only [delTop, List.getElem?_cons_succ] at hl0
          obtain ⟨st0, b1, b2⟩ := q3 j l0 hl0
          rw [show i + (j + 1) = i + 1 + j by omega]
          exact ⟨st0, b1, b2⟩

/-- `for s.level > 1 && s.head.next[s.level-1] == nil { s.level-- }`. -/
theorem shrink_sim {p : PSL K V} {f : K → Nat} {lv : List (List K)}
    (hch : ∀ i l, lv[i]? = some l → ∃ st, p.nextOf none i = some st ∧ ChainK p f i st l) :
    ∀ (m : Nat) (r : Nat), shrink lv m = some r → p.shrink m = some r := by
  intro m
  induction m using Nat.strongRecOn with
  | _ m ih =>
    intro r h
    match m, ih, h with
    | 0, _, h => simpa [shrink, PSL.shrink] using h
    | 1, _, h => simpa [shrink, PSL.shrink] using h
    | n + 2, ih, h =>
      unfold shrink at h
      unfold PSL.shrink
      cases hl : lv[n + 1]? with
      | none => rw [hl] at h; cases h
      | some l =>
        rw [hl] at h
        obtain ⟨st, h1, h2⟩ := hch (n + 1) l hl
        rw [h1]
        cases l with
        | nil =>
          rw [chainK_nil] at h2; subst h2
          simp only [] at h ⊢
          exact ih (n + 1) (by omega) r h
        | cons x xs =>
          obtain ⟨h0, _⟩ := chainK_cons.mp h2
          subst h0
          simpa using h

end Golib.C02
