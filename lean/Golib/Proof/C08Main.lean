/-
Proofs of the C08 property theorems (stated again, with their documentation, in
`Golib/Props/C08.lean`).  Kept here so that other properties (C09 builds on the C08 model)
can use them without importing the regenerated facts file of C08.
-/
import Golib.Proof.C08Wrap

namespace Golib.C08

theorem main_encLen (n : Nat) :
    cbcEncryptLen n = (n / 16 + 1) * 16 ∧ n < cbcEncryptLen n ∧ cbcEncryptLen n ≤ n + 16 ∧
      cbcEncryptLen n % 16 = 0 ∧ cbcDecryptLen n = n := by
  rw [encLen_eq]; unfold cbcDecryptLen; omega

theorem main_table :
    prePadPatterns.length = 17 ∧ ∀ n, n ≤ 16 → prePadPatterns[n]? = some (List.replicate n n) :=
  ⟨table_length, table_get⟩

theorem main_pad_unpad (d : Bytes) (b : Nat) (hd : d ≠ []) (hb1 : 1 ≤ b) (hb : b ≤ 255) :
    ∃ x, pkcs7Padding d b = .ok x ∧ pkcs7UnPaddingPub x b = .ok d ∧
      x.length = (d.length / b + 1) * b := by
  have hlt : d.length % b < b := Nat.mod_lt _ (by omega)
  have hp256 : b - d.length % b < 256 := by omega
  refine ⟨_, pad_spec d b hd hb1, ?_, ?_⟩
  · rw [show toByte (b - d.length % b) = b - d.length % b from Nat.mod_eq_of_lt hp256]
    apply unpad_complete d (b - d.length % b) b (by omega) (by omega) hp256
    rw [Int.tmod_eq_emod_of_nonneg (by omega)]
    have : (d ++ List.replicate (b - d.length % b) (b - d.length % b)).length
        = (d.length / b + 1) * b := by
      simp only [List.length_append, List.length_replicate]
      have := Nat.div_add_mod d.length b
      rw [Nat.add_mul, Nat.one_mul, Nat.mul_comm]; omega
    rw [this, Int.natCast_mul]
    exact Int.mul_emod_left _ _
  · simp only [List.length_append, List.length_replicate]
    have := Nat.div_add_mod d.length b
    rw [Nat.add_mul, Nat.one_mul, Nat.mul_comm]; omega

theorem main_unpad_sound_complete (x : Bytes) (b : Int) (hx : IsBytes x) :
    pkcs7UnPaddingPub x b ≠ .panic ∧
    ∀ d, pkcs7UnPaddingPub x b = .ok d ↔
      ∃ n : Nat, x = d ++ List.replicate n n ∧ 1 ≤ n ∧ (n : Int) ≤ b ∧
        Int.tmod (x.length : Int) b = 0 := by
  refine ⟨(unpad_sound x b).1, fun d => ⟨fun h => ?_, ?_⟩⟩
  · obtain ⟨n, h1, h2, h3, _, h5⟩ := (unpad_sound x b).2 d h
    exact ⟨n, h1, h2, h3, h5⟩
  · rintro ⟨n, rfl, h2, h3, h5⟩
    have hn : n < 256 := by
      apply hx n
      rw [List.mem_append, List.mem_replicate]
      exact Or.inr ⟨by omega, rfl⟩
    exact unpad_complete d n b h2 h3 hn h5

theorem main_unpad_private (x : Bytes) (h16 : 16 ≤ x.length) :
    pkcs7UnPadding x ≠ .panic ∧
    ∀ m : Int, pkcs7UnPadding x = .ok m ↔
      ∃ n : Nat, 1 ≤ n ∧ n ≤ 16 ∧ m = (x.length : Int) - n ∧
        x = x.take (x.length - n) ++ List.replicate n n := by
  obtain ⟨h1, h2, h3⟩ := unpadPriv_spec x h16
  refine ⟨h1, fun m => ⟨h2 m, ?_⟩⟩
  rintro ⟨n, hn1, hn16, rfl, hx⟩
  have := h3 _ n hn1 hn16 hx
  rw [this]; congr 1
  simp only [List.length_take]; omega

theorem padded_isBytes (pt : Bytes) (h : IsBytes pt) : IsBytes (padded pt) := by
  have hpr := padLen_range pt.length
  refine isBytes_append.mpr ⟨h, ?_⟩
  intro y hy
  have := List.eq_of_mem_replicate hy
  omega

theorem main_cbc_roundtrip (C : Cipher) (key iv pt dst : Bytes) (lay : DecLayout)
    (hE : ∀ x, x.length = 16 → IsBytes x → (C.E key x).length = 16 ∧ IsBytes (C.E key x))
    (hDE : ∀ x, x.length = 16 → IsBytes x → C.D key (C.E key x) = x)
    (hk : keyOK key = true) (hiv : iv.length = 16) (hivb : IsBytes iv) (hptb : IsBytes pt)
    (hdst : dst.length = cbcEncryptLen pt.length)
    (hlay : ∀ d, lay = .fresh d → d.length = cbcEncryptLen pt.length) :
    ∃ ct, aesCBCEncrypt C dst pt key iv = .ok ct ∧
      ct = cbcEncrypt (C.E key) iv (pt ++ List.replicate (16 - pt.length % 16) (16 - pt.length % 16)) ∧
      ct.length = cbcEncryptLen pt.length ∧ IsBytes ct ∧
      ∃ d, aesCBCDecrypt C lay ct key iv = .ok ((pt.length : Int), d) ∧ d.take pt.length = pt := by
  have hpb := padded_isBytes pt hptb
  obtain ⟨hl, hlb⟩ := cbcEncrypt_lengthB (C.E key) hE _ iv (padded pt) hiv hivb (padded_blocks pt) hpb
  refine ⟨_, aesCBCEncrypt_spec C dst pt key iv hk hiv hdst, rfl, ?_, hlb, ?_⟩
  · rw [padded_length] at hl; exact hl
  · have hl' : (cbcEncrypt (C.E key) iv (padded pt)).length = 16 * (pt.length / 16 + 1) := by
      rw [hl, padded_blocks]
    change ∃ d, aesCBCDecrypt C lay (cbcEncrypt (C.E key) iv (padded pt)) key iv = _ ∧ _
    rw [aesCBCDecrypt_eq C lay _ key iv hk hiv (by omega) (by omega)
      (by intro d hd; rw [hlay d hd, hl, padded_length])]
    rw [cbc_roundtripB (C.E key) (C.D key) hE hDE _ iv (padded pt) hiv hivb (padded_blocks pt) hpb]
    have hpr := padLen_range pt.length
    have := (unpadPriv_spec (padded pt) (by rw [padded_blocks]; omega)).2.2 pt (padLen pt.length)
      hpr.1 hpr.2 rfl
    rw [this]
    exact ⟨padded pt, rfl, by simp [padded]⟩

theorem main_cbc_decrypt_rejects (C : Cipher) (lay : DecLayout) (ct key iv : Bytes) :
    ((ct.length < 16 ∨ ct.length % 16 ≠ 0) → aesCBCDecrypt C lay ct key iv = .err "len") ∧
    (keyOK key = false → aesCBCDecrypt C lay ct key iv = .err "len" ∨
        aesCBCDecrypt C lay ct key iv = .err "key") ∧
    (keyOK key = true → iv.length = 16 → 16 ≤ ct.length → ct.length % 16 = 0 →
      (∀ d, lay = .fresh d → d.length = ct.length) →
      (∀ x, x.length = 16 → (C.D key x).length = 16) →
      aesCBCDecrypt C lay ct key iv ≠ .panic ∧
      ∀ n d, aesCBCDecrypt C lay ct key iv = .ok (n, d) ↔
        d = cbcDecrypt (C.D key) iv ct ∧
        ∃ p : Nat, 1 ≤ p ∧ p ≤ 16 ∧ n = (ct.length : Int) - p ∧
          d = d.take (ct.length - p) ++ List.replicate p p) := by
  refine ⟨aesCBCDecrypt_badlen C lay ct key iv, ?_, ?_⟩
  · intro hk
    by_cases h : ct.length < 16 ∨ ct.length % 16 ≠ 0
    · exact Or.inl (aesCBCDecrypt_badlen C lay ct key iv h)
    · right
      unfold aesCBCDecrypt
      have h1 : ¬ (ct.length < aesBlockSize ∨ ct.length &&& blockSizeMask ≠ 0) := by
        rw [and15]; simpa only [aesBlockSize] using h
      have hk' : ¬ keyOK key = true := by simp [hk]
      rw [if_neg h1, if_pos hk']
  · intro hk hiv h16 hmul hlay hD
    rw [aesCBCDecrypt_eq C lay ct key iv hk hiv h16 hmul hlay]
    have hlen := cbcDecrypt_length (C.D key) hD (ct.length / 16) iv ct hiv (by omega)
    generalize cbcDecrypt (C.D key) iv ct = P at hlen ⊢
    obtain ⟨hnp, hok⟩ := main_unpad_private P (by omega)
    cases hr : pkcs7UnPadding P with
    | panic => exact absurd hr hnp
    | err e =>
      refine ⟨by simp, fun n d => ⟨by simp, ?_⟩⟩
      rintro ⟨rfl, p, hp1, hp16, rfl, hd⟩
      have := (hok _).2 ⟨p, hp1, hp16, rfl, by rw [hlen]; exact hd⟩
      rw [hr] at this; cases this
    | ok m =>
      refine ⟨by simp, fun n d => ⟨?_, ?_⟩⟩
      · intro h
        injection h with h; injection h with h1 h2
        subst h1 h2
        obtain ⟨p, hp1, hp16, hm, hx⟩ := (hok _).1 hr
        exact ⟨rfl, p, hp1, hp16, by rw [hm, hlen], by rw [← hlen]; exact hx⟩
      · rintro ⟨rfl, p, hp1, hp16, rfl, hd⟩
        have := (hok _).2 ⟨p, hp1, hp16, rfl, by rw [hlen]; exact hd⟩
        rw [hr] at this
        injection this with this
        rw [this, hlen]

theorem main_gcm_lens (A : AEAD) (dst pt key nonce ad : Bytes)
    (hseal : ∀ n p a, (A.sealF key n p a).length = p.length + 16)
    (hk : keyOK key = true) (hn : nonce ≠ [])
    (hdst : dst.length = gcmEncryptLen pt.length) :
    gcmEncryptLen pt.length = pt.length + 16 ∧
    gcmDecryptLen (gcmEncryptLen pt.length) = pt.length ∧
    aesGCMEncrypt A dst pt key nonce ad = .ok (A.sealF key nonce pt ad) := by
  refine ⟨rfl, by simp only [gcmDecryptLen, gcmEncryptLen, gcmTagSize]; omega, ?_⟩
  unfold aesGCMEncrypt
  have hk' : ¬ (¬ keyOK key = true) := by simp [hk]
  have hn' : ¬ nonce.length = 0 := fun h => hn (List.length_eq_zero_iff.mp h)
  rw [if_neg hk', if_neg hn', appendInto_exact _ _ (by rw [hdst, hseal]; rfl)]

theorem main_gcm_roundtrip (A : AEAD) (dst dst' pt key nonce ad : Bytes)
    (hseal : ∀ n p a, (A.sealF key n p a).length = p.length + 16)
    (hopen : ∀ n p a, A.openF key n (A.sealF key n p a) a = some p)
    (hk : keyOK key = true) (hn : nonce ≠ [])
    (hdst : dst.length = gcmEncryptLen pt.length)
    (hdst' : (dst'.length : Int) = gcmDecryptLen (gcmEncryptLen pt.length)) :
    ∃ ct, aesGCMEncrypt A dst pt key nonce ad = .ok ct ∧
      aesGCMDecrypt A dst' ct key nonce ad = .ok pt ∧
      (∀ ct' ad', A.openF key nonce ct' ad' = none →
        aesGCMDecrypt A dst' ct' key nonce ad' = .err "open") := by
  obtain ⟨_, hl, henc⟩ := main_gcm_lens A dst pt key nonce ad hseal hk hn hdst
  have hk' : ¬ (¬ keyOK key = true) := by simp [hk]
  have hn' : ¬ nonce.length = 0 := fun h => hn (List.length_eq_zero_iff.mp h)
  refine ⟨_, henc, ?_, ?_⟩
  · unfold aesGCMDecrypt
    rw [if_neg hk', if_neg hn', hopen]
    simp only []
    rw [appendInto_exact _ _ (by rw [hl] at hdst'; exact_mod_cast hdst')]
  · intro ct' ad' h
    unfold aesGCMDecrypt
    rw [if_neg hk', if_neg hn', h]

theorem main_bad_key (C : Cipher) (A : AEAD) (dst data key iv ad : Bytes) (lay : DecLayout)
    (hk : keyOK key = false) :
    aesCBCEncrypt C dst data key iv = .err "key" ∧
    aesGCMEncrypt A dst data key iv ad = .err "key" ∧
    aesGCMDecrypt A dst data key iv ad = .err "key" ∧
    (aesCBCDecrypt C lay data key iv = .err "len" ∨ aesCBCDecrypt C lay data key iv = .err "key") := by
  have hk' : ¬ keyOK key = true := by simp [hk]
  refine ⟨?_, ?_, ?_, (main_cbc_decrypt_rejects C lay data key iv).2.1 hk⟩
  · unfold aesCBCEncrypt; rw [if_pos hk']
  · unfold aesGCMEncrypt; rw [if_pos hk']
  · unfold aesGCMDecrypt; rw [if_pos hk']

end Golib.C08
