/-
C03 helper lemmas, part 2: single-bit facts about a `BitVec 64` word and the
`>>> 6`, `&&& 63`, `>>> 16`, `<<< 16 |||` index arithmetic.  Core-only.
-/
import Golib.Model.C03Roaring

namespace Golib.C03

theorem getLsbD_bitmask (b i : Nat) (hb : b < 64) :
    (1#64 <<< b : BitVec 64).getLsbD i = decide (i = b) := by
  rw [BitVec.getLsbD_shiftLeft, BitVec.getLsbD_one]
  by_cases h : i = b
  · subst h; simp [hb]
  · simp only [h, decide_false]
    by_cases h2 : i < b
    · simp [h2]
    · have : ¬ (i - b = 0) := by omega
      simp [this]

theorem bitSet_eq (v : Word) (b : Nat) (hb : b < 64) : bitSet v b = v.getLsbD b := by
  unfold bitSet
  by_cases h : v.getLsbD b = true
  · rw [h]
    simp only [bne_iff_ne, ne_eq]
    intro h0
    have := congrArg (fun z => BitVec.getLsbD z b) h0
    simp [BitVec.getLsbD_and, getLsbD_bitmask b b hb, h] at this
  · simp only [Bool.not_eq_true] at h
    rw [h]
    simp only [bne_eq_false_iff_eq]
    apply BitVec.eq_of_getLsbD_eq
    intro i hi
    rw [BitVec.getLsbD_and, getLsbD_bitmask b i hb]
    by_cases hib : i = b
    · subst hib; simp [h]
    · simp [hib]

theorem bitSet_or (v : Word) (b c : Nat) (hb : b < 64) (hc : c < 64) :
    bitSet (v ||| (1#64 <<< b)) c = (decide (c = b) || bitSet v c) := by
  rw [bitSet_eq _ _ hc, bitSet_eq _ _ hc, BitVec.getLsbD_or, getLsbD_bitmask b c hb, Bool.or_comm]

theorem bitSet_andNot (v : Word) (b c : Nat) (hb : b < 64) (hc : c < 64) :
    bitSet (v &&& ~~~(1#64 <<< b)) c = (!decide (c = b) && bitSet v c) := by
  rw [bitSet_eq _ _ hc, bitSet_eq _ _ hc, BitVec.getLsbD_and, BitVec.getLsbD_not, getLsbD_bitmask b c hb, Bool.and_comm]
  simp [hc]

theorem bitSet_zero (c : Nat) : bitSet 0#64 c = false := by
  simp [bitSet]

theorem shr6 (n : Nat) : n >>> 6 = n / 64 := by simp [Nat.shiftRight_eq_div_pow]
theorem and63 (n : Nat) : n &&& 63 = n % 64 := Nat.and_two_pow_sub_one_eq_mod n 6
theorem shr16 (n : Nat) : n >>> 16 = n / 65536 := by simp [Nat.shiftRight_eq_div_pow]
theorem shl16_or (h l : Nat) (hl : l < 65536) : h <<< 16 ||| l = h * 65536 + l := by
  rw [← Nat.shiftLeft_add_eq_or_of_lt (by simpa using hl), Nat.shiftLeft_eq]
theorem shl6 (i : Nat) : i <<< 6 = i * 64 := by rw [Nat.shiftLeft_eq]

end Golib.C03
