/-
C14 helper lemmas, part 3: the in-place swap partitions.  Invariant at read cursor `i`,
write cursor `remain ≤ i`: the array is a permutation of the original, its first `remain`
cells are the selection so far (in order), the cells `≥ i` are still the original ones.
-/
import Golib.Proof.C14Dst

namespace Golib.C14

theorem getElem?_lt {l : List Int} {i : Nat} {v : Int} (h : l[i]? = some v) : i < l.length := by
  rcases Nat.lt_or_ge i l.length with h' | h'
  · exact h'
  · rw [List.getElem?_eq_none h'] at h; simp at h

theorem swap_spec (m : List Int) (r i : Nat) (h : r ≤ i) (hi : i < m.length) :
    ∃ m', swap m r i = some m' ∧ m'.Perm m ∧ m'.length = m.length ∧
      m'.take (r + 1) = m.take r ++ [m[i]] ∧ m'.drop (i + 1) = m.drop (i + 1) := by
  have hr : r < m.length := by omega
  refine ⟨(m.set r m[i]).set i m[r], ?_, List.set_set_perm hr hi, by simp, ?_, ?_⟩
  · simp [swap, List.getElem?_eq_getElem hi, List.getElem?_eq_getElem hr]
  · apply List.ext_getElem?; intro k
    simp only [List.getElem?_take, List.getElem?_set, List.getElem?_append, List.length_take,
      List.length_set]
    grind
  · apply List.ext_getElem?; intro k
    simp only [List.getElem?_drop, List.getElem?_set, List.length_set]
    grind

/-- The in-place loop: never panics; the result `s[:remain]` is the selection of the original
(in original order), the argument is a permutation of the original. -/
theorem ipLoop_spec {σ : Type} (sel : σ → Int → σ × Bool) (f i : Nat) (st : σ) (m : List Int) (r : Nat)
    (hr : r ≤ i) (hf : f + i = m.length) :
    ∃ m' k, ipLoop sel f i st m r = some (m', k) ∧ m'.Perm m ∧ m'.length = m.length ∧ k ≤ m.length ∧
      m'.take k = m.take r ++ selSpec sel st (m.drop i) := by
  induction f generalizing i st m r with
  | zero =>
    refine ⟨m, r, rfl, List.Perm.refl _, rfl, by omega, ?_⟩
    rw [List.drop_eq_nil_of_le (by omega)]; simp [selSpec]
  | succ f ih =>
    have hi : i < m.length := by omega
    have hv : m[i]? = some m[i] := List.getElem?_eq_getElem hi
    simp only [ipLoop, hv]
    rw [drop_eq_cons hv, selSpec]
    cases ht : (sel st m[i]).2
    · have : sel st m[i] = ((sel st m[i]).1, false) := by rw [← ht]
      rw [this]
      simp only [Bool.false_eq_true, if_false]
      exact ih (i + 1) _ m r (by omega) (by omega)
    · have : sel st m[i] = ((sel st m[i]).1, true) := by rw [← ht]
      rw [this]
      simp only [if_true]
      obtain ⟨m1, hs, hp, hl, htk, hdr⟩ := swap_spec m r i hr hi
      simp only [hs]
      obtain ⟨m', k, hs', hp', hl', hk, htk'⟩ := ih (i + 1) (sel st m[i]).1 m1 (r + 1) (by omega) (by omega)
      refine ⟨m', k, hs', hp'.trans hp, by omega, by omega, ?_⟩
      rw [htk', htk, hdr]; simp

theorem ipFinish_spec {σ : Type} (sel : σ → Int → σ × Bool) (st : σ) (n1 : Bool) (m : List Int) :
    ∃ r, ipFinish n1 (ipLoop sel m.length 0 st m 0) = some r ∧ r.res.xs = selSpec sel st m ∧
      r.mem.Perm m ∧ r.res.xs = r.mem.take r.res.xs.length := by
  obtain ⟨m', k, hs, hp, hl, hk, htk⟩ := ipLoop_spec sel m.length 0 st m 0 (by omega) (by omega)
  refine ⟨⟨m', ⟨n1, m'.take k⟩⟩, by simp [ipFinish, hs], by simpa using htk, hp, ?_⟩
  simp only [List.length_take]
  rw [Nat.min_eq_left (by omega)]

/-- What every in-place function guarantees (`sel` = result of the non-in-place function). -/
structure IpOk (sel : List Int) (m : List Int) (r : IpRes) : Prop where
  result : r.res.xs = sel
  perm : r.mem.Perm m
  prefix_ : r.res.xs = r.mem.take r.res.xs.length

theorem filterInPlace_spec (p : Int → Bool) (n1 : Bool) (m : List Int) :
    ∃ r, filterInPlace p n1 m = some r ∧ IpOk (m.filter p) m r := by
  obtain ⟨r, h1, h2, h3, h4⟩ := ipFinish_spec (statelessSel p) () n1 m
  exact ⟨r, h1, by rw [h2, selSpec_stateless], h3, h4⟩

theorem diffInPlaceFirst_spec (n1 : Bool) (m1 m2 : List Int) :
    ∃ r, diffInPlaceFirst n1 m1 m2 = some r ∧ IpOk (m1.filter fun v => !m2.contains v) m1 r := by
  unfold diffInPlaceFirst
  by_cases h : m1.length = 0 ∨ m2.length = 0
  · simp only [h, if_true]
    refine ⟨_, rfl, ?_, List.Perm.refl _, by simp⟩
    rcases h with h | h
    · simp [List.length_eq_zero_iff.mp h]
    · simp only [List.length_eq_zero_iff.mp h, List.contains_nil, Bool.not_false]
      exact (List.filter_eq_self.mpr (by simp)).symm
  · simp only [h, if_false]
    obtain ⟨r, h1, h2, h3, h4⟩ := ipFinish_spec (statelessSel fun v => !m2.contains v) () n1 m1
    exact ⟨r, h1, by rw [h2, selSpec_stateless], h3, h4⟩

theorem intersectInPlaceFirst_spec (n1 : Bool) (m1 m2 : List Int) :
    ∃ r, intersectInPlaceFirst n1 m1 m2 = some r ∧ IpOk (m1.filter fun v => m2.contains v) m1 r := by
  unfold intersectInPlaceFirst
  by_cases h : m1.length = 0 ∨ m2.length = 0
  · simp only [h, if_true]
    refine ⟨_, rfl, ?_, List.Perm.refl _, by simp⟩
    rcases h with h | h
    · simp [List.length_eq_zero_iff.mp h]
    · simp [List.length_eq_zero_iff.mp h]
  · simp only [h, if_false]
    obtain ⟨r, h1, h2, h3, h4⟩ := ipFinish_spec (statelessSel fun v => m2.contains v) () n1 m1
    exact ⟨r, h1, by rw [h2, selSpec_stateless], h3, h4⟩

theorem uniqueByKeyInPlace_spec (key : Int → Int) (n1 : Bool) (m : List Int) :
    ∃ r, uniqueByKeyInPlace key n1 m = some r ∧ IpOk (firstOcc key [] m) m r := by
  unfold uniqueByKeyInPlace
  by_cases h : m.length = 0
  · have hm : m = [] := List.length_eq_zero_iff.mp h
    subst hm
    exact ⟨_, rfl, by simp [firstOcc], List.Perm.refl _, by simp⟩
  · simp only [h, if_false]
    obtain ⟨r, h1, h2, h3, h4⟩ := ipFinish_spec (uniqueSel key) ([], 0) n1 m
    refine ⟨r, h1, ?_, h3, h4⟩
    rw [h2, show (([] : List Int), 0) = (([] : List Int), ([] : List Int).length) from rfl, selSpec_unique]

end Golib.C14
