/-
C19 — helper lemmas about the cleanup loop of `Recover` (`runCleanups`).
-/
import Golib.Model.C19Rec

namespace Golib.C19

/-- Index (from `i`) of the first panicking cleanup, if any. -/
def firstPanic : Nat → List Outcome → Option (Int × Nat)
  | _, [] => none
  | i, .ok :: rest => firstPanic (i + 1) rest
  | i, .panic v :: _ => some (v, i)

theorem runCleanups_snd (i : Nat) (cl : List Outcome) : (runCleanups i cl).2 = firstPanic i cl := by
  induction cl generalizing i with
  | nil => rfl
  | cons c rest ih => cases c <;> simp [runCleanups, firstPanic, ih]

/-- No cleanup panics: every cleanup is called, in order. -/
theorem runCleanups_all_ok (i : Nat) (cl : List Outcome) (h : ∀ c ∈ cl, c = .ok) :
    runCleanups i cl = ((List.range cl.length).map (· + i), none) := by
  induction cl generalizing i with
  | nil => rfl
  | cons c rest ih =>
    have hc : c = .ok := h c (by simp)
    subst hc
    have ih' := ih (i + 1) (fun c hc => h c (by simp [hc]))
    simp only [runCleanups, ih', List.length_cons, List.range_succ_eq_map, List.map_cons,
      List.map_map, Nat.zero_add]
    refine Prod.ext ?_ rfl
    simp only [List.cons.injEq, true_and]
    apply List.map_congr_left
    intro a _
    simp only [Function.comp]
    omega

/-- The cleanups before the first panicking one (all `ok`), then the panicking one: exactly
these `pre.length + 1` cleanups are called, the rest is skipped. -/
theorem runCleanups_split (i : Nat) (pre : List Outcome) (v : Int) (post : List Outcome)
    (h : ∀ c ∈ pre, c = .ok) :
    runCleanups i (pre ++ .panic v :: post) =
      ((List.range (pre.length + 1)).map (· + i), some (v, i + pre.length)) := by
  induction pre generalizing i with
  | nil => simp [runCleanups]
  | cons c rest ih =>
    have hc : c = .ok := h c (by simp)
    subst hc
    have ih' := ih (i + 1) (fun c hc => h c (by simp [hc]))
    simp only [List.cons_append, runCleanups, ih', List.length_cons]
    refine Prod.ext ?_ ?_
    · simp only
      rw [List.range_succ_eq_map (n := rest.length + 1)]
      simp only [List.map_cons, List.map_map, Nat.zero_add, List.cons.injEq, true_and]
      apply List.map_congr_left
      intro a _
      simp only [Function.comp]
      omega
    · simp only [Option.some.injEq, Prod.mk.injEq, true_and]
      omega

end Golib.C19
